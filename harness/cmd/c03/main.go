// c03 replays the cases enumerated by TLC from spec/ingest/Chunker.tla (decoder kind + body shape) into the REAL
// exported ingest parsers of /repo/writer/utils/unmarshal: each abstract body is concretised for every protocol of
// its kind (Loki JSON values/entries layouts, Loki protobuf, Datadog logs/metrics, Influx line protocol, OTLP logs,
// Prometheus remote write), parsed, and the sequence of parser responses is compared with the submitted entries.
//
// usage: c03 -in cases.json -out result.json -seed N
package main

import (
	"bytes"
	"context"
	"encoding/json"
	"flag"
	"fmt"
	"math"
	"math/rand"
	"os"
	"sort"
	"strings"
	"time"

	clconfig "github.com/metrico/cloki-config"
	"github.com/metrico/cloki-config/config"
	wconfig "github.com/metrico/qryn/writer/config"
	"github.com/metrico/qryn/writer/model"
	"github.com/metrico/qryn/writer/utils/numbercache"
	"github.com/metrico/qryn/writer/utils/proto/logproto"
	"github.com/metrico/qryn/writer/utils/proto/prompb"
	"github.com/metrico/qryn/writer/utils/unmarshal"
	otlpCommon "go.opentelemetry.io/proto/otlp/common/v1"
	otlpLogs "go.opentelemetry.io/proto/otlp/logs/v1"
	otlpRes "go.opentelemetry.io/proto/otlp/resource/v1"
	"google.golang.org/protobuf/proto"
	"verif/harness/wworld"
)

type StreamSpec struct {
	N   int  `json:"n"`
	Sz  int  `json:"sz"`
	Dup bool `json:"dup"`
	Ttl bool `json:"ttl"` // the stream carries the retention pseudo label __ttl_days__ (not part of the stream)
	Mix bool `json:"mix"` // entries of the stream's container alternate between two label sets (full / bare)
}
type Case struct {
	Kind   string       `json:"kind"`
	Body   []StreamSpec `json:"body"`
	Panic  bool         `json:"panic"`
	Chunks []struct {
		N, Ntypes, Nseries int
	} `json:"chunks"`
	// reference bodies only (one entry of one label set, sent alone)
	keyOv []int
	subOv int // 0: none, 1: bare, 2: full
}

type Row struct {
	Key   int // label-set identity
	TsNs  int64
	Msg   string
	Val   float64
	Type  uint8
	MsgSz int
}

type recCache struct{ m map[uint64]bool }

func (c *recCache) CheckAndSet(k uint64) bool {
	if c.m[k] {
		return true
	}
	c.m[k] = true
	return false
}
func (c *recCache) DB(string) numbercache.ICache[uint64] { return c }

const baseSec = 1700000000 // 2023-11-14T22:13:20Z

// realCount scales the model's entry count (threshold L=3 stands for 1000 points)
func realCount(kind string, n int) int {
	if kind != "prom" || n <= 2 {
		return n
	}
	return (n/3)*1000 + n%3
}

func msgOf(i, j, sz int, withText bool) string {
	if !withText {
		return ""
	}
	s := fmt.Sprintf("e%d.%d;", i, j)
	if sz > 0 {
		want := sz*262144 - 126
		s += strings.Repeat("x", want-len(s))
	}
	return s
}

type builder func(c Case, rnd *rand.Rand) (body []byte, ctx context.Context, want []Row, lbl map[int]map[string]string)

// id of a label set: stream label identity k and sub (1 = stream labels + entry-level labels, 0 = stream labels only)
func id(k, sub int) int { return k*2 + sub }

// subOf: which of the two label sets entry j of stream i belongs to (Chunker.tla LS; j is 0-based here)
func subOf(c Case, i, j int, mixable bool) int {
	if c.subOv != 0 {
		return c.subOv - 1
	}
	if mixable && c.Body[i].Mix && j%2 == 1 {
		return 0
	}
	return 1
}

const ttlLabel, ttlValue = "__ttl_days__", "7"

// submitted labels = the stream's labels plus the pseudo label when the stream carries it
func withTTL(c Case, i int, m map[string]string) map[string]string {
	if !c.Body[i].Ttl {
		return m
	}
	r := map[string]string{ttlLabel: ttlValue}
	for k, v := range m {
		r[k] = v
	}
	return r
}

func keyOf(c Case, i int) int {
	if c.keyOv != nil {
		return c.keyOv[i]
	}
	if c.Body[i].Dup {
		return 0
	}
	return i
}

// entries of stream i (0-based) in submission order
func entries(c Case, i int, tsUnitNs int64, withText bool, tp uint8, mixable ...bool) []Row {
	mx := len(mixable) > 0 && mixable[0]
	n := realCount(c.Kind, c.Body[i].N)
	rows := make([]Row, n)
	for j := 0; j < n; j++ {
		ts := int64(baseSec)*1e9 + (int64(i)*100000+int64(j))*tsUnitNs
		if tsUnitNs == 1 {
			ts = int64(baseSec)*1e9 + int64(i)*1000000 + int64(j)*7 + 1
		}
		rows[j] = Row{Key: id(keyOf(c, i), subOf(c, i, j, mx)), TsNs: ts, Msg: msgOf(i, j, c.Body[i].Sz, withText), Val: float64(i*100000+j) + 0.5, Type: tp}
		if tp == 1 {
			rows[j].Val = 0
		}
	}
	return rows
}

func jstr(s string) string { b, _ := json.Marshal(s); return string(b) }

func lokiLabels(k int) map[string]string {
	return map[string]string{"app": fmt.Sprintf("s%d", k), fmt.Sprintf("k%d", k): "v"}
}

func shuffledKeys(m map[string]string, rnd *rand.Rand) []string {
	var ks []string
	for k := range m {
		ks = append(ks, k)
	}
	sort.Strings(ks)
	rnd.Shuffle(len(ks), func(a, b int) { ks[a], ks[b] = ks[b], ks[a] })
	return ks
}

func lokiJSON(layout string) builder {
	return func(c Case, rnd *rand.Rand) ([]byte, context.Context, []Row, map[int]map[string]string) {
		var want []Row
		lbl := map[int]map[string]string{}
		var streams []string
		for i := range c.Body {
			k := keyOf(c, i)
			lbl[id(k, 1)] = lokiLabels(k)
			var lp []string
			sub := withTTL(c, i, lbl[id(k, 1)])
			for _, name := range shuffledKeys(sub, rnd) {
				lp = append(lp, jstr(name)+":"+jstr(sub[name]))
			}
			es := entries(c, i, 1, true, 1)
			want = append(want, es...)
			var vals []string
			for _, e := range es {
				switch layout {
				case "values":
					vals = append(vals, fmt.Sprintf(`["%d",%s]`, e.TsNs, jstr(e.Msg)))
				case "entries-int":
					if rnd.Intn(2) == 0 {
						vals = append(vals, fmt.Sprintf(`{"ts":"%d","line":%s}`, e.TsNs, jstr(e.Msg)))
					} else {
						vals = append(vals, fmt.Sprintf(`{"line":%s,"timestamp":"%d"}`, jstr(e.Msg), e.TsNs))
					}
				case "entries-rfc3339":
					vals = append(vals, fmt.Sprintf(`{"ts":"%s","line":%s}`, time.Unix(0, e.TsNs).UTC().Format(time.RFC3339Nano), jstr(e.Msg)))
				}
			}
			stream := `"stream":{` + strings.Join(lp, ",") + `}`
			key := "values"
			if layout != "values" {
				key = "entries"
			}
			vs := `"` + key + `":[` + strings.Join(vals, ",") + `]`
			if rnd.Intn(2) == 0 {
				streams = append(streams, "{"+stream+","+vs+"}")
			} else {
				streams = append(streams, "{"+vs+","+stream+"}")
			}
		}
		return []byte(`{"streams":[` + strings.Join(streams, ",") + `]}`), context.Background(), want, lbl
	}
}

// metric samples through the Loki JSON values layout (numeric third element)
func lokiJSONMetric(c Case, rnd *rand.Rand) ([]byte, context.Context, []Row, map[int]map[string]string) {
	var want []Row
	lbl := map[int]map[string]string{}
	var streams []string
	for i := range c.Body {
		k := keyOf(c, i)
		lbl[id(k, 1)] = lokiLabels(k)
		var lp []string
		sub := withTTL(c, i, lbl[id(k, 1)])
		for _, name := range shuffledKeys(sub, rnd) {
			lp = append(lp, jstr(name)+":"+jstr(sub[name]))
		}
		// values layout: [ts, line, value] carries a line AND a value: the sample is of both kinds (type 0)
		es := entries(c, i, 1, false, 2)
		for j := range es {
			es[j].Type = 0
		}
		want = append(want, es...)
		var vals []string
		for _, e := range es {
			vals = append(vals, fmt.Sprintf(`["%d","",%v]`, e.TsNs, e.Val))
		}
		streams = append(streams, `{"stream":{`+strings.Join(lp, ",")+`},"values":[`+strings.Join(vals, ",")+`]}`)
	}
	return []byte(`{"streams":[` + strings.Join(streams, ",") + `]}`), context.Background(), want, lbl
}

func lokiProto(c Case, rnd *rand.Rand) ([]byte, context.Context, []Row, map[int]map[string]string) {
	var want []Row
	lbl := map[int]map[string]string{}
	req := &logproto.PushRequest{}
	for i := range c.Body {
		k := keyOf(c, i)
		lbl[id(k, 1)] = lokiLabels(k)
		var lp []string
		sub := withTTL(c, i, lbl[id(k, 1)])
		for _, name := range shuffledKeys(sub, rnd) {
			lp = append(lp, name+"="+fmt.Sprintf("%q", sub[name]))
		}
		es := entries(c, i, 1, true, 1)
		want = append(want, es...)
		st := &logproto.StreamAdapter{Labels: "{" + strings.Join(lp, ", ") + "}"}
		for _, e := range es {
			st.Entries = append(st.Entries, &logproto.EntryAdapter{Timestamp: &logproto.Timestamp{Seconds: e.TsNs / 1e9, Nanos: int32(e.TsNs % 1e9)}, Line: e.Msg})
		}
		req.Streams = append(req.Streams, st)
	}
	b, err := proto.Marshal(req)
	if err != nil {
		panic(err)
	}
	return b, context.Background(), want, lbl
}

func promWrite(c Case, rnd *rand.Rand) ([]byte, context.Context, []Row, map[int]map[string]string) {
	var want []Row
	lbl := map[int]map[string]string{}
	req := &prompb.WriteRequest{}
	for i := range c.Body {
		k := keyOf(c, i)
		lbl[id(k, 1)] = map[string]string{"__name__": fmt.Sprintf("m%d", k), "job": "j"}
		ts := &prompb.TimeSeries{}
		sub := withTTL(c, i, lbl[id(k, 1)])
		for _, name := range shuffledKeys(sub, rnd) {
			ts.Labels = append(ts.Labels, &prompb.Label{Name: name, Value: sub[name]})
		}
		es := entries(c, i, 1000000, false, 2)
		want = append(want, es...)
		for _, e := range es {
			ts.Samples = append(ts.Samples, &prompb.Sample{Value: e.Val, Timestamp: e.TsNs / 1000000})
		}
		req.Timeseries = append(req.Timeseries, ts)
	}
	b, err := proto.Marshal(req)
	if err != nil {
		panic(err)
	}
	return b, context.Background(), want, lbl
}

func influx(metric bool) builder {
	return func(c Case, rnd *rand.Rand) ([]byte, context.Context, []Row, map[int]map[string]string) {
		var want []Row
		lbl := map[int]map[string]string{}
		var lines []string
		for i := range c.Body {
			k := keyOf(c, i)
			tp := uint8(1)
			if metric {
				tp = 2
			}
			es := entries(c, i, 1, !metric, tp, true)
			// full label set: metrics: field fld, logs: with the tag; bare label set: metrics: field alt, logs: no tag.
			// A mixed METRIC stream puts two consecutive entries (fld, alt) on ONE line: one container, two callbacks.
			lbl[id(k, 1)] = map[string]string{"measurement": fmt.Sprintf("meas%d", k), "tag": fmt.Sprintf("t%d", k)}
			lbl[id(k, 0)] = map[string]string{"measurement": fmt.Sprintf("meas%d", k)}
			if metric {
				lbl[id(k, 1)]["__name__"] = "fld"
				lbl[id(k, 0)]["__name__"] = "alt"
				lbl[id(k, 0)]["tag"] = fmt.Sprintf("t%d", k)
			}
			tags := fmt.Sprintf(",tag=t%d", k)
			if c.Body[i].Ttl {
				if rnd.Intn(2) == 0 {
					tags = "," + ttlLabel + "=" + ttlValue + tags
				} else {
					tags += "," + ttlLabel + "=" + ttlValue
				}
			}
			fname := map[int]string{1: "fld", 0: "alt"}
			for j := 0; j < len(es); j++ {
				e := es[j]
				if metric {
					if c.Body[i].Mix && c.subOv == 0 && j+1 < len(es) {
						es[j+1].TsNs = e.TsNs
						fs := []string{fmt.Sprintf("fld=%v", e.Val), fmt.Sprintf("alt=%v", es[j+1].Val)}
						if rnd.Intn(2) == 0 {
							fs[0], fs[1] = fs[1], fs[0]
						}
						lines = append(lines, fmt.Sprintf("meas%d%s %s %d", k, tags, strings.Join(fs, ","), e.TsNs))
						j++
						continue
					}
					lines = append(lines, fmt.Sprintf("meas%d%s %s=%v %d", k, tags, fname[e.Key%2], e.Val, e.TsNs))
				} else {
					t := tags
					if e.Key%2 == 0 {
						t = strings.Replace(tags, fmt.Sprintf(",tag=t%d", k), "", 1)
					}
					lines = append(lines, fmt.Sprintf("meas%d%s message=%s %d", k, t, jstr(e.Msg), e.TsNs))
				}
			}
			want = append(want, es...)
		}
		ctx := context.WithValue(context.Background(), "precision", time.Nanosecond)
		return []byte(strings.Join(lines, "\n") + "\n"), ctx, want, lbl
	}
}

func datadogLogs(c Case, rnd *rand.Rand) ([]byte, context.Context, []Row, map[int]map[string]string) {
	var want []Row
	lbl := map[int]map[string]string{}
	var items []string
	for i := range c.Body {
		k := keyOf(c, i)
		lbl[id(k, 1)] = map[string]string{"ddsource": fmt.Sprintf("src%d", k), "service": "svc", "type": "datadog", "env": fmt.Sprintf("e%d", k)}
		es := entries(c, i, 1000000, true, 1)
		for _, e := range es {
			fields := []string{
				`"ddsource":` + jstr(lbl[id(k, 1)]["ddsource"]), `"service":"svc"`, `"ddtags":` + jstr("env:"+lbl[id(k, 1)]["env"]),
				`"message":` + jstr(e.Msg), fmt.Sprintf(`"timestamp":%d`, e.TsNs/1000000)}
			rnd.Shuffle(len(fields), func(a, b int) { fields[a], fields[b] = fields[b], fields[a] })
			items = append(items, "{"+strings.Join(fields, ",")+"}")
		}
		want = append(want, es...)
	}
	return []byte("[" + strings.Join(items, ",") + "]"), context.Background(), want, lbl
}

func datadogMetrics(c Case, rnd *rand.Rand) ([]byte, context.Context, []Row, map[int]map[string]string) {
	var want []Row
	lbl := map[int]map[string]string{}
	var items []string
	for i := range c.Body {
		k := keyOf(c, i)
		lbl[id(k, 1)] = map[string]string{"__name__": fmt.Sprintf("dd.m%d", k), "resource1_name": "h", "resource1_type": "host"}
		es := entries(c, i, 1000000000, false, 2)
		var pts []string
		for _, e := range es {
			pts = append(pts, fmt.Sprintf(`{"timestamp":%d,"value":%v}`, e.TsNs/1000000000, e.Val))
		}
		fields := []string{`"metric":` + jstr(lbl[id(k, 1)]["__name__"]), `"resources":[{"name":"h","type":"host"}]`, `"points":[` + strings.Join(pts, ",") + `]`}
		rnd.Shuffle(len(fields), func(a, b int) { fields[a], fields[b] = fields[b], fields[a] })
		items = append(items, "{"+strings.Join(fields, ",")+"}")
		want = append(want, es...)
	}
	return []byte(`{"series":[` + strings.Join(items, ",") + `]}`), context.Background(), want, lbl
}

func otlpLogsB(c Case, rnd *rand.Rand) ([]byte, context.Context, []Row, map[int]map[string]string) {
	var want []Row
	lbl := map[int]map[string]string{}
	ld := &otlpLogs.LogsData{}
	sv := func(s string) *otlpCommon.AnyValue {
		return &otlpCommon.AnyValue{Value: &otlpCommon.AnyValue_StringValue{StringValue: s}}
	}
	for i := range c.Body {
		k := keyOf(c, i)
		// full label set: resource + scope attributes + the record's own attribute and severity text; bare: the record
		// has neither (all records of a stream sit in ONE scope: one container, one callback per record)
		lbl[id(k, 1)] = map[string]string{"service_name": fmt.Sprintf("s%d", k), "scope_attr": "x", "rec": "y", "level": "INFO"}
		lbl[id(k, 0)] = map[string]string{"service_name": fmt.Sprintf("s%d", k), "scope_attr": "x"}
		es := entries(c, i, 1, true, 1, true)
		rl := &otlpLogs.ResourceLogs{Resource: &otlpRes.Resource{Attributes: []*otlpCommon.KeyValue{{Key: "service.name", Value: sv(lbl[id(k, 1)]["service_name"])}}}}
		if c.Body[i].Ttl {
			rl.Resource.Attributes = append(rl.Resource.Attributes, &otlpCommon.KeyValue{Key: ttlLabel, Value: sv(ttlValue)})
		}
		sl := &otlpLogs.ScopeLogs{Scope: &otlpCommon.InstrumentationScope{Attributes: []*otlpCommon.KeyValue{{Key: "scope.attr", Value: sv("x")}}}}
		for _, e := range es {
			if e.Key%2 == 0 {
				sl.LogRecords = append(sl.LogRecords, &otlpLogs.LogRecord{TimeUnixNano: uint64(e.TsNs), Body: sv(e.Msg)})
				continue
			}
			sl.LogRecords = append(sl.LogRecords, &otlpLogs.LogRecord{TimeUnixNano: uint64(e.TsNs), SeverityText: "INFO",
				Body: sv(e.Msg), Attributes: []*otlpCommon.KeyValue{{Key: "rec", Value: sv("y")}}})
		}
		rl.ScopeLogs = append(rl.ScopeLogs, sl)
		ld.ResourceLogs = append(ld.ResourceLogs, rl)
		want = append(want, es...)
	}
	b, err := proto.Marshal(ld)
	if err != nil {
		panic(err)
	}
	return b, context.Background(), want, lbl
}

type protocol struct {
	Name   string
	Kind   string
	Build  builder
	Parser unmarshal.ParsingFunction
}

// labelClass: the label-set class of the body (Chunker.tla ttl / mix)
func labelClass(c Case) string {
	t, m := false, false
	for _, s := range c.Body {
		t = t || s.Ttl
		m = m || s.Mix
	}
	switch {
	case t && m:
		return "pseudo-label+mixed-container"
	case t:
		return "pseudo-label"
	case m:
		return "mixed-container"
	}
	return "plain-labels"
}

var refCache = map[string]uint64{}

// refFp: the fingerprint the label set (k, sub) gets when ONE entry of it is sent alone, without the pseudo label,
// through the same parser: the reference for "the fingerprint of the entry's own stream"
func refFp(p protocol, kind string, key int, rnd *rand.Rand) (uint64, error) {
	ck := fmt.Sprintf("%s/%d", p.Name, key)
	if fp, ok := refCache[ck]; ok {
		return fp, nil
	}
	rc := Case{Kind: kind, Body: []StreamSpec{{N: 1}}, keyOv: []int{key / 2}, subOv: key%2 + 1}
	body, ctx, _, _ := p.Build(rc, rnd)
	var fps []uint64
	for resp := range p.Parser(ctx, bytes.NewReader(body), &recCache{m: map[uint64]bool{}}) {
		if resp.Error != nil {
			return 0, resp.Error
		}
		if spl, _ := resp.SamplesRequest.(*model.TimeSamplesData); spl != nil {
			fps = append(fps, spl.MFingerprint...)
		}
	}
	if len(fps) != 1 {
		return 0, fmt.Errorf("%d rows", len(fps))
	}
	refCache[ck] = fps[0]
	return fps[0], nil
}

var protocols = []protocol{
	{"loki-json-values", "perstream", lokiJSON("values"), unmarshal.DecodePushRequestStringV2},
	{"loki-json-entries-int", "perstream", lokiJSON("entries-int"), unmarshal.DecodePushRequestStringV2},
	{"loki-json-entries-rfc3339", "perstream", lokiJSON("entries-rfc3339"), unmarshal.DecodePushRequestStringV2},
	{"loki-json-metric", "perstream", lokiJSONMetric, unmarshal.DecodePushRequestStringV2},
	{"loki-protobuf", "perstream", lokiProto, unmarshal.UnmarshalProtoV2},
	{"datadog-metrics", "perstream", datadogMetrics, unmarshal.UnmarshallDatadogMetricsV2JSONV2},
	{"influx-logs", "perentry", influx(false), unmarshal.UnmarshalInfluxDBLogsV2},
	{"influx-metrics", "perentry", influx(true), unmarshal.UnmarshalInfluxDBLogsV2},
	{"datadog-logs", "perentry", datadogLogs, unmarshal.UnmarshallDatadogV2JSONV2},
	{"otlp-logs", "perentry", otlpLogsB, unmarshal.UnmarshalOTLPLogsV2},
	{"prom-remote-write", "prom", promWrite, unmarshal.UnmarshallMetricsWriteProtoV2},
}

type Mismatch struct {
	Protocol  string `json:"protocol"`
	Case      Case   `json:"case"`
	Signature string `json:"signature"`
	Msg       string `json:"msg"`
	BodyHead  string `json:"body_head"`
}

func classify(c Case) string {
	zero, big, thr := false, false, false
	for _, s := range c.Body {
		if s.N == 0 {
			zero = true
		}
		if s.Sz*s.N > 4 {
			big = true
		}
		if s.N > 2 {
			thr = true
		}
	}
	var p []string
	if zero {
		p = append(p, "zero-entry-stream")
	}
	if thr {
		p = append(p, "crosses-points-limit")
	}
	if big {
		p = append(p, "crosses-size-limit")
	}
	if len(p) == 0 {
		return "plain"
	}
	return strings.Join(p, "+")
}

func runCase(p protocol, c Case, rnd *rand.Rand) *Mismatch {
	body, ctx, want, lbl := p.Build(c, rnd)
	mm := func(sig, msg string) *Mismatch {
		h := string(body)
		if len(h) > 300 {
			h = h[:300]
		}
		if p.Name == "loki-protobuf" || p.Name == "prom-remote-write" || p.Name == "otlp-logs" {
			h = fmt.Sprintf("<%d bytes protobuf>", len(body))
		}
		return &Mismatch{Protocol: p.Name, Case: c, Signature: sig, Msg: msg, BodyHead: h}
	}
	cache := &recCache{m: map[uint64]bool{}}
	var got []Row
	var fps []uint64
	fpOfKey := map[int]uint64{}
	announced := map[uint64]map[string]string{}
	ch := p.Parser(ctx, bytes.NewReader(body), cache)
	nchunks := 0
	var firstErr error
	for resp := range ch {
		if resp.Error != nil {
			if firstErr == nil {
				firstErr = resp.Error
			}
			continue
		}
		nchunks++
		ts, _ := resp.TimeSeriesRequest.(*model.TimeSeriesData)
		spl, _ := resp.SamplesRequest.(*model.TimeSamplesData)
		if spl == nil || ts == nil {
			return mm("bad-response|"+p.Name, "parser response without samples/series request")
		}
		n := len(spl.MTimestampNS)
		if len(spl.MFingerprint) != n || len(spl.MMessage) != n || len(spl.MValue) != n || len(spl.MType) != n {
			return mm("ragged|"+p.Name+"|"+classify(c), fmt.Sprintf("chunk %d: per-row arrays differ in length: timestamp_ns=%d fingerprint=%d string=%d value=%d type=%d",
				nchunks, n, len(spl.MFingerprint), len(spl.MMessage), len(spl.MValue), len(spl.MType)))
		}
		if len(ts.MDate) != len(ts.MLabels) || len(ts.MDate) != len(ts.MFingerprint) || len(ts.MDate) != len(ts.MType) {
			return mm("ragged-series|"+p.Name+"|"+classify(c), fmt.Sprintf("chunk %d: series arrays differ in length: date=%d labels=%d fingerprint=%d type=%d",
				nchunks, len(ts.MDate), len(ts.MLabels), len(ts.MFingerprint), len(ts.MType)))
		}
		for i := range ts.MDate {
			var m map[string]string
			if err := json.Unmarshal([]byte(ts.MLabels[i]), &m); err != nil {
				return mm("labels-not-json|"+p.Name, fmt.Sprintf("series label document is not JSON: %q", ts.MLabels[i]))
			}
			announced[ts.MFingerprint[i]] = m
		}
		for i := 0; i < n; i++ {
			got = append(got, Row{TsNs: spl.MTimestampNS[i], Msg: spl.MMessage[i], Val: spl.MValue[i], Type: spl.MType[i], Key: -1})
			fps = append(fps, spl.MFingerprint[i])
		}
	}
	if firstErr != nil {
		return mm("error|"+p.Name+"|"+classify(c), fmt.Sprintf("well-formed body answered with an error: %v", firstErr))
	}
	if len(got) != len(want) {
		return mm("count|"+p.Name+"|"+classify(c), fmt.Sprintf("%d entries submitted, %d rows produced", len(want), len(got)))
	}
	if p.Name == "influx-metrics" {
		// the fields of one line share its timestamp and are decoded in map order: order inside a line is not defined
		byTsVal := func(r []Row, f []uint64) {
			idx := make([]int, len(r))
			for i := range idx {
				idx[i] = i
			}
			sort.SliceStable(idx, func(a, b int) bool {
				if r[idx[a]].TsNs != r[idx[b]].TsNs {
					return r[idx[a]].TsNs < r[idx[b]].TsNs
				}
				return r[idx[a]].Val < r[idx[b]].Val
			})
			r2 := make([]Row, len(r))
			f2 := make([]uint64, len(f))
			for i, x := range idx {
				r2[i] = r[x]
				if f != nil {
					f2[i] = f[x]
				}
			}
			copy(r, r2)
			if f != nil {
				copy(f, f2)
			}
		}
		byTsVal(want, nil)
		byTsVal(got, fps)
	}
	for i := range want {
		w, g := want[i], got[i]
		if w.TsNs != g.TsNs {
			return mm("field|"+p.Name+"|timestamp", fmt.Sprintf("row %d: timestamp %d, submitted %d", i, g.TsNs, w.TsNs))
		}
		if w.Msg != g.Msg {
			return mm("field|"+p.Name+"|line", fmt.Sprintf("row %d: line %.40q, submitted %.40q", i, g.Msg, w.Msg))
		}
		if w.Type != 1 && math.Float64bits(w.Val) != math.Float64bits(g.Val) {
			return mm("field|"+p.Name+"|value", fmt.Sprintf("row %d: value %v, submitted %v", i, g.Val, w.Val))
		}
		if w.Type != g.Type {
			return mm("field|"+p.Name+"|type", fmt.Sprintf("row %d: type %d, submitted %d", i, g.Type, w.Type))
		}
		fp := fps[i]
		if old, ok := fpOfKey[w.Key]; ok && old != fp {
			return mm("fingerprint|"+p.Name+"|unstable", fmt.Sprintf("row %d: entries of one stream carry different fingerprints %d / %d", i, old, fp))
		}
		fpOfKey[w.Key] = fp
	}
	// every label set keeps the fingerprint it gets when one entry of it is sent alone (whatever else the body holds,
	// whichever container it shares with other label sets, with or without the pseudo label)
	var ids []int
	for k := range fpOfKey {
		ids = append(ids, k)
	}
	sort.Ints(ids)
	for _, k := range ids {
		ref, err := refFp(p, c.Kind, k, rnd)
		if err != nil {
			fmt.Fprintf(os.Stderr, "reference body of %s label set %d: %v\n", p.Name, k, err)
			os.Exit(2)
		}
		if ref != fpOfKey[k] {
			return mm("fingerprint|"+p.Name+"|not-own-stream", fmt.Sprintf("[%s] label set %d (%v): rows carry fingerprint %d, the same stream sent alone gets %d",
				labelClass(c), k, lbl[k], fpOfKey[k], ref))
		}
	}
	seen := map[uint64]int{}
	for k, fp := range fpOfKey {
		if o, ok := seen[fp]; ok && o != k {
			return mm("fingerprint|"+p.Name+"|collision", fmt.Sprintf("streams %d and %d share fingerprint %d", o, k, fp))
		}
		seen[fp] = k
		m, ok := announced[fp]
		if !ok {
			return mm("series|"+p.Name+"|not-announced", fmt.Sprintf("stream %d (fp %d) has rows but no series row was emitted with an empty cache", k, fp))
		}
		if !eqMap(m, lbl[k]) {
			return mm("series|"+p.Name+"|labels", fmt.Sprintf("series row of stream %d decodes to %v, submitted %v", k, m, lbl[k]))
		}
	}
	return nil
}

func eqMap(a, b map[string]string) bool {
	if len(a) != len(b) {
		return false
	}
	for k, v := range a {
		if b[k] != v {
			return false
		}
	}
	return true
}

func main() {
	in := flag.String("in", "", "")
	out := flag.String("out", "", "")
	seed := flag.Int64("seed", 1, "")
	maxBig := flag.Int("maxbig", 40, "max cases per protocol that cross the size limit (they are large)")
	flag.Parse()
	wworld.InitPools()
	cfg := config.ClokiBaseSettingServer{}
	cfg.FingerPrintType = 1
	wconfig.Cloki = &clconfig.ClokiConfig{Setting: &cfg}
	raw, err := os.ReadFile(*in)
	if err != nil {
		fmt.Fprintln(os.Stderr, err)
		os.Exit(2)
	}
	var cases []Case
	if err := json.Unmarshal(raw, &cases); err != nil {
		fmt.Fprintln(os.Stderr, err)
		os.Exit(2)
	}
	rnd := rand.New(rand.NewSource(*seed))
	res := map[string]any{}
	var mms []Mismatch
	runs := 0
	perProto := map[string]int{}
	classes := map[string]int{}
	lclasses := map[string]int{}
	bigCount := map[string]int{}
	sigSeen := map[string]int{}
	for _, c := range cases {
		for _, p := range protocols {
			if p.Kind != c.Kind {
				continue
			}
			cl := classify(c)
			if strings.Contains(cl, "crosses-size-limit") {
				if bigCount[p.Name] >= *maxBig {
					continue
				}
				bigCount[p.Name]++
			}
			if c.Kind == "prom" && strings.Contains(cl, "crosses-points-limit") {
				// fine: a few thousand samples
			}
			m := runCase(p, c, rnd)
			runs++
			perProto[p.Name]++
			classes[p.Name+"/"+cl]++
			lclasses[p.Name+"/"+labelClass(c)]++
			if m != nil {
				sigSeen[m.Signature]++
				if sigSeen[m.Signature] <= 3 {
					mms = append(mms, *m)
				}
			}
		}
	}
	res["runs"] = runs
	res["per_protocol"] = perProto
	res["classes"] = classes
	res["label_classes"] = lclasses
	res["mismatches"] = mms
	res["signature_counts"] = sigSeen
	b, _ := json.MarshalIndent(res, "", " ")
	if *out != "" {
		os.WriteFile(*out, b, 0644)
	} else {
		fmt.Println(string(b))
	}
}

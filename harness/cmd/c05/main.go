// c05: robustness of the ingest side against malformed / hostile requests (property C05).
//
//	c05 schema                       prints {route: {field: [defects]}} — the defect classes this driver can realise
//	c05 run -cases cases.json -out r.json -seed N [-mutations M]
//	    every case (route, field, defect[, field2, defect2]) enumerated by TLC + M seeded byte-level mutations per
//	    route is sent to the REAL writer router (production service registry over the fake ClickHouse client) running
//	    in a CHILD process; verdicts: answered within the time limit, child alive, a following valid push still
//	    succeeds with a rectangular block, no goroutine left spinning or blocked in writer code.
//	c05 serve                        (internal) the child: reads requests on stdin, answers on stdout
package main

import (
	"bufio"
	"bytes"
	"compress/gzip"
	"encoding/base64"
	"encoding/json"
	"flag"
	"fmt"
	"io"
	"math"
	"math/rand"
	"mime/multipart"
	"net/http"
	"net/http/httptest"
	"os"
	"os/exec"
	"regexp"
	"runtime"
	"sort"
	"strings"
	"sync"
	"sync/atomic"
	"time"

	"github.com/golang/snappy"
	"github.com/google/pprof/profile"
	"github.com/metrico/qryn/writer/utils/proto/logproto"
	"github.com/metrico/qryn/writer/utils/proto/prompb"
	otlpCommon "go.opentelemetry.io/proto/otlp/common/v1"
	otlpLogs "go.opentelemetry.io/proto/otlp/logs/v1"
	otlpRes "go.opentelemetry.io/proto/otlp/resource/v1"
	otlpTrace "go.opentelemetry.io/proto/otlp/trace/v1"
	"google.golang.org/protobuf/proto"
	"verif/harness/e2e"
	"verif/harness/fakech"
)

// ------------------------------------------------------------------ request model

type Req struct {
	ID       int               `json:"id"`
	Label    string            `json:"label"`
	Method   string            `json:"method"`
	Path     string            `json:"path"`
	Headers  map[string]string `json:"headers"`
	BodyB64  string            `json:"body"`
	Probe    bool              `json:"probe"`
	TimeoutS int               `json:"timeout_s,omitempty"`
	bodyFile string            // large bodies are kept on disk until the request is sent
}

type Resp struct {
	ID         int      `json:"id"`
	Code       int      `json:"code"`
	Ms         int64    `json:"ms"`
	Timeout    bool     `json:"timeout"`
	Spinning   []string `json:"spinning,omitempty"` // goroutines in writer code that were running in two samples
	Blocked    []string `json:"blocked,omitempty"`  // goroutines in writer code still alive after the request (not service loops)
	Goroutines int      `json:"goroutines"`
	Ragged     bool     `json:"ragged"`
	StoreErr   string   `json:"store_err,omitempty"`
}

// ------------------------------------------------------------------ child

var reGo = regexp.MustCompile(`(?m)^goroutine (\d+) \[([^\]]+)\]:\n((?:.+\n)+)`)

type gor struct {
	id, state, stack string
}

func goroutines() []gor {
	buf := make([]byte, 4<<20)
	n := runtime.Stack(buf, true)
	var res []gor
	for _, m := range reGo.FindAllStringSubmatch(string(buf[:n])+"\n", -1) {
		res = append(res, gor{m[1], m[2], m[3]})
	}
	return res
}

func topRepoFrame(stack string) string {
	for _, l := range strings.Split(stack, "\n") {
		if strings.HasPrefix(l, "github.com/metrico/qryn/") {
			f := strings.TrimPrefix(l, "github.com/metrico/qryn/")
			if i := strings.Index(f, "("); i > 0 {
				f = f[:i]
			}
			return f
		}
	}
	return ""
}

// service loops and pools that legitimately live forever
var permanent = regexp.MustCompile(`InsertServiceV2\)\.Run|InsertServiceV2RoundRobin\)\.Run|InsertServiceV2Multimodal\)\.Run|numbercache\.NewCache|watchdog\.Init|StartPushStat|c05/main|testing\.|signal\.|e2e\.`)

func serve() int {
	ragged := false
	var w *e2e.World
	var err error
	w, err = e2e.New(e2e.Options{IntervalMs: 2, Attempts: 1, NoReader: true, OnDo: func(b *fakech.Block) error {
		if !b.Rectangular() {
			ragged = true
		}
		return nil
	}})
	if err != nil {
		fmt.Fprintln(os.Stderr, "e2e:", err)
		return 2
	}
	in := bufio.NewReaderSize(os.Stdin, 64<<20)
	for {
		line, err := in.ReadBytes('\n')
		if len(line) == 0 && err != nil {
			return 0
		}
		var rq Req
		if json.Unmarshal(line, &rq) != nil {
			continue
		}
		body, _ := base64.StdEncoding.DecodeString(rq.BodyB64)
		req := httptest.NewRequest(rq.Method, rq.Path, bytes.NewReader(body))
		for k, v := range rq.Headers {
			req.Header.Set(k, v)
		}
		rw := httptest.NewRecorder()
		done := make(chan struct{})
		t0 := time.Now()
		go func() {
			defer func() {
				// net/http recovers a panic of the handler goroutine and drops the connection: the process survives
				if r := recover(); r != nil {
					rw.Code = 599
				}
				close(done)
			}()
			w.Writer.ServeHTTP(rw, req)
		}()
		rs := Resp{ID: rq.ID}
		select {
		case <-done:
			rs.Code = rw.Code
			if os.Getenv("C05_DEBUG") != "" {
				fmt.Fprintf(os.Stderr, "DEBUG %s -> %d %.300s\n", rq.Label, rw.Code, rw.Body.String())
			}
		case <-time.After(time.Duration(max(rq.TimeoutS, 5)) * time.Second):
			rs.Timeout = true
			a := goroutines()
			time.Sleep(200 * time.Millisecond)
			b := goroutines()
			running := map[string]string{}
			for _, g := range a {
				if (g.state == "running" || g.state == "runnable") && topRepoFrame(g.stack) != "" {
					running[g.id] = topRepoFrame(g.stack)
				}
			}
			for _, g := range b {
				if f, ok := running[g.id]; ok && (g.state == "running" || g.state == "runnable") {
					rs.Spinning = append(rs.Spinning, f)
				}
			}
			for _, g := range b {
				if f := topRepoFrame(g.stack); f != "" && !permanent.MatchString(g.stack) && g.state != "running" && g.state != "runnable" {
					rs.Blocked = append(rs.Blocked, f+" ["+g.state+"]")
				}
			}
		}
		rs.Ms = time.Since(t0).Milliseconds()
		if rq.Probe {
			time.Sleep(15 * time.Millisecond)
			for _, g := range goroutines() {
				if f := topRepoFrame(g.stack); f != "" && !permanent.MatchString(g.stack) {
					rs.Blocked = append(rs.Blocked, f+" ["+g.state+"]")
				}
			}
		}
		rs.Goroutines = runtime.NumGoroutine()
		rs.Ragged = ragged || atomic.LoadInt64(&w.CH.Ragged) > 0
		if len(w.StoreErr) > 0 {
			rs.StoreErr = w.StoreErr[0]
		}
		rb, _ := json.Marshal(rs)
		fmt.Fprintf(os.Stdout, "\n@@RESP@@%s\n", rb)
		if rs.Timeout {
			return 3 // poisoned: let the parent restart a clean child
		}
	}
}

// ------------------------------------------------------------------ routes, fields, defects

type jsonPath []any // keys (string) and indexes (int)

type route struct {
	Name    string
	Method  string
	Path    string
	Headers map[string]string
	// JSON routes
	JSON   func() any
	Fields map[string]jsonPath
	Frame  func(any) []byte // serialise (default: json.Marshal)
	// other routes: mutate returns the body for (field, defect) or ok=false
	Defects map[string][]string
	Mutate  func(field, defect string, rnd *rand.Rand) (body []byte, path string, hdr map[string]string, ok bool)
	Valid   func() []byte
}

const nowNs = "1700000000000000000"

func lokiJSONBase() any {
	return map[string]any{"streams": []any{map[string]any{"stream": map[string]any{"app": "c05"},
		"values": []any{[]any{nowNs, "line one"}, []any{"1700000001000000000", "line two", 1.5}}}}}
}

var jsonDefects = []string{"absent", "null", "empty", "wrong_type", "zero", "negative", "huge", "deep", "truncated", "garbage"}

func ddLogsBase() any {
	return []any{map[string]any{"ddsource": "s", "ddtags": "env:prod,ver:1", "hostname": "h", "message": "m", "service": "svc", "timestamp": 1700000000000}}
}
func ddMetricsBase() any {
	return map[string]any{"series": []any{map[string]any{"metric": "m.x", "resources": []any{map[string]any{"name": "h", "type": "host"}},
		"points": []any{map[string]any{"timestamp": 1700000000, "value": 1.5}}}}}
}
func zipkinBase() any {
	return []any{map[string]any{"traceId": "0123456789abcdef0123456789abcdef", "id": "0123456789abcdef", "parentId": "1123456789abcdef", "name": "op",
		"timestamp": 1700000000000000, "duration": 1000, "localEndpoint": map[string]any{"serviceName": "svc"},
		"remoteEndpoint": map[string]any{"serviceName": "peer"}, "tags": map[string]any{"k": "v"}}}
}
func ndjsonFrame(v any) []byte {
	var b bytes.Buffer
	if arr, ok := v.([]any); ok {
		for _, e := range arr {
			x, _ := json.Marshal(e)
			b.Write(x)
			b.WriteByte('\n')
		}
		return b.Bytes()
	}
	x, _ := json.Marshal(v)
	return x
}
func elasticDocBase() any { return map[string]any{"message": "hello", "level": "info", "n": 1} }
func elasticBulkFrame(v any) []byte {
	x, _ := json.Marshal(v)
	return []byte(`{"index":{"_index":"idx"}}` + "\n" + string(x) + "\n")
}

func snap(b []byte) []byte { return snappy.Encode(nil, b) }

func lokiProtoMsg() *logproto.PushRequest {
	return &logproto.PushRequest{Streams: []*logproto.StreamAdapter{{Labels: `{app="c05"}`,
		Entries: []*logproto.EntryAdapter{{Timestamp: &logproto.Timestamp{Seconds: 1700000000, Nanos: 1}, Line: "l"}}}}}
}
func promMsg() *prompb.WriteRequest {
	return &prompb.WriteRequest{Timeseries: []*prompb.TimeSeries{{Labels: []*prompb.Label{{Name: "__name__", Value: "m"}, {Name: "job", Value: "j"}},
		Samples: []*prompb.Sample{{Value: 1, Timestamp: 1700000000000}}}}}
}
func sv(s string) *otlpCommon.AnyValue {
	return &otlpCommon.AnyValue{Value: &otlpCommon.AnyValue_StringValue{StringValue: s}}
}
func otlpLogsMsg() *otlpLogs.LogsData {
	return &otlpLogs.LogsData{ResourceLogs: []*otlpLogs.ResourceLogs{{Resource: &otlpRes.Resource{Attributes: []*otlpCommon.KeyValue{{Key: "service.name", Value: sv("s")}}},
		ScopeLogs: []*otlpLogs.ScopeLogs{{Scope: &otlpCommon.InstrumentationScope{Name: "sc"},
			LogRecords: []*otlpLogs.LogRecord{{TimeUnixNano: 1700000000000000000, Body: sv("b"), Attributes: []*otlpCommon.KeyValue{{Key: "k", Value: sv("v")}}}}}}}}}
}
func otlpTraceMsg() *otlpTrace.TracesData {
	return &otlpTrace.TracesData{ResourceSpans: []*otlpTrace.ResourceSpans{{Resource: &otlpRes.Resource{Attributes: []*otlpCommon.KeyValue{{Key: "service.name", Value: sv("s")}}},
		ScopeSpans: []*otlpTrace.ScopeSpans{{Spans: []*otlpTrace.Span{{TraceId: bytes.Repeat([]byte{1}, 16), SpanId: bytes.Repeat([]byte{2}, 8), ParentSpanId: bytes.Repeat([]byte{3}, 8),
			Name: "op", StartTimeUnixNano: 1700000000000000000, EndTimeUnixNano: 1700000000000001000, Attributes: []*otlpCommon.KeyValue{{Key: "k", Value: sv("v")}}}}}}}}}
}

var protoDefects = []string{"absent", "empty", "wrong_length", "zero", "huge", "truncated", "garbage"}

func idOfLen(n int) []byte { return bytes.Repeat([]byte{7}, n) }

func truncateOrGarbage(b []byte, defect string, rnd *rand.Rand) []byte {
	switch defect {
	case "truncated":
		if len(b) > 1 {
			return b[:1+rnd.Intn(len(b)-1)]
		}
	case "garbage":
		c := append([]byte{}, b...)
		for i := 0; i < 1+len(c)/8; i++ {
			c[rnd.Intn(len(c))] ^= byte(1 << uint(rnd.Intn(8)))
		}
		return c
	}
	return b
}

func pprofBytes() []byte {
	fn := &profile.Function{ID: 1, Name: "main.f", SystemName: "main.f", Filename: "f.go"}
	loc := &profile.Location{ID: 1, Line: []profile.Line{{Function: fn, Line: 1}}}
	p := &profile.Profile{SampleType: []*profile.ValueType{{Type: "cpu", Unit: "nanoseconds"}}, PeriodType: &profile.ValueType{Type: "cpu", Unit: "nanoseconds"}, Period: 1,
		Sample: []*profile.Sample{{Location: []*profile.Location{loc}, Value: []int64{10}}}, Location: []*profile.Location{loc}, Function: []*profile.Function{fn}, TimeNanos: 1700000000000000000, DurationNanos: 1e9}
	var b bytes.Buffer
	p.Write(&b)
	return b.Bytes()
}

func multipartBody(profileData []byte, withProfile bool, extra string) ([]byte, string) {
	var b bytes.Buffer
	mw := multipart.NewWriter(&b)
	if withProfile {
		fw, _ := mw.CreateFormFile("profile", "profile.pprof")
		fw.Write(profileData)
	}
	if extra != "" {
		fw, _ := mw.CreateFormFile("sample_type_config", "sample_type_config.json")
		fw.Write([]byte(extra))
	}
	mw.Close()
	return b.Bytes(), mw.FormDataContentType()
}

var paramDefects = []string{"absent", "empty", "zero", "negative", "huge", "garbage"}

func paramValue(defect string) (string, bool) {
	switch defect {
	case "absent":
		return "", false
	case "empty":
		return "", true
	case "zero":
		return "0", true
	case "negative":
		return "-5", true
	case "huge":
		return "99999999999999999999999999", true
	case "garbage":
		return "12ab%00", true
	}
	return "1700000000", true
}

func routes() []*route {
	js := func(name, path string, base func() any, fields map[string]jsonPath, frame func(any) []byte, hdr map[string]string) *route {
		h := map[string]string{"Content-Type": "application/json"}
		for k, v := range hdr {
			h[k] = v
		}
		return &route{Name: name, Method: "POST", Path: path, Headers: h, JSON: base, Fields: fields, Frame: frame}
	}
	rs := []*route{
		js("loki_json", "/loki/api/v1/push", lokiJSONBase, map[string]jsonPath{
			"streams": {"streams"}, "stream": {"streams", 0}, "labels": {"streams", 0, "stream"}, "label_value": {"streams", 0, "stream", "app"},
			"values": {"streams", 0, "values"}, "value": {"streams", 0, "values", 0}, "ts": {"streams", 0, "values", 0, 0}, "line": {"streams", 0, "values", 0, 1},
			"third": {"streams", 0, "values", 1, 2}}, nil, nil),
		js("datadog_logs", "/api/v2/logs", ddLogsBase, map[string]jsonPath{"item": {0}, "ddtags": {0, "ddtags"}, "message": {0, "message"}, "timestamp": {0, "timestamp"}, "ddsource": {0, "ddsource"}}, nil, nil),
		js("datadog_metrics", "/api/v2/series", ddMetricsBase, map[string]jsonPath{"series": {"series"}, "item": {"series", 0}, "metric": {"series", 0, "metric"},
			"resources": {"series", 0, "resources"}, "points": {"series", 0, "points"}, "point": {"series", 0, "points", 0}, "point_ts": {"series", 0, "points", 0, "timestamp"},
			"point_value": {"series", 0, "points", 0, "value"}}, nil, nil),
		js("zipkin_json", "/tempo/spans", zipkinBase, map[string]jsonPath{"span": {0}, "traceId": {0, "traceId"}, "id": {0, "id"}, "parentId": {0, "parentId"}, "timestamp": {0, "timestamp"},
			"duration": {0, "duration"}, "localEndpoint": {0, "localEndpoint"}, "serviceName": {0, "localEndpoint", "serviceName"}, "tags": {0, "tags"}, "tag": {0, "tags", "k"}, "name": {0, "name"}}, nil, nil),
		js("zipkin_v2", "/api/v2/spans", zipkinBase, map[string]jsonPath{"traceId": {0, "traceId"}, "id": {0, "id"}, "parentId": {0, "parentId"}, "timestamp": {0, "timestamp"}}, nil, nil),
		js("zipkin_ndjson", "/tempo/spans", zipkinBase, map[string]jsonPath{"span": {0}, "traceId": {0, "traceId"}, "id": {0, "id"}, "parentId": {0, "parentId"}, "timestamp": {0, "timestamp"},
			"localEndpoint": {0, "localEndpoint"}, "tags": {0, "tags"}}, ndjsonFrame, map[string]string{"Content-Type": "application/x-ndjson"}),
		js("elastic_doc", "/idx/_doc", elasticDocBase, map[string]jsonPath{"doc": {}, "message": {"message"}, "n": {"n"}}, nil, nil),
		js("elastic_bulk", "/_bulk", elasticDocBase, map[string]jsonPath{"doc": {}, "message": {"message"}}, elasticBulkFrame, nil),
	}
	// ---- protobuf routes
	rs = append(rs, &route{Name: "loki_proto", Method: "POST", Path: "/loki/api/v1/push", Headers: map[string]string{"Content-Type": "application/x-protobuf"},
		Defects: map[string][]string{"frame": {"truncated", "garbage", "huge", "empty"}, "labels": {"absent", "empty", "garbage"}, "entries": {"absent"}, "timestamp": {"absent", "zero", "huge"}, "line": {"empty", "huge"}},
		Valid:   func() []byte { b, _ := proto.Marshal(lokiProtoMsg()); return snap(b) },
		Mutate: func(f, d string, rnd *rand.Rand) ([]byte, string, map[string]string, bool) {
			m := lokiProtoMsg()
			switch f + "/" + d {
			case "labels/absent", "labels/empty":
				m.Streams[0].Labels = ""
			case "labels/garbage":
				m.Streams[0].Labels = `{app="c05",` + "\x00" + `=}`
			case "entries/absent":
				m.Streams[0].Entries = nil
			case "timestamp/absent":
				m.Streams[0].Entries[0].Timestamp = nil
			case "timestamp/zero":
				m.Streams[0].Entries[0].Timestamp = &logproto.Timestamp{}
			case "timestamp/huge":
				m.Streams[0].Entries[0].Timestamp = &logproto.Timestamp{Seconds: math.MaxInt64, Nanos: math.MaxInt32}
			case "line/empty":
				m.Streams[0].Entries[0].Line = ""
			case "line/huge":
				m.Streams[0].Entries[0].Line = strings.Repeat("x", 3<<20)
			}
			b, _ := proto.Marshal(m)
			switch f + "/" + d {
			case "frame/truncated", "frame/garbage":
				return truncateOrGarbage(snap(b), d, rnd), "", nil, true
			case "frame/huge":
				return append([]byte{0xff, 0xff, 0xff, 0xff, 0x7f}, snap(b)[1:]...), "", nil, true // declares a 34 GB body
			case "frame/empty":
				return nil, "", nil, true
			}
			return snap(b), "", nil, true
		}})
	rs = append(rs, &route{Name: "prom_write", Method: "POST", Path: "/api/v1/prom/remote/write", Headers: map[string]string{"Content-Type": "application/x-protobuf"},
		// (the block-format body is sent WITHOUT Content-Encoding: with "Content-Encoding: snappy" the writer wraps the body in a
		// stream-format reader first and answers 500 to every block-format body - that header is a defect class of its own here)
		Defects: map[string][]string{"encoding_header": {"snappy", "gzip"}, "frame": {"truncated", "garbage", "huge", "empty"}, "labels": {"absent", "empty"}, "label_name": {"empty", "garbage"}, "samples": {"absent", "huge"}, "sample_ts": {"zero", "negative", "huge"}, "sample_value": {"huge", "garbage"}},
		Valid:   func() []byte { b, _ := proto.Marshal(promMsg()); return snap(b) },
		Mutate: func(f, d string, rnd *rand.Rand) ([]byte, string, map[string]string, bool) {
			m := promMsg()
			ts := m.Timeseries[0]
			switch f + "/" + d {
			case "labels/absent":
				ts.Labels = nil
			case "labels/empty":
				ts.Labels = []*prompb.Label{}
			case "label_name/empty":
				ts.Labels[0].Name = ""
			case "label_name/garbage":
				ts.Labels[0].Name = "a\x00b c"
			case "samples/absent":
				ts.Samples = nil
			case "samples/huge":
				for i := 0; i < 2500; i++ {
					ts.Samples = append(ts.Samples, &prompb.Sample{Value: float64(i), Timestamp: 1700000000000 + int64(i)})
				}
			case "sample_ts/zero":
				ts.Samples[0].Timestamp = 0
			case "sample_ts/negative":
				ts.Samples[0].Timestamp = -1
			case "sample_ts/huge":
				ts.Samples[0].Timestamp = math.MaxInt64
			case "sample_value/huge":
				ts.Samples[0].Value = math.Inf(1)
			case "sample_value/garbage":
				ts.Samples[0].Value = math.NaN()
			}
			b, _ := proto.Marshal(m)
			switch f + "/" + d {
			case "frame/truncated", "frame/garbage":
				return truncateOrGarbage(snap(b), d, rnd), "", nil, true
			case "frame/huge":
				return append([]byte{0xff, 0xff, 0xff, 0xff, 0x7f}, snap(b)[1:]...), "", nil, true
			case "frame/empty":
				return nil, "", nil, true
			case "encoding_header/snappy":
				return snap(b), "", map[string]string{"Content-Encoding": "snappy"}, true
			case "encoding_header/gzip":
				return snap(b), "", map[string]string{"Content-Encoding": "gzip"}, true
			}
			return snap(b), "", nil, true
		}})
	rs = append(rs, &route{Name: "otlp_logs", Method: "POST", Path: "/v1/logs", Headers: map[string]string{"Content-Type": "application/x-protobuf"},
		Defects: map[string][]string{"frame": {"truncated", "garbage", "empty"}, "resource": {"absent"}, "scope": {"absent"}, "body": {"absent", "wrong_type"}, "attr_value": {"absent"}, "time": {"zero", "huge"}, "records": {"absent"}},
		Valid:   func() []byte { b, _ := proto.Marshal(otlpLogsMsg()); return b },
		Mutate: func(f, d string, rnd *rand.Rand) ([]byte, string, map[string]string, bool) {
			m := otlpLogsMsg()
			rl := m.ResourceLogs[0]
			rec := rl.ScopeLogs[0].LogRecords[0]
			switch f + "/" + d {
			case "resource/absent":
				rl.Resource = nil
			case "scope/absent":
				rl.ScopeLogs[0].Scope = nil
			case "body/absent":
				rec.Body = nil
			case "body/wrong_type":
				rec.Body = &otlpCommon.AnyValue{Value: &otlpCommon.AnyValue_KvlistValue{KvlistValue: &otlpCommon.KeyValueList{}}}
			case "attr_value/absent":
				rec.Attributes[0].Value = nil
			case "time/zero":
				rec.TimeUnixNano = 0
			case "time/huge":
				rec.TimeUnixNano = math.MaxUint64
			case "records/absent":
				rl.ScopeLogs[0].LogRecords = nil
			}
			b, _ := proto.Marshal(m)
			if f == "frame" {
				if d == "empty" {
					return nil, "", nil, true
				}
				return truncateOrGarbage(b, d, rnd), "", nil, true
			}
			return b, "", nil, true
		}})
	rs = append(rs, &route{Name: "otlp_traces", Method: "POST", Path: "/v1/traces", Headers: map[string]string{"Content-Type": "application/x-protobuf"},
		Defects: map[string][]string{"frame": {"truncated", "garbage", "empty"}, "resource": {"absent"}, "trace_id": {"absent", "wrong_length", "huge"}, "span_id": {"absent", "wrong_length", "huge"}, "parent_id": {"wrong_length"},
			"times": {"zero", "negative", "huge"}, "attr_value": {"absent"}, "name": {"empty", "huge"}, "spans": {"absent"}},
		Valid: func() []byte { b, _ := proto.Marshal(otlpTraceMsg()); return b },
		Mutate: func(f, d string, rnd *rand.Rand) ([]byte, string, map[string]string, bool) {
			m := otlpTraceMsg()
			rsn := m.ResourceSpans[0]
			sp := rsn.ScopeSpans[0].Spans[0]
			switch f + "/" + d {
			case "resource/absent":
				rsn.Resource = nil
			case "trace_id/absent":
				sp.TraceId = nil
			case "trace_id/wrong_length":
				sp.TraceId = idOfLen([]int{1, 8, 15}[rnd.Intn(3)])
			case "trace_id/huge":
				sp.TraceId = idOfLen(17 + rnd.Intn(20))
			case "span_id/absent":
				sp.SpanId = nil
			case "span_id/wrong_length":
				sp.SpanId = idOfLen([]int{1, 4, 7}[rnd.Intn(3)])
			case "span_id/huge":
				sp.SpanId = idOfLen(9 + rnd.Intn(20))
			case "parent_id/wrong_length":
				sp.ParentSpanId = idOfLen(3)
			case "times/zero":
				sp.StartTimeUnixNano, sp.EndTimeUnixNano = 0, 0
			case "times/negative":
				sp.EndTimeUnixNano = sp.StartTimeUnixNano - 5
			case "times/huge":
				sp.StartTimeUnixNano, sp.EndTimeUnixNano = math.MaxUint64, math.MaxUint64
			case "attr_value/absent":
				sp.Attributes[0].Value = nil
			case "name/empty":
				sp.Name = ""
			case "name/huge":
				sp.Name = strings.Repeat("n", 2<<20)
			case "spans/absent":
				rsn.ScopeSpans[0].Spans = nil
			}
			b, _ := proto.Marshal(m)
			if f == "frame" {
				if d == "empty" {
					return nil, "", nil, true
				}
				return truncateOrGarbage(b, d, rnd), "", nil, true
			}
			return b, "", nil, true
		}})
	// ---- influx line protocol
	rs = append(rs, &route{Name: "influx", Method: "POST", Path: "/influx/api/v2/write", Headers: map[string]string{},
		Defects: map[string][]string{"line": {"empty", "truncated", "garbage", "huge"}, "fields": {"absent", "wrong_type"}, "timestamp": {"absent", "negative", "huge", "garbage"}, "precision": {"empty", "garbage"}},
		Valid: func() []byte {
			return []byte("m,tag=t message=\"hello\" 1700000000000000000\nm2,tag=t f=1.5 1700000000000000000\n")
		},
		Mutate: func(f, d string, rnd *rand.Rand) ([]byte, string, map[string]string, bool) {
			path := ""
			b := "m,tag=t message=\"hello\" 1700000000000000000\n"
			switch f + "/" + d {
			case "line/empty":
				b = "\n\n"
			case "line/truncated":
				b = b[:10+rnd.Intn(20)]
			case "line/garbage":
				b = "m,tag=\x00\xff message=\"\\\n"
			case "line/huge":
				b = "m,tag=t message=\"" + strings.Repeat("x", 2<<20) + "\" 1700000000000000000\n"
			case "fields/absent":
				b = "m,tag=t 1700000000000000000\n"
			case "fields/wrong_type":
				b = "m,tag=t message=true,b=false,s=\"x\" 1700000000000000000\n"
			case "timestamp/absent":
				b = "m,tag=t message=\"hello\"\n"
			case "timestamp/negative":
				b = "m,tag=t message=\"hello\" -1700000000000000000\n"
			case "timestamp/huge":
				b = "m,tag=t message=\"hello\" 99999999999999999999999\n"
			case "timestamp/garbage":
				b = "m,tag=t message=\"hello\" 17e4x\n"
			case "precision/empty":
				path = "/influx/api/v2/write?precision="
			case "precision/garbage":
				path = "/influx/api/v2/write?precision=fortnight"
			}
			return []byte(b), path, nil, true
		}})
	// ---- profiles
	prof := func(name, ctype string) *route {
		return &route{Name: name, Method: "POST", Path: "/ingest?name=app.cpu%7Bpod%3Dp1%7D&from=1700000000&until=1700000010", Headers: map[string]string{"Content-Type": ctype},
			Defects: map[string][]string{"from": paramDefects, "until": paramDefects, "name": {"absent", "empty", "garbage", "huge", "open_brace", "only_brace", "close_only", "no_labels"}, "body": {"empty", "truncated", "garbage"}, "part": {"absent"}, "config": {"garbage", "wrong_type"}},
			Valid: func() []byte {
				if ctype == "binary/octet-stream" {
					return pprofBytes()
				}
				b, _ := multipartBody(pprofBytes(), true, "")
				return b
			},
			Mutate: func(f, d string, rnd *rand.Rand) ([]byte, string, map[string]string, bool) {
				from, until, nm := "1700000000", "1700000010", "app.cpu%7Bpod%3Dp1%7D"
				q := func() string {
					var p []string
					if nm != "\x00" {
						p = append(p, "name="+nm)
					}
					if from != "\x00" {
						p = append(p, "from="+from)
					}
					if until != "\x00" {
						p = append(p, "until="+until)
					}
					return "/ingest?" + strings.Join(p, "&")
				}
				set := func(dst *string) {
					v, present := paramValue(d)
					if !present {
						*dst = "\x00"
					} else {
						*dst = v
					}
				}
				body := pprofBytes()
				withProfile, extra := true, ""
				switch f {
				case "from":
					set(&from)
				case "until":
					set(&until)
				case "name":
					switch d {
					case "absent":
						nm = "\x00"
					case "empty":
						nm = ""
					case "garbage":
						nm = "app%7Ba%3D%7D%7B%7B" // app{a=}{{
					case "huge":
						nm = "app%7Bk%3D" + strings.Repeat("v", 1200000) + "%7D"
					case "open_brace":
						nm = "app%7B" // app{   (the label slice bounds cross)
					case "only_brace":
						nm = "%7B"
					case "close_only":
						nm = "app%7D"
					case "no_labels":
						nm = "app"
					}
				case "body":
					switch d {
					case "empty":
						body = nil
					default:
						body = truncateOrGarbage(body, d, rnd)
					}
				case "part":
					withProfile = false
				case "config":
					if d == "garbage" {
						extra = "{not json"
					} else {
						extra = `{"cpu": 5, "x": [1,2]}`
					}
				}
				hdr := map[string]string{}
				if ctype == "binary/octet-stream" {
					if f == "part" || f == "config" {
						return nil, "", nil, false
					}
					return body, q(), hdr, true
				}
				mb, ct := multipartBody(body, withProfile, extra)
				hdr["Content-Type"] = ct
				return mb, q(), hdr, true
			}}
	}
	rs = append(rs, prof("profile_multipart", "multipart/form-data"), prof("profile_binary", "binary/octet-stream"))
	// ---- headers (on the Loki JSON route)
	rs = append(rs, &route{Name: "headers", Method: "POST", Path: "/loki/api/v1/push", Headers: map[string]string{"Content-Type": "application/json"},
		Defects: map[string][]string{"content_type": {"absent", "garbage"}, "content_encoding": {"garbage", "wrong_type", "truncated"}, "ttl_days": {"negative", "huge", "garbage"}, "async": {"garbage"}, "dsn": {"garbage"}},
		Valid:   func() []byte { b, _ := json.Marshal(lokiJSONBase()); return b },
		Mutate: func(f, d string, rnd *rand.Rand) ([]byte, string, map[string]string, bool) {
			b, _ := json.Marshal(lokiJSONBase())
			h := map[string]string{}
			switch f + "/" + d {
			case "content_type/absent":
				h["Content-Type"] = ""
			case "content_type/garbage":
				h["Content-Type"] = "application/x-protobuf; \x7f"
			case "content_encoding/garbage":
				h["Content-Encoding"] = "br"
			case "content_encoding/wrong_type":
				h["Content-Encoding"] = "gzip" // body is not gzip
			case "content_encoding/truncated":
				var z bytes.Buffer
				zw := gzip.NewWriter(&z)
				zw.Write(b)
				zw.Close()
				h["Content-Encoding"] = "gzip"
				return z.Bytes()[:z.Len()/2], "", h, true
			case "ttl_days/negative":
				h["X-Ttl-Days"] = "-1"
			case "ttl_days/huge":
				h["X-Ttl-Days"] = "99999999999"
			case "ttl_days/garbage":
				h["X-Ttl-Days"] = "ten"
			case "async/garbage":
				h["X-Async-Insert"] = "maybe"
			case "dsn/garbage":
				h["X-CH-DSN"] = "no-such-node"
			}
			return b, "", h, true
		}})
	return rs
}

// ------------------------------------------------------------------ JSON mutation

func getPath(v any, p jsonPath) (parent any, last any, ok bool) {
	cur := v
	for i, k := range p {
		if i == len(p)-1 {
			return cur, k, true
		}
		switch kk := k.(type) {
		case string:
			m, ok := cur.(map[string]any)
			if !ok {
				return nil, nil, false
			}
			cur = m[kk]
		case int:
			a, ok := cur.([]any)
			if !ok || kk >= len(a) {
				return nil, nil, false
			}
			cur = a[kk]
		}
	}
	return nil, nil, len(p) == 0
}

func mutateJSON(r *route, field, defect string, rnd *rand.Rand) (res []byte, ok bool) {
	defer func() {
		if recover() != nil { // the first defect of a pair removed the place of the second one
			res, ok = nil, false
		}
	}()
	root := r.JSON()
	p := r.Fields[field]
	frame := r.Frame
	if frame == nil {
		frame = func(v any) []byte { b, _ := json.Marshal(v); return b }
	}
	var cur any = root
	if len(p) > 0 {
		par, last, ok := getPath(root, p)
		if !ok {
			return nil, false
		}
		switch k := last.(type) {
		case string:
			cur = par.(map[string]any)[k]
		case int:
			cur = par.([]any)[k]
		}
	}
	var nv any
	del := false
	switch defect {
	case "absent":
		del = true
	case "null":
		nv = nil
	case "empty":
		switch cur.(type) {
		case string:
			nv = ""
		case []any:
			nv = []any{}
		case map[string]any:
			nv = map[string]any{}
		default:
			nv = ""
		}
	case "wrong_type":
		switch cur.(type) {
		case string:
			nv = 12345
		case float64, int:
			nv = "twelve"
		case []any:
			nv = map[string]any{"a": 1}
		case map[string]any:
			nv = []any{1, "x"}
		default:
			nv = true
		}
	case "zero":
		if _, ok := cur.(string); ok {
			nv = "0"
		} else {
			nv = 0
		}
	case "negative":
		if _, ok := cur.(string); ok {
			nv = "-1"
		} else {
			nv = -1
		}
	case "huge":
		switch cur.(type) {
		case string:
			nv = strings.Repeat("9", 1<<20)
		case float64, int:
			nv = json.RawMessage("1e400")
		case []any:
			a := make([]any, 3000)
			for i := range a {
				a[i] = cur.([]any)[0]
			}
			nv = a
		default:
			nv = strings.Repeat("h", 1<<20)
		}
	case "deep":
		var d any = "x"
		for i := 0; i < 5000; i++ {
			d = []any{d}
		}
		nv = d
	case "truncated", "garbage":
		b := frame(root)
		return truncateOrGarbage(b, defect, rnd), true
	default:
		return nil, false
	}
	if len(p) == 0 {
		if del {
			return []byte(""), true
		}
		return frame(nv), true
	}
	par, last, _ := getPath(root, p)
	switch k := last.(type) {
	case string:
		if del {
			delete(par.(map[string]any), k)
		} else {
			par.(map[string]any)[k] = nv
		}
	case int:
		a := par.([]any)
		if del {
			// removing an array element: rebuild parent is awkward; replace by the following shape
			a[k] = json.RawMessage("[]")
		} else {
			a[k] = nv
		}
	}
	return frame(root), true
}

// ------------------------------------------------------------------ parent

type Case struct {
	Route string `json:"route"`
	F1    string `json:"f1"`
	D1    string `json:"d1"`
	F2    string `json:"f2"`
	D2    string `json:"d2"`
}

type Finding struct {
	Signature string `json:"signature"`
	Msg       string `json:"msg"`
	Label     string `json:"label"`
	Req       Req    `json:"req"`
	Detail    string `json:"detail"`
}

type child struct {
	cmd    *exec.Cmd
	in     io.WriteCloser
	out    *bufio.Reader
	stderr *bytes.Buffer
	mu     sync.Mutex
}

func startChild() (*child, error) {
	c := exec.Command(os.Args[0], "serve")
	in, _ := c.StdinPipe()
	outp, _ := c.StdoutPipe()
	eb := &bytes.Buffer{}
	c.Stderr = eb
	if err := c.Start(); err != nil {
		return nil, err
	}
	return &child{cmd: c, in: in, out: bufio.NewReaderSize(outp, 16<<20), stderr: eb}, nil
}

func (c *child) send(r Req) (*Resp, bool) {
	b, _ := json.Marshal(r)
	if _, err := c.in.Write(append(b, '\n')); err != nil {
		return nil, false
	}
	type res struct {
		line []byte
		err  error
	}
	ch := make(chan res, 1)
	go func() {
		for {
			// the code under test prints to stdout too: only marked lines are protocol
			l, err := c.out.ReadBytes('\n')
			if err != nil {
				ch <- res{nil, err}
				return
			}
			if bytes.HasPrefix(l, []byte("@@RESP@@")) {
				ch <- res{l[len("@@RESP@@"):], nil}
				return
			}
		}
	}()
	select {
	case x := <-ch:
		if x.err != nil || len(x.line) == 0 {
			return nil, false
		}
		var rs Resp
		if json.Unmarshal(x.line, &rs) != nil {
			return nil, false
		}
		return &rs, true
	case <-time.After(time.Duration(20+r.TimeoutS) * time.Second):
		return nil, false
	}
}

func (c *child) kill() {
	c.in.Close()
	c.cmd.Process.Kill()
	c.cmd.Wait()
}

var rePanicFn = regexp.MustCompile(`(?m)^github\.com/metrico/qryn/([^\s(]+)`)

func crashSignature(stderr string) (string, string) {
	msg := ""
	if i := strings.Index(stderr, "panic:"); i >= 0 {
		msg = stderr[i:]
		if j := strings.Index(msg, "\n"); j > 0 {
			msg = msg[:j]
		}
	} else if i := strings.Index(stderr, "fatal error:"); i >= 0 {
		msg = stderr[i:]
		if j := strings.Index(msg, "\n"); j > 0 {
			msg = msg[:j]
		}
	}
	fn := ""
	if m := rePanicFn.FindStringSubmatch(stderr); m != nil {
		fn = m[1]
	}
	return fn, msg
}

var shards = 6

func run(casesPath, outPath string, seed int64, nmut int) int {
	raw, err := os.ReadFile(casesPath)
	if err != nil {
		fmt.Fprintln(os.Stderr, err)
		return 2
	}
	var cases []Case
	if err := json.Unmarshal(raw, &cases); err != nil {
		fmt.Fprintln(os.Stderr, err)
		return 2
	}
	rnd := rand.New(rand.NewSource(seed))
	spill, err := os.MkdirTemp("", "c05bodies")
	if err != nil {
		fmt.Fprintln(os.Stderr, err)
		return 2
	}
	defer os.RemoveAll(spill)
	rmap := map[string]*route{}
	for _, r := range routes() {
		rmap[r.Name] = r
	}
	var reqs []Req
	skipped := 0
	mk := func(r *route, label string, body []byte, path string, hdr map[string]string) {
		h := map[string]string{}
		for k, v := range r.Headers {
			h[k] = v
		}
		for k, v := range hdr {
			h[k] = v
		}
		if path == "" {
			path = r.Path
		}
		rq := Req{Label: label, Method: r.Method, Path: path, Headers: h}
		if len(body) > 64<<10 {
			// thousands of multi-megabyte bodies do not fit in memory at once
			f, err := os.CreateTemp(spill, "body")
			if err == nil {
				f.Write(body)
				f.Close()
				rq.bodyFile = f.Name()
			}
		}
		if rq.bodyFile == "" {
			rq.BodyB64 = base64.StdEncoding.EncodeToString(body)
		}
		reqs = append(reqs, rq)
	}
	for _, c := range cases {
		r := rmap[c.Route]
		if r == nil {
			skipped++
			continue
		}
		label := fmt.Sprintf("%s|%s=%s", c.Route, c.F1, c.D1)
		if c.F2 != "" && c.D1 == "huge" && c.D2 == "huge" {
			// two size defects multiply (20000 streams x 1.2 MB labels = 24 GB of JSON): each is covered on its own
			skipped++
			continue
		}
		if r.JSON != nil {
			body, ok := mutateJSON(r, c.F1, c.D1, rnd)
			if !ok {
				skipped++
				continue
			}
			if c.F2 != "" {
				// second defect applied on the already mutated tree where possible: re-run on a fresh tree with both
				r2 := *r
				base := r.JSON
				r2.JSON = func() any {
					var v any
					b, _ := mutateJSON(&route{JSON: base, Fields: r.Fields}, c.F1, c.D1, rnd)
					if json.Unmarshal(b, &v) != nil {
						return base()
					}
					return v
				}
				if b2, ok := mutateJSON(&r2, c.F2, c.D2, rnd); ok {
					body = b2
					label += fmt.Sprintf("+%s=%s", c.F2, c.D2)
				}
			}
			mk(r, label, body, "", nil)
			continue
		}
		body, path, hdr, ok := r.Mutate(c.F1, c.D1, rnd)
		if !ok {
			skipped++
			continue
		}
		mk(r, label, body, path, hdr)
	}
	// seeded byte-level mutations of each route's valid body
	for _, r := range routes() {
		var valid []byte
		if r.JSON != nil {
			fr := r.Frame
			if fr == nil {
				fr = func(v any) []byte { b, _ := json.Marshal(v); return b }
			}
			valid = fr(r.JSON())
		} else {
			valid = r.Valid()
		}
		for i := 0; i < nmut; i++ {
			b := append([]byte{}, valid...)
			switch rnd.Intn(4) {
			case 0:
				if len(b) > 1 {
					b = b[:rnd.Intn(len(b))]
				}
			case 1:
				for k := 0; k < 1+rnd.Intn(4) && len(b) > 0; k++ {
					b[rnd.Intn(len(b))] = byte(rnd.Intn(256))
				}
			case 2:
				if len(b) > 0 {
					p := rnd.Intn(len(b))
					ins := make([]byte, 1+rnd.Intn(16))
					rnd.Read(ins)
					b = append(b[:p], append(ins, b[p:]...)...)
				}
			case 3:
				if len(b) > 2 {
					p, q := rnd.Intn(len(b)), rnd.Intn(len(b))
					if p > q {
						p, q = q, p
					}
					b = append(b[:p], b[q:]...)
				}
			}
			hdr := map[string]string{}
			if r.Name == "profile_multipart" {
				_, ct := multipartBody(nil, false, "")
				hdr["Content-Type"] = ct
			}
			mk(r, fmt.Sprintf("%s|bytes#%d", r.Name, i), b, "", hdr)
		}
	}
	probeBody, _ := json.Marshal(lokiJSONBase())
	probe := Req{Label: "probe", Method: "POST", Path: "/loki/api/v1/push", Headers: map[string]string{"Content-Type": "application/json"},
		BodyB64: base64.StdEncoding.EncodeToString(probeBody), Probe: true}

	var mu sync.Mutex
	var findings []Finding
	sigCount := map[string]int{}
	add := func(f Finding) {
		mu.Lock()
		defer mu.Unlock()
		sigCount[f.Signature]++
		if sigCount[f.Signature] <= 2 {
			findings = append(findings, f)
		}
	}
	codes := map[string]int{}
	restarts := 0
	infra := []string{}
	for i := range reqs {
		reqs[i].ID = i + 1
	}
	// the requests are independent of each other: shards run in parallel, each against its own child process
	nshards := shards
	if nshards < 1 {
		nshards = 1
	}
	var wg sync.WaitGroup
	for sh := 0; sh < nshards; sh++ {
		var mine []Req
		for i := sh; i < len(reqs); i += nshards {
			mine = append(mine, reqs[i])
		}
		wg.Add(1)
		go func(mine []Req) {
			defer wg.Done()
			runShard(mine, probe, add, &mu, codes, &restarts, &infra)
		}(mine)
	}
	wg.Wait()
	res := map[string]any{"requests": len(reqs), "skipped_cases": skipped, "cases": len(cases), "byte_mutations": nmut * len(routes()), "status_codes": codes,
		"child_restarts": restarts, "findings": findings, "signature_counts": sigCount, "infra": infra}
	b, _ := json.MarshalIndent(res, "", " ")
	os.WriteFile(outPath, b, 0644)
	if len(infra) > 0 {
		return 2
	}
	return 0
}

func schema() {
	out := map[string]map[string][]string{}
	for _, r := range routes() {
		out[r.Name] = map[string][]string{}
		if r.JSON != nil {
			for f := range r.Fields {
				out[r.Name][f] = jsonDefects
			}
		} else {
			for f, ds := range r.Defects {
				out[r.Name][f] = ds
			}
		}
	}
	b, _ := json.MarshalIndent(out, "", " ")
	fmt.Println(string(b))
}

// runShard sends its requests, one after the other, to a child process of its own
func runShard(reqs []Req, probe Req, add func(Finding), mu *sync.Mutex, codes map[string]int, restarts *int, infra *[]string) {
	ch, err := startChild()
	if err != nil {
		mu.Lock()
		*infra = append(*infra, err.Error())
		mu.Unlock()
		return
	}
	// sanity: the probe must work on a fresh child
	if rs, ok := ch.send(probe); !ok || rs.Code != 204 {
		mu.Lock()
		*infra = append(*infra, fmt.Sprintf("probe fails on a fresh child: %+v %s", rs, ch.stderr.String()))
		mu.Unlock()
		return
	}
	for i := range reqs {
		rq := reqs[i]
		if rq.bodyFile != "" {
			if b, err := os.ReadFile(rq.bodyFile); err == nil {
				rq.BodyB64 = base64.StdEncoding.EncodeToString(b)
			}
		}
		rs, ok := ch.send(rq)
		routeName := strings.SplitN(rq.Label, "|", 2)[0]
		if !ok {
			if _, m := crashSignature(ch.stderr.String()); m == "" {
				// no answer and no Go crash report (panic / fatal error): an overloaded machine, the out-of-memory killer or a
				// body of absurd size, not evidence of a crash - try once more on a fresh child with generous limits
				ch.kill()
				mu.Lock()
				*restarts++
				mu.Unlock()
				if ch, err = startChild(); err != nil {
					mu.Lock()
					*infra = append(*infra, err.Error())
					mu.Unlock()
					break
				}
				ch.send(probe)
				again := rq
				again.TimeoutS = 25
				if rs2, ok2 := ch.send(again); ok2 {
					mu.Lock()
					codes["answered-on-second-try:"+routeName]++
					mu.Unlock()
					rs, ok = rs2, true
				} else if _, m2 := crashSignature(ch.stderr.String()); m2 == "" {
					mu.Lock()
					*infra = append(*infra, fmt.Sprintf("request %q: the child stopped answering twice without a Go crash report (killed from outside or out of time)", rq.Label))
					mu.Unlock()
					break
				}
			}
		}
		if !ok {
			// the child died with a crash report: crash
			ch.kill()
			fn, msg := crashSignature(ch.stderr.String())
			tail := ch.stderr.String()
			if len(tail) > 3000 {
				tail = tail[:3000]
			}
			small := rq
			if len(small.BodyB64) > 4000 {
				small.BodyB64 = small.BodyB64[:4000] + "...(truncated)"
			}
			add(Finding{Signature: "crash|" + routeName + "|" + fn, Msg: fmt.Sprintf("request %q terminates the process: %s (in %s)", rq.Label, msg, fn), Label: rq.Label, Req: small, Detail: tail})
			mu.Lock()
			*restarts++
			mu.Unlock()
			if ch, err = startChild(); err != nil {
				mu.Lock()
				*infra = append(*infra, err.Error())
				mu.Unlock()
				break
			}
			if rs, ok := ch.send(probe); !ok || rs.Code != 204 {
				mu.Lock()
				*infra = append(*infra, "probe fails after restart")
				mu.Unlock()
				break
			}
			continue
		}
		mu.Lock()
		codes[fmt.Sprintf("%s:%d", routeName, rs.Code)]++
		mu.Unlock()
		small := rq
		if len(small.BodyB64) > 4000 {
			small.BodyB64 = small.BodyB64[:4000] + "...(truncated)"
		}
		if rs.Timeout && rq.TimeoutS == 0 {
			// a loaded machine can make an innocent request slow: a hang must reproduce on a fresh child with five times the limit
			ch.kill()
			mu.Lock()
			*restarts++
			mu.Unlock()
			if ch, err = startChild(); err != nil {
				mu.Lock()
				*infra = append(*infra, err.Error())
				mu.Unlock()
				break
			}
			ch.send(probe)
			again := rq
			again.TimeoutS = 25
			if rs2, ok2 := ch.send(again); ok2 {
				if !rs2.Timeout {
					mu.Lock()
					codes["slow-not-hung:"+routeName]++
					mu.Unlock()
				}
				rs = rs2
			}
		}
		if rs.Timeout {
			kind := "blocked"
			where := strings.Join(rs.Blocked, ",")
			if len(rs.Spinning) > 0 {
				kind = "spinning"
				where = strings.Join(rs.Spinning, ",")
			}
			first := where
			if j := strings.Index(first, ","); j > 0 {
				first = first[:j]
			}
			loc := "unknown"
			if fl := strings.Fields(first); len(fl) > 0 {
				loc = fl[0]
			}
			add(Finding{Signature: "hang|" + routeName + "|" + kind + "|" + loc, Msg: fmt.Sprintf("request %q is not answered within 5 s; goroutine(s) %s in %s", rq.Label, kind, where), Label: rq.Label, Req: small})
			ch.kill()
			mu.Lock()
			*restarts++
			mu.Unlock()
			if ch, err = startChild(); err != nil {
				mu.Lock()
				*infra = append(*infra, err.Error())
				mu.Unlock()
				break
			}
			ch.send(probe)
			continue
		}
		if rs.Code == 599 {
			add(Finding{Signature: "handler-panic|" + routeName, Msg: fmt.Sprintf("request %q panics in the handler goroutine (connection dropped without an HTTP response)", rq.Label), Label: rq.Label, Req: small})
		}
		// follow-up: a valid push must still succeed, with a rectangular block, and no request goroutine may linger
		if i%5 == 4 || rs.Code >= 500 || rs.Code == 599 {
			ps, ok := ch.send(probe)
			if !ok {
				ch.kill()
				fn, msg := crashSignature(ch.stderr.String())
				add(Finding{Signature: "crash-after|" + routeName + "|" + fn, Msg: fmt.Sprintf("after request %q a valid push terminates the process: %s", rq.Label, msg), Label: rq.Label, Req: small, Detail: ch.stderr.String()})
				mu.Lock()
				*restarts++
				mu.Unlock()
				if ch, err = startChild(); err != nil {
					mu.Lock()
					*infra = append(*infra, err.Error())
					mu.Unlock()
					break
				}
				ch.send(probe)
				continue
			}
			if ps.Code != 204 {
				add(Finding{Signature: "poisoned|" + routeName, Msg: fmt.Sprintf("after request %q a valid push is answered %d", rq.Label, ps.Code), Label: rq.Label, Req: small})
			}
			if ps.Ragged {
				add(Finding{Signature: "ragged-batch|" + routeName, Msg: fmt.Sprintf("after request %q an INSERT block with unequal column lengths was sent (shared batch corrupted)", rq.Label), Label: rq.Label, Req: small})
				ch.kill()
				mu.Lock()
				*restarts++
				mu.Unlock()
				ch, _ = startChild()
				ch.send(probe)
			}
			if len(ps.Blocked) > 0 {
				sort.Strings(ps.Blocked)
				add(Finding{Signature: "leak|" + strings.Fields(ps.Blocked[0])[0], Msg: fmt.Sprintf("after request %q goroutine(s) started for it are still alive: %v", rq.Label, ps.Blocked), Label: rq.Label, Req: small})
				ch.kill()
				mu.Lock()
				*restarts++
				mu.Unlock()
				ch, _ = startChild()
				ch.send(probe)
			}
		}
	}
	if ch != nil {
		if os.Getenv("C05_DEBUG") != "" {
			os.Stderr.WriteString(ch.stderr.String())
		}
		ch.kill()
	}
}

func main() {
	if len(os.Args) < 2 {
		os.Exit(2)
	}
	switch os.Args[1] {
	case "serve":
		os.Exit(serve())
	case "schema":
		schema()
	case "run":
		fs := flag.NewFlagSet("run", flag.ExitOnError)
		cases := fs.String("cases", "", "")
		out := fs.String("out", "", "")
		seed := fs.Int64("seed", 1, "")
		nmut := fs.Int("mutations", 20, "")
		shp := fs.Int("shards", 6, "")
		fs.Parse(os.Args[2:])
		shards = *shp
		os.Exit(run(*cases, *out, *seed, *nmut))
	}
	_ = http.StatusOK
}

package main

import (
	"fmt"
	"math/rand"
	"strconv"
	"strings"
)

// Seeded larger bodies that cross the chunk builder's flush threshold (1 MiB accounted size; for the metrics route
// also series of more than 1000 points).  The oracle is an independent construction of the expected rows; the demanded
// property is the definition of BulkIngest.tla: 2xx => exactly the submitted documents; a malformed line => 4xx and a
// stored PREFIX.  Bodies avoid the named deviations (explicit _index on /_bulk, no blank cf lines, no tags, no long lines).

type Big struct {
	Proto, Via string
	Fault      bool
	Req        *Request
	Exp        []ERow
	Docs       int
}

func bigCase(proto, via string, fault bool, rnd *rand.Rand) *Big {
	b := &Big{Proto: proto, Via: via, Fault: fault}
	r := &Request{Ctx: map[string]string{}, Method: "POST"}
	r.targets = targetPool(rnd)
	tag := fmt.Sprintf("%06x", rnd.Intn(1<<24))
	faultAt := -1
	switch proto {
	case "bulk":
		n := 2500 + rnd.Intn(1500)
		if fault {
			faultAt = n/2 + rnd.Intn(n/2)
		}
		var lines []string
		for d := 0; d < n; d++ {
			if d == faultAt {
				lines = append(lines, `{"index":{"_index":"x"}}`, badLine(rnd))
			}
			t := pick(rnd, []string{"t1", "t2"})
			marker := fmt.Sprintf("B%d-%s", d, tag)
			switch rnd.Intn(12) {
			case 0:
				lines = append(lines, `{"delete":{"_id":"`+marker+`"}}`)
			case 1:
				lines = append(lines, `{"update":{"_id":"`+marker+`"}}`, `{"doc":{"f":1}}`)
			case 2:
				lines = append(lines, "")
			}
			act := pick(rnd, []string{"index", "create"})
			lines = append(lines, obj(rnd, []string{member(rnd, act, obj(rnd, []string{member(rnd, "_index", jstr(r.targets[t]))}))}))
			pad := 200 + rnd.Intn(500)
			if rnd.Intn(200) == 0 {
				pad = 20000 + rnd.Intn(40000)
			}
			doc := obj(rnd, docMembers(rnd, marker, pad))
			lines = append(lines, doc)
			if faultAt < 0 || d < faultAt {
				b.Exp = append(b.Exp, ERow{Key: doc, Text: doc, Arrival: true, Type: 1, Labels: map[string]string{"type": "elastic", "_index": r.targets[t]}})
			}
		}
		nl, tr := eol(rnd)
		r.Body = joinLines(lines, nl, tr)
		r.URL, r.CT = "/_bulk", "application/x-ndjson"
		r.Ctx["target"] = ""
		b.Docs = n
	case "cf":
		n := 2500 + rnd.Intn(1500)
		if fault {
			faultAt = n/2 + rnd.Intn(n/2)
		}
		var lines []string
		for d := 0; d < n; d++ {
			if d == faultAt {
				lines = append(lines, badLine(rnd))
			}
			marker := fmt.Sprintf("C%d-%s", d, tag)
			sn := "w" + strconv.Itoa(rnd.Intn(3))
			ts := int64(1700000000000) + int64(d)
			ms := []string{member(rnd, "ScriptName", jstr(sn)), member(rnd, "EventTimestampMs", strconv.FormatInt(ts, 10)), member(rnd, "u", jstr(marker)),
				member(rnd, "pad", jstr(strings.Repeat("z", 200+rnd.Intn(500))))}
			rnd.Shuffle(len(ms), func(a, c int) { ms[a], ms[c] = ms[c], ms[a] })
			line := obj(rnd, ms)
			lines = append(lines, line)
			if faultAt < 0 || d < faultAt {
				b.Exp = append(b.Exp, ERow{Key: line, Text: line, TsNs: ts * 1000000, Type: 1, Labels: map[string]string{"ddsource": "big", "ScriptName": sn}})
			}
		}
		nl, tr := eol(rnd)
		r.Body = joinLines(lines, nl, tr)
		r.URL, r.CT = "/cf/v1/insert?ddsource=big", "application/json"
		r.Ctx["ddsource"] = "big"
		b.Docs = n
	case "ddm":
		ns := 3 + rnd.Intn(3)
		var items []string
		total := 0
		for s := 0; s < ns; s++ {
			np := 1000 + rnd.Intn(2500) // more than 1000 points per series
			if s == 0 {
				np = 42000 + rnd.Intn(3000) // 26 accounted bytes per point: above 1 MiB
			}
			name := fmt.Sprintf("dd.big%d.%s", s, tag)
			var pts []string
			for q := 0; q < np; q++ {
				ts := int64(1700000000) + int64(s)*100000 + int64(q)
				v := float64(rnd.Intn(100000))/8 - 1000
				pts = append(pts, `{"timestamp":`+strconv.FormatInt(ts, 10)+`,"value":`+strconv.FormatFloat(v, 'g', -1, 64)+`}`)
				if !fault || s < ns-1 {
					b.Exp = append(b.Exp, ERow{Key: fmt.Sprintf("@%d", ts*1000000000), TsNs: ts * 1000000000, Val: v, Type: 2, Subset: true,
						Labels: map[string]string{"__name__": name}, Group: name})
				}
			}
			if fault && s == ns-1 {
				pts = append(pts, `{"timestamp":1700000000,"value":"NaN"}`)
			}
			items = append(items, `{"metric":`+jstr(name)+`,"points":[`+strings.Join(pts, ",")+`]}`)
			total += np
		}
		r.Body = []byte(`{"series":[` + strings.Join(items, ",") + `]}`)
		r.URL, r.CT = "/api/v2/series", "application/json"
		b.Docs = total
	case "doc":
		marker := "BD-" + tag
		doc := longDoc(rnd, marker, 1100000+rnd.Intn(900000))
		r.Body = []byte(doc)
		t := r.targets["t1"]
		r.Ctx["target"], r.Ctx["id"] = t, ""
		r.URL, r.CT = "/"+strings.ReplaceAll(t, "/", "")+"/_doc", "application/json"
		r.URL = "/bigidx/_doc"
		e := ERow{Key: doc, Text: doc, Arrival: true, Type: 1, Labels: map[string]string{"type": "elastic", "_index": t}}
		if via == "route" {
			// the path's target is the subject of the enumerated cases; here only the document itself
			e.Subset, e.Labels = true, map[string]string{"type": "elastic"}
		}
		b.Exp = []ERow{e}
		b.Docs = 1
	}
	for i := range b.Exp {
		if b.Exp[i].Group == "" {
			b.Exp[i].Group = canon(b.Exp[i].Labels)
		}
	}
	b.Req = r
	return b
}

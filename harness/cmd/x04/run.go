package main

import (
	"bytes"
	"context"
	"encoding/json"
	"fmt"
	"math"
	"reflect"
	"runtime"
	"sort"
	"sync/atomic"
	"time"
	"unsafe"

	"github.com/VictoriaMetrics/fastcache"
	"github.com/metrico/qryn/writer/model"
	"github.com/metrico/qryn/writer/plugin"
	"github.com/metrico/qryn/writer/utils/numbercache"
	"github.com/metrico/qryn/writer/utils/unmarshal"
	"verif/harness/e2e"
)

// GRow is a row observed in the parser responses or in samples_v3
type GRow struct {
	Text string
	Fp   uint64
	TsNs int64
	Val  float64
	Type uint8
}

type Observed struct {
	OK      bool // 2xx / no error response
	Code    int
	Err     string
	Rows    []GRow
	Series  map[uint64]map[string]string // label documents by fingerprint
	Chunks  int
	T0, T1  int64
	Ordered bool // Rows are in emission order (parser binding)
	Infra   string
}

// doStarted counts the INSERTs that entered the fake ClickHouse client since the last reset
var doStarted int64

// baseG is the number of goroutines of the quiescent world
var baseG int

type recCache struct{ m map[uint64]bool }

func (c *recCache) CheckAndSet(k uint64) bool {
	if c.m[k] {
		return true
	}
	c.m[k] = true
	return false
}
func (c *recCache) DB(string) numbercache.ICache[uint64] { return c }

var parsers = map[string]unmarshal.ParsingFunction{
	"bulk": unmarshal.ElasticBulkUnmarshalV2,
	"doc":  unmarshal.ElasticDocUnmarshalV2,
	"cf":   unmarshal.UnmarshallDatadogCFJSONV2,
	"ddm":  unmarshal.UnmarshallDatadogMetricsV2JSONV2,
}

func decodeLabels(doc string) (map[string]string, error) {
	var m map[string]string
	if err := json.Unmarshal([]byte(doc), &m); err != nil {
		return nil, err
	}
	dropEmpty(m)
	return m, nil
}

// runParser calls the REAL exported parser function with the context values the controller hands over
func runParser(proto string, r *Request) *Observed {
	ctx := context.Background()
	for k, v := range r.Ctx {
		ctx = context.WithValue(ctx, k, v)
	}
	o := &Observed{OK: true, Series: map[uint64]map[string]string{}, Ordered: true}
	o.T0 = time.Now().UnixNano()
	ch := parsers[proto](ctx, bytes.NewReader(r.Body), &recCache{m: map[uint64]bool{}})
	done := make(chan struct{})
	go func() {
		defer close(done)
		for resp := range ch {
			if resp.Error != nil {
				if o.OK {
					o.OK, o.Err = false, resp.Error.Error()
				}
				continue
			}
			if !o.OK {
				continue // doParse stops reading after the first error
			}
			o.Chunks++
			ts, _ := resp.TimeSeriesRequest.(*model.TimeSeriesData)
			spl, _ := resp.SamplesRequest.(*model.TimeSamplesData)
			if ts == nil || spl == nil {
				o.Infra = "parser response without samples/series request"
				continue
			}
			n := len(spl.MTimestampNS)
			if len(spl.MFingerprint) != n || len(spl.MMessage) != n || len(spl.MValue) != n || len(spl.MType) != n {
				o.Err = "ragged chunk"
				o.OK = false
				continue
			}
			for i := range ts.MLabels {
				m, err := decodeLabels(ts.MLabels[i])
				if err != nil {
					o.Infra = "label document is not JSON: " + ts.MLabels[i]
					continue
				}
				o.Series[ts.MFingerprint[i]] = m
			}
			for i := 0; i < n; i++ {
				o.Rows = append(o.Rows, GRow{Text: spl.MMessage[i], Fp: spl.MFingerprint[i], TsNs: spl.MTimestampNS[i], Val: spl.MValue[i], Type: spl.MType[i]})
			}
		}
	}()
	select {
	case <-done:
	case <-time.After(60 * time.Second):
		o.Infra = "parser did not finish within 60 s"
	}
	o.T1 = time.Now().UnixNano()
	return o
}

func resetCache() {
	c, ok := plugin.GoCache.(*numbercache.Cache[uint64])
	if !ok {
		panic("unexpected cache type")
	}
	f := reflect.ValueOf(c).Elem().FieldByName("sets")
	sets := *(**fastcache.Cache)(unsafe.Pointer(f.UnsafeAddr()))
	sets.Reset()
}

func asU64(v any) uint64 {
	switch x := v.(type) {
	case uint64:
		return x
	case int64:
		return uint64(x)
	case uint8:
		return uint64(x)
	case int8:
		return uint64(x)
	case int:
		return uint64(x)
	}
	panic(fmt.Sprintf("unexpected integer type %T", v))
}

// runRoute sends the request through the REAL writer router of the e2e world and reads back what reached the store
func runRoute(w *e2e.World, r *Request) *Observed {
	o := &Observed{Series: map[uint64]map[string]string{}}
	w.Store.DB.Truncate("samples_v3")
	w.Store.DB.Truncate("time_series")
	resetCache()
	w.CH.Blocks = w.CH.Blocks[:0] // quiescent here: every earlier insert has returned
	atomic.StoreInt64(&doStarted, 0)
	if g := runtime.NumGoroutine(); baseG == 0 || g < baseG {
		baseG = g
	}
	nerr := len(w.StoreErr)
	o.T0 = time.Now().UnixNano()
	code, body := w.Push(r.Method, r.URL, r.CT, r.Body, nil)
	o.T1 = time.Now().UnixNano()
	o.Code = code
	o.OK = code >= 200 && code < 300
	if !o.OK {
		o.Err = body
		if len(o.Err) > 200 {
			o.Err = o.Err[:200]
		}
	}
	// chunks flushed before an error were handed to the insert service by goroutines nobody waits for (doPush): the
	// request is over when those goroutines are gone and every INSERT that entered the fake client has returned
	deadline := time.Now().Add(60 * time.Second)
	for runtime.NumGoroutine() > baseG || int64(len(w.CH.Snapshot())) != atomic.LoadInt64(&doStarted) {
		if time.Now().After(deadline) {
			o.Infra = fmt.Sprintf("request did not settle: %d goroutines (baseline %d)", runtime.NumGoroutine(), baseG)
			return o
		}
		time.Sleep(500 * time.Microsecond)
	}
	if len(w.StoreErr) != nerr {
		o.Infra = "store: " + w.StoreErr[len(w.StoreErr)-1]
		return o
	}
	res, err := w.Store.DB.Query("SELECT fingerprint, timestamp_ns, string, value, type FROM samples_v3")
	if err != nil {
		o.Infra = "store query: " + err.Error()
		return o
	}
	for _, row := range res.Rows {
		o.Rows = append(o.Rows, GRow{Fp: asU64(row[0]), TsNs: int64(asU64(row[1])), Text: row[2].(string), Val: row[3].(float64), Type: uint8(asU64(row[4]))})
	}
	res, err = w.Store.DB.Query("SELECT fingerprint, labels FROM time_series")
	if err != nil {
		o.Infra = "store query: " + err.Error()
		return o
	}
	for _, row := range res.Rows {
		m, err := decodeLabels(row[1].(string))
		if err != nil {
			o.Infra = "label document is not JSON: " + row[1].(string)
			return o
		}
		o.Series[asU64(row[0])] = m
	}
	return o
}

func keyOf(g GRow) string {
	if g.Type == 2 {
		return fmt.Sprintf("@%d", g.TsNs)
	}
	return g.Text
}

func short(s string) string {
	if len(s) > 90 {
		return fmt.Sprintf("%s...(%d bytes)", s[:90], len(s))
	}
	return s
}

// match compares observed rows with expected rows.  prefix: the observed rows may be a prefix of the expected ones.
// Returns "" or (kind, message).
func match(o *Observed, exp []ERow, prefix bool) (string, string) {
	idx := map[string]int{}
	for i, e := range exp {
		if _, dup := idx[e.Key]; dup {
			return "infra", "driver: expected rows do not have unique keys: " + short(e.Key)
		}
		idx[e.Key] = i
	}
	seen := map[int]bool{}
	last := -1
	fpOfGroup := map[string]uint64{}
	groupOfFp := map[uint64]string{}
	for n, g := range o.Rows {
		i, ok := idx[keyOf(g)]
		if !ok {
			return "foreign-row", fmt.Sprintf("row %d %q (labels %v) is none of the expected documents", n, short(g.Text), o.Series[g.Fp])
		}
		if seen[i] {
			return "duplicate", fmt.Sprintf("document %q is stored twice", short(g.Text))
		}
		seen[i] = true
		if o.Ordered {
			if i < last {
				return "order", fmt.Sprintf("row %d is document %d, emitted after document %d", n, i, last)
			}
			last = i
		}
		e := exp[i]
		if g.Text != e.Text {
			return "line", fmt.Sprintf("line text %q, submitted %q", short(g.Text), short(e.Text))
		}
		if g.Type != e.Type {
			return "type", fmt.Sprintf("document %d: sample type %d, expected %d", i, g.Type, e.Type)
		}
		if math.Float64bits(g.Val) != math.Float64bits(e.Val) {
			return "value", fmt.Sprintf("document %d: value %v, submitted %v", i, g.Val, e.Val)
		}
		if e.Arrival {
			if g.TsNs < o.T0 || g.TsNs > o.T1 {
				return "timestamp", fmt.Sprintf("document %d: timestamp %d outside the request's arrival interval [%d, %d]", i, g.TsNs, o.T0, o.T1)
			}
		} else if g.TsNs != e.TsNs {
			return "timestamp", fmt.Sprintf("document %d: timestamp %d, submitted %d", i, g.TsNs, e.TsNs)
		}
		lbl, ok := o.Series[g.Fp]
		if !ok {
			return "series-missing", fmt.Sprintf("document %d: no series row for fingerprint %d (empty cache)", i, g.Fp)
		}
		if e.Subset {
			for k, v := range e.Labels {
				if lbl[k] != v {
					return "labels", fmt.Sprintf("document %d: labels %v lack %s=%q", i, lbl, k, v)
				}
			}
		} else if !reflect.DeepEqual(lbl, e.Labels) {
			return "labels", fmt.Sprintf("document %q: labels %v, expected %v", short(g.Text), lbl, e.Labels)
		}
		if fp, ok := fpOfGroup[e.Group]; ok && fp != g.Fp {
			return "split-series", fmt.Sprintf("documents of one label set carry fingerprints %d and %d", fp, g.Fp)
		}
		fpOfGroup[e.Group] = g.Fp
		if gr, ok := groupOfFp[g.Fp]; ok && gr != e.Group {
			return "merged-series", fmt.Sprintf("documents of different series (%s / %s) share fingerprint %d, labels %v", gr, e.Group, g.Fp, lbl)
		}
		groupOfFp[g.Fp] = e.Group
	}
	if prefix {
		for i := range exp {
			if seen[i] && i > 0 && !seen[i-1] {
				return "not-a-prefix", fmt.Sprintf("document %d is stored, document %d before it is not", i, i-1)
			}
		}
		return "", ""
	}
	if len(seen) != len(exp) {
		var miss []int
		for i := range exp {
			if !seen[i] {
				miss = append(miss, i)
			}
		}
		sort.Ints(miss)
		return "dropped", fmt.Sprintf("%d of %d submitted documents are not stored (first: %q)", len(miss), len(exp), short(exp[miss[0]].Text))
	}
	return "", ""
}

// demanded: what the definition asks of this case
func demanded(c Case, o *Observed, want []ERow, all []string) (string, string) {
	switch c.Cls {
	case "wf":
		if !o.OK {
			return "rejected-wellformed", fmt.Sprintf("well-formed body answered with an error (%d %s)", o.Code, o.Err)
		}
		return match(o, want, false)
	case "fault":
		if o.OK {
			k, m := match(o, want, true)
			if k == "" {
				k, m = "acked-malformed", "a body with a malformed line is acknowledged"
			}
			return k, m
		}
		return match(o, want, true)
	default:
		// structurally malformed bulk bodies: only sanity - every stored row is a submitted line, none twice
		seen := map[string]bool{}
		ok := map[string]bool{}
		for _, t := range all {
			ok[t] = true
		}
		for _, g := range o.Rows {
			if !ok[g.Text] {
				return "foreign-row", fmt.Sprintf("row %q is none of the submitted lines", short(g.Text))
			}
			if seen[g.Text] {
				return "duplicate", fmt.Sprintf("line %q is stored twice", short(g.Text))
			}
			seen[g.Text] = true
		}
		return "", ""
	}
}

func asCoded(c Case, o *Observed, coded []ERow) (string, string) {
	if (c.Status == "done") != o.OK {
		return "status", fmt.Sprintf("as-coded model: %s, observed ok=%v (%d %s)", c.Status, o.OK, o.Code, o.Err)
	}
	return match(o, coded, false)
}

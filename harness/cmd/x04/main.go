// x04 replays the bodies enumerated by TLC from spec/ingest/BulkIngest.tla (Elasticsearch bulk / doc, Cloudflare
// logpush, Datadog metrics) into the REAL code: each abstract body is concretised (hostile strings, key orders,
// number spellings, CRLF, trailing newline or none) and sent either through the exported parser function with the
// context the controller builds ("parser") or through the real writer router of an e2e world down to the store
// ("route").  The rows observed are compared with the rows of the definition (want) and of the as-coded mechanism
// (coded) exported by TLC.  A seeded family of larger bodies crosses the flush thresholds.
//
// usage: x04 -in cases.json -out result.json -seed N -big K
//
// verdict letters per case:  B = satisfies the definition and equals the as-coded model, W = satisfies the definition
// only (a modelled deviation is absent), C = equals the as-coded model only (a modelled deviation shows),
// N = neither.
package main

import (
	"encoding/json"
	"flag"
	"fmt"
	"math/rand"
	"os"
	"sort"
	"strings"
	"sync/atomic"

	"verif/harness/e2e"
	"verif/harness/fakech"
)

type Detail struct {
	Index    int      `json:"index"`
	Verdict  string   `json:"verdict"`
	Proto    string   `json:"proto"`
	Via      string   `json:"via"`
	Cls      string   `json:"cls"`
	Blame    []string `json:"blame"`
	Demanded string   `json:"demanded_kind"`
	DemMsg   string   `json:"demanded_msg"`
	Coded    string   `json:"coded_kind"`
	CodedMsg string   `json:"coded_msg"`
	Request  string   `json:"request"`
	Body     string   `json:"body"`
	BodyLen  int      `json:"body_len"`
	Status   string   `json:"observed_status"`
	Rows     []string `json:"observed_rows"`
	Case     *Case    `json:"case,omitempty"`
	Sig      string   `json:"signature"`
}

func describe(o *Observed) (string, []string) {
	st := fmt.Sprintf("ok=%v code=%d %s", o.OK, o.Code, o.Err)
	var rows []string
	for i, g := range o.Rows {
		if i >= 8 {
			rows = append(rows, fmt.Sprintf("... %d rows", len(o.Rows)))
			break
		}
		rows = append(rows, fmt.Sprintf("ts=%d type=%d value=%v labels=%v text=%s", g.TsNs, g.Type, g.Val, o.Series[g.Fp], short(g.Text)))
	}
	return st, rows
}

func bodyHead(b []byte) string {
	s := string(b)
	if len(s) > 1500 {
		// keep the structure visible: shorten long runs
		s = s[:1500] + "..."
	}
	return s
}

func main() {
	in := flag.String("in", "", "")
	out := flag.String("out", "", "")
	seed := flag.Int64("seed", 1, "")
	nbig := flag.Int("big", 1, "seeded large bodies per (protocol, binding, well-formed|faulty)")
	flag.Parse()
	raw, err := os.ReadFile(*in)
	if err != nil {
		fmt.Fprintln(os.Stderr, err)
		os.Exit(2)
	}
	var cases []Case
	if err := json.Unmarshal(raw, &cases); err != nil {
		fmt.Fprintln(os.Stderr, err)
		os.Exit(2)
	}
	w, err := e2e.New(e2e.Options{NoReader: true, OnDo: func(b *fakech.Block) error { atomic.AddInt64(&doStarted, 1); return nil }})
	if err != nil {
		fmt.Fprintln(os.Stderr, "e2e world:", err)
		os.Exit(2)
	}
	rnd := rand.New(rand.NewSource(*seed))
	verdicts := make([]byte, len(cases))
	var details []Detail
	var infra []string
	sigCount := map[string]int{}
	classes := map[string]int{}
	runs := 0
	shapes := map[string]bool{}
	for ci, c := range cases {
		variants := 1
		if c.Proto == "doc" && c.Rid {
			variants = 3
		}
		worst := byte('B')
		for v := 0; v < variants; v++ {
			req := concretise(c, rnd, v)
			var o *Observed
			if c.Via == "parser" {
				o = runParser(c.Proto, req)
			} else {
				o = runRoute(w, req)
			}
			runs++
			if o.Infra != "" {
				infra = append(infra, fmt.Sprintf("case %d (%s/%s): %s", ci, c.Proto, c.Via, o.Infra))
				continue
			}
			want, coded := expect(c, req, c.Want), expect(c, req, c.Coded)
			var all []string
			for _, t := range req.lineText {
				all = append(all, t)
			}
			dk, dm := demanded(c, o, want, all)
			ck, cm := asCoded(c, o, coded)
			if dk == "infra" || ck == "infra" {
				infra = append(infra, fmt.Sprintf("case %d: %s %s", ci, dm, cm))
				continue
			}
			var vd byte
			switch {
			case dk == "" && ck == "":
				vd = 'B'
			case dk == "":
				vd = 'W'
			case ck == "":
				vd = 'C'
			default:
				vd = 'N'
			}
			if vd != 'B' {
				bl := append([]string{}, c.Blame...)
				sort.Strings(bl)
				sig := fmt.Sprintf("%c|%s|%s|%s|%s|%s|%s", vd, c.Proto, c.Via, c.Cls, strings.Join(bl, "+"), dk, ck)
				sigCount[sig]++
				if sigCount[sig] <= 2 {
					st, rows := describe(o)
					cc := c
					details = append(details, Detail{Index: ci, Verdict: string(vd), Proto: c.Proto, Via: c.Via, Cls: c.Cls, Blame: bl, Demanded: dk, DemMsg: dm,
						Coded: ck, CodedMsg: cm, Request: fmt.Sprintf("%s %s ctx=%v", req.Method, req.URL, req.Ctx), Body: bodyHead(req.Body), BodyLen: len(req.Body),
						Status: st, Rows: rows, Case: &cc, Sig: sig})
				}
			}
			rank := map[byte]int{'B': 0, 'W': 1, 'C': 2, 'N': 3}
			if rank[vd] > rank[worst] {
				worst = vd
			}
		}
		verdicts[ci] = worst
		classes[c.Proto+"/"+c.Via+"/"+c.Cls]++
		sb, _ := json.Marshal(c.Body)
		shapes[c.Proto+string(sb)] = true
	}

	// seeded larger bodies
	type BigRes struct {
		Proto, Via string
		Fault      bool
		Docs       int
		Bytes      int
		Chunks     int
		Stored     int
		OK         bool
		Kind, Msg  string
	}
	var bigs []BigRes
	for _, proto := range []string{"bulk", "cf", "ddm", "doc"} {
		for _, via := range []string{"parser", "route"} {
			for _, fault := range []bool{false, true} {
				if proto == "doc" && fault {
					continue
				}
				for k := 0; k < *nbig; k++ {
					b := bigCase(proto, via, fault, rnd)
					var o *Observed
					if via == "parser" {
						o = runParser(proto, b.Req)
					} else {
						o = runRoute(w, b.Req)
					}
					runs++
					if o.Infra != "" {
						infra = append(infra, fmt.Sprintf("big %s/%s: %s", proto, via, o.Infra))
						continue
					}
					br := BigRes{Proto: proto, Via: via, Fault: fault, Docs: b.Docs, Bytes: len(b.Req.Body), Chunks: o.Chunks, Stored: len(o.Rows), OK: o.OK}
					if fault {
						if o.OK {
							br.Kind, br.Msg = "acked-malformed", "a large body with a malformed line is acknowledged"
						} else {
							br.Kind, br.Msg = match(o, b.Exp, true)
						}
					} else if !o.OK {
						br.Kind, br.Msg = "rejected-wellformed", fmt.Sprintf("well-formed large body answered with an error (%d %s)", o.Code, o.Err)
					} else {
						br.Kind, br.Msg = match(o, b.Exp, false)
					}
					if br.Kind == "infra" {
						infra = append(infra, br.Msg)
						continue
					}
					bigs = append(bigs, br)
				}
			}
		}
	}
	w.Close()
	res := map[string]any{
		"runs": runs, "cases": len(cases), "distinct_shapes": len(shapes), "verdicts": string(verdicts), "details": details,
		"signature_counts": sigCount, "classes": classes, "infra": infra, "big": bigs,
	}
	b, _ := json.MarshalIndent(res, "", " ")
	if *out != "" {
		os.WriteFile(*out, b, 0644)
	} else {
		fmt.Println(string(b))
	}
}

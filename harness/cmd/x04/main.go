package main

import (
	"fmt"
	"os"
	"strings"

	"verif/harness/e2e"
)

func dump(w *e2e.World) {
	for _, q := range []string{"SELECT fingerprint, timestamp_ns, string, value, type FROM samples_v3 ORDER BY timestamp_ns", "SELECT toUInt64(date), fingerprint, labels, type FROM time_series"} {
		r, err := w.Store.DB.Query(q)
		if err != nil {
			fmt.Println("ERR", err)
			continue
		}
		for _, row := range r.Rows {
			fmt.Printf("   %v\n", row)
		}
	}
	w.Store.DB.Truncate("samples_v3")
	w.Store.DB.Truncate("time_series")
}

func main() {
	w, err := e2e.New(e2e.Options{NoReader: true})
	if err != nil {
		fmt.Println(err)
		os.Exit(2)
	}
	type P struct{ m, p, ct, b string }
	long := strings.Repeat("x", 70000)
	for _, p := range []P{
		{"POST", "/idx1/_doc", "application/json", `{"message":"hello","@timestamp":"2023-01-01T00:00:00Z"}`},
		{"PUT", "/idx1/_doc/7", "application/json", `{"message":"hello2"}`},
		{"POST", "/idx1/_create/8", "application/json", `{"message":"hello3"}`},
		{"POST", "/idx1/_bulk", "application/x-ndjson", "{\"index\":{\"_index\":\"other\",\"_id\":\"1\"}}\n{\"m\":\"a\"}\n{\"delete\":{\"_id\":\"2\"}}\n{\"create\":{}}\r\n{\"m\":\"b\"}\r\n\n{\"update\":{\"_id\":\"3\"}}\n{\"doc\":{\"m\":\"c\"}}\n"},
		{"POST", "/_bulk", "application/x-ndjson", "{\"index\":{\"_index\":\"t1\"}}\n{\"m\":\"a\"}\n{\"index\":{\"_index\":\"t2\"}}\n{\"m\":\"b\"}"},
		{"POST", "/_bulk", "application/x-ndjson", "{\"index\":{\"_index\":\"t1\"}}\n{\"m\":\"a\"}\n{\"index\":{\"_index\":\"t2\"}}\n{\"m\":\"" + long + "\"}\n{\"index\":{\"_index\":\"t1\"}}\n{\"m\":\"c\"}\n"},
		{"POST", "/_bulk", "application/x-ndjson", "{\"index\":{\"_index\":\"t1\"}}\n{\"m\":\"a\"}\n{\"index\":{\"_index\":\"t2\"}}\n{\"delete\":\"x\",\"m\":\"b\"}\n{\"index\":{\"_index\":\"t1\"}}\n{\"index\":\"c\"}\n"},
		{"POST", "/_bulk", "application/x-ndjson", "{\"index\":{\"_index\":\"t1\"}}\n{\"m\":\"a\"}\n{\"index\":{\"_index\":\"t2\"}}\n{\"m\":\n{\"index\":{\"_index\":\"t1\"}}\n{\"m\":\"c\"}\n"},
		{"POST", "/cf/v1/insert?ddsource=cfx", "application/json", "{\"EventTimestampMs\":1700000000123,\"ScriptName\":\"s\",\"Outcome\":\"ok\"}\n{\"When\":1700000000123456789,\"ActionType\":\"a\",\"ActionResult\":true}\r\n{\"ScriptName\":\"t\"}"},
		{"POST", "/cf/v1/insert", "application/json", "{\"EventTimestampMs\":1700000000123,\"ScriptName\":\"s\"}\n\n{\"ScriptName\":\"t\"}"},
		{"POST", "/api/v2/series", "application/json", `{"series":[{"metric":"m.a","type":3,"points":[{"timestamp":1700000000,"value":1.5},{"value":2,"timestamp":1700000010}],"resources":[{"name":"h1","type":"host"}],"tags":["env:prod"]},{"metric":"m.a","points":[{"timestamp":1700000000,"value":7}],"resources":[{"name":"h1","type":"host"}],"tags":["env:dev"]}]}`},
	} {
		code, body := w.Push(p.m, p.p, p.ct, []byte(p.b), nil)
		pb := p.b
		if len(pb) > 200 {
			pb = pb[:200] + "..."
		}
		fmt.Printf("%s %s %q -> %d %s\n", p.m, p.p, pb, code, body)
		dump(w)
	}
}

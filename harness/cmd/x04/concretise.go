package main

import (
	"encoding/json"
	"fmt"
	"math/rand"
	"net/url"
	"strconv"
	"strings"
)

// ---- abstract cases as exported by TLC (spec/ingest/MC_BulkIngest.tla) ----

type Line struct {
	K    string `json:"k"`
	Idx  string `json:"idx"`
	ID   bool   `json:"id"`
	Ts   string `json:"ts"`
	Lab  int    `json:"lab"`
	Name int    `json:"name"`
	Tags int    `json:"tags"`
	N    int    `json:"n"`
}

type ARow struct {
	Line int    `json:"line"`
	Sub  int    `json:"sub"`
	Act  int    `json:"act"`
	Tgt  string `json:"tgt"`
	K    int    `json:"k"`
	Ts   string `json:"ts"`
}

type Case struct {
	Proto  string   `json:"proto"`
	Via    string   `json:"via"`
	Path   string   `json:"path"`
	Rid    bool     `json:"rid"`
	Body   []Line   `json:"body"`
	Cls    string   `json:"cls"`
	Want   []ARow   `json:"want"`
	Status string   `json:"status"`
	Coded  []ARow   `json:"coded"`
	Chunks int      `json:"chunks"`
	Blame  []string `json:"blame"`
}

// ---- concrete expectation ----

type ERow struct {
	Key     string            // identity of the submitted document / point (unique within a request)
	Text    string            // expected line text
	Labels  map[string]string // expected labels (ddm: required subset)
	Subset  bool              // Labels is a lower bound (ddm)
	Group   string            // rows with equal Group must share a fingerprint, others must not
	Arrival bool
	TsNs    int64
	Val     float64
	Type    uint8
}

type Request struct {
	Method, URL, CT string
	Ctx             map[string]string // parser binding: the values the controller puts into the context
	Body            []byte
	lineText        map[int]string            // concrete text of body line j (1-based)
	meta            map[int]map[string]string // bulk: string metadata of action line j
	pointTs         map[[2]int]int64
	pointVal        map[[2]int]float64
	seriesRes       map[int]map[string]string
	seriesName      map[int]string
	cfLabels        map[int]map[string]string
	cfTs            map[int]int64
	ddsource        string
	targets         map[string]string
	docID           string
}

var hostile = []string{
	`plain`, `he said "hi"`, `back\slash\\two`, "tab\tand\nnewline", `ünï-码-😀`, `{"nested":"json"}`, `a:b,c=d`, `  spaces  `, `'single'`, `</script>`, `%41%0a`,
}

func jstr(s string) string { b, _ := json.Marshal(s); return string(b) }

// jstrEsc renders a string with gratuitous \u escapes (a different, equally valid spelling)
func jstrEsc(s string, rnd *rand.Rand) string {
	if rnd.Intn(3) != 0 {
		return jstr(s)
	}
	var sb strings.Builder
	sb.WriteByte('"')
	for _, r := range s {
		switch {
		case r == '"' || r == '\\' || r < 0x20:
			sb.WriteString(fmt.Sprintf(`\u%04x`, r))
		case r < 0x7f && rnd.Intn(4) == 0:
			sb.WriteString(fmt.Sprintf(`\u%04x`, r))
		case r > 0xffff:
			r -= 0x10000
			sb.WriteString(fmt.Sprintf(`\u%04x\u%04x`, 0xd800+(r>>10), 0xdc00+(r&0x3ff)))
		case r >= 0x7f && rnd.Intn(2) == 0:
			sb.WriteString(fmt.Sprintf(`\u%04x`, r))
		default:
			sb.WriteRune(r)
		}
	}
	sb.WriteByte('"')
	return sb.String()
}

func pick(rnd *rand.Rand, xs []string) string { return xs[rnd.Intn(len(xs))] }

func sp(rnd *rand.Rand) string {
	if rnd.Intn(4) == 0 {
		return " "
	}
	return ""
}

// obj renders a JSON object from rendered members in the given order with optional inner whitespace (never a newline)
func obj(rnd *rand.Rand, members []string) string {
	return "{" + sp(rnd) + strings.Join(members, sp(rnd)+","+sp(rnd)) + sp(rnd) + "}"
}

func member(rnd *rand.Rand, k, renderedVal string) string {
	return jstr(k) + sp(rnd) + ":" + sp(rnd) + renderedVal
}

var tsForms = []string{`"2023-11-14T22:13:20Z"`, `"2023-11-14T22:13:20.123456789+01:00"`, `1700000000`, `1700000000123`, `"1700000000123456789"`, `1.7e9`}

// docMembers: a document with a unique marker, hostile strings, numbers in several spellings and a timestamp field
func docMembers(rnd *rand.Rand, marker string, pad int) []string {
	ms := []string{member(rnd, "u", jstr(marker))}
	ms = append(ms, member(rnd, "message", jstrEsc(pick(rnd, hostile), rnd)))
	if rnd.Intn(2) == 0 {
		ms = append(ms, member(rnd, "@timestamp", pick(rnd, tsForms)))
	}
	if rnd.Intn(2) == 0 {
		ms = append(ms, member(rnd, "n", pick(rnd, []string{"1", "-7", "1.5", "1e3", `"42"`, "true", "null", "[1,[2,{\"a\":\"]}\"}]]", `{"deep":{"x":"}{"}}`})))
	}
	if rnd.Intn(3) == 0 {
		ms = append(ms, member(rnd, pick(rnd, []string{"type", "_index", "_id", "doc", "labels"}), jstr(pick(rnd, hostile))))
	}
	if pad > 0 {
		ms = append(ms, member(rnd, "pad", jstr(strings.Repeat("x", pad))))
	}
	rnd.Shuffle(len(ms), func(a, b int) { ms[a], ms[b] = ms[b], ms[a] })
	return ms
}

func insertAt(rnd *rand.Rand, ms []string, m string) []string {
	p := rnd.Intn(len(ms) + 1)
	res := append([]string{}, ms[:p]...)
	res = append(res, m)
	return append(res, ms[p:]...)
}

// padTo pads a rendered one-member-extended document so that the line has exactly n bytes
func longDoc(rnd *rand.Rand, marker string, n int) string {
	base := obj(rnd, docMembers(rnd, marker, 1))
	return strings.Replace(base, `"x"`, `"`+strings.Repeat("x", n-len(base)+1)+`"`, 1)
}

func targetPool(rnd *rand.Rand) map[string]string {
	a := []string{"logs-app", "idx_1", `t"1\x`, "Ünï-索引", "a b", "with%25pct", "UPPER.lower-2023.11.14"}
	rnd.Shuffle(len(a), func(i, j int) { a[i], a[j] = a[j], a[i] })
	return map[string]string{"t1": a[0], "t2": a[1], "none": ""}
}

func eol(rnd *rand.Rand) (string, bool) {
	return pick(rnd, []string{"\n", "\n", "\r\n"}), rnd.Intn(2) == 0
}

func joinLines(lines []string, nl string, trailing bool) []byte {
	if len(lines) == 0 {
		return nil
	}
	s := strings.Join(lines, nl)
	// a final blank line exists only if its end-of-line marker does
	if (trailing || lines[len(lines)-1] == "") && len(lines) > 0 {
		s += nl
	}
	return []byte(s)
}

func badLine(rnd *rand.Rand) string {
	return pick(rnd, []string{`{"m":`, `{"m" "x"}`, `{"index":{"_index":"t"`, `{"a":"unterminated}`, `{"k":tru}`})
}

func concretise(c Case, rnd *rand.Rand, variant int) *Request {
	r := &Request{Ctx: map[string]string{}, lineText: map[int]string{}, meta: map[int]map[string]string{}, pointTs: map[[2]int]int64{},
		pointVal: map[[2]int]float64{}, seriesName: map[int]string{}, seriesRes: map[int]map[string]string{}, cfLabels: map[int]map[string]string{}, cfTs: map[int]int64{}}
	r.targets = targetPool(rnd)
	tag := fmt.Sprintf("%06x", rnd.Intn(1<<24))
	switch c.Proto {
	case "bulk":
		var lines []string
		for j0, l := range c.Body {
			j := j0 + 1
			marker := fmt.Sprintf("L%d-%s", j, tag)
			var s string
			switch l.K {
			case "index", "create", "delete", "update":
				var ms []string
				meta := map[string]string{}
				if l.Idx != "none" && l.Idx != "" {
					ms = append(ms, member(rnd, "_index", jstrEsc(r.targets[l.Idx], rnd)))
				}
				if l.ID {
					id := pick(rnd, hostile) + "#" + marker
					ms = append(ms, member(rnd, "_id", jstrEsc(id, rnd)))
					meta["_id"] = id
					if rnd.Intn(2) == 0 {
						v := pick(rnd, hostile)
						k := pick(rnd, []string{"routing", "pipeline", "_type"})
						ms = append(ms, member(rnd, k, jstr(v)))
						meta[k] = v
					}
					if rnd.Intn(2) == 0 { // non-string metadata is not a label; "type" is reserved
						ms = append(ms, member(rnd, pick(rnd, []string{"require_alias", "if_seq_no", "retry_on_conflict"}), pick(rnd, []string{"false", "3", "null", `{"a":"b"}`, `["x"]`})))
					}
					if rnd.Intn(3) == 0 {
						ms = append(ms, member(rnd, "type", jstr("other")))
					}
				}
				if l.K == "delete" || l.K == "update" {
					ms = append(ms, member(rnd, "_id", jstr("d"+marker)))
					if rnd.Intn(2) == 0 {
						ms = append(ms, member(rnd, "_index", jstr(r.targets["t2"])))
					}
				}
				rnd.Shuffle(len(ms), func(a, b int) { ms[a], ms[b] = ms[b], ms[a] })
				s = obj(rnd, []string{member(rnd, l.K, obj(rnd, ms))})
				r.meta[j] = meta
			case "doc":
				pad := 0
				if rnd.Intn(25) == 0 {
					pad = 30000 + rnd.Intn(34000) // a very long value, still below the scanner's token limit
				}
				ms := docMembers(rnd, marker, pad)
				if j > 1 && c.Body[j0-1].K == "update" && rnd.Intn(2) == 0 {
					ms = insertAt(rnd, ms, member(rnd, "doc", `{"f":1}`))
				}
				s = obj(rnd, ms)
			case "long":
				s = longDoc(rnd, marker, 65537+rnd.Intn(6000))
			case "kdel":
				s = obj(rnd, insertAt(rnd, docMembers(rnd, marker, 0), member(rnd, pick(rnd, []string{"delete", "update"}), pick(rnd, []string{`"soon"`, `true`, `{"by":"x"}`, `3`}))))
			case "kobj":
				s = obj(rnd, insertAt(rnd, docMembers(rnd, marker, 0), member(rnd, pick(rnd, []string{"index", "create"}), pick(rnd, []string{`{}`, `{"n":1}`, `{"deep":{"a":"b"}}`}))))
			case "kstr":
				s = obj(rnd, insertAt(rnd, docMembers(rnd, marker, 0), member(rnd, pick(rnd, []string{"index", "create"}), pick(rnd, []string{`"x"`, `7`, `true`, `["a"]`}))))
			case "bad":
				s = badLine(rnd)
			case "blank":
				s = ""
			}
			if s != "" && l.K != "bad" && rnd.Intn(4) == 0 { // surrounding whitespace is part of the line as sent
				s = pick(rnd, []string{" ", "\t", "  "}) + s + pick(rnd, []string{" ", "\t ", ""})
			}
			r.lineText[j] = s
			lines = append(lines, s)
		}
		nl, tr := eol(rnd)
		r.Body = joinLines(lines, nl, tr)
		r.Method, r.CT = "POST", pick(rnd, []string{"application/x-ndjson", "application/json", ""})
		r.Ctx["target"] = r.targets[c.Path]
		if c.Path == "none" {
			r.URL = "/_bulk"
		} else {
			r.URL = "/" + url.PathEscape(r.targets[c.Path]) + "/_bulk"
		}
	case "doc":
		marker := "D-" + tag
		var s string
		switch c.Body[0].K {
		case "doc":
			s = obj(rnd, docMembers(rnd, marker, 0))
			if rnd.Intn(2) == 0 { // pretty-printed over several lines, trailing newline: stored verbatim
				s = strings.Replace(s, ",", ",\r\n  ", 1) + "\n"
			}
		case "kdel":
			s = obj(rnd, insertAt(rnd, docMembers(rnd, marker, 0), member(rnd, "delete", `"x"`)))
		case "long":
			s = longDoc(rnd, marker, 70000+rnd.Intn(200000))
		case "bad":
			s = `{"u":` + jstr(marker) + `,"m":`
		case "blank":
			s = ""
		}
		r.lineText[1] = s
		r.Body = []byte(s)
		r.CT = pick(rnd, []string{"application/json", ""})
		t := r.targets[c.Path]
		r.Ctx["target"] = t
		r.Ctx["id"] = ""
		if c.Rid {
			r.docID = pick(rnd, []string{"7", "abc-" + tag, `i"d\`, "Üñ索"})
			r.Ctx["id"] = r.docID
			switch variant % 3 {
			case 0:
				r.Method, r.URL = "PUT", "/"+url.PathEscape(t)+"/_doc/"+url.PathEscape(r.docID)
			case 1:
				r.Method, r.URL = "POST", "/"+url.PathEscape(t)+"/_create/"+url.PathEscape(r.docID)
			case 2:
				r.Method, r.URL = "PUT", "/"+url.PathEscape(t)+"/_create/"+url.PathEscape(r.docID)
			}
		} else {
			r.Method, r.URL = "POST", "/"+url.PathEscape(t)+"/_doc"
		}
	case "cf":
		var lines []string
		base := int64(1700000000)
		for j0, l := range c.Body {
			j := j0 + 1
			marker := fmt.Sprintf("L%d-%s", j, tag)
			var s string
			switch l.K {
			case "ev", "long":
				lbl := map[string]string{}
				var ms []string
				add := func(k, v string) {
					lbl[k] = v
					ms = append(ms, member(rnd, k, jstrEsc(v, rnd)))
				}
				if l.Lab == 1 {
					add("ScriptName", "worker-"+pick(rnd, hostile[:6]))
					add("Outcome", "ok")
					if rnd.Intn(2) == 0 {
						add("EventType", "fetch")
					}
				} else {
					add("ActionType", pick(rnd, hostile[:6]))
					add("ActorType", "user")
					if rnd.Intn(2) == 0 {
						add("ResourceType", "zone")
					}
					b := rnd.Intn(2) == 0
					ms = append(ms, member(rnd, "ActionResult", strconv.FormatBool(b)))
					lbl["ActionResult"] = strconv.FormatBool(b)
				}
				switch l.Ts {
				case "ms":
					v := base*1000 + int64(j)*1000 + int64(rnd.Intn(1000))
					ms = append(ms, member(rnd, "EventTimestampMs", strconv.FormatInt(v, 10)))
					r.cfTs[j] = v * 1000000
				case "when":
					v := base*1000000000 + int64(j)*1000000000 + int64(rnd.Intn(1000000000))
					ms = append(ms, member(rnd, "When", strconv.FormatInt(v, 10)))
					r.cfTs[j] = v
				default:
					if rnd.Intn(2) == 0 { // a timestamp the decoder does not take: a string
						ms = append(ms, member(rnd, "EventTimestampMs", `"1700000000123"`))
					}
				}
				ms = append(ms, member(rnd, "u", jstr(marker)))
				if rnd.Intn(2) == 0 {
					ms = append(ms, member(rnd, "Logs", `[{"Level":"log","Message":[`+jstr(pick(rnd, hostile))+`]}]`))
				}
				if rnd.Intn(3) == 0 {
					ms = append(ms, member(rnd, "Outcome2", `{"ScriptName":"inner"}`))
				}
				if l.K == "long" {
					ms = append(ms, member(rnd, "pad", jstr(strings.Repeat("y", 65537+rnd.Intn(5000)))))
				} else if rnd.Intn(25) == 0 {
					ms = append(ms, member(rnd, "pad", jstr(strings.Repeat("y", 30000+rnd.Intn(34000)))))
				}
				rnd.Shuffle(len(ms), func(a, b int) { ms[a], ms[b] = ms[b], ms[a] })
				s = obj(rnd, ms)
				r.cfLabels[j] = lbl
			case "bad":
				s = badLine(rnd)
			case "blank":
				s = ""
			}
			if s != "" && l.K == "ev" && rnd.Intn(4) == 0 {
				s = pick(rnd, []string{" ", "\t", "  "}) + s + pick(rnd, []string{" ", "\t ", ""})
			}
			r.lineText[j] = s
			lines = append(lines, s)
		}
		nl, tr := eol(rnd)
		r.Body = joinLines(lines, nl, tr)
		r.Method, r.CT, r.URL = "POST", pick(rnd, []string{"application/json", "application/x-ndjson", ""}), "/cf/v1/insert"
		r.ddsource = "unknown"
		if c.Path != "none" {
			r.ddsource = pick(rnd, []string{"cloudflare", `cf "x"`, "ünï&a=b"})
			r.URL += "?ddsource=" + url.QueryEscape(r.ddsource)
		}
		r.Ctx["ddsource"] = r.ddsource
	case "ddm":
		var items []string
		base := int64(1700000000)
		vals := []string{"1", "-7", "1.5", "-2.25e3", "1E2", "0", "1.7976931348623157e308", "5e-324", "123456789012345678", "0.1"}
		for j0, l := range c.Body {
			j := j0 + 1
			if l.K == "bad" {
				items = append(items, pick(rnd, []string{
					`{"metric":"dd.bad","points":[{"timestamp":1700000000,"value":"1.5"}]}`,
					`{"metric":"dd.bad","points":[{"timestamp":"1700000000","value":1}]}`,
					`{"metric":"dd.bad","points":[{"timestamp":1700000000,"value":1}`,
					`{"metric":"dd.bad","points":{"timestamp":1700000000,"value":1}}`}))
				continue
			}
			var pts []string
			for q := 1; q <= l.N; q++ {
				ts := base + int64(j)*1000 + int64(q)
				vs := pick(rnd, vals)
				v, _ := strconv.ParseFloat(vs, 64)
				r.pointTs[[2]int{j, q}] = ts * 1000000000
				r.pointVal[[2]int{j, q}] = v
				pm := []string{member(rnd, "timestamp", strconv.FormatInt(ts, 10)), member(rnd, "value", vs)}
				if rnd.Intn(2) == 0 {
					pm[0], pm[1] = pm[1], pm[0]
				}
				pts = append(pts, obj(rnd, pm))
			}
			res := map[string]string{"resource1_name": "host-" + pick(rnd, hostile[:5]), "resource1_type": "host"}
			r.seriesRes[j] = res
			r.seriesName[j] = fmt.Sprintf("dd.m%d.%s", l.Name, tag)
			ms := []string{
				member(rnd, "metric", jstr(r.seriesName[j])),
				member(rnd, "points", "["+strings.Join(pts, ",")+"]"),
				member(rnd, "resources", "["+obj(rnd, []string{member(rnd, "name", jstrEsc(res["resource1_name"], rnd)), member(rnd, "type", `"host"`)})+"]"),
			}
			// same resources for every series of the request with the same name: only name and tags tell series apart
			for h := 1; h < j; h++ {
				if c.Body[h-1].K == "ser" && c.Body[h-1].Name == l.Name {
					r.seriesRes[j] = r.seriesRes[h]
					ms[2] = member(rnd, "resources", "["+obj(rnd, []string{member(rnd, "name", jstr(r.seriesRes[h]["resource1_name"])), member(rnd, "type", `"host"`)})+"]")
					break
				}
			}
			switch l.Tags {
			case 1:
				ms = append(ms, member(rnd, "tags", `["env:prod","team:a"]`))
			case 2:
				ms = append(ms, member(rnd, "tags", `["env:dev"]`))
			}
			if rnd.Intn(2) == 0 {
				ms = append(ms, member(rnd, "type", pick(rnd, []string{"0", "1", "3"})), member(rnd, "unit", `"byte"`))
			}
			rnd.Shuffle(len(ms), func(a, b int) { ms[a], ms[b] = ms[b], ms[a] })
			items = append(items, obj(rnd, ms))
		}
		top := []string{member(rnd, "series", "["+strings.Join(items, sp(rnd)+","+sp(rnd))+"]")}
		if rnd.Intn(3) == 0 {
			top = insertAt(rnd, top, member(rnd, "meta", `{"series":"x"}`))
		}
		r.Body = []byte(obj(rnd, top))
		r.Method, r.CT, r.URL = "POST", "application/json", "/api/v2/series"
	}
	return r
}

// expect turns abstract rows (of the definition or of the as-coded mechanism) into concrete expected rows
func expect(c Case, r *Request, rows []ARow) []ERow {
	var res []ERow
	for _, a := range rows {
		e := ERow{Type: 1}
		switch c.Proto {
		case "bulk":
			e.Text = r.lineText[a.Line]
			e.Key = e.Text
			e.Arrival = true
			e.Labels = map[string]string{"type": "elastic"}
			if a.Tgt != "none" {
				e.Labels["_index"] = r.targets[a.Tgt]
			}
			for k, v := range r.meta[a.Act] {
				if k != "_index" && k != "type" {
					e.Labels[k] = v
				}
			}
		case "doc":
			e.Text = r.lineText[1]
			e.Key = e.Text
			e.Arrival = true
			e.Labels = map[string]string{"type": "elastic"}
			if a.Tgt != "none" {
				e.Labels["_index"] = r.targets[a.Tgt]
			}
			if a.Act == 1 {
				e.Labels["_id"] = r.docID
			}
		case "cf":
			e.Text = r.lineText[a.Line]
			e.Key = e.Text
			e.Labels = map[string]string{"ddsource": r.ddsource}
			for k, v := range r.cfLabels[a.Line] {
				e.Labels[k] = v
			}
			if a.Ts == "arrival" {
				e.Arrival = true
			} else {
				e.TsNs = r.cfTs[a.Line]
			}
		case "ddm":
			e.Type = 2
			e.TsNs = r.pointTs[[2]int{a.Line, a.Sub}]
			e.Val = r.pointVal[[2]int{a.Line, a.Sub}]
			e.Key = fmt.Sprintf("@%d", e.TsNs)
			e.Subset = true
			e.Labels = map[string]string{"__name__": r.seriesName[a.Line]}
			for k, v := range r.seriesRes[a.Line] {
				e.Labels[k] = v
			}
			e.Group = fmt.Sprintf("k%d", a.K)
		}
		dropEmpty(e.Labels)
		if e.Group == "" {
			e.Group = canon(e.Labels)
		}
		res = append(res, e)
	}
	return res
}

func dropEmpty(m map[string]string) {
	for k, v := range m {
		if v == "" {
			delete(m, k)
		}
	}
}

func canon(m map[string]string) string {
	b, _ := json.Marshal(m) // encoding/json sorts map keys
	return string(b)
}

// c01replay steps TLC-generated behaviours of spec/ingest/Batcher.tla (module MC_BatcherReplay)
// through the REAL insert services (impl.NewTimeSeriesInsertService / NewSamplesInsertService over the
// gated fake ClickHouse client) and compares the projected state after every action.
//
// usage: c01replay -in behaviours.json -out result.json [-seed N] [-par 16]
package main

import (
	"encoding/json"
	"flag"
	"fmt"
	"math/rand"
	"os"
	"regexp"
	"strconv"
	"strings"
	"sync"
	"time"

	"github.com/metrico/qryn/writer/model"
	"github.com/metrico/qryn/writer/service"
	"github.com/metrico/qryn/writer/service/impl"
	"github.com/metrico/qryn/writer/utils/helpers"
	"verif/harness/fakech"
	"verif/harness/wworld"
)

const rowSize = 10
const waitT = 5 * time.Second

type Portion struct {
	Res  [][]any `json:"res"`
	Rows [][]any `json:"rows"`
}

type State struct {
	Hst      map[string]string   `json:"hst"`
	Status   map[string]string   `json:"status"`
	Nrows    map[string]int      `json:"nrows"`
	Pst      map[string]string   `json:"pst"`
	Att      map[string]int      `json:"att"`
	Prom     map[string][]string `json:"prom"`
	Results  map[string][][]any  `json:"results"`
	Batch    map[string][][]any  `json:"batch"`
	Size     map[string]int      `json:"size"`
	Flush    map[string]bool     `json:"flush"`
	Client   map[string]bool     `json:"client"`
	Wpc      map[string]string   `json:"wpc"`
	Portion  map[string]Portion  `json:"portion"`
	Inserted [][]any             `json:"inserted"`
}

type Step struct {
	Action string `json:"action"`
	Args   []any  `json:"args"`
	State  State  `json:"state"`
}

type Input struct {
	Consts struct {
		MaxQueue    int `json:"MaxQueue"`
		MaxAttempts int `json:"MaxAttempts"`
	} `json:"consts"`
	Behaviours [][]Step `json:"behaviours"`
}

type Violation struct {
	Behaviour int    `json:"behaviour"`
	Step      int    `json:"step"`
	Action    string `json:"action"`
	Kind      string `json:"kind"` // "property" (C01/C02 observation) or "conformance"
	Property  string `json:"property"`
	Msg       string `json:"msg"`
}

type Output struct {
	Behaviours int            `json:"behaviours"`
	Steps      int            `json:"steps"`
	Actions    map[string]int `json:"actions"`
	Blocks     int            `json:"blocks"`
	BlockRows  int            `json:"block_rows"`
	ConnFails  int            `json:"conn_fails_injected"`
	Violations []Violation    `json:"violations"`
	Infra      []string       `json:"infra"`
}

// keyOf turns a TLA tuple (decoded as []any) into "a/b".
func keyOf(v any) string {
	switch x := v.(type) {
	case []any:
		parts := make([]string, len(x))
		for i, e := range x {
			parts[i] = keyOf(e)
		}
		return strings.Join(parts, "/")
	case float64:
		return strconv.Itoa(int(x))
	case string:
		return x
	}
	return fmt.Sprint(v)
}

// rowKey: row <<p, i>> = [[r, s], i] -> "r/s/i"
func rowKeys(rows [][]any) []string {
	res := make([]string, len(rows))
	for i, r := range rows {
		res[i] = keyOf([]any(r))
	}
	return res
}

type run struct {
	in      *Input
	bi      int
	rnd     *rand.Rand
	workers map[string]*wworld.Worker // "ts/1"
	svcs    map[string]service.IInsertServiceV2
	reqs    map[string]helpers.SizeGetter // push key "r/s"
	waiters map[string]*wworld.Waiter     // promise key "r/s/att"
	out     *Output
	mu      *sync.Mutex
}

var reRow = regexp.MustCompile(`row=([A-Za-z0-9]+/[a-z]+/[0-9]+);`)

func mkReq(r, s string, n int) helpers.SizeGetter {
	switch s {
	case "spl":
		d := &model.TimeSamplesData{Size: n * rowSize}
		for i := 1; i <= n; i++ {
			id := fmt.Sprintf("row=%s/%s/%d;", r, s, i)
			d.MFingerprint = append(d.MFingerprint, uint64(len(id)*1000+i))
			d.MTimestampNS = append(d.MTimestampNS, int64(1700000000000000000+i))
			d.MMessage = append(d.MMessage, id)
			d.MValue = append(d.MValue, float64(i))
			d.MType = append(d.MType, 1)
			d.MTTLDays = append(d.MTTLDays, 0)
		}
		return d
	case "ts":
		d := &model.TimeSeriesData{Size: n * rowSize}
		for i := 1; i <= n; i++ {
			id := fmt.Sprintf("row=%s/%s/%d;", r, s, i)
			d.MDate = append(d.MDate, time.Unix(1700000000, 0).UTC().Truncate(24*time.Hour))
			d.MLabels = append(d.MLabels, `{"id":"`+id+`"}`)
			d.MFingerprint = append(d.MFingerprint, uint64(i))
			d.MType = append(d.MType, 1)
			d.MTTLDays = append(d.MTTLDays, 0)
		}
		return d
	}
	panic("unknown service " + s)
}

// blockRowIDs extracts the row ids of a decoded block and checks that every field of a row carries
// the same id (C02: all of a row's fields come from the same submitted row).
func blockRowIDs(svc string, b *fakech.Block) ([]string, string) {
	if !b.Rectangular() {
		return nil, fmt.Sprintf("block is not rectangular: rows per column %v (columns %v)", b.NRows, b.Cols)
	}
	col := func(name string) int {
		for i, c := range b.Cols {
			if c == name {
				return i
			}
		}
		return -1
	}
	var ids []string
	switch svc {
	case "spl":
		cs, cv, ct := col("string"), col("value"), col("timestamp_ns")
		if cs < 0 || cv < 0 || ct < 0 {
			return nil, fmt.Sprintf("samples block lacks columns: %v", b.Cols)
		}
		for _, row := range b.Rows {
			m := reRow.FindStringSubmatch(row[cs].(string))
			if m == nil {
				return nil, "sample row without id: " + fmt.Sprint(row)
			}
			parts := strings.Split(m[1], "/")
			i, _ := strconv.Atoi(parts[2])
			if row[cv].(float64) != float64(i) || row[ct].(int64) != int64(1700000000000000000+i) {
				return nil, fmt.Sprintf("fields of one block row come from different submitted rows: %v", row)
			}
			ids = append(ids, m[1])
		}
	case "ts":
		cl, cf := col("labels"), col("fingerprint")
		for _, row := range b.Rows {
			m := reRow.FindStringSubmatch(row[cl].(string))
			if m == nil {
				return nil, "series row without id: " + fmt.Sprint(row)
			}
			parts := strings.Split(m[1], "/")
			i, _ := strconv.Atoi(parts[2])
			if row[cf].(uint64) != uint64(i) {
				return nil, fmt.Sprintf("fields of one block row come from different submitted rows: %v", row)
			}
			ids = append(ids, m[1])
		}
	}
	return ids, ""
}

func eqStr(a, b []string) bool {
	if len(a) != len(b) {
		return false
	}
	for i := range a {
		if a[i] != b[i] {
			return false
		}
	}
	return true
}

type fail struct {
	kind, prop, msg string
}

func (r *run) setup() {
	wworld.InitPools()
	r.workers = map[string]*wworld.Worker{}
	r.svcs = map[string]service.IInsertServiceV2{}
	r.reqs = map[string]helpers.SizeGetter{}
	r.waiters = map[string]*wworld.Waiter{}
	mq := int64(r.in.Consts.MaxQueue * rowSize)
	var wTs, wSpl *wworld.Worker
	mk := func(name string, sibling func()) (service.IInsertServiceV2, *wworld.Worker) {
		world := fakech.NewWorld()
		var w *wworld.Worker
		connOutcome := make(chan error, 1)
		world.OnConnect = func(id int) error {
			select {
			case e := <-connOutcome:
				return e
			default:
				return nil
			}
		}
		world.OnDo = func(b *fakech.Block) error {
			select {
			case w.DoArr <- b:
			case <-w.Quit:
				return fmt.Errorf("shutdown")
			}
			select {
			case e := <-w.DoRel:
				return e
			case <-w.Quit:
				return fmt.Errorf("shutdown")
			}
		}
		opts := model.InsertServiceOpts{Session: world.Factory(), Node: wworld.Node("n1"), Interval: time.Hour,
			MaxQueueSize: mq, ParallelNum: 1,
			OnBeforeInsert: func() {
				select {
				case w.BIArr <- struct{}{}:
				case <-w.Quit:
					return
				}
				select {
				case <-w.BIRel:
				case <-w.Quit:
					return
				}
				if sibling != nil {
					sibling()
				}
			}}
		var svc service.IInsertServiceV2
		if name == "ts" {
			svc = impl.NewTimeSeriesInsertService(opts)
		} else {
			svc = impl.NewSamplesInsertService(opts)
		}
		svc.Init()
		ws := wworld.Register(name, svc, world, true, nil)
		w = ws[0]
		w.ConnOutcome = connOutcome
		go svc.Run()
		return svc, w
	}
	r.svcs["ts"], wTs = mk("ts", nil)
	r.svcs["spl"], wSpl = mk("spl", func() { wTs.Ptr.PlanFlush() })
	r.workers["ts/1"] = wTs
	r.workers["spl/1"] = wSpl
}

func (r *run) teardown() {
	for _, w := range r.workers {
		close(w.Quit)
	}
	for _, s := range r.svcs {
		s.Stop()
	}
	for _, w := range r.workers {
		wworld.Unregister([]*wworld.Worker{w})
	}
}

// syncGates brings the driver's knowledge of which workers stand at the IterStart gate in line with
// the spec state: flush[wk] /\ wpc[wk]="idle"  <=>  the real worker woke up and reached IterStart.
func (r *run) syncGates(st *State) *fail {
	for k, w := range r.workers {
		want := st.Flush[k] && st.Wpc[k] == "idle"
		if want && !w.AtGate {
			select {
			case <-w.Arrived:
				w.AtGate = true
			case <-time.After(waitT):
				return &fail{"conformance", "", fmt.Sprintf("worker %s did not wake up although the model says its flush is due (flush=TRUE, idle)", k)}
			}
		}
		if !want && !w.AtGate && st.Wpc[k] == "idle" {
			select {
			case <-w.Arrived:
				w.AtGate = true
				return &fail{"conformance", "", fmt.Sprintf("worker %s started a flush iteration although the model says no flush is due", k)}
			default:
			}
		}
	}
	return nil
}

func (r *run) step(i int, pre *State, s *Step) *fail {
	post := &s.State
	switch s.Action {
	case "Parse":
		rq := keyOf(s.Args[0])
		n := s.Args[1].(map[string]any)
		for svc, v := range n {
			r.reqs[rq+"/"+svc] = mkReq(rq, svc, int(v.(float64)))
		}
	case "ReplyOK", "ReplyErr":
		// handler-level steps: covered by trace validation of the HTTP-level runs (c01trace)
	case "Request":
		pk := keyOf(s.Args[0])
		wk := keyOf(s.Args[1])
		w := r.workers[wk]
		svcName := strings.Split(wk, "/")[0]
		p := r.svcs[svcName].Request(r.reqs[pk], service.INSERT_MODE_SYNC)
		att := pre.Att[pk]
		r.waiters[fmt.Sprintf("%s/%d", pk, att)] = wworld.Watch(p)
		e, ok := w.WaitEvent(waitT)
		if !ok || e.Ev != service.VerifEvAppend {
			return &fail{"conformance", "", fmt.Sprintf("no Append event after Request(%s) (got %v)", pk, e.Ev)}
		}
		if e.NResults != len(post.Results[wk]) {
			return &fail{"conformance", "", fmt.Sprintf("after Request(%s): %d promises wait on the open batch, model says %d", pk, e.NResults, len(post.Results[wk]))}
		}
		if int(e.Size) != post.Size[wk]*rowSize {
			return &fail{"conformance", "", fmt.Sprintf("after Request(%s): batch size %d, model says %d", pk, e.Size, post.Size[wk]*rowSize)}
		}
		if e.N != pre.Nrows[pk] {
			return &fail{"conformance", "", fmt.Sprintf("Request(%s) appended %d rows, submitted %d", pk, e.N, pre.Nrows[pk])}
		}
	case "Observe":
		pk := keyOf(s.Args[0])
		att := pre.Att[pk]
		want := pre.Prom[pk][att-1]
		got := r.waiters[fmt.Sprintf("%s/%d", pk, att)].Wait(waitT)
		if got != want {
			prop := "C01"
			return &fail{"property", prop, fmt.Sprintf("promise of push %s attempt %d is %q, the model (outcome of the INSERT that carried its rows) says %q", pk, att, got, want)}
		}
	case "RTimerFire", "TimerFire":
		wk := keyOf(s.Args[0])
		r.workers[wk].Ptr.PlanFlush()
	case "IterSwap":
		wk := keyOf(s.Args[0])
		w := r.workers[wk]
		if !w.AtGate {
			return &fail{"conformance", "", "IterSwap but worker not at gate " + wk}
		}
		if !pre.Client[wk] && r.rnd.Intn(6) == 0 {
			// ConnFail (stuttering step of the model): connection refused once, the worker sleeps 1 s and retries
			w.ConnOutcome <- fmt.Errorf("dial tcp: connection refused")
			w.AtGate = false
			w.Release <- struct{}{}
			e, ok := w.WaitEvent(waitT)
			if !ok || e.Ev != service.VerifEvConnFail {
				return &fail{"conformance", "", fmt.Sprintf("expected ConnFail event on %s, got %v", wk, e.Ev)}
			}
			select {
			case <-w.Arrived:
				w.AtGate = true
			case <-time.After(waitT):
				return &fail{"conformance", "", "worker did not retry after a refused connection: " + wk}
			}
			r.mu.Lock()
			r.out.ConnFails++
			r.mu.Unlock()
		}
		w.AtGate = false
		w.Release <- struct{}{}
		e, ok := w.WaitEvent(waitT)
		if !ok || e.Ev != service.VerifEvSwap {
			return &fail{"conformance", "", fmt.Sprintf("expected Swap event on %s, got %v", wk, e.Ev)}
		}
		wantN := len(post.Portion[wk].Res)
		if post.Wpc[wk] == "idle" {
			wantN = 0
		}
		if len(e.Promises) != wantN {
			return &fail{"conformance", "", fmt.Sprintf("swap on %s took %d promises, model says %d", wk, len(e.Promises), wantN)}
		}
		if post.Wpc[wk] == "swapped" {
			if e.N != len(post.Portion[wk].Rows)*rowSize {
				return &fail{"conformance", "", fmt.Sprintf("swap on %s took size %d, model says %d", wk, e.N, len(post.Portion[wk].Rows)*rowSize)}
			}
			select {
			case <-w.BIArr:
			case <-time.After(waitT):
				return &fail{"conformance", "", "worker did not reach OnBeforeInsert after a non-empty swap: " + wk}
			}
		}
	case "BeforeInsert":
		wk := keyOf(s.Args[0])
		w := r.workers[wk]
		w.BIRel <- struct{}{}
		select {
		case b := <-w.DoArr:
			w.Block = b
			ids, msg := blockRowIDs(w.Svc, b)
			if msg != "" {
				return &fail{"property", "C02", msg}
			}
			want := rowKeys(pre.Portion[wk].Rows)
			if !eqStr(ids, want) {
				return &fail{"property", "C02", fmt.Sprintf("INSERT block of %s holds rows %v; the promises swapped out with it stand for rows %v", wk, ids, want)}
			}
			r.mu.Lock()
			r.out.Blocks++
			r.out.BlockRows += len(ids)
			r.mu.Unlock()
		case <-time.After(waitT):
			return &fail{"conformance", "", "worker did not call Do after OnBeforeInsert: " + wk}
		}
	case "DoReturn":
		wk := keyOf(s.Args[0])
		ok := s.Args[1].(bool)
		w := r.workers[wk]
		if ok {
			w.DoRel <- nil
		} else {
			w.DoRel <- fmt.Errorf("code: 241, message: memory limit exceeded (scripted INSERT failure)")
		}
		e, got := w.WaitEvent(waitT)
		if !got || e.Ev != service.VerifEvRelease {
			return &fail{"conformance", "", fmt.Sprintf("expected Release event on %s, got %v", wk, e.Ev)}
		}
		if (e.Err == nil) != ok {
			return &fail{"property", "C01", fmt.Sprintf("INSERT on %s returned ok=%v but the waiting promises were released with err=%v", wk, ok, e.Err)}
		}
		if len(e.Promises) != len(pre.Portion[wk].Res) {
			return &fail{"property", "C01", fmt.Sprintf("INSERT on %s carried the rows of %d promises but %d were released", wk, len(pre.Portion[wk].Res), len(e.Promises))}
		}
	default:
		return &fail{"infra", "", "unknown action " + s.Action}
	}
	// promise states: everything the model has resolved must be resolved the same way; nothing the
	// model holds pending may be resolved (checked without waiting; final check waits).
	for pk, proms := range post.Prom {
		for a, st := range proms {
			wt := r.waiters[fmt.Sprintf("%s/%d", pk, a+1)]
			if wt == nil {
				continue
			}
			switch st {
			case "ok", "err":
				if got := wt.Wait(waitT); got != st {
					return &fail{"property", "C01", fmt.Sprintf("promise %s/%d is %q but the INSERT that carried its rows ended %q", pk, a+1, got, st)}
				}
			case "pending":
				if got := wt.State(); got != "pending" {
					return &fail{"property", "C01", fmt.Sprintf("promise %s/%d completed (%s) before any INSERT carrying its rows returned", pk, a+1, got)}
				}
			}
		}
	}
	return r.syncGates(post)
}

func (r *run) replay(beh []Step) *Violation {
	r.setup()
	defer r.teardown()
	for i := 1; i < len(beh); i++ {
		f := r.step(i, &beh[i-1].State, &beh[i])
		if f != nil {
			if f.kind == "infra" {
				r.mu.Lock()
				r.out.Infra = append(r.out.Infra, f.msg)
				r.mu.Unlock()
				return nil
			}
			return &Violation{Behaviour: r.bi, Step: i, Action: beh[i].Action, Kind: f.kind, Property: f.prop, Msg: f.msg}
		}
		r.mu.Lock()
		r.out.Steps++
		r.out.Actions[beh[i].Action]++
		r.mu.Unlock()
	}
	// final settle: pending promises must still be pending after a grace period
	time.Sleep(20 * time.Millisecond)
	last := &beh[len(beh)-1].State
	for pk, proms := range last.Prom {
		for a, st := range proms {
			wt := r.waiters[fmt.Sprintf("%s/%d", pk, a+1)]
			if wt == nil {
				continue
			}
			if st == "pending" && wt.State() != "pending" {
				return &Violation{Behaviour: r.bi, Step: len(beh) - 1, Action: "final", Kind: "property", Property: "C01",
					Msg: fmt.Sprintf("promise %s/%d completed (%s) although no INSERT carrying its rows has returned", pk, a+1, wt.State())}
			}
		}
	}
	return nil
}

func main() {
	inPath := flag.String("in", "", "behaviours json")
	outPath := flag.String("out", "", "result json")
	seed := flag.Int64("seed", 1, "seed")
	par := flag.Int("par", 16, "parallel behaviours")
	flag.Parse()
	raw, err := os.ReadFile(*inPath)
	if err != nil {
		fmt.Fprintln(os.Stderr, err)
		os.Exit(2)
	}
	var in Input
	if err := json.Unmarshal(raw, &in); err != nil {
		fmt.Fprintln(os.Stderr, "bad input:", err)
		os.Exit(2)
	}
	out := &Output{Actions: map[string]int{}}
	var mu sync.Mutex
	sem := make(chan struct{}, *par)
	var wg sync.WaitGroup
	for bi, beh := range in.Behaviours {
		wg.Add(1)
		sem <- struct{}{}
		go func(bi int, beh []Step) {
			defer wg.Done()
			defer func() { <-sem }()
			r := &run{in: &in, bi: bi, rnd: rand.New(rand.NewSource(*seed*1000003 + int64(bi))), out: out, mu: &mu}
			v := r.replay(beh)
			mu.Lock()
			out.Behaviours++
			if v != nil {
				out.Violations = append(out.Violations, *v)
			}
			mu.Unlock()
		}(bi, beh)
	}
	wg.Wait()
	b, _ := json.MarshalIndent(out, "", " ")
	if *outPath != "" {
		os.WriteFile(*outPath, b, 0644)
	} else {
		fmt.Println(string(b))
	}
	if len(out.Infra) > 0 {
		os.Exit(2)
	}
	if len(out.Violations) > 0 {
		os.Exit(1)
	}
}

package main

import (
	"bytes"
	"fmt"
	"os"
	"strings"
	"time"

	pprof "github.com/google/pprof/profile"
	"verif/harness/e2e"
)

func buildPprofBytes(tsNs int64) []byte {
	fn := &pprof.Function{ID: 1, Name: "main.work", SystemName: "main.work", Filename: "main.go"}
	fn2 := &pprof.Function{ID: 2, Name: "main.main", SystemName: "main.main", Filename: "main.go"}
	loc := &pprof.Location{ID: 1, Address: 0x1000, Line: []pprof.Line{{Function: fn, Line: 10}}}
	loc2 := &pprof.Location{ID: 2, Address: 0x2000, Line: []pprof.Line{{Function: fn2, Line: 20}}}
	p := &pprof.Profile{
		SampleType:    []*pprof.ValueType{{Type: "cpu", Unit: "nanoseconds"}},
		PeriodType:    &pprof.ValueType{Type: "cpu", Unit: "nanoseconds"},
		Period:        10000000,
		TimeNanos:     tsNs,
		DurationNanos: 1000000000,
		Function:      []*pprof.Function{fn, fn2},
		Location:      []*pprof.Location{loc, loc2},
		Sample:        []*pprof.Sample{{Location: []*pprof.Location{loc, loc2}, Value: []int64{100}}},
	}
	var b bytes.Buffer
	if err := p.Write(&b); err != nil {
		panic(err)
	}
	return b.Bytes()
}

func explore() {
	w, err := e2e.New(e2e.Options{OnDo: normBlock})
	if err != nil {
		panic(err)
	}
	defer w.Close()
	base := time.Date(2023, 10, 31, 12, 0, 0, 0, time.UTC)
	ns := base.UnixNano()
	body := fmt.Sprintf(`{"streams":[{"stream":{"app":"a1","pos":"p1"},"values":[["%d","hello x"]]}]}`, ns)
	code, resp := w.Push("POST", "/loki/api/v1/push", "application/json", []byte(body), nil)
	fmt.Println("loki push", code, resp)
	span := fmt.Sprintf(`[{"traceId":"000000000000000000000000000000a1","id":"00000000000000b1","timestamp":%d,"duration":2000,"name":"n1","localEndpoint":{"serviceName":"svc"},"tags":{"pos":"p1"}}]`, ns/1000)
	code, resp = w.Push("POST", "/tempo/spans", "application/json", []byte(span), nil)
	fmt.Println("tempo push", code, resp)
	pp := buildPprofBytes(ns)
	code, resp = w.Push("POST", fmt.Sprintf("/ingest?name=%s&from=%d&until=%d", "app%7Bpos%3D%22p1%22%7D", ns/1e9, ns/1e9+1), "binary/octet-stream", pp, nil)
	fmt.Println("prof push", code, resp)
	w.Settle()
	time.Sleep(50 * time.Millisecond)
	fmt.Println("storeerr", w.StoreErr, w.Store.Counts)
	for _, t := range []string{"time_series", "samples_v3", "tempo_traces", "tempo_traces_attrs_gin", "tempo_traces_kv", "profiles", "profiles_series", "profiles_series_gin", "profiles_series_keys"} {
		res, err := w.Store.DB.Query("SELECT * FROM " + t)
		if err != nil {
			fmt.Println(t, "ERR", err)
			continue
		}
		fmt.Println("==", t, strings.Join(res.Cols, ","))
		for _, r := range res.Rows {
			s := fmt.Sprintf("%#v", r)
			if len(s) > 600 {
				s = s[:600]
			}
			fmt.Println("   ", s)
		}
	}
	os.Exit(0)
}

package main

import (
	"fmt"
	"sort"
	"strconv"
	"strings"
	"time"

	"verif/harness/chsql"
)

// Bound is one recognised predicate `col op literal` on a time / date / type column of a base-table scan.
type Bound struct {
	Col  string  `json:"col"` // ts | date | type
	Op   string  `json:"op"`  // ge gt lt le eq in
	Num  int64   `json:"num,omitempty"`
	Day  int64   `json:"day,omitempty"`
	Set  []int64 `json:"set,omitempty"`
	Text string  `json:"text"`
}

// Scan is one base-table read of a statement.
type Scan struct {
	Table       string   `json:"table"`
	Raw         string   `json:"raw_table"`
	Alias       string   `json:"alias,omitempty"`
	IsJoin      bool     `json:"is_join,omitempty"`
	Bounds      []Bound  `json:"bounds"`
	Unknown     []string `json:"unknown,omitempty"`       // predicates on a time column that were not understood (infrastructure)
	Phase       []string `json:"phase,omitempty"`         // `timestamp_ms % step ...` filters (text)
	PhaseF      *PhaseF  `json:"phase_f,omitempty"`       // ... parsed: Window.tla's step filter
	InJoinBlock bool     `json:"in_join_block,omitempty"` // the block has JOIN / ARRAY JOIN clauses
}

// isPhaseFilter recognises processHints' `timestamp_ms % step = 0 OR timestamp_ms % step >= step - range`: a further
// restriction inside the window, not a window bound.
// phaseOnNs: every modulo of the filter is taken of the bare column timestamp_ns
func phaseOnNs(e chsql.Expr) bool {
	f, ok := e.(*chsql.FuncCall)
	if !ok {
		return false
	}
	if f.Name == "or" || f.Name == "and" {
		for _, a := range f.Args {
			if !phaseOnNs(a) {
				return false
			}
		}
		return len(f.Args) > 0
	}
	if len(f.Args) != 2 {
		return false
	}
	m, ok := f.Args[0].(*chsql.FuncCall)
	if !ok || m.Name != "modulo" || len(m.Args) != 2 {
		return false
	}
	id, ok := m.Args[0].(*chsql.Ident)
	return ok && id.Parts[len(id.Parts)-1] == "timestamp_ns"
}

func isPhaseFilter(e chsql.Expr) bool {
	f, ok := e.(*chsql.FuncCall)
	if !ok {
		return false
	}
	if f.Name == "or" || f.Name == "and" {
		for _, a := range f.Args {
			if !isPhaseFilter(a) {
				return false
			}
		}
		return len(f.Args) > 0
	}
	if _, ok := opName[f.Name]; ok && len(f.Args) == 2 {
		m, ok := f.Args[0].(*chsql.FuncCall)
		if !ok || m.Name != "modulo" || len(m.Args) != 2 {
			return false
		}
		_, isNum := litNum(f.Args[1])
		_, isNum2 := litNum(m.Args[1])
		return isNum && isNum2
	}
	return false
}

// PhaseF is a step filter `(ts_ms + Add) % Mod = 0 OR (ts_ms + Add) % Mod >= C` in parsed form (milliseconds): the
// position of a sample within the step, with an optional clause for position 0 and an optional comparison.
type PhaseF struct {
	Mod  int64  `json:"mod"`
	Add  int64  `json:"add"`
	Eq0  bool   `json:"eq0"`
	Op   string `json:"op"` // ge | gt | none
	C    int64  `json:"c"`
	Text string `json:"text"`
}

// Admits evaluates the filter on a stored timestamp (ns).
func (p *PhaseF) Admits(tsNs int64) bool {
	m := (floorTo(tsNs, 1e6)/1e6 + p.Add) % p.Mod
	if m < 0 {
		m += p.Mod
	}
	return (p.Eq0 && m == 0) || (p.Op == "ge" && m >= p.C) || (p.Op == "gt" && m > p.C)
}

// parsePhaseFilter understands disjunctions of `modulo(col [+ n], m) = 0` and `modulo(col [+ n], m) >= | > c` over one
// position expression; anything else on a modulo of a time column is reported as not understood.
func parsePhaseFilter(e chsql.Expr, ref *chsql.TableRef) (*PhaseF, bool) {
	var dis []chsql.Expr
	var flat func(x chsql.Expr)
	flat = func(x chsql.Expr) {
		if f, ok := x.(*chsql.FuncCall); ok && f.Name == "or" {
			for _, a := range f.Args {
				flat(a)
			}
			return
		}
		dis = append(dis, x)
	}
	flat(e)
	p := &PhaseF{Op: "none", Text: e.String()}
	first := true
	for _, d := range dis {
		f, ok := d.(*chsql.FuncCall)
		if !ok || len(f.Args) != 2 {
			return nil, false
		}
		op, ok := opName[f.Name]
		if !ok {
			return nil, false
		}
		m, ok := f.Args[0].(*chsql.FuncCall)
		if !ok || m.Name != "modulo" || len(m.Args) != 2 {
			return nil, false
		}
		c, ok1 := litNum(f.Args[1])
		mod, ok2 := litNum(m.Args[1])
		if !ok1 || !ok2 || mod <= 0 {
			return nil, false
		}
		var add int64
		pos := m.Args[0]
		if pf, ok := pos.(*chsql.FuncCall); ok && (pf.Name == "plus" || pf.Name == "minus") && len(pf.Args) == 2 {
			n, ok := litNum(pf.Args[1])
			if !ok {
				return nil, false
			}
			if pf.Name == "minus" {
				n = -n
			}
			add, pos = n, pf.Args[0]
		}
		id, ok := pos.(*chsql.Ident)
		if !ok || id.Parts[len(id.Parts)-1] != "timestamp_ms" {
			return nil, false
		}
		if !first && (mod != p.Mod || add != p.Add) {
			return nil, false
		}
		first = false
		p.Mod, p.Add = mod, add
		switch {
		case op == "eq" && c == 0 && !p.Eq0:
			p.Eq0 = true
		case (op == "ge" || op == "gt") && p.Op == "none":
			p.Op, p.C = op, c
		default:
			return nil, false
		}
	}
	return p, !first
}

func flattenAnd(e chsql.Expr, out *[]chsql.Expr) {
	if e == nil {
		return
	}
	if f, ok := e.(*chsql.FuncCall); ok && f.Name == "and" {
		for _, a := range f.Args {
			flattenAnd(a, out)
		}
		return
	}
	*out = append(*out, e)
}

// timeCol classifies an identifier as one of the columns the property talks about, if it belongs to the scan
// (unqualified, or qualified by the scan's alias / table name).
func timeCol(e chsql.Expr, sc *chsql.TableRef) string {
	id, ok := e.(*chsql.Ident)
	if !ok {
		return ""
	}
	last := id.Parts[len(id.Parts)-1]
	if len(id.Parts) == 1 && sc.Select != nil {
		// an alias of the select list that merely renames the column (timestamp_ns AS start_time_unix_nano)
		for _, c := range sc.Select.Columns {
			if c.Alias() == last {
				if src, ok := c.(*chsql.Ident); ok {
					last = src.Parts[len(src.Parts)-1]
				}
				break
			}
		}
	}
	if len(id.Parts) > 1 {
		q := id.Parts[len(id.Parts)-2]
		if q != sc.Table.Name() && q != sc.Table.Table && baseTable(q) != baseTable(sc.Table.Table) {
			return ""
		}
	}
	switch last {
	case "timestamp_ns":
		return "ts"
	case "timestamp_ms":
		return "tsms"
	case "date":
		return "date"
	case "type":
		return "type"
	}
	return ""
}

func mentionsTimeCol(e chsql.Expr, sc *chsql.TableRef) bool {
	found := false
	chsql.WalkExpr(e, func(x chsql.Expr) bool {
		if c := timeCol(x, sc); c != "" {
			found = true
		}
		return true
	})
	return found
}

func litNum(e chsql.Expr) (int64, bool) {
	switch l := e.(type) {
	case *chsql.Literal:
		switch v := l.Val.(type) {
		case uint64:
			return int64(v), true
		case int64:
			return v, true
		case float64:
			if v == float64(int64(v)) {
				return int64(v), true
			}
		case string:
			if n, err := strconv.ParseInt(v, 10, 64); err == nil {
				return n, true
			}
		}
	case *chsql.FuncCall:
		if l.Name == "negate" && len(l.Args) == 1 {
			if n, ok := litNum(l.Args[0]); ok {
				return -n, true
			}
		}
	}
	return 0, false
}

func litDay(e chsql.Expr) (int64, bool) {
	switch l := e.(type) {
	case *chsql.Literal:
		if s, ok := l.Val.(string); ok {
			t, err := time.Parse("2006-01-02", s)
			if err == nil {
				return utcDay(t.UnixNano()), true
			}
		}
	case *chsql.FuncCall:
		if (l.Name == "toDate" || l.Name == "toDate32") && len(l.Args) == 1 {
			return litDay(l.Args[0])
		}
	case *chsql.CastExpr:
		return litDay(l.Expr)
	}
	return 0, false
}

var flipOp = map[string]string{"ge": "le", "gt": "lt", "le": "ge", "lt": "gt", "eq": "eq"}
var opName = map[string]string{"greaterOrEquals": "ge", "greater": "gt", "less": "lt", "lessOrEquals": "le", "equals": "eq"}

// analyseScan extracts the bounds of one base-table reference.
func analyseScan(ref *chsql.TableRef) Scan {
	sc := Scan{Table: baseTable(ref.Table.Table), Raw: ref.Table.Table, Alias: ref.Table.Alias, IsJoin: ref.IsJoin}
	sc.InJoinBlock = ref.Select != nil && len(ref.Select.Joins) > 0
	var conj []chsql.Expr
	flattenAnd(ref.Prewhere, &conj)
	flattenAnd(ref.Where, &conj)
	if ref.IsJoin && ref.Select != nil {
		// predicates of the enclosing block that name the join operand by its alias
		flattenAnd(ref.Select.Prewhere, &conj)
		flattenAnd(ref.Select.Where, &conj)
		for _, j := range ref.Select.Joins {
			if j.Table == ref.Table {
				flattenAnd(j.On, &conj)
			}
		}
	}
	for _, c := range conj {
		f, ok := c.(*chsql.FuncCall)
		if !ok {
			if mentionsTimeCol(c, ref) {
				sc.Unknown = append(sc.Unknown, c.String())
			}
			continue
		}
		if op, ok := opName[f.Name]; ok && len(f.Args) == 2 {
			l, r := f.Args[0], f.Args[1]
			col := timeCol(l, ref)
			if col == "" {
				if col = timeCol(r, ref); col != "" {
					l, r = r, l
					op = flipOp[op]
				}
			}
			if col == "" {
				if mentionsTimeCol(c, ref) && !ref.IsJoin {
					sc.Unknown = append(sc.Unknown, c.String())
				}
				continue
			}
			if ref.IsJoin {
				// only alias-qualified columns count for a join operand
				if id := l.(*chsql.Ident); len(id.Parts) < 2 {
					continue
				}
			}
			switch col {
			case "ts", "tsms":
				n, ok := litNum(r)
				if !ok {
					sc.Unknown = append(sc.Unknown, c.String())
					continue
				}
				if col == "tsms" {
					n *= 1000000
				}
				sc.Bounds = append(sc.Bounds, Bound{Col: "ts", Op: op, Num: n, Text: c.String()})
			case "date":
				d, ok := litDay(r)
				if !ok {
					sc.Unknown = append(sc.Unknown, c.String())
					continue
				}
				sc.Bounds = append(sc.Bounds, Bound{Col: "date", Op: op, Day: d, Text: c.String()})
			case "type":
				n, ok := litNum(r)
				if !ok || op != "eq" {
					sc.Unknown = append(sc.Unknown, c.String())
					continue
				}
				sc.Bounds = append(sc.Bounds, Bound{Col: "type", Op: "in", Set: []int64{n}, Text: c.String()})
			}
			continue
		}
		if f.Name == "in" && len(f.Args) == 2 && timeCol(f.Args[0], ref) == "type" {
			var set []int64
			ok := true
			switch t := f.Args[1].(type) {
			case *chsql.TupleLit:
				for _, e := range t.Elems {
					n, k := litNum(e)
					ok = ok && k
					set = append(set, n)
				}
			default:
				n, k := litNum(t)
				ok = k
				set = append(set, n)
			}
			if !ok {
				sc.Unknown = append(sc.Unknown, c.String())
				continue
			}
			sort.Slice(set, func(i, j int) bool { return set[i] < set[j] })
			sc.Bounds = append(sc.Bounds, Bound{Col: "type", Op: "in", Set: set, Text: c.String()})
			continue
		}
		if isPhaseFilter(c) {
			sc.Phase = append(sc.Phase, c.String())
			pf, ok := parsePhaseFilter(c, ref)
			if !ok && phaseOnNs(c) {
				// the step filter of the downsample planner (metrics_15s, position of the 15 s bucket start in nanoseconds): another
				// mechanism (re-timed points, epoch-aligned buckets), specified and judged by PromDown.tla (extra check X08); here
				// it is kept as text and only ever narrows the read
				continue
			}
			if !ok || sc.PhaseF != nil {
				sc.Unknown = append(sc.Unknown, "step filter of a shape the extractor does not understand: "+c.String())
				continue
			}
			sc.PhaseF = pf
			continue
		}
		if mentionsTimeCol(c, ref) && !ref.IsJoin {
			sc.Unknown = append(sc.Unknown, c.String())
		}
	}
	return sc
}

// analyseSQL returns the base-table scans of one statement (tables the property talks about only).
func analyseSQL(sql string) ([]Scan, error) {
	st, err := chsql.Parse(sql)
	if err != nil {
		return nil, err
	}
	if _, ok := st.(*chsql.OtherStmt); ok {
		return nil, nil
	}
	ctes := chsql.CTENames(st)
	var scans []Scan
	for _, ref := range chsql.TableRefs(st) {
		ref := ref
		if ref.Table.Table == "" || ref.Table.Func != nil || ref.Table.Subquery != nil {
			continue
		}
		if ctes[ref.Table.Table] {
			continue
		}
		if _, ok := tablesInfo[baseTable(ref.Table.Table)]; !ok {
			if ref.InOperand {
				continue
			}
			return nil, fmt.Errorf("statement reads table %q which the C13 driver does not know", ref.Table.Table)
		}
		if ref.InOperand {
			// `x IN table`: a whole-table read without any predicate
			scans = append(scans, Scan{Table: baseTable(ref.Table.Table), Raw: ref.Table.Table})
			continue
		}
		scans = append(scans, analyseScan(&ref))
	}
	return scans, nil
}

// ---------------------------------------------------------------------------------------------------------------
// classification of literal bounds against the request
// ---------------------------------------------------------------------------------------------------------------

const (
	secNs = int64(1e9)
	s15Ns = int64(15e9)
	m30Ns = int64(1800e9)
)

func ceilTo(a, q int64) int64 {
	f := floorTo(a, q)
	if f == a {
		return a
	}
	return f + q
}

type cand struct {
	Label string
	Val   int64
}

// baseCands lists the instants a planner may derive from one end of the request: the parameter itself, truncated to
// seconds, to milliseconds, to 15 s, to the range bucket (floor, proper ceiling, floor + one bucket). The proper ceiling
// comes in two kinds: "ceilp" of the exact instant, "ceilps" of the instant truncated to the second first (they differ
// when the instant has a fraction and its second is aligned: Window.tla Derive).
func baseCands(v int64, bucket int64) []cand {
	sec := floorTo(v, secNs)
	cs := []cand{{"none", v}, {"sec", sec}, {"ms", floorTo(v, 1e6)}, {"s15:floor", floorTo(sec, s15Ns)}, {"s15:ceilp", ceilTo(v, s15Ns)}, {"s15:ceilps", ceilTo(sec, s15Ns)},
		{"s15:ceilx", floorTo(sec, s15Ns) + s15Ns}}
	if bucket > 0 {
		// time.Time.Truncate rounds relative to the zero time (year 1), not to the Unix epoch
		tt := time.Unix(0, sec).Truncate(time.Duration(bucket)).UnixNano()
		cs = append(cs, cand{"bucket:floor", tt}, cand{"bucket:ceilx", tt + bucket})
		cs = append(cs, cand{"bucket:floor", floorTo(tt, s15Ns)}, cand{"bucket:ceilx", floorTo(tt+bucket, s15Ns)})
		cs = append(cs, cand{"bucket:floor", floorTo(sec, bucket)}, cand{"bucket:ceilp", ceilTo(v, bucket)}, cand{"bucket:ceilps", ceilTo(sec, bucket)}, cand{"bucket:ceilx", floorTo(sec, bucket) + bucket})
		cs = append(cs, cand{"bucket:floor", floorTo(floorTo(sec, bucket), s15Ns)}, cand{"bucket:ceilx", floorTo(floorTo(sec, bucket)+bucket, s15Ns)})
	}
	return cs
}

// tsLabels: which derivations of the request produce the literal n. side "lo": derived from Start (minus lookback and
// offset), "hi": from End (minus offset). "<derivation>~sub": the literal lies in the second of that derivation, at or
// below it (Window.tla BoundLit sub: a bound whose sub-second part was lost or garbled on the way to the statement; the
// exact literal carries both labels, the exact one is preferred).
func tsLabels(n int64, ep *Endpoint, w Win) []string {
	set := map[string]bool{}
	for side, p := range map[string][2]int64{"from:": {effStart(ep, w), int64(ep.Lookback) + int64(ep.Offset)}, "to:": {w.End, int64(ep.Offset)}} {
		for _, c := range baseCands(p[0], int64(ep.Bucket)) {
			x := c.Val - p[1]
			if x == n {
				set[side+c.Label] = true
			}
			if floorTo(x, secNs) <= n && n <= x {
				set[side+c.Label+"~sub"] = true
			}
		}
	}
	return keys(set)
}

func dateLabels(day int64, ep *Endpoint, w Win) []string {
	set := map[string]bool{}
	for _, c := range baseCands(effStart(ep, w), int64(ep.Bucket)) {
		b := c.Val - int64(ep.Lookback) - int64(ep.Offset)
		if utcDay(b-m30Ns) == day {
			set["utcFromM30"] = true
		}
		if utcDay(b) == day {
			set["utcFrom"] = true
		}
		if localDay(b, time.Local) == day {
			set["localFrom"] = true
		}
		if localDay(b-m30Ns, time.Local) == day {
			set["localFromM30"] = true
		}
	}
	for _, c := range baseCands(w.End, int64(ep.Bucket)) {
		e := c.Val - int64(ep.Offset)
		if utcDay(e) == day {
			set["utcTo"] = true
		}
		if localDay(e, time.Local) == day {
			set["localTo"] = true
		}
		if utcDay(e-m30Ns) == day {
			set["utcToM30"] = true
		}
		if localDay(e-m30Ns, time.Local) == day {
			set["localToM30"] = true
		}
	}
	return keys(set)
}

// Sparse: a range-vector function evaluated with a step larger than its range.
func (ep *Endpoint) Sparse() bool { return ep.Range > 0 && ep.Step > ep.Range && !ep.Instant }

// evalStart / evalEnd: the first evaluation instant and the end of the evaluated interval of a Prometheus range query:
// the controller moves start down and end up to whole 15 s (the widening a metric query is allowed), the engine
// evaluates at evalStart + k * step <= evalEnd.
func evalStart(ep *Endpoint, w Win) int64 { return floorTo(w.Start, s15Ns) }
func evalEnd(ep *Endpoint, w Win) int64   { return ceilTo(w.End, s15Ns) }

// subWindow: is ts (ns, at millisecond resolution) inside the range window [t - offset - range, t - offset] of an
// evaluation instant t = evalStart + k * step <= evalEnd whose data end also lies inside the requested window?
func subWindow(ep *Endpoint, w Win, ts int64) (int64, bool) {
	if !ep.Sparse() {
		return 0, false
	}
	step, rng, off := int64(ep.Step), int64(ep.Range), int64(ep.Offset)
	e0 := evalStart(ep, w) - off
	k := (ts - e0 + step - 1) / step // the first evaluation instant at or after ts
	if ts <= e0 {
		k = 0
	}
	t := e0 + k*step
	if t+off > evalEnd(ep, w) || t+off > w.End || ts > t || ts < t-rng {
		return 0, false
	}
	return t, true
}

func effStart(ep *Endpoint, w Win) int64 {
	if ep.Instant {
		return w.End
	}
	return w.Start
}

func keys(m map[string]bool) []string {
	var r []string
	for k := range m {
		r = append(r, k)
	}
	sort.Strings(r)
	return r
}

// ScanClass is the classification of one scan for one request: per bound the set of derivations that explain it.
type ScanClass struct {
	Table  string    `json:"table"`
	TsLo   *BoundCls `json:"ts_lo,omitempty"`
	TsHi   *BoundCls `json:"ts_hi,omitempty"`
	DLo    *BoundCls `json:"d_lo,omitempty"`
	DHi    *BoundCls `json:"d_hi,omitempty"`
	Type   []int64   `json:"type,omitempty"`
	HasTy  bool      `json:"has_type"`
	Extra  []string  `json:"extra,omitempty"` // more than one bound of a kind, equality on a time column, ...
	Bounds []Bound   `json:"bounds"`
	Unk    []string  `json:"unknown,omitempty"`
	IsJoin bool      `json:"is_join,omitempty"`
	// the step filter against the request (Window.tla descriptor field ph): "" = none, else
	// "<eq0>|<op>|<c>|<anchor>": clause for position 0 present; comparison operator; sign of (constant - (step - range));
	// anchor of position 0: eval (the evaluation instants), start (the starts of the range windows), other
	Phase  string  `json:"phase_cls"`
	PhaseF *PhaseF `json:"phase_f,omitempty"`
}

type BoundCls struct {
	Op     string   `json:"op"`
	Labels []string `json:"labels"`
	Text   string   `json:"text"`
}

func classify(sc Scan, ep *Endpoint, w Win) ScanClass {
	c := ScanClass{Table: sc.Table, Bounds: sc.Bounds, Unk: sc.Unknown, IsJoin: sc.IsJoin, PhaseF: sc.PhaseF}
	if p := sc.PhaseF; p != nil {
		step, rng := int64(ep.Step)/1e6, int64(ep.Range)/1e6
		switch {
		case !ep.Sparse():
			c.Extra = append(c.Extra, "step filter on a request whose step does not exceed its range: "+p.Text)
		case p.Mod != step:
			c.Extra = append(c.Extra, fmt.Sprintf("step filter whose modulus is not the step %d ms: %s", step, p.Text))
		default:
			ev0 := (evalStart(ep, w) - int64(ep.Offset)) / 1e6
			anchor := "other"
			if (ev0+p.Add)%p.Mod == 0 {
				anchor = "eval"
			} else if (ev0-rng+p.Add)%p.Mod == 0 {
				anchor = "start"
			}
			sign := 0
			if p.C > step-rng {
				sign = 1
			} else if p.C < step-rng {
				sign = -1
			}
			if p.Op == "none" {
				sign = 0
			}
			c.Phase = fmt.Sprintf("%v|%s|%d|%s", p.Eq0, p.Op, sign, anchor)
		}
	}
	for _, b := range sc.Bounds {
		switch b.Col {
		case "ts":
			bc := &BoundCls{Op: b.Op, Labels: tsLabels(b.Num, ep, w), Text: b.Text}
			switch b.Op {
			case "ge", "gt":
				if c.TsLo != nil {
					c.Extra = append(c.Extra, "second lower ts bound: "+b.Text)
					continue
				}
				c.TsLo = bc
			case "lt", "le":
				if c.TsHi != nil {
					c.Extra = append(c.Extra, "second upper ts bound: "+b.Text)
					continue
				}
				c.TsHi = bc
			default:
				c.Extra = append(c.Extra, "equality on ts: "+b.Text)
			}
		case "date":
			bc := &BoundCls{Op: b.Op, Labels: dateLabels(b.Day, ep, w), Text: b.Text}
			switch b.Op {
			case "ge":
				if c.DLo != nil {
					c.Extra = append(c.Extra, "second lower date bound: "+b.Text)
					continue
				}
				c.DLo = bc
			case "le":
				if c.DHi != nil {
					c.Extra = append(c.Extra, "second upper date bound: "+b.Text)
					continue
				}
				c.DHi = bc
			default:
				c.Extra = append(c.Extra, "unexpected operator on date: "+b.Text)
			}
		case "type":
			if c.HasTy {
				c.Extra = append(c.Extra, "second type filter: "+b.Text)
				continue
			}
			c.HasTy = true
			c.Type = b.Set
		}
	}
	return c
}

func (c ScanClass) String() string {
	var p []string
	f := func(n string, b *BoundCls) {
		if b == nil {
			p = append(p, n+"=-")
		} else {
			p = append(p, fmt.Sprintf("%s=%s%v", n, b.Op, b.Labels))
		}
	}
	f("tlo", c.TsLo)
	f("thi", c.TsHi)
	f("dlo", c.DLo)
	f("dhi", c.DHi)
	if c.HasTy {
		p = append(p, fmt.Sprintf("type=%v", c.Type))
	} else {
		p = append(p, "type=-")
	}
	return c.Table + " " + strings.Join(p, " ")
}

package main

import (
	"encoding/json"
	"fmt"
	"os"
	"sort"
	"strings"
	"time"
)

func at(day int, h, m, s int, frac int64) int64 {
	return baseNs + int64(day)*dayNs + int64(h)*3600e9 + int64(m)*60e9 + int64(s)*1e9 + frac
}

// extraction windows: chosen so that every pair of date derivations (utcDate(from-30m), utcDate(from),
// localDate(from), utcDate(to), localDate(to), utcDate(to-30m)) differs on at least one of them in any zone whose
// offset is not 0, and so that from / to are aligned to nothing (seconds, 15 s, buckets).
func extractionWindows(tier string) []Win {
	ws := []Win{
		{at(1, 0, 10, 7, 300000500), at(1, 21, 5, 21, 700000300)},
		{at(1, 4, 40, 11, 100000700), at(2, 1, 15, 38, 400000900)},
		{at(1, 21, 30, 3, 900000100), at(2, 0, 20, 49, 200000300)},
		// both ends inside one second whose start is aligned to 15 s and to every bucket: a bound that lost its fraction
		// falls back below the whole window
		{at(1, 12, 0, 0, 250000512), at(1, 12, 0, 0, 750000768)},
	}
	if tier == "thorough" {
		ws = append(ws,
			Win{at(0, 23, 50, 1, 1), at(1, 20, 10, 59, 999999999)},      // crosses midnight from the last minutes of a day
			Win{at(1, 23, 59, 59, 999999000), at(2, 0, 0, 0, 1000)},     // 2 microseconds around the month boundary
			Win{at(2, 0, 0, 0, 0), at(2, 0, 29, 59, 0)},                 // starts exactly at midnight, shorter than the 30 min margin
			Win{at(1, 12, 0, 15, 1000000), at(1, 12, 7, 30, 999000000)}, // one millisecond after / before aligned seconds
			Win{at(0, 5, 0, 0, 0), at(0, 19, 0, 0, 0)},                  // aligned to everything
		)
	}
	return ws
}

type ScanKey struct {
	Endpoint string `json:"endpoint"`
	Cluster  string `json:"cluster"`
	Stmt     int    `json:"stmt"`
	Scan     int    `json:"scan"`
}

type BoundOut struct {
	Op     string   `json:"op"`
	Labels []string `json:"labels"` // derivations that explain the literal on EVERY window
	Texts  []string `json:"texts"`
}

type ScanOut struct {
	ScanKey
	Table    string    `json:"table"`
	Kind     string    `json:"kind"`
	WRule    string    `json:"wrule"`
	API      string    `json:"api"`
	Signal   int       `json:"signal"`
	Metric   bool      `json:"metric"`
	UpIncl   bool      `json:"up_incl"`
	NoWindow bool      `json:"no_window"`
	Lookback int64     `json:"lookback_ns"`
	Offset   int64     `json:"offset_ns"`
	Unit     int64     `json:"unit_ns"`
	Instant  bool      `json:"instant"`
	TsLo     *BoundOut `json:"ts_lo"`
	TsHi     *BoundOut `json:"ts_hi"`
	DLo      *BoundOut `json:"d_lo"`
	DHi      *BoundOut `json:"d_hi"`
	HasType  bool      `json:"has_type"`
	Type     []int64   `json:"type"`
	Extra    []string  `json:"extra,omitempty"`
	Unknown  []string  `json:"unknown,omitempty"`
	Phase    []string  `json:"phase,omitempty"`
	PhaseCls string    `json:"phase_cls"`
	IsJoin   bool      `json:"is_join,omitempty"`
	SQL      string    `json:"sql"`
	Windows  int       `json:"windows"`
}

type ExtractOut struct {
	TZ         string         `json:"tz"`
	Tier       string         `json:"tier"`
	WriterObs  []WriterObs    `json:"writer_obs"`
	Endpoints  []string       `json:"endpoints"`
	Scans      []ScanOut      `json:"scans"`
	Findings   []Finding      `json:"findings"`
	Probes     int            `json:"probes"`
	Statements int            `json:"statements"`
	Errors     []string       `json:"errors"` // infrastructure problems
	Non2xx     []string       `json:"non2xx"`
	StmtErrors []string       `json:"stmt_errors"` // statements rejected with an error ClickHouse would raise too (another property's business)    // requests that ran their statements and then failed
	Status     map[string]int `json:"status"`      // endpoint -> last HTTP status
	Samples    []any          `json:"samples"`
}

func intersect(a, b []string) []string {
	m := map[string]bool{}
	for _, x := range b {
		m[x] = true
	}
	var r []string
	for _, x := range a {
		if m[x] {
			r = append(r, x)
		}
	}
	return r
}

func mergeBound(dst **BoundOut, b *BoundCls, first bool, what string, so *ScanOut) {
	if first {
		if b != nil {
			*dst = &BoundOut{Op: b.Op, Labels: b.Labels, Texts: []string{b.Text}}
		}
		return
	}
	if (b == nil) != (*dst == nil) {
		so.Extra = append(so.Extra, what+" bound present on some windows only")
		return
	}
	if b == nil {
		return
	}
	if b.Op != (*dst).Op {
		so.Extra = append(so.Extra, what+" operator differs between windows")
	}
	(*dst).Labels = intersect((*dst).Labels, b.Labels)
	if len((*dst).Texts) < 4 {
		(*dst).Texts = append((*dst).Texts, b.Text)
	}
}

func selectedEndpoints(tier, only string) []Endpoint {
	var r []Endpoint
	for _, ep := range endpoints() {
		if ep.Thorough && tier != "thorough" {
			continue
		}
		if only != "" && !strings.Contains(ep.Name, only) {
			continue
		}
		r = append(r, ep)
	}
	return r
}

func runExtract(out, tier string, clusters []string, only string) {
	res := ExtractOut{TZ: time.Local.String(), Tier: tier, Status: map[string]int{}}
	eps := selectedEndpoints(tier, only)
	for _, ep := range eps {
		res.Endpoints = append(res.Endpoints, ep.Name)
	}
	for _, cl := range clusters {
		x, err := newX(cl)
		if err != nil {
			fatal("world (cluster %q): %v", cl, err)
		}
		if cl == clusters[0] {
			res.WriterObs = x.WriterObs
		}
		for i := range eps {
			ep := &eps[i]
			var outs []ScanOut
			for wi, w0 := range extractionWindows(tier) {
				w := alignWin(ep, w0)
				if w.End <= w.Start && !ep.NoWindow {
					continue // the API's unit cannot express this window
				}
				obs, err := x.probe(ep, w, time.Local, nil)
				if err != nil {
					res.Errors = append(res.Errors, fmt.Sprintf("%s cluster=%q window %d: %v", ep.Name, cl, wi, err))
					continue
				}
				res.Probes++
				res.Status[ep.Name] = obs.Status
				if obs.Status/100 != 2 && len(obs.Stmts) == 0 {
					res.Errors = append(res.Errors, fmt.Sprintf("%s cluster=%q window %d: HTTP %d %.200s", ep.Name, cl, wi, obs.Status, obs.Body))
					continue
				}
				if obs.Status/100 != 2 {
					res.Non2xx = append(res.Non2xx, fmt.Sprintf("%s cluster=%q window %d: HTTP %d %.200s", ep.Name, cl, wi, obs.Status, obs.Body))
				}
				res.Findings = append(res.Findings, judge(ep, cl, w, time.Local, obs)...)
				var cur []ScanOut
				for si, st := range obs.Stmts {
					res.Statements++
					if st.Err != "" {
						res.StmtErrors = append(res.StmtErrors, fmt.Sprintf("%s cluster=%q: %s :: %.200s", ep.Name, cl, st.Err, st.SQL))
					}
					for ci, c := range st.Classes {
						info := tablesInfo[c.Table]
						so := ScanOut{ScanKey: ScanKey{ep.Name, cl, si, ci}, Table: c.Table, Kind: info.Kind, WRule: info.WRule, API: ep.API, Signal: ep.Signal,
							Metric: ep.Metric, UpIncl: ep.UpIncl, NoWindow: ep.NoWindow, Lookback: int64(ep.Lookback), Offset: int64(ep.Offset), Unit: int64(ep.Unit), Instant: ep.Instant, HasType: c.HasTy, Type: c.Type, Extra: c.Extra, Unknown: c.Unk,
							Phase: st.Scans[ci].Phase, PhaseCls: c.Phase, IsJoin: c.IsJoin, SQL: st.SQL, Windows: 1}
						mergeBound(&so.TsLo, c.TsLo, true, "", &so)
						mergeBound(&so.TsHi, c.TsHi, true, "", &so)
						mergeBound(&so.DLo, c.DLo, true, "", &so)
						mergeBound(&so.DHi, c.DHi, true, "", &so)
						cur = append(cur, so)
					}
				}
				if outs == nil {
					outs = cur
					continue
				}
				if len(cur) > len(outs) {
					outs, cur = cur, outs // a follow-up statement (label fetch) only runs when the first returned rows
				}
				for k := range outs {
					if k >= len(cur) {
						break
					}
					o, c := &outs[k], &cur[k]
					if o.Table != c.Table || o.Stmt != c.Stmt || o.Scan != c.Scan {
						res.Errors = append(res.Errors, fmt.Sprintf("%s cluster=%q: scan %d reads %s on window %d, %s on the first", ep.Name, cl, k, c.Table, wi, o.Table))
						continue
					}
					o.Windows++
					merge := func(dst **BoundOut, src *BoundOut, what string) {
						var b *BoundCls
						if src != nil {
							b = &BoundCls{Op: src.Op, Labels: src.Labels, Text: src.Texts[0]}
						}
						mergeBound(dst, b, false, what, o)
					}
					merge(&o.TsLo, c.TsLo, "ts lower")
					merge(&o.TsHi, c.TsHi, "ts upper")
					merge(&o.DLo, c.DLo, "date lower")
					merge(&o.DHi, c.DHi, "date upper")
					if o.PhaseCls != c.PhaseCls {
						o.Extra = append(o.Extra, fmt.Sprintf("step filter differs between windows: %s / %s", o.PhaseCls, c.PhaseCls))
					}
					if o.HasType != c.HasType || fmt.Sprint(o.Type) != fmt.Sprint(c.Type) {
						o.Extra = append(o.Extra, "type filter differs between windows")
					}
					o.Unknown = append(o.Unknown, c.Unknown...)
				}
			}
			res.Scans = append(res.Scans, outs...)
			if len(res.Samples) < 3 && len(outs) > 0 {
				res.Samples = append(res.Samples, outs[0])
			}
		}
		x.Close()
	}
	writeJSON(out, res)
}

// ---------------------------------------------------------------------------------------------------------------

type ProbeJob struct {
	ID       string  `json:"id"`
	Endpoint string  `json:"endpoint"`
	Cluster  string  `json:"cluster"`
	Start    int64   `json:"start_ns"`
	End      int64   `json:"end_ns"`
	WriterTZ string  `json:"writer_tz"`
	Extra    []int64 `json:"extra_ts"`
}

type ProbeRes struct {
	Job      ProbeJob  `json:"job"`
	Win      Win       `json:"win"`
	Skipped  string    `json:"skipped,omitempty"`
	Status   int       `json:"status"`
	Findings []Finding `json:"findings"`
	Visible  []string  `json:"visible"`
	Entities int       `json:"entities"`
	Stmts    int       `json:"stmts"`
	Admitted int       `json:"admitted"` // planted entities admitted by some scan
	Classes  []string  `json:"classes"`
}

type ProbeOut struct {
	TZ      string     `json:"tz"`
	Results []ProbeRes `json:"results"`
	Errors  []string   `json:"errors"`
}

func runProbe(in, out string) {
	raw, err := os.ReadFile(in)
	if err != nil {
		fatal("read %s: %v", in, err)
	}
	var jobs []ProbeJob
	if err := json.Unmarshal(raw, &jobs); err != nil {
		fatal("parse %s: %v", in, err)
	}
	res := ProbeOut{TZ: time.Local.String()}
	byCluster := map[string][]ProbeJob{}
	for _, j := range jobs {
		byCluster[j.Cluster] = append(byCluster[j.Cluster], j)
	}
	var cls []string
	for c := range byCluster {
		cls = append(cls, c)
	}
	sort.Strings(cls)
	epByName := map[string]Endpoint{}
	for _, ep := range endpoints() {
		epByName[ep.Name] = ep
	}
	for _, cl := range cls {
		x, err := newX(cl)
		if err != nil {
			fatal("world (cluster %q): %v", cl, err)
		}
		for _, o := range x.WriterObs {
			if !o.Matches {
				res.Errors = append(res.Errors, fmt.Sprintf("the real writer stored day %d for a %s row at %d; the date rule %q used for planting says otherwise", o.Stored, o.Table, o.TsNs, o.Rule))
			}
		}
		for _, j := range byCluster[cl] {
			ep, ok := epByName[j.Endpoint]
			if !ok {
				res.Errors = append(res.Errors, "unknown endpoint "+j.Endpoint)
				continue
			}
			wloc := time.Local
			if j.WriterTZ != "" {
				wloc, err = time.LoadLocation(j.WriterTZ)
				if err != nil {
					fatal("zone %s: %v", j.WriterTZ, err)
				}
			}
			w := alignWin(&ep, Win{j.Start, j.End})
			pr := ProbeRes{Job: j, Win: w}
			obs, err := x.probe(&ep, w, wloc, j.Extra)
			if err != nil {
				res.Errors = append(res.Errors, fmt.Sprintf("job %s (%s): %v", j.ID, j.Endpoint, err))
				continue
			}
			pr.Status = obs.Status
			if obs.Status/100 != 2 && len(obs.Stmts) == 0 {
				res.Errors = append(res.Errors, fmt.Sprintf("job %s (%s): HTTP %d %.200s", j.ID, j.Endpoint, obs.Status, obs.Body))
				continue
			}
			pr.Findings = judge(&ep, cl, w, wloc, obs)
			pr.Visible = obs.Visible
			pr.Entities = len(obs.Entities)
			pr.Stmts = len(obs.Stmts)
			adm := map[string]bool{}
			for _, st := range obs.Stmts {
				for _, so := range st.ScanObs {
					for _, m := range so.Markers {
						adm[m] = true
					}
				}
				for _, c := range st.Classes {
					pr.Classes = append(pr.Classes, c.String())
				}
			}
			pr.Admitted = len(adm)
			res.Results = append(res.Results, pr)
		}
		x.Close()
	}
	writeJSON(out, res)
}

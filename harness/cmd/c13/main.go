package main

import (
	"encoding/json"
	"flag"
	"fmt"
	"os"
	"strings"
	"time"
	_ "time/tzdata"
)

// base of the modelled three days: Nov 29, Nov 30, Dec 1 2023 (UTC; New York is at -5 h, Moscow at +3 h); tick = 30 minutes
var baseNs = time.Date(2023, 11, 29, 0, 0, 0, 0, time.UTC).UnixNano()

const tickNs = int64(1800e9)

func fatal(f string, a ...any) {
	fmt.Fprintf(os.Stderr, "c13: "+f+"\n", a...)
	os.Exit(2)
}

func writeJSON(path string, v any) {
	b, err := json.MarshalIndent(v, "", " ")
	if err != nil {
		fatal("marshal: %v", err)
	}
	if err := os.WriteFile(path, b, 0o644); err != nil {
		fatal("write %s: %v", path, err)
	}
}

func main() {
	mode := flag.String("mode", "", "dump | extract | probe")
	out := flag.String("out", "", "result file")
	in := flag.String("in", "", "input file (probe jobs)")
	tier := flag.String("tier", "quick", "quick | thorough")
	clusters := flag.String("clusters", ",c1", "comma separated cluster modes ('' = single node)")
	only := flag.String("only", "", "substring filter on endpoint names")
	flag.StringVar(&tempoRuleFlag, "tempo-rule", "", "date rule of the tempo tag tables: '' = learn from the real writer | utc | local")
	seed := flag.Int64("seed", 0, "selects the sub-second parts of offsets / ranges in the query texts")
	flag.Parse()
	subMs = []int64{250, 1, 999, 500, 750, 37, 503}[int(uint64(*seed)%7)]
	switch *mode {
	case "dump":
		dump(*only, strings.Split(*clusters, ","))
	case "extract":
		runExtract(*out, *tier, strings.Split(*clusters, ","), *only)
	case "probe":
		runProbe(*in, *out)
	default:
		fatal("unknown mode %q", *mode)
	}
}

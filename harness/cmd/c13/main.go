package main

import (
	"os"
	_ "time/tzdata"
)

func main() {
	if len(os.Args) > 1 && os.Args[1] == "explore" {
		explore()
	}
}

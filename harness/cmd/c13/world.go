package main

import (
	"bytes"
	"encoding/hex"
	"encoding/json"
	"fmt"
	"hash/fnv"
	"net/http"
	"net/http/httptest"
	"strings"
	"time"

	pprof "github.com/google/pprof/profile"
	"github.com/gorilla/mux"
	rrouter "github.com/metrico/qryn/reader/router"
	"verif/harness/chsql"
	"verif/harness/e2e"
)

// X is one e2e world (one cluster mode) plus the row templates obtained by pushing one record of every signal
// through the REAL writer routes.
type X struct {
	W       *e2e.World
	Prom    *mux.Router // Prometheus query routes registered again with a usable sample limit
	Cluster string
	Tmpl    map[string]tmplTable // table -> template rows written by the real writer
	// WriterRule: what the real writer stored as `date` for the template pushes, per table (binding of Window.tla's
	// WriterDay to the code)
	WriterObs []WriterObs

	sameTrace  bool   // plant all spans into one trace (trace-by-id endpoint)
	typeMarker bool   // plant profiles with a per-entity profile type name (ProfileTypes endpoint)
	traceID    string // hex id of the planted trace when sameTrace
}

// traceIDs: binary trace id, binary span id, hex trace id of the k-th planted span.
func (x *X) traceIDs(e Entity, k int) (string, string, string) {
	tid := fmt.Sprintf("%016x%016x", fp64(e.Marker), uint64(k+1))
	if x.sameTrace {
		tid = fmt.Sprintf("%016x%016x", uint64(0xc13c13c13), uint64(1))
	}
	var btid [16]byte
	if raw, err := hex.DecodeString(tid); err == nil {
		copy(btid[:], raw)
	}
	sid := []byte{0xc1, 0x3c, 0, 0, 0, 0, byte((k + 1) >> 8), byte(k + 1)}
	return string(btid[:]), string(sid), tid
}

type tmplTable struct {
	Cols []string
	Rows [][]any
}

type WriterObs struct {
	Table   string `json:"table"`
	TsNs    int64  `json:"ts_ns"`
	Stored  int64  `json:"stored_day"`
	UTCDay  int64  `json:"utc_day"`
	LocDay  int64  `json:"local_day"`
	Rule    string `json:"rule"` // what Window.tla assumes for this table
	Matches bool   `json:"matches"`
}

const dayNs = int64(86400) * 1e9

func floorDiv(a, b int64) int64 {
	q := a / b
	if (a%b != 0) && ((a < 0) != (b < 0)) {
		q--
	}
	return q
}
func floorTo(a, q int64) int64 { return floorDiv(a, q) * q }

func utcDay(ns int64) int64 { return floorDiv(ns, dayNs) }

// localDay is the day number of the calendar date of ns in loc ("formatted with t.In(loc).Format(2006-01-02)").
func localDay(ns int64, loc *time.Location) int64 {
	t := time.Unix(0, ns).In(loc)
	_, off := t.Zone()
	return floorDiv(ns+int64(off)*1e9, dayNs)
}

// writerDay: Window.tla's WriterDay. rule "utc": UTC day of the sample (time_series rows: builder.go truncates the
// UTC time to 24h; profile tables: toDate() in the materialized views, server zone assumed UTC; tempo tag rows since the
// writer passes time.Unix(sec,0).UTC()). rule "local": ch-go ToDate(time.Unix(sec,0)) adds the zone offset of the WRITER
// process (what the writer did for tempo_traces_attrs_gin / tempo_traces_kv before that repair). The rule of the tempo
// tables is not assumed: learnTemplates observes what the real writer stores (setTempoRule).
func writerDay(ns int64, rule string, wloc *time.Location) int64 {
	if rule == "local" {
		sec := floorDiv(ns, 1e9)
		return localDay(sec*1e9, wloc)
	}
	return utcDay(ns)
}

type tableInfo struct {
	Kind   string // data | index | both
	WRule  string // utc | local | "" (no date column)
	Family string // lm | tr | pf
	TsCol  string
}

var tablesInfo = map[string]tableInfo{
	"samples_v3":             {"data", "", "lm", "timestamp_ns"},
	"metrics_15s":            {"data", "", "lm", "timestamp_ns"},
	"time_series":            {"index", "utc", "lm", ""},
	"time_series_gin":        {"index", "utc", "lm", ""},
	"tempo_traces":           {"data", "", "tr", "timestamp_ns"},
	"tempo_traces_attrs_gin": {"both", "utc", "tr", "timestamp_ns"}, // WRule: see setTempoRule
	"tempo_traces_kv":        {"index", "utc", "tr", ""},
	"profiles":               {"data", "", "pf", "timestamp_ns"},
	"profiles_series":        {"index", "utc", "pf", ""},
	"profiles_series_gin":    {"index", "utc", "pf", ""},
	"profiles_series_keys":   {"index", "utc", "pf", ""},
}

// tempoRuleFlag: "" = learn the date rule of the tempo tag tables from the real writer of this process (in a UTC
// process "utc" and "local" coincide and "utc" is reported); "utc" / "local" = told by the caller (who learnt it in a
// process with another zone), still compared with what the writer of this process stores.
var tempoRuleFlag string

func setTempoRule(rule string) {
	for _, t := range []string{"tempo_traces_attrs_gin", "tempo_traces_kv"} {
		i := tablesInfo[t]
		i.WRule = rule
		tablesInfo[t] = i
	}
}

func tempoRule() string { return tablesInfo["tempo_traces_attrs_gin"].WRule }

func baseTable(name string) string {
	if i := strings.LastIndex(name, "."); i >= 0 {
		name = name[i+1:]
	}
	name = strings.Trim(name, "`")
	return strings.TrimSuffix(name, "_dist")
}

func newX(cluster string) (*X, error) {
	w, err := e2e.New(e2e.Options{Cluster: cluster, OnDo: normBlock})
	if err != nil {
		return nil, err
	}
	x := &X{W: w, Cluster: cluster, Tmpl: map[string]tmplTable{}}
	w.Bridge.WithScans = true
	// the e2e world registers the Prometheus routes with MetricsMaxSamples = 0 (every evaluation fails after the SQL
	// ran); register the same real routes again on a router of our own with the production default
	w.Cfg.Setting.SYSTEM_SETTINGS.MetricsMaxSamples = 5000000
	x.Prom = mux.NewRouter()
	rrouter.RoutePrometheusQueryRange(x.Prom, w.SQL.Registry(cluster), false)
	if err := x.learnTemplates(); err != nil {
		return nil, err
	}
	return x, nil
}

func (x *X) Close() { x.W.Close() }

func (x *X) promGet(pathAndQuery string) (int, string) {
	req := httptest.NewRequest("GET", pathAndQuery, nil)
	rw := httptest.NewRecorder()
	x.Prom.ServeHTTP(rw, req)
	return rw.Code, rw.Body.String()
}

func (x *X) postJSON(path string, body any) (int, string) {
	b, _ := json.Marshal(body)
	req := httptest.NewRequest("POST", path, bytes.NewReader(b))
	req.Header.Set("Content-Type", "application/json")
	return x.W.Do(req)
}

var _ = http.MethodGet

func pprofBytes(tsNs int64) []byte {
	fn := &pprof.Function{ID: 1, Name: "main.work", SystemName: "main.work", Filename: "main.go"}
	fn2 := &pprof.Function{ID: 2, Name: "main.main", SystemName: "main.main", Filename: "main.go"}
	loc := &pprof.Location{ID: 1, Address: 0x1000, Line: []pprof.Line{{Function: fn, Line: 10}}}
	loc2 := &pprof.Location{ID: 2, Address: 0x2000, Line: []pprof.Line{{Function: fn2, Line: 20}}}
	p := &pprof.Profile{
		SampleType:    []*pprof.ValueType{{Type: "cpu", Unit: "nanoseconds"}},
		PeriodType:    &pprof.ValueType{Type: "cpu", Unit: "nanoseconds"},
		Period:        10000000,
		TimeNanos:     tsNs,
		DurationNanos: 1000000000,
		Function:      []*pprof.Function{fn, fn2},
		Location:      []*pprof.Location{loc, loc2},
		Sample:        []*pprof.Sample{{Location: []*pprof.Location{loc, loc2}, Value: []int64{100}}},
	}
	var b bytes.Buffer
	if err := p.Write(&b); err != nil {
		panic(err)
	}
	return b.Bytes()
}

const tmplMarker = "TMPLMARK"

var allTables = []string{"time_series", "time_series_gin", "samples_v3", "metrics_15s", "tempo_traces", "tempo_traces_attrs_gin",
	"tempo_traces_kv", "profiles_input", "profiles", "profiles_series", "profiles_series_gin", "profiles_series_keys"}

// learnTemplates pushes one log line, one span and one profile through the real writer at timestamps that sit just
// before / after UTC midnight, records the `date` the writer stored for each (WriterObs) and keeps the rows as
// templates for planting.
func (x *X) learnTemplates() error {
	w := x.W
	// two instants: 20 minutes before and 20 minutes after a UTC midnight that is also a month boundary; in any zone
	// other than UTC the local day of at least one of them differs from its UTC day
	mid := time.Date(2023, 12, 1, 0, 0, 0, 0, time.UTC).UnixNano()
	for i, ns := range []int64{mid - 20*60*1e9, mid + 20*60*1e9, mid + 12*3600*1e9} {
		body := fmt.Sprintf(`{"streams":[{"stream":{"app":"a1","pos":"%s%d"},"values":[["%d","line %s%d"]]}]}`, tmplMarker, i, ns, tmplMarker, i)
		if code, resp := w.Push("POST", "/loki/api/v1/push", "application/json", []byte(body), nil); code/100 != 2 {
			return fmt.Errorf("template loki push: %d %s", code, resp)
		}
		span := fmt.Sprintf(`[{"traceId":"0000000000000000000000000000a%03d","id":"0000000000000%03d","timestamp":%d,"duration":2000,"name":"%s%d","localEndpoint":{"serviceName":"svc"},"tags":{"pos":"%s%d","app":"a1"}}]`,
			i, i, ns/1000, tmplMarker, i, tmplMarker, i)
		if code, resp := w.Push("POST", "/tempo/spans", "application/json", []byte(span), nil); code/100 != 2 {
			return fmt.Errorf("template span push: %d %s", code, resp)
		}
		name := fmt.Sprintf("app%%7Bpos%%3D%s%d%%2Capp%%3Da1%%7D", tmplMarker, i)
		if code, resp := w.Push("POST", fmt.Sprintf("/ingest?name=%s&from=%d&until=%d", name, ns/1e9, ns/1e9+1), "binary/octet-stream", pprofBytes(ns), nil); code/100 != 2 {
			return fmt.Errorf("template profile push: %d %s", code, resp)
		}
	}
	deadline := time.Now().Add(5 * time.Second)
	for {
		w.Settle()
		c := w.Store.Counts
		if c["time_series"] >= 3 && c["samples_v3"] >= 3 && c["tempo_traces"] >= 3 && c["tempo_traces_attrs_gin"] >= 3 && c["profiles_input"] >= 3 {
			break
		}
		if time.Now().After(deadline) {
			return fmt.Errorf("writer did not flush the template rows within 5s: %v, store errors %v", c, w.StoreErr)
		}
	}
	if len(w.StoreErr) > 0 {
		return fmt.Errorf("store errors while applying template rows: %v", w.StoreErr)
	}
	for _, t := range allTables {
		res, err := w.Store.DB.Query("SELECT * FROM " + t)
		if err != nil {
			return fmt.Errorf("reading template rows of %s: %v", t, err)
		}
		x.Tmpl[t] = tmplTable{Cols: res.Cols, Rows: res.Rows}
	}
	// writer rule observations
	obs := func(table, tsq string, rule string) error {
		res, err := w.Store.DB.Query(tsq)
		if err != nil {
			return err
		}
		for _, r := range res.Rows {
			d, _ := toI64(r[0])
			ts, _ := toI64(r[1])
			o := WriterObs{Table: table, TsNs: ts, Stored: d, UTCDay: utcDay(ts), LocDay: localDay(floorDiv(ts, 1e9)*1e9, time.Local), Rule: rule}
			o.Matches = d == writerDay(ts, rule, time.Local)
			x.WriterObs = append(x.WriterObs, o)
		}
		return nil
	}
	if err := obs("time_series", "SELECT toUInt32(ts.date), s.timestamp_ns FROM time_series AS ts INNER JOIN samples_v3 AS s ON ts.fingerprint = s.fingerprint", "utc"); err != nil {
		return err
	}
	const tempoObs = "SELECT toUInt32(date), timestamp_ns FROM tempo_traces_attrs_gin WHERE key = 'pos'"
	if tempoRuleFlag != "" {
		setTempoRule(tempoRuleFlag)
	} else {
		// learn: the rule that explains every stored day ("utc" first: in a UTC process both do)
		res, err := w.Store.DB.Query(tempoObs)
		if err != nil {
			return err
		}
		explains := func(rule string) bool {
			for _, r := range res.Rows {
				d, _ := toI64(r[0])
				ts, _ := toI64(r[1])
				if d != writerDay(ts, rule, time.Local) {
					return false
				}
			}
			return len(res.Rows) > 0
		}
		if !explains("utc") && explains("local") {
			setTempoRule("local")
		} else {
			setTempoRule("utc") // if neither explains the rows the observations below report the mismatch
		}
	}
	if err := obs("tempo_traces_attrs_gin", tempoObs, tempoRule()); err != nil {
		return err
	}
	if err := obs("profiles_series", "SELECT toUInt32(ps.date), p.timestamp_ns FROM profiles_series AS ps INNER JOIN profiles AS p ON ps.fingerprint = p.fingerprint", "utc"); err != nil {
		return err
	}
	return x.truncate()
}

func toI64(v any) (int64, bool) {
	switch n := v.(type) {
	case int64:
		return n, true
	case uint64:
		return int64(n), true
	case int:
		return int64(n), true
	case int32:
		return int64(n), true
	case uint32:
		return int64(n), true
	case uint16:
		return int64(n), true
	case uint8:
		return int64(n), true
	case int8:
		return int64(n), true
	case int16:
		return int64(n), true
	case float64:
		return int64(n), true
	case chsql.Date:
		return int64(n), true
	case chsql.DateTime:
		return int64(n), true
	case chsql.DateTime64:
		return int64(n), true
	}
	return 0, false
}

func (x *X) truncate() error {
	for _, t := range allTables {
		if err := x.W.Store.DB.Truncate(t); err != nil {
			return err
		}
	}
	return nil
}

// ---------------------------------------------------------------------------------------------------------------
// planting
// ---------------------------------------------------------------------------------------------------------------

// Entity is one planted record: a sample / span / profile at TsNs of signal type Type whose index rows are stored
// under the writer's day for TsNs (IndexDays overrides).
type Entity struct {
	Marker    string  `json:"marker"`
	Role      string  `json:"role"` // from-1, from, mid, to-1, to, far-before, ...
	TsNs      int64   `json:"ts_ns"`
	Type      int     `json:"type"`                 // 1 logs, 2 metrics (lm family); 0 otherwise
	IndexDays []int64 `json:"index_days,omitempty"` // nil: the writer's day
}

func fp64(s string) uint64 {
	h := fnv.New64a()
	h.Write([]byte(s))
	return h.Sum64()
}

func dateVal(day int64) any { return chsql.Date(uint16(day)) }

// plant inserts the entities of one family. wloc is the zone of the (modelled) writer process.
func (x *X) plant(family string, ents []Entity, wloc *time.Location) error {
	st := x.W.Store
	switch family {
	case "lm":
		var srows, samples [][]any
		for _, e := range ents {
			fp := fp64(e.Marker)
			lbl := map[string]string{"app": "a1", "pos": e.Marker, "k" + e.Marker: "1"}
			name := ""
			line := "line " + e.Marker
			val := 0.0
			if e.Type == 2 {
				lbl["__name__"] = "m1"
				name = "m1"
				line = ""
				val = 3
			}
			lb, _ := json.Marshal(lbl)
			days := e.IndexDays
			if days == nil {
				days = []int64{writerDay(e.TsNs, "utc", wloc)}
			}
			for _, d := range days {
				srows = append(srows, []any{dateVal(d), fp, string(lb), name, uint8(e.Type)})
			}
			samples = append(samples, []any{fp, e.TsNs, val, line, uint8(e.Type)})
		}
		if len(srows) > 0 {
			if err := st.Insert("time_series", []string{"date", "fingerprint", "labels", "name", "type"}, srows); err != nil {
				return err
			}
		}
		if len(samples) > 0 {
			if err := st.Insert("samples_v3", []string{"fingerprint", "timestamp_ns", "value", "string", "type"}, samples); err != nil {
				return err
			}
		}
	case "tr":
		tt, ok := x.Tmpl["tempo_traces"]
		if !ok || len(tt.Rows) == 0 {
			return fmt.Errorf("no tempo_traces template")
		}
		ci := func(cols []string, n string) int {
			for i, c := range cols {
				if c == n {
					return i
				}
			}
			return -1
		}
		var trows, arows [][]any
		for k, e := range ents {
			sbtid, ssid, tid := x.traceIDs(e, k)
			if x.sameTrace {
				x.traceID = tid
			}
			btid, sid := []byte(sbtid), []byte(ssid)
			payload := fmt.Sprintf(`{"traceId":"%s","id":"%x","timestamp":%d,"duration":2000,"name":"%s","localEndpoint":{"serviceName":"svc"},"tags":{"pos":"%s","app":"a1","k%s":"1"}}`,
				tid, sid, e.TsNs/1000, e.Marker, e.Marker, e.Marker)
			row := append([]any{}, tt.Rows[0]...)
			row[ci(tt.Cols, "trace_id")] = string(btid)
			row[ci(tt.Cols, "span_id")] = string(sid)
			row[ci(tt.Cols, "name")] = e.Marker
			row[ci(tt.Cols, "timestamp_ns")] = e.TsNs
			row[ci(tt.Cols, "payload")] = payload
			trows = append(trows, row)
			days := e.IndexDays
			if days == nil {
				days = []int64{writerDay(e.TsNs, tempoRule(), wloc)}
			}
			for _, d := range days {
				for _, kv := range [][2]string{{"pos", e.Marker}, {"app", "a1"}, {"name", e.Marker}, {"service.name", "svc"}, {"k" + e.Marker, "1"}} {
					arows = append(arows, []any{"", dateVal(d), kv[0], kv[1], string(btid), string(sid), e.TsNs, int64(2000000)})
				}
			}
		}
		if err := st.Insert("tempo_traces", tt.Cols, trows); err != nil {
			return err
		}
		if err := st.Insert("tempo_traces_attrs_gin", []string{"oid", "date", "key", "val", "trace_id", "span_id", "timestamp_ns", "duration"}, arows); err != nil {
			return err
		}
	case "pf":
		// the writer inserts into profiles_input; the real materialized views derive profiles, profiles_series,
		// profiles_series_gin and profiles_series_keys (date = toDate(timestamp seconds), server zone = UTC)
		pt, ok := x.Tmpl["profiles_input"]
		if !ok || len(pt.Rows) == 0 {
			return fmt.Errorf("no profiles_input template")
		}
		ci := func(n string) int {
			for i, c := range pt.Cols {
				if c == n {
					return i
				}
			}
			return -1
		}
		var rows [][]any
		for _, e := range ents {
			if e.IndexDays != nil {
				return fmt.Errorf("profile index days are derived by the materialized views")
			}
			row := append([]any{}, pt.Rows[0]...)
			row[ci("timestamp_ns")] = uint64(e.TsNs)
			row[ci("tags")] = []any{chsql.Tuple{"pos", e.Marker}, chsql.Tuple{"app", "a1"}, chsql.Tuple{"k" + e.Marker, "1"}}
			if x.typeMarker {
				row[ci("type")] = "pc" + e.Marker
			}
			rows = append(rows, row)
		}
		if err := st.Insert("profiles_input", pt.Cols, rows); err != nil {
			return err
		}
	default:
		return fmt.Errorf("unknown family %s", family)
	}
	return nil
}

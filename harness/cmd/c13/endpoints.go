package main

import (
	"fmt"
	"net/url"
	"strconv"
	"time"

	"github.com/metrico/qryn/reader/prof"
)

// Win is the window a request asks for. Start/End are the API parameters in ns (already at the granularity of the
// API's unit); the requested data window is [Start-Lookback, End) (or End inclusive, see Endpoint.UpIncl).
type Win struct {
	Start int64 `json:"start_ns"`
	End   int64 `json:"end_ns"`
}

// Endpoint describes one read endpoint + query shape.
type Endpoint struct {
	Name     string
	API      string        // logql | prom | tempo | prof
	Signal   int           // 1 logs, 2 metrics, 0: the API has one signal only
	Metric   bool          // metric query: the statement allows widening to bucket / 15 s boundaries
	Unit     time.Duration // granularity of the start/end parameters
	Bucket   time.Duration // range bucket of the query (0: none)
	Lookback time.Duration // data needed before Start (PromQL range / lookback delta, instant LogQL queries)
	Offset   time.Duration // the whole data window is shifted back (PromQL `offset`): [Start-Offset-Lookback, End-Offset]
	UpIncl   bool          // API convention: end is inclusive (Prometheus)
	Family   string        // lm | tr | pf
	NoWindow bool          // the API has no time parameters at all (Tempo v1 tags / tag values)
	Instant  bool
	Thorough bool // only in the thorough tier
	// sparse range queries (Window.tla: the step filter): a range-vector function over Range evaluated every Step with
	// Step > Range: the evaluation at t needs the samples of [t - Offset - Range, t - Offset] only, the planner may skip
	// the gaps between these windows (and nothing else)
	Step  time.Duration
	Range time.Duration
	Call     func(x *X, w Win) (int, string)
}

func secs(ns int64) string { return strconv.FormatFloat(float64(ns)/1e9, 'f', 3, 64) }

// rfc3339 writes the instant with its fractional part: the only spelling of the Prometheus API whose sub-second part
// reaches the engine (numbers are cut to whole seconds by the controller)
func rfc3339(ns int64) string { return time.Unix(0, ns).UTC().Format(time.RFC3339Nano) }

// subMs is the sub-second part (milliseconds, never 0) of the PromQL offsets / ranges of the sub-second select
// endpoints; chosen by the seed (-seed)
var subMs int64 = 250

func msDur(sec int64) string {
	if sec == 0 {
		return fmt.Sprintf("%dms", subMs)
	}
	return fmt.Sprintf("%ds%dms", sec, subMs)
}

type sparseQ struct {
	step int
	rng  time.Duration
	off  time.Duration
}

// promDur spells a duration the way PromQL wants it (1m0s is not accepted)
func promDur(d time.Duration) string {
	ms := d.Milliseconds()
	r := ""
	if ms >= 1000 {
		r = fmt.Sprintf("%ds", ms/1000)
	}
	if ms%1000 != 0 || r == "" {
		r += fmt.Sprintf("%dms", ms%1000)
	}
	return r
}

func lokiRange(q string, step string) func(x *X, w Win) (int, string) {
	return func(x *X, w Win) (int, string) {
		v := url.Values{}
		v.Set("query", q)
		v.Set("start", fmt.Sprint(w.Start))
		v.Set("end", fmt.Sprint(w.End))
		v.Set("limit", "1000")
		if step != "" {
			v.Set("step", step)
		}
		return x.W.Get("/loki/api/v1/query_range?" + v.Encode())
	}
}

func lokiInstant(q string) func(x *X, w Win) (int, string) {
	return func(x *X, w Win) (int, string) {
		v := url.Values{}
		v.Set("query", q)
		v.Set("time", fmt.Sprint(w.End))
		v.Set("limit", "1000")
		return x.W.Get("/loki/api/v1/query?" + v.Encode())
	}
}

func getNs(path string, extra url.Values) func(x *X, w Win) (int, string) {
	return func(x *X, w Win) (int, string) {
		v := url.Values{}
		for k, vs := range extra {
			v[k] = vs
		}
		v.Set("start", fmt.Sprint(w.Start))
		v.Set("end", fmt.Sprint(w.End))
		return x.W.Get(path + "?" + v.Encode())
	}
}

func getSec(path string, extra url.Values, prom bool) func(x *X, w Win) (int, string) {
	return func(x *X, w Win) (int, string) {
		v := url.Values{}
		for k, vs := range extra {
			v[k] = vs
		}
		v.Set("start", fmt.Sprint(w.Start/1e9))
		v.Set("end", fmt.Sprint(w.End/1e9))
		if prom {
			return x.promOrReader(path + "?" + v.Encode())
		}
		return x.W.Get(path + "?" + v.Encode())
	}
}

func (x *X) promOrReader(pq string) (int, string) { return x.W.Get(pq) }

func promRange(q string, step int) func(x *X, w Win) (int, string) {
	return func(x *X, w Win) (int, string) {
		v := url.Values{}
		v.Set("query", q)
		v.Set("start", secs(w.Start))
		v.Set("end", secs(w.End))
		v.Set("step", fmt.Sprint(step))
		return x.promGet("/api/v1/query_range?" + v.Encode())
	}
}

func promInstantRFC(q string) func(x *X, w Win) (int, string) {
	return func(x *X, w Win) (int, string) {
		v := url.Values{}
		v.Set("query", q)
		v.Set("time", rfc3339(w.End))
		return x.promGet("/api/v1/query?" + v.Encode())
	}
}

func promInstant(q string) func(x *X, w Win) (int, string) {
	return func(x *X, w Win) (int, string) {
		v := url.Values{}
		v.Set("query", q)
		v.Set("time", secs(w.End))
		return x.promGet("/api/v1/query?" + v.Encode())
	}
}

func profPost(path string, mk func(w Win) map[string]any) func(x *X, w Win) (int, string) {
	return func(x *X, w Win) (int, string) {
		b := mk(w)
		b["start"] = w.Start / 1e6
		b["end"] = w.End / 1e6
		return x.postJSON(path, b)
	}
}

const profType = "process_cpu:cpu:nanoseconds:cpu:nanoseconds"

func endpoints() []Endpoint {
	sel := `{app="a1"}`
	m := url.Values{"match[]": {sel}}
	pm := url.Values{"match[]": {`m1{app="a1"}`}}
	eps := []Endpoint{
		// ---- LogQL
		{Name: "loki.query_range.log", API: "logql", Signal: 1, Unit: 1024, Family: "lm", Call: lokiRange(sel, "")},
		{Name: "loki.query_range.log_filter", API: "logql", Signal: 1, Unit: 1024, Family: "lm", Call: lokiRange(sel+` |~ "li.e"`, ""), Thorough: true},
		{Name: "loki.query_range.rate_1m_shortcut", API: "logql", Signal: 1, Metric: true, Unit: 1024, Bucket: time.Minute, Family: "lm", Call: lokiRange(`rate(`+sel+`[1m])`, "60")},
		{Name: "loki.query_range.count_7s", API: "logql", Signal: 1, Metric: true, Unit: 1024, Bucket: 7 * time.Second, Family: "lm", Call: lokiRange(`count_over_time(`+sel+`[7s])`, "7")},
		{Name: "loki.query_range.sum_by_filter_1m", API: "logql", Signal: 1, Metric: true, Unit: 1024, Bucket: time.Minute, Family: "lm", Call: lokiRange(`sum by (pos) (count_over_time(`+sel+` |= "line" [1m]))`, "60")},
		{Name: "loki.query_range.bytes_rate_30s", API: "logql", Signal: 1, Metric: true, Unit: 1024, Bucket: 30 * time.Second, Family: "lm", Call: lokiRange(`bytes_rate(`+sel+`[30s])`, "30"), Thorough: true},
		{Name: "loki.query.instant_log", API: "logql", Signal: 1, Unit: 1024, Lookback: 5 * time.Minute, Family: "lm", Instant: true, Call: lokiInstant(sel)},
		{Name: "loki.query.instant_count_1m", API: "logql", Signal: 1, Metric: true, Unit: 1024, Bucket: time.Minute, Lookback: 5 * time.Minute, Family: "lm", Instant: true, Call: lokiInstant(`count_over_time(` + sel + `[1m])`)},
		{Name: "loki.labels", API: "logql", Signal: 1, Unit: 1024, Family: "lm", Call: getNs("/loki/api/v1/labels", nil)},
		{Name: "loki.label_values", API: "logql", Signal: 1, Unit: 1024, Family: "lm", Call: getNs("/loki/api/v1/label/pos/values", nil)},
		{Name: "loki.label_values_match", API: "logql", Signal: 1, Unit: 1024, Family: "lm", Call: getNs("/loki/api/v1/label/pos/values", m)},
		{Name: "loki.series", API: "logql", Signal: 1, Unit: 1024, Family: "lm", Call: getNs("/loki/api/v1/series", m)},
		// ---- Prometheus
		{Name: "prom.series", API: "prom", Signal: 2, Unit: time.Second, UpIncl: true, Family: "lm", Call: getSec("/api/v1/series", pm, true)},
		{Name: "prom.labels", API: "prom", Signal: 2, Unit: time.Second, UpIncl: true, Family: "lm", Call: getSec("/api/v1/labels", nil, true)},
		{Name: "prom.label_values", API: "prom", Signal: 2, Unit: time.Second, UpIncl: true, Family: "lm", Call: getSec("/api/v1/label/pos/values", nil, true)},
		{Name: "prom.label_values_match", API: "prom", Signal: 2, Unit: time.Second, UpIncl: true, Family: "lm", Call: getSec("/api/v1/label/pos/values", pm, true), Thorough: true},
		{Name: "prom.query.instant", API: "prom", Signal: 2, Metric: true, Unit: time.Millisecond, Lookback: 5 * time.Minute, UpIncl: true, Family: "lm", Instant: true, Call: promInstant(`m1{app="a1"}`)},
		{Name: "prom.query.instant_rate_1m", API: "prom", Signal: 2, Metric: true, Unit: time.Millisecond, Lookback: time.Minute, UpIncl: true, Family: "lm", Instant: true, Call: promInstant(`rate(m1{app="a1"}[1m])`)},
	}
	// every hint function of processHints (instant-vector functions, range-vector functions, aggregations, plain
	// selector) x {step 15 s: the downsample (metrics_15s) path when aligned, step 7 s: the raw samples path}
	type pq struct {
		name, q  string
		lookback time.Duration
		thorough bool
	}
	var pqs []pq
	pqs = append(pqs, pq{"selector", `m1{app="a1"}`, 5 * time.Minute, false})
	for i, f := range []string{"abs", "ceil", "timestamp", "sort", "sqrt", "absent", "exp", "floor", "ln", "log2", "log10", "round", "scalar", "sgn", "deg", "rad", "cos", "sin", "tan", "atan", "cosh", "sinh", "tanh"} {
		pqs = append(pqs, pq{f, f + `(m1{app="a1"})`, 5 * time.Minute, i >= 3})
	}
	for i, f := range []string{"rate", "sum_over_time", "last_over_time", "quantile_over_time", "irate", "increase", "delta", "deriv", "idelta", "resets", "changes", "min_over_time", "max_over_time",
		"count_over_time", "avg_over_time", "stddev_over_time", "stdvar_over_time", "present_over_time", "absent_over_time"} {
		q := f + `(m1{app="a1"}[1m])`
		if f == "quantile_over_time" {
			q = `quantile_over_time(0.5, m1{app="a1"}[1m])`
		}
		pqs = append(pqs, pq{f + "_1m", q, time.Minute, i >= 4})
	}
	pqs = append(pqs, pq{"rate_10s_sparse", `rate(m1{app="a1"}[10s])`, 10 * time.Second, false})
	// every range-vector hint function evaluated with a step larger than its range (the step filter of processHints):
	// ranges of whole seconds and with a millisecond part, with and without offset, steps that are / are not multiples
	// of 15 s and of the range
	sparse := map[string]sparseQ{}
	for i, f := range []string{"sum_over_time", "increase", "last_over_time", "rate", "count_over_time", "delta", "irate", "idelta", "deriv", "resets", "min_over_time", "max_over_time",
		"avg_over_time", "stddev_over_time", "stdvar_over_time", "present_over_time", "absent_over_time"} {
		rng := []time.Duration{20 * time.Second, time.Minute, 7 * time.Second, 15*time.Second + time.Duration(subMs)*time.Millisecond}[i%4]
		off := []time.Duration{0, 7 * time.Second, 0, time.Duration(subMs) * time.Millisecond, time.Minute}[i%5]
		step := []int{45, 300, 30, 40}[i%4]
		q := fmt.Sprintf(`%s(m1{app="a1"}[%s]`, f, promDur(rng))
		if off > 0 {
			q += " offset " + promDur(off)
		}
		name := f + "_sparse"
		sparse[name] = sparseQ{step, rng, off}
		pqs = append(pqs, pq{name, q + ")", rng, i >= 4})
	}
	sparse["rate_10s_sparse"] = sparseQ{30, 10 * time.Second, 0}
	for i, f := range []string{"sum", "min", "max", "avg", "group", "count", "topk"} {
		q := f + ` by (pos) (m1{app="a1"})`
		if f == "topk" {
			q = `topk by (pos) (1, m1{app="a1"})`
		}
		pqs = append(pqs, pq{f + "_by", q, 5 * time.Minute, i >= 1})
	}
	for _, p := range pqs {
		for _, step := range []int{15, 7, 30} {
			if sq, ok := sparse[p.name]; ok {
				if step != 15 {
					continue
				}
				eps = append(eps, Endpoint{Name: fmt.Sprintf("prom.query_range.%s.step%d", p.name, sq.step), API: "prom", Signal: 2, Metric: true, Unit: time.Second,
					Lookback: p.lookback, Offset: sq.off, UpIncl: true, Family: "lm", Call: promRange(p.q, sq.step), Thorough: p.thorough,
					Step: time.Duration(sq.step) * time.Second, Range: sq.rng})
				continue
			}
			if step == 30 {
				continue
			}
			// Unit: the controller aligns start / end to whole 15 s and steps are whole seconds: every evaluation instant
			// is a whole second, a fraction of start / end cannot change which samples are needed
			eps = append(eps, Endpoint{Name: fmt.Sprintf("prom.query_range.%s.step%d", p.name, step), API: "prom", Signal: 2, Metric: true, Unit: time.Second,
				Lookback: p.lookback, UpIncl: true, Family: "lm", Call: promRange(p.q, step), Thorough: p.thorough || (step == 7 && p.name != "selector" && p.name != "rate_1m")})
		}
	}
	// ---- Prometheus selects whose window [hints.Start, hints.End] is NOT on whole seconds. Three ways lead there:
	// an RFC 3339 evaluation time with a fraction (instant queries), a PromQL offset with a millisecond part (shifts
	// both ends), a range with a millisecond part (shifts the start). Every hint function kind (plain selector,
	// instant-vector function, range-vector function - supported and unsupported by the 15 s path -, aggregation) on
	// instant queries and on range queries with steps 15 s and 7 s.
	off := time.Duration(subMs) * time.Millisecond
	type sq struct {
		name, q  string
		lookback time.Duration
		offset   time.Duration
		thorough bool
	}
	sqs := []sq{
		{"selector", `m1{app="a1"}`, 5 * time.Minute, 0, false},
		{"rate_1m", `rate(m1{app="a1"}[1m])`, time.Minute, 0, false},
		{"selector_offset_ms", `m1{app="a1"} offset ` + msDur(0), 5 * time.Minute, off, false},
		{"selector_offset_s_ms", `m1{app="a1"} offset ` + msDur(7), 5 * time.Minute, 7*time.Second + off, true},
		{"abs_offset_ms", `abs(m1{app="a1"} offset ` + msDur(0) + `)`, 5 * time.Minute, off, true},
		{"rate_range_ms", `rate(m1{app="a1"}[` + msDur(60) + `])`, time.Minute + off, 0, false},
		{"sum_over_time_offset_ms", `sum_over_time(m1{app="a1"}[1m] offset ` + msDur(0) + `)`, time.Minute, off, true},
		{"quantile_over_time_range_ms", `quantile_over_time(0.5, m1{app="a1"}[` + msDur(60) + `])`, time.Minute + off, 0, true},
		{"last_over_time_range_offset_ms", `last_over_time(m1{app="a1"}[` + msDur(30) + `] offset ` + msDur(1) + `)`, 30*time.Second + off, time.Second + off, true},
		{"sum_by_offset_ms", `sum by (pos) (m1{app="a1"} offset ` + msDur(0) + `)`, 5 * time.Minute, off, false},
		{"topk_by_offset_ms", `topk by (pos) (1, m1{app="a1"} offset ` + msDur(3) + `)`, 5 * time.Minute, 3*time.Second + off, true},
	}
	for _, p := range sqs {
		// instant, RFC 3339 time with a fraction (milliseconds: the engine's resolution)
		eps = append(eps, Endpoint{Name: "prom.query.instant_rfc3339." + p.name, API: "prom", Signal: 2, Metric: true, Unit: time.Millisecond, Lookback: p.lookback, Offset: p.offset,
			UpIncl: true, Family: "lm", Instant: true, Call: promInstantRFC(p.q), Thorough: p.thorough})
		if p.offset == 0 && p.lookback%time.Second == 0 {
			continue
		}
		// instant with a whole-second time, range queries: the sub-second part comes from the query text
		eps = append(eps, Endpoint{Name: "prom.query.instant_subsec." + p.name, API: "prom", Signal: 2, Metric: true, Unit: time.Second, Lookback: p.lookback, Offset: p.offset,
			UpIncl: true, Family: "lm", Instant: true, Call: promInstant(p.q), Thorough: true})
		for _, step := range []int{15, 7} {
			eps = append(eps, Endpoint{Name: fmt.Sprintf("prom.query_range.subsec.%s.step%d", p.name, step), API: "prom", Signal: 2, Metric: true, Unit: time.Second,
				Lookback: p.lookback, Offset: p.offset, UpIncl: true, Family: "lm", Call: promRange(p.q, step), Thorough: p.thorough || step == 7 && p.name != "selector_offset_ms"})
		}
	}
	// ---- Tempo
	eps = append(eps,
		Endpoint{Name: "tempo.trace_by_id", API: "tempo", Unit: time.Second, Family: "tr", UpIncl: true, Call: func(x *X, w Win) (int, string) {
			return x.W.Get(fmt.Sprintf("/api/traces/%s?start=%d&end=%d", x.traceID, w.Start/1e9, w.End/1e9))
		}},
		Endpoint{Name: "tempo.search_tags", API: "tempo", Unit: time.Second, Family: "tr", UpIncl: true, Call: getSec("/api/search", url.Values{"tags": {"app=a1"}, "limit": {"100"}}, false)},
		Endpoint{Name: "tempo.search_notags", API: "tempo", Unit: time.Second, Family: "tr", UpIncl: true, Call: getSec("/api/search", url.Values{"limit": {"100"}}, false)},
		Endpoint{Name: "tempo.search_traceql", API: "tempo", Unit: time.Second, Family: "tr", UpIncl: true, Call: getSec("/api/search", url.Values{"q": {`{.app="a1"}`}, "limit": {"100"}}, false)},
		Endpoint{Name: "tempo.search_traceql_attrless", API: "tempo", Unit: time.Second, Family: "tr", UpIncl: true, Call: getSec("/api/search", url.Values{"q": {`{}`}, "limit": {"100"}}, false)},
		Endpoint{Name: "tempo.search_traceql_duration", API: "tempo", Unit: time.Second, Family: "tr", UpIncl: true, Call: getSec("/api/search", url.Values{"q": {`{.app="a1" && duration > 1ms}`}, "limit": {"100"}}, false), Thorough: true},
		Endpoint{Name: "tempo.v1.tags", API: "tempo", Unit: time.Second, Family: "tr", NoWindow: true, Call: func(x *X, w Win) (int, string) { return x.W.Get("/api/search/tags") }},
		Endpoint{Name: "tempo.v1.tag_values", API: "tempo", Unit: time.Second, Family: "tr", NoWindow: true, Call: func(x *X, w Win) (int, string) { return x.W.Get("/api/search/tag/pos/values") }},
		Endpoint{Name: "tempo.v2.tags", API: "tempo", Unit: time.Second, Family: "tr", UpIncl: true, Call: getSec("/api/v2/search/tags", nil, false)},
		Endpoint{Name: "tempo.v2.tags_q", API: "tempo", Unit: time.Second, Family: "tr", UpIncl: true, Call: getSec("/api/v2/search/tags", url.Values{"q": {`{.app="a1"}`}}, false)},
		Endpoint{Name: "tempo.v2.tag_values", API: "tempo", Unit: time.Second, Family: "tr", UpIncl: true, Call: getSec("/api/v2/search/tag/pos/values", nil, false)},
		Endpoint{Name: "tempo.v2.tag_values_q", API: "tempo", Unit: time.Second, Family: "tr", UpIncl: true, Call: getSec("/api/v2/search/tag/pos/values", url.Values{"q": {`{.app="a1"}`}}, false)},
	)
	// ---- Pyroscope
	lsel := `{app="a1"}`
	eps = append(eps,
		Endpoint{Name: "prof.ProfileTypes", API: "prof", Unit: time.Millisecond, Family: "pf", UpIncl: true, Call: profPost(prof.QuerierService_ProfileTypes_FullMethodName, func(w Win) map[string]any { return map[string]any{} })},
		Endpoint{Name: "prof.LabelNames", API: "prof", Unit: time.Millisecond, Family: "pf", UpIncl: true, Call: profPost(prof.QuerierService_LabelNames_FullMethodName, func(w Win) map[string]any { return map[string]any{} })},
		Endpoint{Name: "prof.LabelNames_match", API: "prof", Unit: time.Millisecond, Family: "pf", UpIncl: true, Call: profPost(prof.QuerierService_LabelNames_FullMethodName, func(w Win) map[string]any { return map[string]any{"matchers": []string{lsel}} })},
		Endpoint{Name: "prof.LabelValues", API: "prof", Unit: time.Millisecond, Family: "pf", UpIncl: true, Call: profPost(prof.QuerierService_LabelValues_FullMethodName, func(w Win) map[string]any { return map[string]any{"name": "pos"} })},
		Endpoint{Name: "prof.LabelValues_match", API: "prof", Unit: time.Millisecond, Family: "pf", UpIncl: true, Call: profPost(prof.QuerierService_LabelValues_FullMethodName, func(w Win) map[string]any { return map[string]any{"name": "pos", "matchers": []string{lsel}} })},
		Endpoint{Name: "prof.Series", API: "prof", Unit: time.Millisecond, Family: "pf", UpIncl: true, Call: profPost(prof.QuerierService_Series_FullMethodName, func(w Win) map[string]any {
			return map[string]any{"matchers": []string{lsel}, "label_names": []string{"pos"}}
		})},
		Endpoint{Name: "prof.Series_all", API: "prof", Unit: time.Millisecond, Family: "pf", UpIncl: true, Call: profPost(prof.QuerierService_Series_FullMethodName, func(w Win) map[string]any { return map[string]any{} })},
		Endpoint{Name: "prof.SelectSeries", API: "prof", Unit: time.Millisecond, Family: "pf", Metric: true, Bucket: 15 * time.Second, UpIncl: true, Call: profPost(prof.QuerierService_SelectSeries_FullMethodName, func(w Win) map[string]any {
			return map[string]any{"profile_typeID": profType, "label_selector": lsel, "group_by": []string{"pos"}, "step": 15.0}
		})},
		Endpoint{Name: "prof.SelectMergeStacktraces", API: "prof", Unit: time.Millisecond, Family: "pf", UpIncl: true, Call: profPost(prof.QuerierService_SelectMergeStacktraces_FullMethodName, func(w Win) map[string]any {
			return map[string]any{"profile_typeID": profType, "label_selector": lsel}
		})},
		Endpoint{Name: "prof.SelectMergeProfile", API: "prof", Unit: time.Millisecond, Family: "pf", UpIncl: true, Call: profPost(prof.QuerierService_SelectMergeProfile_FullMethodName, func(w Win) map[string]any {
			return map[string]any{"profile_typeID": profType, "label_selector": lsel}
		})},
	)
	return eps
}

package main

import (
	"errors"
	"fmt"
	"regexp"
	"sort"
	"strings"
	"time"

	"verif/harness/chsql"
)

var markerRe = regexp.MustCompile(`zq[0-9]{3}[lmx]x`)

func alignWin(ep *Endpoint, w Win) Win {
	u := int64(ep.Unit)
	if u <= 0 {
		u = 1
	}
	return Win{Start: floorTo(w.Start, u), End: floorTo(w.End, u)}
}

// reqWindow: the data window the request asks for, [F, T) or [F, T].
func reqWindow(ep *Endpoint, w Win) (int64, int64) {
	if ep.Instant {
		return w.End - int64(ep.Lookback) - int64(ep.Offset), w.End - int64(ep.Offset)
	}
	return w.Start - int64(ep.Lookback) - int64(ep.Offset), w.End - int64(ep.Offset)
}

// outerWindow: Window.tla's OuterLo / OuterHi / HiPoint: what a statement may read at most: the request window, for
// metric queries widened to the enclosing 15 s / range-bucket boundaries. lo and hi are inclusive bounds in ns, point is
// the (widened) end instant itself (used for the last index day the window touches).
func outerWindow(ep *Endpoint, w Win) (lo, hi, point int64) {
	f, t := reqWindow(ep, w)
	lo, point = f, t
	if ep.Metric {
		qs := []int64{s15Ns}
		if ep.Bucket > 0 {
			qs = append(qs, int64(ep.Bucket))
		}
		back, off := int64(ep.Lookback)+int64(ep.Offset), int64(ep.Offset)
		for _, q := range qs {
			// widen the un-shifted request ends (lookback and offset are subtracted after alignment)
			s, e := f+back, t+off
			if l := floorTo(s, q) - back; l < lo {
				lo = l
			}
			if h := floorTo(e, q) + q - off; h > point {
				point = h
			}
			if q != s15Ns {
				// time.Truncate rounds relative to the zero time
				tt := time.Unix(0, floorTo(s, secNs)).Truncate(time.Duration(q)).UnixNano()
				if l := tt - back; l < lo {
					lo = l
				}
				if h := time.Unix(0, floorTo(e, secNs)).Truncate(time.Duration(q)).UnixNano() + q - off; h > point {
					point = h
				}
			}
		}
	}
	hi = point
	if !ep.UpIncl {
		hi = point - 1
	}
	return lo, hi, point
}

type StmtObs struct {
	SQL     string      `json:"sql"`
	Err     string      `json:"err,omitempty"`
	Rows    int         `json:"rows"`
	Scans   []Scan      `json:"-"`
	Classes []ScanClass `json:"classes"`
	ScanObs []ScanObs   `json:"scans"`
	// JoinTables: tables read by a block that also has JOIN / ARRAY JOIN clauses: the interpreter reports the rows
	// admitted by PREWHERE alone for those, so "admitted" over-approximates when the bounds sit in WHERE
	JoinTables map[string]bool `json:"join_tables,omitempty"`
}

type ScanObs struct {
	Table    string   `json:"table"`
	Offered  int      `json:"offered"`
	Admitted int      `json:"admitted"`
	Markers  []string `json:"markers"` // planted entities with at least one admitted row
}

type Obs struct {
	Status     int                        `json:"status"`
	Body       string                     `json:"body"`
	Stmts      []StmtObs                  `json:"stmts"`
	Visible    []string                   `json:"visible"`
	Entities   []Entity                   `json:"entities"`
	ByMarker   map[string]Entity          `json:"-"`
	Present    map[string]map[string]bool `json:"-"`                     // table -> markers that have rows in it
	StmtErrors []string                   `json:"stmt_errors,omitempty"` // statements the interpreter rejected with an error ClickHouse would raise too (not this property's business)
}

func standardEntities(ep *Endpoint, w Win, extra []int64) []Entity {
	f, t := reqWindow(ep, w)
	lo, hi, _ := outerWindow(ep, w)
	type rt struct {
		role string
		ts   int64
	}
	rts := []rt{{"from-1", f - 1}, {"from", f}, {"mid", f + (t-f)/2}, {"to-1", t - 1}, {"to", t}, {"to+1", t + 1},
		{"outer-lo-1", lo - 1}, {"outer-lo", lo}, {"outer-hi", hi}, {"outer-hi+1", hi + 1},
		{"far-before", f - 2*dayNs - 3600e9}, {"far-after", t + 2*dayNs + 3600e9},
		{"day-before", (utcDay(f-m30Ns)-1)*dayNs + dayNs/2}, {"day-after", (utcDay(t)+1)*dayNs + dayNs/2}}
	// rows just inside and just outside the two ends at millisecond distance, and at the starts of the seconds the
	// ends lie in (where a bound that lost its fraction falls back to): only where they are distinct instants
	seen := map[int64]bool{}
	for _, r := range rts {
		seen[r.ts] = true
	}
	for _, r := range []rt{{"from+1", f + 1}, {"from-1ms", f - 1e6}, {"from+1ms", f + 1e6}, {"to-1ms", t - 1e6}, {"to+1ms", t + 1e6},
		{"from@sec", floorTo(f, secNs)}, {"from@sec-1", floorTo(f, secNs) - 1}, {"to@sec", floorTo(t, secNs)}, {"to@sec+1", floorTo(t, secNs) + 1},
		{"to@sec+1s", floorTo(t, secNs) + secNs}} {
		if !seen[r.ts] {
			seen[r.ts] = true
			rts = append(rts, r)
		}
	}
	if ep.Sparse() {
		// sparse range query: the edges (at millisecond distance: the unit of the step filter), the middle and the gap
		// of the range windows of the first evaluation instants, of one in the middle and of the last ones
		step, rng, off := int64(ep.Step), int64(ep.Range), int64(ep.Offset)
		e0, n := evalStart(ep, w), (evalEnd(ep, w)-evalStart(ep, w))/int64(ep.Step)
		ks := map[int64]bool{}
		for _, k := range []int64{0, 1, 2, n / 2, n - 1, n} {
			if k < 0 || k > n || ks[k] {
				continue
			}
			ks[k] = true
			te := e0 + k*step - off
			for _, r := range []rt{{"sub-lo-1ms", te - rng - 1e6}, {"sub-lo", te - rng}, {"sub-lo+1ms", te - rng + 1e6}, {"sub-mid", te - rng/2}, {"sub-hi-1ms", te - 1e6}, {"sub-hi", te},
				{"sub-hi+1ms", te + 1e6}, {"sub-gap", te + (step-rng)/2}} {
				if !seen[r.ts] {
					seen[r.ts] = true
					rts = append(rts, r)
				}
			}
		}
	}
	for i, e := range extra {
		rts = append(rts, rt{fmt.Sprintf("extra%d", i), e})
	}
	var ents []Entity
	n := 0
	for _, r := range rts {
		if ep.Family == "lm" {
			for _, ty := range []int{1, 2} {
				sfx := "l"
				if ty == 2 {
					sfx = "m"
				}
				ents = append(ents, Entity{Marker: fmt.Sprintf("zq%03d%sx", n, sfx), Role: r.role, TsNs: r.ts, Type: ty})
			}
		} else {
			ents = append(ents, Entity{Marker: fmt.Sprintf("zq%03dxx", n), Role: r.role, TsNs: r.ts})
		}
		n++
	}
	return ents
}

// probe plants the entities for (ep, w), calls the REAL endpoint, and observes the executed statements (parsed,
// classified, rows offered / admitted per base-table scan by the reference interpreter) and the response.
func (x *X) probe(ep *Endpoint, w Win, wloc *time.Location, extra []int64) (*Obs, error) {
	if err := x.truncate(); err != nil {
		return nil, err
	}
	ents := standardEntities(ep, w, extra)
	x.sameTrace = strings.Contains(ep.Name, "trace_by_id")
	x.typeMarker = ep.Name == "prof.ProfileTypes"
	if err := x.plant(ep.Family, ents, wloc); err != nil {
		return nil, fmt.Errorf("plant: %v", err)
	}
	o := &Obs{Entities: ents, ByMarker: map[string]Entity{}, Present: map[string]map[string]bool{}}
	for _, e := range ents {
		o.ByMarker[e.Marker] = e
	}
	ids, err := x.idMap(ep.Family, ents)
	if err != nil {
		return nil, err
	}
	// which entities have rows in which table (to tell "offered but not admitted" from "not there")
	for t, info := range tablesInfo {
		if info.Family != ep.Family {
			continue
		}
		res, err := x.W.Store.DB.Query("SELECT * FROM " + t)
		if err != nil {
			return nil, err
		}
		o.Present[t] = map[string]bool{}
		for _, r := range res.Rows {
			for _, m := range rowMarkers(r, ids) {
				o.Present[t][m] = true
			}
		}
	}
	x.W.Bridge.Drain()
	nUns := len(x.W.Bridge.Unsupported)
	o.Status, o.Body = ep.Call(x, w)
	execs := x.W.Bridge.Drain()
	if len(x.W.Bridge.Unsupported) > nUns {
		return nil, fmt.Errorf("%w: %s", chsql.ErrUnsupported, strings.Join(x.W.Bridge.Unsupported[nUns:], " ;; "))
	}
	for _, ex := range execs {
		so := StmtObs{SQL: ex.SQL, Rows: ex.Rows}
		if ex.Err != nil {
			so.Err = ex.Err.Error()
			if errors.Is(ex.Err, chsql.ErrUnsupported) {
				return nil, fmt.Errorf("chsql cannot run a statement of %s: %v :: %s", ep.Name, ex.Err, ex.SQL)
			}
			o.StmtErrors = append(o.StmtErrors, fmt.Sprintf("%v :: %.300s", ex.Err, ex.SQL))
		}
		scans, err := analyseSQL(ex.SQL)
		if err != nil {
			return nil, fmt.Errorf("analysing a statement of %s: %v :: %s", ep.Name, err, ex.SQL)
		}
		so.Scans = scans
		for _, sc := range scans {
			so.Classes = append(so.Classes, classify(sc, ep, w))
		}
		for _, si := range ex.Scans {
			t := baseTable(si.Table)
			if _, ok := tablesInfo[t]; !ok {
				continue
			}
			set := map[string]bool{}
			for _, r := range si.AdmittedRows {
				for _, m := range rowMarkers(r, ids) {
					set[m] = true
				}
			}
			so.ScanObs = append(so.ScanObs, ScanObs{Table: t, Offered: si.Offered, Admitted: si.Admitted, Markers: keys(set)})
		}
		o.Stmts = append(o.Stmts, so)
	}
	vis := map[string]bool{}
	for _, m := range markerRe.FindAllString(o.Body, -1) {
		vis[m] = true
	}
	// binary trace ids (hex in JSON responses)
	for id, m := range ids.hex {
		if strings.Contains(o.Body, id) {
			vis[m] = true
		}
	}
	o.Visible = keys(vis)
	return o, nil
}

type idmap struct {
	u64 map[uint64]string
	bin map[string]string
	hex map[string]string
}

func (x *X) idMap(family string, ents []Entity) (*idmap, error) {
	m := &idmap{u64: map[uint64]string{}, bin: map[string]string{}, hex: map[string]string{}}
	switch family {
	case "lm":
		for _, e := range ents {
			m.u64[fp64(e.Marker)] = e.Marker
		}
	case "tr":
		for k, e := range ents {
			_, bsid, htid := x.traceIDs(e, k)
			if !x.sameTrace {
				m.hex[htid] = e.Marker
			}
			m.bin[bsid] = e.Marker
		}
	case "pf":
		res, err := x.W.Store.DB.Query("SELECT fingerprint, tags FROM profiles_series")
		if err != nil {
			return nil, err
		}
		for _, r := range res.Rows {
			fp, _ := r[0].(uint64)
			if mk := markerRe.FindString(fmt.Sprint(r[1])); mk != "" {
				m.u64[fp] = mk
			}
		}
	}
	return m, nil
}

func rowMarkers(row []any, ids *idmap) []string {
	set := map[string]bool{}
	var visit func(v any)
	visit = func(v any) {
		switch t := v.(type) {
		case uint64:
			if m, ok := ids.u64[t]; ok {
				set[m] = true
			}
		case string:
			if m, ok := ids.bin[t]; ok {
				set[m] = true
			}
			for _, m := range markerRe.FindAllString(t, -1) {
				set[m] = true
			}
		case chsql.FixedString:
			visit(string(t))
		case []any:
			for _, e := range t {
				visit(e)
			}
		case chsql.Tuple:
			for _, e := range t {
				visit(e)
			}
		case map[string]string:
			for k, e := range t {
				visit(k)
				visit(e)
			}
		}
	}
	for _, v := range row {
		visit(v)
	}
	return keys(set)
}

// ---------------------------------------------------------------------------------------------------------------
// concrete oracle = Window.tla's definitions instantiated with real quanta
// ---------------------------------------------------------------------------------------------------------------

type Finding struct {
	Kind     string  `json:"kind"` // leak | miss
	Why      string  `json:"why"`  // outside-window | other-signal | date-bound | type-filter
	Endpoint string  `json:"endpoint"`
	Cluster  string  `json:"cluster"`
	TZ       string  `json:"tz"`
	WriterTZ string  `json:"writer_tz"`
	Win      Win     `json:"win"`
	Stmt     int     `json:"stmt"`
	Table    string  `json:"table"`
	Class    string  `json:"class"` // classification of the scan(s) of that table in the statement (this request)
	SQL      string  `json:"sql"`
	Entity   Entity  `json:"entity"`
	Visible  bool    `json:"visible_in_response"`
	Evidence string  `json:"evidence"` // scan: rows admitted by the interpreter; bounds+response: literal bounds of the real statement admit the row and the response shows it
	Detail   string  `json:"detail"`
	Bounds   []Bound `json:"bounds"`
	Status   int     `json:"http_status"`
	Side     string  `json:"side"` // which predicate is to blame: lo | hi (timestamp or date bound), ty (type filter)
}

func rightSignal(ep *Endpoint, e Entity) bool {
	return ep.Signal == 0 || e.Type == ep.Signal || e.Type == 0
}

// boundsAdmit: do the literal time / date / type predicates of the real statement admit the entity's row of this table?
func boundsAdmit(c ScanClass, e Entity, day int64, hasTs, hasDate bool) bool {
	for _, b := range c.Bounds {
		switch b.Col {
		case "ts":
			if !hasTs {
				continue
			}
			switch b.Op {
			case "ge":
				if !(e.TsNs >= b.Num) {
					return false
				}
			case "gt":
				if !(e.TsNs > b.Num) {
					return false
				}
			case "lt":
				if !(e.TsNs < b.Num) {
					return false
				}
			case "le":
				if !(e.TsNs <= b.Num) {
					return false
				}
			case "eq":
				if e.TsNs != b.Num {
					return false
				}
			}
		case "date":
			if !hasDate {
				continue
			}
			if (b.Op == "ge" && day < b.Day) || (b.Op == "le" && day > b.Day) || (b.Op == "gt" && day <= b.Day) || (b.Op == "lt" && day >= b.Day) || (b.Op == "eq" && day != b.Day) {
				return false
			}
		case "type":
			if !containsI(b.Set, int64(e.Type)) {
				return false
			}
		}
	}
	return true
}

// judge compares the observation with the property (the concrete instance of Window.tla's Leak / Miss).
func judge(ep *Endpoint, cluster string, w Win, wloc *time.Location, o *Obs) []Finding {
	var fs []Finding
	f, t := reqWindow(ep, w)
	lo, hi, hiPoint := outerWindow(ep, w)
	vis := map[string]bool{}
	for _, m := range o.Visible {
		vis[m] = true
	}
	for si := range o.Stmts {
		st := &o.Stmts[si]
		mk := func(kind, why, side, evidence, table string, e Entity, detail string) Finding {
			var cls []string
			var bounds []Bound
			for _, c := range st.Classes {
				if c.Table == table {
					cls = append(cls, c.String())
					bounds = append(bounds, c.Bounds...)
				}
			}
			return Finding{Kind: kind, Why: why, Endpoint: ep.Name, Cluster: cluster, TZ: time.Local.String(), WriterTZ: wloc.String(), Win: w, Stmt: si, Table: table,
				Class: strings.Join(cls, " | "), SQL: st.SQL, Entity: e, Visible: vis[e.Marker], Evidence: evidence, Detail: detail, Bounds: bounds, Status: o.Status, Side: side}
		}
		joinTables := map[string]bool{}
		for _, sc := range st.Scans {
			if sc.InJoinBlock || sc.IsJoin {
				joinTables[sc.Table] = true
			}
		}
		tables := map[string]bool{}
		for _, so := range st.ScanObs {
			tables[so.Table] = true
		}
		for _, table := range keys(tables) {
			info := tablesInfo[table]
			hasTs, hasDate := info.Kind != "index", info.WRule != ""
			var classes []ScanClass
			byTs := info.Kind == "data"
			for _, c := range st.Classes {
				if c.Table == table {
					classes = append(classes, c)
					if info.Kind == "both" && (c.TsLo != nil || c.TsHi != nil) {
						byTs = true
					}
				}
			}
			adm := map[string]bool{} // admitted by some scan of this table in this statement
			for _, so := range st.ScanObs {
				if so.Table == table {
					for _, m := range so.Markers {
						adm[m] = true
					}
				}
			}
			reliable := !joinTables[table]
			for _, e := range o.Entities {
				if !o.Present[table][e.Marker] || ep.NoWindow {
					continue
				}
				day := writerDay(e.TsNs, info.WRule, wloc)
				admitted, evidence := adm[e.Marker], "scan"
				passed := adm[e.Marker] // did the row get through this table's time / type predicates
				if !reliable {
					// fall back to the literal bounds of the real statement, and demand that the response shows the row
					admitted, evidence = false, "bounds+response"
					for _, c := range classes {
						if boundsAdmit(c, e, day, hasTs, hasDate) {
							admitted = true
						}
					}
					passed = admitted && adm[e.Marker]
					admitted = passed && vis[e.Marker]
				}
				if admitted {
					switch {
					case !rightSignal(ep, e):
						fs = append(fs, mk("leak", "other-signal", "ty", evidence, table, e, fmt.Sprintf("row of signal type %d admitted on a request for signal %d", e.Type, ep.Signal)))
					case byTs && (rowTs(table, e) < lo || rowTs(table, e) > hi):
						fs = append(fs, mk("leak", "outside-window", map[bool]string{true: "lo", false: "hi"}[rowTs(table, e) < lo], evidence, table, e,
							fmt.Sprintf("row at %d admitted; the request window is [%d, %d%s, readable at most [%d, %d]", e.TsNs, f, t, map[bool]string{true: "]", false: ")"}[ep.UpIncl], lo, hi)))
					case !byTs:
						dlo, dhi := writerDay(lo-m30Ns, info.WRule, wloc), writerDay(hiPoint, info.WRule, wloc)
						if (day < dlo || day > dhi) && vis[e.Marker] {
							fs = append(fs, mk("leak", "outside-window", map[bool]string{true: "lo", false: "hi"}[day < dlo], evidence+"+response", table, e,
								fmt.Sprintf("index row of day %d admitted and returned; the days the window touches are %d..%d", day, dlo, dhi)))
						}
					}
					continue
				}
				// misses: a row inside the window, of the right signal, not returned, and a predicate of this statement
				// rejects it: a date / type predicate its index row (stored under the writer's day), a timestamp / type
				// predicate a row whose stored timestamp lies STRICTLY inside the window (Window.tla TsMiss: whether the
				// two end instants belong to the window is the API's convention)
				if !hasDate && !hasTs {
					continue
				}
				in := e.TsNs >= f && (e.TsNs < t || (ep.UpIncl && e.TsNs == t))
				if !in || !(ep.Signal == 0 || e.Type == ep.Signal) || passed || vis[e.Marker] {
					continue
				}
				sts := rowTs(table, e)
				interior := hasTs && sts > f && sts < t
				for _, c := range classes {
					// the step filter (Window.tla PhaseMiss): a row strictly inside the window AND inside the range window
					// of an evaluation instant, which the other predicates of the scan admit and the step filter rejects
					if te, ok := subWindow(ep, w, sts); c.PhaseF != nil && ep.Sparse() && interior && ok && !c.PhaseF.Admits(sts) && boundsAdmit(c, e, day, hasTs, hasDate) {
						fs = append(fs, mk("miss", "step-filter", "ph", "scan+bounds+response", table, e,
							fmt.Sprintf("row at %d (stored timestamp %d) lies in the range window [%d, %d] of the evaluation at %d (step %s, range %s, offset %s) and is rejected by %s", e.TsNs, sts,
								te-int64(ep.Range), te, te+int64(ep.Offset), ep.Step, ep.Range, ep.Offset, c.PhaseF.Text)))
					}
					for _, b := range c.Bounds {
						switch {
						case hasDate && b.Col == "date" && b.Op == "ge" && day < b.Day, hasDate && b.Col == "date" && b.Op == "le" && day > b.Day:
							fs = append(fs, mk("miss", "date-bound", map[bool]string{true: "lo", false: "hi"}[b.Op == "ge"], "scan+bounds+response", table, e,
								fmt.Sprintf("row at %d is inside the window [%d, %d]; its index row is stored under day %d (writer rule %s, zone %s) and is rejected by %s", e.TsNs, f, t, day, info.WRule, wloc, b.Text)))
						case b.Col == "type" && !containsI(b.Set, int64(e.Type)) && (hasDate || interior):
							fs = append(fs, mk("miss", "type-filter", "ty", "scan+bounds+response", table, e, fmt.Sprintf("row of type %d rejected by %s", e.Type, b.Text)))
						case interior && b.Col == "ts" && ((b.Op == "ge" && sts < b.Num) || (b.Op == "gt" && sts <= b.Num)):
							fs = append(fs, mk("miss", "ts-bound", "lo", "scan+bounds+response", table, e,
								fmt.Sprintf("row at %d (stored timestamp %d) is strictly inside the window [%d, %d] and is rejected by %s: the bound lies %d ns after the start of the window", e.TsNs, sts, f, t, b.Text, b.Num-f)))
						case interior && b.Col == "ts" && ((b.Op == "le" && sts > b.Num) || (b.Op == "lt" && sts >= b.Num)):
							fs = append(fs, mk("miss", "ts-bound", "hi", "scan+bounds+response", table, e,
								fmt.Sprintf("row at %d (stored timestamp %d) is strictly inside the window [%d, %d] and is rejected by %s: the bound lies %d ns before the end of the window", e.TsNs, sts, f, t, b.Text, t-b.Num)))
						}
					}
				}
			}
		}
	}
	return fs
}

// rowTs: the timestamp the table stores for the entity: metrics_15s rows carry the start of the 15 s bucket of the
// sample (Window.tla: agg15), every other table the sample's own timestamp.
func rowTs(table string, e Entity) int64 {
	if table == "metrics_15s" {
		return floorTo(e.TsNs, s15Ns)
	}
	return e.TsNs
}

func containsI(s []int64, v int64) bool {
	for _, x := range s {
		if x == v {
			return true
		}
	}
	return false
}

func sortedKeys[T any](m map[string]T) []string {
	var r []string
	for k := range m {
		r = append(r, k)
	}
	sort.Strings(r)
	return r
}

package main

import (
	"fmt"
	"strings"
	"time"
)

func dump(only string, clusters []string) {
	for _, cl := range clusters {
		x, err := newX(cl)
		if err != nil {
			fatal("world: %v", err)
		}
		fmt.Printf("######## cluster=%q TZ=%s\n", cl, time.Local)
		for _, o := range x.WriterObs {
			fmt.Printf("writer obs %+v\n", o)
		}
		w := Win{Start: baseNs + 24*3600e9 + 10*60e9 + 7300000500, End: baseNs + 24*3600e9 + 22*3600e9 + 40*60e9 + 21700000300}
		for _, ep := range endpoints() {
			if only != "" && !strings.Contains(ep.Name, only) {
				continue
			}
			ep := ep
			ww := alignWin(&ep, w)
			obs, err := x.probe(&ep, ww, time.Local, nil)
			if err != nil {
				fmt.Printf("=== %s: ERROR %v\n", ep.Name, err)
				continue
			}
			fmt.Printf("=== %s status=%d body=%.300q\n", ep.Name, obs.Status, obs.Body)
			for _, st := range obs.Stmts {
				fmt.Printf("  SQL err=%v rows=%d: %s\n", st.Err, st.Rows, st.SQL)
				for _, sc := range st.Classes {
					fmt.Printf("     scan %s extra=%v unk=%v\n", sc.String(), sc.Extra, sc.Unk)
				}
				for _, si := range st.ScanObs {
					fmt.Printf("     exec %s offered=%d admitted=%d markers=%v\n", si.Table, si.Offered, si.Admitted, si.Markers)
				}
			}
			fmt.Printf("  visible=%v\n", obs.Visible)
		}
		x.Close()
	}
}

// c02blocks: every INSERT block of EVERY insert service is rectangular and made of whole submitted rows (C02) and a push
// is acknowledged only when its rows were in a successful INSERT (C01), on all ingest endpoints.
// Concurrent clients push bodies of generated row counts (0, 1, 2, 999, 1000, 1001, 2500, > 1 MiB) through the REAL
// routes (Loki JSON, remote write, Zipkin, OTLP traces, pprof /ingest) of the production service wiring over the fake
// ClickHouse client with random INSERT outcomes; every row carries an id in every field. Each decoded block is checked:
// equal column lengths, per-row field consistency, no id twice in a block; and per request: acknowledged => every row id
// was in a block whose INSERT succeeded.
//
// usage: c02blocks -out r.json -seed N -rounds R
package main

import (
	"bytes"
	"encoding/hex"
	"encoding/json"
	"flag"
	"fmt"
	"math/rand"
	"mime/multipart"
	"os"
	"regexp"
	"strconv"
	"strings"
	"sync"
	"time"

	"github.com/golang/snappy"
	"github.com/google/pprof/profile"
	"github.com/metrico/qryn/writer/utils/proto/prompb"
	otlpCommon "go.opentelemetry.io/proto/otlp/common/v1"
	otlpRes "go.opentelemetry.io/proto/otlp/resource/v1"
	otlpTrace "go.opentelemetry.io/proto/otlp/trace/v1"
	"google.golang.org/protobuf/proto"
	"verif/harness/e2e"
	"verif/harness/fakech"
)

type Finding struct {
	Signature string `json:"signature"`
	Property  string `json:"property"`
	Msg       string `json:"msg"`
	Detail    any    `json:"detail,omitempty"`
}

var (
	mu       sync.Mutex
	okIDs    = map[string]int{} // row id -> number of successful blocks containing it
	findings []Finding
	sigSeen  = map[string]int{}
	blocks   = map[string]int{}
	rowsSeen = 0
)

func add(f Finding) {
	mu.Lock()
	defer mu.Unlock()
	sigSeen[f.Signature]++
	if sigSeen[f.Signature] <= 2 {
		findings = append(findings, f)
	}
}

var reID = regexp.MustCompile(`id=([a-z0-9]+)/([0-9]+);`)

// rows of endpoints that stamp the arrival time themselves (Elasticsearch doc / bulk, Datadog logs) or whose stored line is the
// whole submitted document: the id travels in the line only
var reXID = regexp.MustCompile(`xid:([a-z0-9]+)/([0-9]+);`)

func tableOf(body string) string {
	m := regexp.MustCompile(`(?i)INSERT INTO\s+([a-z_0-9]+)`).FindStringSubmatch(body)
	if m == nil {
		return "?"
	}
	return m[1]
}

func colIdx(b *fakech.Block, name string) int {
	for i, c := range b.Cols {
		if c == name {
			return i
		}
	}
	return -1
}

// idsOf extracts the row ids of a block and checks that all fields of a row belong to the same submitted row.
func idsOf(b *fakech.Block) ([]string, string) {
	t := tableOf(b.Body)
	var ids []string
	str := func(row []any, col string) string {
		i := colIdx(b, col)
		if i < 0 {
			return ""
		}
		switch v := row[i].(type) {
		case string:
			return v
		case []byte:
			return string(v)
		}
		return fmt.Sprint(row[i])
	}
	for ri, row := range b.Rows {
		switch t {
		case "samples_v3":
			m := reID.FindStringSubmatch(str(row, "string"))
			ts := row[colIdx(b, "timestamp_ns")].(int64)
			val := row[colIdx(b, "value")].(float64)
			if m == nil {
				if x := reXID.FindStringSubmatch(str(row, "string")); x != nil {
					ids = append(ids, x[1]+"/"+x[2])
					continue
				}
			}
			if m == nil {
				// metric sample: id is carried by value + timestamp (value = seq, ts = base + seq)
				seq := int64(val)
				if ts%1000000 != (seq*1000000)%1000000 && ts/1000000%100000 != seq%100000 {
					return nil, fmt.Sprintf("samples_v3 row %d: value %v and timestamp %d belong to different submitted samples", ri, val, ts)
				}
				ids = append(ids, fmt.Sprintf("m/%d", seq))
				continue
			}
			i, _ := strconv.ParseInt(m[2], 10, 64)
			if ts%100000 != i%100000 {
				return nil, fmt.Sprintf("samples_v3 row %d: line %q with timestamp %d: fields of one row come from different submitted rows", ri, m[0], ts)
			}
			ids = append(ids, m[1]+"/"+m[2])
		case "time_series":
			ids = append(ids, "series/"+str(row, "labels"))
		case "tempo_traces":
			tid, sid := hex.EncodeToString([]byte(str(row, "trace_id"))), hex.EncodeToString([]byte(str(row, "span_id")))
			name := str(row, "name")
			if !strings.HasSuffix(name, sid) || !strings.Contains(str(row, "payload"), sid) && !strings.Contains(hex.EncodeToString([]byte(str(row, "payload"))), sid) {
				return nil, fmt.Sprintf("tempo_traces row %d: span id %s, name %q: fields of one row come from different submitted spans", ri, sid, name)
			}
			ids = append(ids, "span/"+tid+"/"+sid)
		case "tempo_traces_attrs_gin":
			tid, sid := hex.EncodeToString([]byte(str(row, "trace_id"))), hex.EncodeToString([]byte(str(row, "span_id")))
			k, v := str(row, "key"), str(row, "val")
			if k == "tagid" && v != str(row, "span_id") {
				return nil, fmt.Sprintf("tempo_traces_attrs_gin row %d: tag tagid=%s on span %s: fields of one row come from different submitted spans", ri, v, sid)
			}
			ids = append(ids, "tag/"+tid+"/"+sid+"/"+k)
		case "profiles_input":
			ids = append(ids, "prof/"+str(row, "service_name")+"/"+str(row, "type")+"/"+fmt.Sprint(row[colIdx(b, "timestamp_ns")]))
		default:
			ids = append(ids, fmt.Sprintf("%s/%d", t, ri))
		}
	}
	return ids, ""
}

func onDo(rnd *rand.Rand, pErr float64) func(b *fakech.Block) error {
	var rmu sync.Mutex
	return func(b *fakech.Block) error {
		t := tableOf(b.Body)
		mu.Lock()
		blocks[t]++
		rowsSeen += len(b.Rows)
		mu.Unlock()
		if !b.Rectangular() {
			add(Finding{Signature: "ragged|" + t, Property: "C02", Msg: fmt.Sprintf("INSERT block for %s has columns of different lengths: %v = %v", t, b.Cols, b.NRows)})
			return fmt.Errorf("ragged block")
		}
		ids, msg := idsOf(b)
		if msg != "" {
			add(Finding{Signature: "mixed-row|" + t, Property: "C02", Msg: msg})
		}
		seen := map[string]bool{}
		for _, id := range ids {
			if seen[id] && t != "time_series" && t != "tempo_traces_attrs_gin" {
				add(Finding{Signature: "duplicate-row|" + t, Property: "C02", Msg: fmt.Sprintf("row %s occurs twice in one INSERT block for %s", id, t)})
			}
			seen[id] = true
		}
		rmu.Lock()
		fail := rnd.Float64() < pErr
		rmu.Unlock()
		if fail {
			rmu.Lock()
			k := rnd.Intn(3)
			rmu.Unlock()
			switch k {
			case 0:
				return fmt.Errorf("write tcp 10.0.0.5:43210->10.0.0.9:9000: write: connection reset by peer")
			case 1:
				return fmt.Errorf("json parse error: unexpected end of stream (reported by the server)")
			}
			return fmt.Errorf("code: 241, scripted INSERT failure")
		}
		mu.Lock()
		for _, id := range ids {
			okIDs[id]++
		}
		mu.Unlock()
		return nil
	}
}

var counts = []int{0, 1, 2, 999, 1000, 1001, 2500}

type push struct {
	route, ctype string
	body         []byte
	path         string
	ids          []string
	okCode       int
	class        string
}

var seq int64
var seqMu sync.Mutex

func nextSeq(n int) int64 {
	seqMu.Lock()
	defer seqMu.Unlock()
	s := seq
	seq += int64(n) + 1
	return s
}

func lokiPush(rid string, n int, big bool) push {
	base := nextSeq(n)
	var vals []string
	var ids []string
	for i := 0; i < n; i++ {
		s := base + int64(i)
		line := fmt.Sprintf("id=%s/%d;", rid, s)
		if big && i == 0 {
			line += strings.Repeat("x", 1100000)
		}
		vals = append(vals, fmt.Sprintf(`["%d",%q]`, 1700000000000000000+s%100000+(s/100000)*100000, line))
		ids = append(ids, fmt.Sprintf("%s/%d", rid, s))
	}
	body := fmt.Sprintf(`{"streams":[{"stream":{"req":%q},"values":[%s]}]}`, rid, strings.Join(vals, ","))
	return push{route: "/loki/api/v1/push", ctype: "application/json", body: []byte(body), ids: ids, okCode: 204, class: fmt.Sprintf("loki n=%d big=%v", n, big)}
}

// the other log ingest protocols (okCode 0: any 2xx is an acknowledgement)
func otherLogPush(kind, rid string, n int) push {
	base := nextSeq(n)
	var ids, items []string
	for i := 0; i < n; i++ {
		s := base + int64(i)
		ids = append(ids, fmt.Sprintf("%s/%d", rid, s))
		mark := fmt.Sprintf("xid:%s/%d; pad %d", rid, s, i)
		switch kind {
		case "esdoc", "esbulk":
			items = append(items, fmt.Sprintf(`{"message":%q,"n":%d}`, mark, i))
		case "cf":
			items = append(items, fmt.Sprintf(`{"ScriptName":"w%d","EventTimestampMs":%d,"u":%q}`, i%2, 1700000000000+s, mark))
		case "ddlogs":
			items = append(items, fmt.Sprintf(`{"ddsource":"src%d","service":"svc","message":%q}`, i%2, mark))
		case "influx":
			items = append(items, fmt.Sprintf(`syslog,req=%s,k=v%d message=%q %d`, rid, i%2, mark, 1700000000000000000+s))
		}
	}
	p := push{ids: ids, okCode: 0, class: fmt.Sprintf("%s n=%d", kind, n)}
	switch kind {
	case "esdoc":
		p.route, p.ctype, p.body = "/idx"+rid+"/_doc", "application/json", []byte(items[0])
		p.ids = ids[:1]
	case "esbulk":
		var b strings.Builder
		for _, it := range items {
			b.WriteString(`{"index":{"_index":"idx` + rid + `"}}` + "\n" + it + "\n")
		}
		p.route, p.ctype, p.body = "/_bulk", "application/x-ndjson", []byte(b.String())
	case "cf":
		p.route, p.ctype, p.body = "/cf/v1/insert?ddsource=src", "application/json", []byte(strings.Join(items, "\n")+"\n")
	case "ddlogs":
		p.route, p.ctype, p.body = "/api/v2/logs", "application/json", []byte("["+strings.Join(items, ",")+"]")
	case "influx":
		p.route, p.ctype, p.body = "/influx/api/v2/write", "text/plain", []byte(strings.Join(items, "\n")+"\n")
	}
	return p
}

func promPush(rid string, nseries, nsamples int) push {
	req := &prompb.WriteRequest{}
	var ids []string
	for s := 0; s < nseries; s++ {
		base := nextSeq(nsamples)
		ts := &prompb.TimeSeries{Labels: []*prompb.Label{{Name: "__name__", Value: "m_" + rid}, {Name: "s", Value: fmt.Sprint(s)}}}
		for i := 0; i < nsamples; i++ {
			q := base + int64(i)
			ts.Samples = append(ts.Samples, &prompb.Sample{Value: float64(q), Timestamp: 1700000000000 + q%100000})
			ids = append(ids, fmt.Sprintf("m/%d", q))
		}
		req.Timeseries = append(req.Timeseries, ts)
	}
	b, _ := proto.Marshal(req)
	return push{route: "/api/v1/prom/remote/write", ctype: "application/x-protobuf", body: snappy.Encode(nil, b), ids: ids, okCode: 204, class: fmt.Sprintf("prom series=%d samples=%d", nseries, nsamples)}
}

func ids16(rid string, i int) ([]byte, []byte) {
	t := make([]byte, 16)
	copy(t, []byte(rid))
	s := make([]byte, 8)
	copy(s, []byte(fmt.Sprintf("%08x", i)[:8]))
	return t, s
}

func zipkinPush(rid string, n int) push {
	var spans []string
	var ids []string
	for i := 0; i < n; i++ {
		t, s := ids16(rid, i)
		th, sh := hex.EncodeToString(t), hex.EncodeToString(s)
		spans = append(spans, fmt.Sprintf(`{"traceId":%q,"id":%q,"name":"op-%s","timestamp":%d,"duration":10,"localEndpoint":{"serviceName":"svc"},"tags":{"tagid":%q,"other":"x"}}`,
			th, sh, sh, 1700000000000000+int64(i), string(s)))
		ids = append(ids, "span/"+th+"/"+sh, "tag/"+th+"/"+sh+"/tagid")
	}
	return push{route: "/tempo/spans", ctype: "application/json", body: []byte("[" + strings.Join(spans, ",") + "]"), ids: ids, okCode: 202, class: fmt.Sprintf("zipkin n=%d", n)}
}

func sv(s string) *otlpCommon.AnyValue {
	return &otlpCommon.AnyValue{Value: &otlpCommon.AnyValue_StringValue{StringValue: s}}
}

func otlpPush(rid string, n int) push {
	var ids []string
	rs := &otlpTrace.ResourceSpans{Resource: &otlpRes.Resource{Attributes: []*otlpCommon.KeyValue{{Key: "service.name", Value: sv("svc")}}}, ScopeSpans: []*otlpTrace.ScopeSpans{{}}}
	for i := 0; i < n; i++ {
		t, s := ids16(rid, i)
		sh := hex.EncodeToString(s)
		rs.ScopeSpans[0].Spans = append(rs.ScopeSpans[0].Spans, &otlpTrace.Span{TraceId: t, SpanId: s, Name: "op-" + sh, StartTimeUnixNano: 1700000000000000000 + uint64(i), EndTimeUnixNano: 1700000000000001000 + uint64(i),
			Attributes: []*otlpCommon.KeyValue{{Key: "tagid", Value: sv(string(s))}, {Key: "spanhex", Value: sv(sh)}}})
		ids = append(ids, "span/"+hex.EncodeToString(t)+"/"+sh, "tag/"+hex.EncodeToString(t)+"/"+sh+"/tagid")
	}
	b, _ := proto.Marshal(&otlpTrace.TracesData{ResourceSpans: []*otlpTrace.ResourceSpans{rs}})
	return push{route: "/v1/traces", ctype: "application/x-protobuf", body: b, ids: ids, okCode: 200, class: fmt.Sprintf("otlp n=%d", n)}
}

func pprofPush(rid string, ntypes int, bigTag bool) push {
	fn := &profile.Function{ID: 1, Name: "main.f"}
	loc := &profile.Location{ID: 1, Line: []profile.Line{{Function: fn, Line: 1}}}
	p := &profile.Profile{PeriodType: &profile.ValueType{Type: "cpu", Unit: "nanoseconds"}, Period: 1, Location: []*profile.Location{loc}, Function: []*profile.Function{fn},
		TimeNanos: 1700000000000000000, DurationNanos: 1e9}
	vals := make([]int64, ntypes)
	for i := 0; i < ntypes; i++ {
		p.SampleType = append(p.SampleType, &profile.ValueType{Type: fmt.Sprintf("t%d", i), Unit: "count"})
		vals[i] = int64(i + 1)
	}
	p.Sample = []*profile.Sample{{Location: []*profile.Location{loc}, Value: vals}}
	var pb bytes.Buffer
	p.Write(&pb)
	var b bytes.Buffer
	mw := multipart.NewWriter(&b)
	fw, _ := mw.CreateFormFile("profile", "profile.pprof")
	fw.Write(pb.Bytes())
	mw.Close()
	name := "svc" + rid
	if bigTag {
		name += "%7Bk%3D" + strings.Repeat("v", 1100000) + "%7D"
	}
	return push{route: "/ingest?name=" + name + "&from=1700000000&until=1700000010", ctype: mw.FormDataContentType(), body: b.Bytes(), okCode: 200,
		ids: []string{"profsvc/svc" + rid}, class: fmt.Sprintf("pprof types=%d bigtag=%v", ntypes, bigTag)}
}

var otherKinds = []string{"esdoc", "esbulk", "cf", "ddlogs", "influx"}
var ackedByKind = map[string]int{}

func main() {
	out := flag.String("out", "", "")
	seed := flag.Int64("seed", 1, "")
	rounds := flag.Int("rounds", 3, "")
	flag.Parse()
	rnd := rand.New(rand.NewSource(*seed))
	totalReq, acked := 0, 0
	classes := map[string]int{}
	var infra []string
	for round := 0; round < *rounds; round++ {
		// the last kind of round: the database refuses every INSERT, so every acknowledgement is a false one
		pErr := []float64{0, 0.25, 0.5, 1}[round%4]
		w, err := e2e.New(e2e.Options{IntervalMs: []float64{2, 5, 20}[rnd.Intn(3)], Workers: 1 + rnd.Intn(3), Attempts: 1 + rnd.Intn(3), MaxQueue: []int64{0, 5000, 200000}[rnd.Intn(3)],
			NoReader: true, OnDo: onDo(rand.New(rand.NewSource(rnd.Int63())), pErr)})
		if err != nil {
			infra = append(infra, err.Error())
			break
		}
		var pushes []push
		k := 0
		rid := func() string { k++; return fmt.Sprintf("r%dx%d", round, k) }
		for _, n := range counts {
			pushes = append(pushes, lokiPush(rid(), n, false), zipkinPush(rid(), n), otlpPush(rid(), n))
		}
		pushes = append(pushes, lokiPush(rid(), 3, true))
		for _, kind := range otherKinds {
			for _, n := range []int{1, 3, 40} {
				pushes = append(pushes, otherLogPush(kind, rid(), n))
			}
		}
		for _, c := range [][2]int{{1, 1}, {1, 999}, {1, 1000}, {1, 1001}, {1, 2500}, {3, 400}, {1000, 1}, {1001, 1}, {2, 1500}} {
			pushes = append(pushes, promPush(rid(), c[0], c[1]))
		}
		for _, nt := range []int{1, 2, 4} {
			pushes = append(pushes, pprofPush(rid(), nt, false))
		}
		pushes = append(pushes, pprofPush(rid(), 1, true))
		rnd.Shuffle(len(pushes), func(a, b int) { pushes[a], pushes[b] = pushes[b], pushes[a] })
		type result struct {
			p    push
			code int
		}
		res := make([]result, len(pushes))
		var wg sync.WaitGroup
		sem := make(chan struct{}, 6)
		for i, p := range pushes {
			wg.Add(1)
			sem <- struct{}{}
			go func(i int, p push) {
				defer wg.Done()
				defer func() { <-sem }()
				done := make(chan int, 1)
				go func() { code, _ := w.Push("POST", p.route, p.ctype, p.body, nil); done <- code }()
				select {
				case code := <-done:
					res[i] = result{p, code}
				case <-time.After(20 * time.Second):
					add(Finding{Signature: "unanswered|" + strings.Fields(p.class)[0], Property: "C01",
						Msg: fmt.Sprintf("push %q got no answer within 20 s although the database answered every INSERT", p.class)})
					res[i] = result{p, -1}
				}
			}(i, p)
			if rnd.Intn(3) == 0 {
				time.Sleep(time.Duration(rnd.Intn(3)) * time.Millisecond)
			}
		}
		wg.Wait()
		w.Settle()
		for _, r := range res {
			totalReq++
			classes[r.p.class]++
			if r.code != r.p.okCode && !(r.p.okCode == 0 && r.code/100 == 2) {
				continue
			}
			ackedByKind[strings.Fields(r.p.class)[0]]++
			acked++
			mu.Lock()
			for _, id := range r.p.ids {
				if strings.HasPrefix(id, "profsvc/") {
					found := false
					for k := range okIDs {
						if strings.HasPrefix(k, "prof/"+strings.TrimPrefix(id, "profsvc/")+"/") {
							found = true
						}
					}
					if !found {
						mu.Unlock()
						add(Finding{Signature: "ack-without-insert|pprof", Property: "C01", Msg: fmt.Sprintf("profile push %q was acknowledged (%d) but no successful INSERT contained a row of it", r.p.class, r.code)})
						mu.Lock()
					}
					continue
				}
				if okIDs[id] == 0 {
					mu.Unlock()
					add(Finding{Signature: "ack-without-insert|" + strings.Fields(r.p.class)[0], Property: "C01",
						Msg: fmt.Sprintf("push %q was acknowledged (%d) but row %s was in no successful INSERT", r.p.class, r.code, id)})
					mu.Lock()
					break
				}
			}
			mu.Unlock()
		}
		// blocks the fake client refused because their columns differ in length (never reach OnDo)
		for _, b := range w.CH.Snapshot() {
			if !b.Rectangular() {
				t := tableOf(b.Body)
				add(Finding{Signature: "ragged|" + t, Property: "C02", Msg: fmt.Sprintf("INSERT block for %s has columns of different lengths: %v = %v", t, b.Cols, b.NRows)})
			}
		}
		w.Close()
	}
	// vacuity: every protocol must have been acknowledged at least once with its rows found in a successful INSERT (round 0 has no
	// faults), otherwise the driver's idea of the protocol's body is wrong
	for _, k := range append([]string{"loki", "prom", "zipkin", "otlp", "pprof"}, otherKinds...) {
		if ackedByKind[k] == 0 {
			infra = append(infra, "no acknowledged request of protocol "+k)
		}
	}
	// phase "subsvc": concurrent requests on several sub-services of every insert service (spec/ingest/ColumnFill.tla)
	ss, sinfra := runSubsvc(rnd, *rounds)
	o := map[string]any{"subsvc": ss, "subsvc_infra": sinfra, "acked_by_protocol": ackedByKind, "infra": infra, "requests": totalReq, "acked": acked, "blocks": blocks, "rows": rowsSeen, "classes": classes, "findings": findings, "signature_counts": sigSeen}
	b, _ := json.MarshalIndent(o, "", " ")
	if *out != "" {
		os.WriteFile(*out, b, 0644)
	} else {
		fmt.Println(string(b))
	}
}

// Phase "subsvc" of c02blocks: binding of spec/ingest/ColumnFill.tla.
//
// ColumnFill.tla opens up the ProcessRequest callback of an insert service at column grain: it runs under the mutex of
// ONE sub-service (a round-robin worker of the sync or the async family of an InsertServiceV2Multimodal), and TLC shows
// that anything it reaches which outlives the call is seen only by schedules with two DIFFERENT sub-services of the same
// service inside ProcessRequest at the same time. The HTTP phase of this driver hardly ever produces that schedule
// (parsing dominates a request; a third of its rounds run with one worker). This phase produces it on purpose for EVERY
// insert service of the production factory (samples, metrics, series, spans, span tags, profiles): the real service is
// built with ParallelNum >= 2, prepared requests whose rows carry a unique id in every field are fired in bursts by
// several writers straight at svc.Request (sync, async and default mode mixed), INSERT outcomes are random, and every
// proto.Input reaching the client is decoded: equal column lengths, every cell of a row carrying the same id, no id twice
// in a block, acknowledged request => every row in a block whose INSERT succeeded.
package main

import (
	"context"
	"fmt"
	"math/rand"
	"regexp"
	"strconv"
	"sync"
	"time"

	ch "github.com/ClickHouse/ch-go"
	"github.com/metrico/qryn/writer/ch_wrapper"
	"github.com/metrico/qryn/writer/model"
	"github.com/metrico/qryn/writer/service"
	"github.com/metrico/qryn/writer/service/impl"
	"github.com/metrico/qryn/writer/utils/helpers"
	"verif/harness/fakech"
	"verif/harness/wworld"
)

type subKind struct {
	name string
	mk   func(model.InsertServiceOpts) service.IInsertServiceV2
	req  func(ids []int64) helpers.SizeGetter
	one  bool // one row per request (array columns)
}

func idStr(tag string, id int64) string { return fmt.Sprintf("%s%d;", tag, id) }

var subKinds = []subKind{
	{name: "samples", mk: impl.NewSamplesInsertService, req: func(ids []int64) helpers.SizeGetter {
		r := &model.TimeSamplesData{Size: 26 * len(ids)}
		for _, id := range ids {
			r.MFingerprint = append(r.MFingerprint, uint64(id))
			r.MTimestampNS = append(r.MTimestampNS, id)
			r.MValue = append(r.MValue, float64(id))
			r.MMessage = append(r.MMessage, idStr("line", id))
			r.MType = append(r.MType, uint8(id%3))
			r.MTTLDays = append(r.MTTLDays, 0)
		}
		return r
	}},
	{name: "metrics", mk: impl.NewMetricsInsertService, req: func(ids []int64) helpers.SizeGetter {
		r := &model.TimeSamplesData{Size: 26 * len(ids)}
		for _, id := range ids {
			r.MFingerprint = append(r.MFingerprint, uint64(id))
			r.MTimestampNS = append(r.MTimestampNS, id)
			r.MValue = append(r.MValue, float64(id))
			r.MType = append(r.MType, uint8(id%3))
		}
		return r
	}},
	{name: "series", mk: impl.NewTimeSeriesInsertService, req: func(ids []int64) helpers.SizeGetter {
		r := &model.TimeSeriesData{Size: 40 * len(ids)}
		d := time.Unix(1700000000, 0).UTC()
		for _, id := range ids {
			r.MDate = append(r.MDate, d)
			r.MLabels = append(r.MLabels, idStr(`{"row":"x`, id)+`"}`)
			r.MFingerprint = append(r.MFingerprint, uint64(id))
			r.MType = append(r.MType, uint8(id%3))
			r.MTTLDays = append(r.MTTLDays, 0)
		}
		return r
	}},
	{name: "spans", mk: impl.NewTempoSamplesInsertService, req: func(ids []int64) helpers.SizeGetter {
		r := &model.TempoSamples{Size: 100 * len(ids)}
		for _, id := range ids {
			r.MTraceId = append(r.MTraceId, []byte(fmt.Sprintf("%016d", id)))
			r.MSpanId = append(r.MSpanId, []byte(fmt.Sprintf("%08d", id)))
			r.MTimestampNs = append(r.MTimestampNs, id)
			r.MDurationNs = append(r.MDurationNs, id)
			r.MParentId = append(r.MParentId, idStr("p", id))
			r.MName = append(r.MName, idStr("op", id))
			r.MServiceName = append(r.MServiceName, idStr("svc", id))
			r.MPayloadType = append(r.MPayloadType, int8(id%3))
			r.MPayload = append(r.MPayload, []byte(idStr("payload", id)))
		}
		return r
	}},
	{name: "tags", mk: impl.NewTempoTagsInsertService, req: func(ids []int64) helpers.SizeGetter {
		r := &model.TempoTag{Size: 80 * len(ids)}
		d := time.Unix(1700000000, 0).UTC()
		for _, id := range ids {
			r.MTraceId = append(r.MTraceId, []byte(fmt.Sprintf("%016d", id)))
			r.MSpanId = append(r.MSpanId, []byte(fmt.Sprintf("%08d", id)))
			r.MTimestampNs = append(r.MTimestampNs, id)
			r.MDurationNs = append(r.MDurationNs, id)
			r.MDate = append(r.MDate, d)
			r.MKey = append(r.MKey, idStr("k", id))
			r.MVal = append(r.MVal, idStr("v", id))
		}
		return r
	}},
	{name: "profiles", one: true, mk: impl.NewProfileSamplesInsertService, req: func(ids []int64) helpers.SizeGetter {
		id := ids[0]
		return &model.ProfileData{Size: 200,
			TimestampNs: []uint64{uint64(id)}, DurationNs: []uint64{uint64(id)}, Ptype: []string{idStr("t", id)}, ServiceName: []string{idStr("svc", id)},
			PeriodType: []string{idStr("pt", id)}, PeriodUnit: []string{idStr("pu", id)}, PayloadType: []string{idStr("plt", id)}, Payload: [][]byte{[]byte(idStr("pl", id))},
			SamplesTypesUnits: []model.StrStr{{Str1: "a", Str2: "b"}}, Tags: []model.StrStr{{Str1: "k", Str2: "v"}},
			ValuesAgg: []model.ValuesAgg{{ValueStr: "a:b", ValueInt64: 1, ValueInt32: 1}},
			Function:  []model.Function{{ValueInt64: 1, ValueStr: "f"}},
			Tree:      []model.TreeRootStructure{{Field1: 0, Field2: 1, Field3: 1, ValueArrTuple: []model.ValuesArrTuple{{ValueStr: "a:b", FirstValueInt64: 1, SecondValueInt64: 1}}}},
		}
	}},
}

// subClient is the insert client of this phase: decodes every block like fakech does, but survives a block that cannot
// be decoded at all (offsets of a string column pointing outside its buffer), which is reported as a finding.
type subClient struct {
	ch_wrapper.IChClient
	st *subState
}

type subState struct {
	kind   string
	mu     sync.Mutex
	blocks []*fakech.Block
	rnd    *rand.Rand
	pErr   float64
}

func (c *subClient) Ping(ctx context.Context) error { return nil }
func (c *subClient) Close() error                   { return nil }
func (c *subClient) Do(ctx context.Context, q ch.Query) (err error) {
	b := &fakech.Block{Body: q.Body}
	func() {
		defer func() {
			if r := recover(); r != nil {
				b.Decoded = false
				b.Rows = nil
				add(Finding{Signature: "undecodable|subsvc-" + c.st.kind, Property: "C02",
					Msg: fmt.Sprintf("INSERT block of the %s service (several sub-services, concurrent requests) cannot be decoded: %v", c.st.kind, r)})
			}
		}()
		fakech.Decode(q.Input, b)
	}()
	c.st.mu.Lock()
	fail := c.st.rnd.Float64() < c.st.pErr
	c.st.blocks = append(c.st.blocks, b)
	c.st.mu.Unlock()
	if !b.Rectangular() {
		b.Err = fmt.Errorf("ragged block, rows per column %v", b.NRows) // what the native protocol does with it
	} else if !b.Decoded {
		b.Err = fmt.Errorf("corrupt block")
	} else if fail {
		b.Err = fmt.Errorf("code: 241, scripted INSERT failure")
	}
	return b.Err
}

var reDigits = regexp.MustCompile(`[0-9]+`)

// cellID returns the row id a cell carries (ok=false: the cell carries none, e.g. dates, constant arrays);
// small-integer cells carry id mod 3 (mod=true).
func cellID(v any) (id int64, mod bool, ok bool) {
	switch x := v.(type) {
	case uint64:
		return int64(x), false, true
	case int64:
		return x, false, true
	case float64:
		return int64(x), false, true
	case uint8:
		return int64(x), true, x < 3
	case int8:
		return int64(x), true, x >= 0 && x < 3
	case string:
		if m := reDigits.FindString(x); m != "" {
			n, err := strconv.ParseInt(m, 10, 64)
			return n, false, err == nil
		}
	case []byte:
		if m := reDigits.Find(x); m != nil {
			n, err := strconv.ParseInt(string(m), 10, 64)
			return n, false, err == nil
		}
	}
	return 0, false, false
}

type subReq struct {
	ids  []int64
	req  helpers.SizeGetter
	mode int
	err  error
	done bool
}

type subStats struct {
	Configs, Requests, Acked, Blocks, Rows int
	WallMs                                 int64
	PerKind                                map[string]int
}

// runSubsvc runs the phase; rounds scales the number of requests.
func runSubsvc(rnd *rand.Rand, rounds int) (subStats, []string) {
	t0 := time.Now()
	wworld.InitPools()
	stats := subStats{PerKind: map[string]int{}}
	var infra []string
	var nextID int64 = 1
	type cfgT struct {
		parallel int
		modes    []int
		pErr     float64
	}
	cfgs := []cfgT{
		{2, []int{service.INSERT_MODE_DEFAULT}, 0},
		{4, []int{service.INSERT_MODE_DEFAULT, service.INSERT_MODE_SYNC, service.INSERT_MODE_ASYNC}, 0.3},
	}
	sizes := []int{1, 3, 500, 2000, 8000}
	const writers = 8
	perWriter := 4 * rounds
	if perWriter > 24 {
		perWriter = 24
	}
	for _, k := range subKinds {
		for ci, cfg := range cfgs {
			st := &subState{kind: k.name, rnd: rand.New(rand.NewSource(rnd.Int63())), pErr: cfg.pErr}
			node := wworld.Node("n1")
			svc := k.mk(model.InsertServiceOpts{
				Session:     func() (ch_wrapper.IChClient, error) { return &subClient{st: st}, nil },
				Node:        node,
				Interval:    time.Duration([]int{2, 5}[rnd.Intn(2)]) * time.Millisecond,
				ParallelNum: cfg.parallel,
			})
			svc.Init()
			go svc.Run()
			// requests are prepared first so that the writers spend their time inside svc.Request
			reqs := make([][]*subReq, writers)
			for w := 0; w < writers; w++ {
				for i := 0; i < perWriter; i++ {
					n := sizes[rnd.Intn(len(sizes))]
					if k.one {
						n = 1
					}
					ids := make([]int64, n)
					for j := range ids {
						ids[j] = nextID
						nextID++
					}
					reqs[w] = append(reqs[w], &subReq{ids: ids, req: k.req(ids), mode: cfg.modes[rnd.Intn(len(cfg.modes))]})
				}
			}
			if nextID >= 90000000 {
				nextID = 1 // span ids have 8 digits; blocks of different services/configs are checked separately
			}
			var wg sync.WaitGroup
			start := make(chan struct{})
			for w := 0; w < writers; w++ {
				wg.Add(1)
				go func(w int) {
					defer wg.Done()
					defer func() {
						if r := recover(); r != nil {
							add(Finding{Signature: "panic|subsvc-" + k.name, Property: "C02",
								Msg: fmt.Sprintf("svc.Request of the %s service panicked under concurrent requests on %d sub-services: %v", k.name, cfg.parallel, r)})
						}
					}()
					<-start
					for i := 0; i < len(reqs[w]); i += 3 {
						burst := reqs[w][i:min(i+3, len(reqs[w]))]
						var ps []interface {
							GetCtx(context.Context) (uint32, error)
						}
						for _, r := range burst {
							ps = append(ps, svc.Request(r.req, r.mode))
						}
						for j, p := range ps {
							ctx, cancel := context.WithTimeout(context.Background(), 30*time.Second)
							_, err := p.GetCtx(ctx)
							if ctx.Err() != nil {
								add(Finding{Signature: "unanswered|subsvc-" + k.name, Property: "C01",
									Msg: fmt.Sprintf("request to the %s service got no answer within 30 s although every INSERT was answered", k.name)})
							} else {
								burst[j].err, burst[j].done = err, true
							}
							cancel()
						}
					}
				}(w)
			}
			close(start)
			wg.Wait()
			time.Sleep(15 * time.Millisecond)
			svc.Stop()
			// ---- verdicts
			st.mu.Lock()
			okIn := map[int64]int{}
			for _, b := range st.blocks {
				stats.Blocks++
				if !b.Rectangular() {
					add(Finding{Signature: "ragged|subsvc-" + k.name, Property: "C02",
						Msg: fmt.Sprintf("%s service with %d sub-services, concurrent requests: INSERT block has columns of different lengths: %v = %v", k.name, cfg.parallel, b.Cols, b.NRows)})
					continue
				}
				if !b.Decoded {
					continue
				}
				stats.Rows += len(b.Rows)
				seen := map[int64]bool{}
				for ri, row := range b.Rows {
					var rid int64 = -1
					bad := false
					for _, cell := range row {
						id, mod, ok := cellID(cell)
						if !ok {
							continue
						}
						if mod {
							continue
						}
						if rid < 0 {
							rid = id
						} else if id != rid {
							bad = true
						}
					}
					if rid >= 0 {
						for _, cell := range row {
							if id, mod, ok := cellID(cell); ok && mod && id != rid%3 {
								bad = true
							}
						}
					}
					if bad {
						add(Finding{Signature: "mixed-row|subsvc-" + k.name, Property: "C02",
							Msg: fmt.Sprintf("%s service with %d sub-services: row %d of an INSERT block takes its fields from different submitted rows: %v = %v", k.name, cfg.parallel, ri, b.Cols, trunc(row))})
						break
					}
					if rid < 0 {
						infra = append(infra, fmt.Sprintf("subsvc %s: row without any id cell: %v", k.name, trunc(row)))
						break
					}
					if seen[rid] {
						add(Finding{Signature: "duplicate-row|subsvc-" + k.name, Property: "C02",
							Msg: fmt.Sprintf("%s service with %d sub-services: row id %d occurs twice in one INSERT block", k.name, cfg.parallel, rid)})
						break
					}
					seen[rid] = true
					if b.Err == nil {
						okIn[rid]++
					}
				}
			}
			st.mu.Unlock()
			for w := range reqs {
				for _, r := range reqs[w] {
					stats.Requests++
					stats.PerKind[fmt.Sprintf("%s/p%d", k.name, cfg.parallel)]++
					if !r.done || r.err != nil {
						continue
					}
					stats.Acked++
					for _, id := range r.ids {
						if okIn[id] == 0 {
							add(Finding{Signature: "ack-without-insert|subsvc-" + k.name, Property: "C01",
								Msg: fmt.Sprintf("%s service with %d sub-services: a request of %d rows (mode %d) was answered without error but its row %d was in no INSERT block that succeeded", k.name, cfg.parallel, len(r.ids), r.mode, id)})
							break
						}
					}
				}
			}
			stats.Configs++
			_ = ci
		}
	}
	stats.WallMs = time.Since(t0).Milliseconds()
	return stats, infra
}

func trunc(row []any) []string {
	var out []string
	for _, c := range row {
		s := fmt.Sprint(c)
		if b, ok := c.([]byte); ok {
			s = string(b)
		}
		if len(s) > 40 {
			s = s[:40] + "..."
		}
		out = append(out, s)
	}
	return out
}

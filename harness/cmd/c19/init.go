// Initialisation (maintenance.Update) as part of C19: "after initialisation every data table's TTL and storage policy
// equal the configured retention ... a run interrupted at any statement is completed by the next run".
// The schema scripts are run against fakeconn with every statement as fault point; fakeconn does not keep the
// attributes a CREATE TABLE statement gives a table, so initConn records them (storage policy of the CREATE text).
// Model: spec/ctrl/InitSchema.tla (its constant Scripts is generated from a recorded run by initScripts).
package main

import (
	"context"
	"fmt"
	"math/rand"
	"regexp"
	"sort"
	"strings"

	"github.com/metrico/qryn/ctrl/qryn/maintenance"
	"verif/harness/fakeconn"
)

// initConn = fakeconn.Conn + the storage policy (and engine) a CREATE TABLE statement gives the new table.
type initConn struct{ *fakeconn.Conn }

// fakeconn reads the engine only off "ENGINE = X"; the profiles scripts write "Engine X()"
var reCreateEngine = regexp.MustCompile(`(?i)\)\s*ENGINE\s*=?\s*([A-Za-z]+)`)
var reCreatePolicy = regexp.MustCompile(`(?i)\bSETTINGS\b[^;]*?\bstorage_policy\s*=\s*'([^']*)'`)

func (c initConn) Exec(ctx context.Context, query string, args ...any) error {
	defer func() {
		if len(c.Log) == 0 {
			return
		}
		le := &c.Log[len(c.Log)-1]
		if (le.Op.Kind == "Create" || le.Op.Kind == "CreateINE") && le.Op.ObjKind == "table" && le.Effect {
			if o := c.DB.Objects[le.Op.Obj]; o != nil {
				if m := reCreateEngine.FindStringSubmatch(le.SQL); m != nil && o.Engine == "" {
					o.Engine = m[1]
				}
				if m := reCreatePolicy.FindStringSubmatch(le.SQL); m != nil {
					o.Settings["storage_policy"] = m[1]
				}
			}
		}
	}()
	return c.Conn.Exec(ctx, query, args...)
}

type InitCfg struct {
	Days      int    `json:"days"`
	Policy    string `json:"policy"`
	Ordering  string `json:"ordering"`
	Clustered bool   `json:"clustered"`
	Skip      bool   `json:"skip_unavailable_shards"`
}

func runUpdate(c *fakeconn.Conn, ic InitCfg) (err error, crashed bool) {
	defer func() {
		if r := recover(); r != nil {
			if _, ok := r.(fakeconn.Crash); ok {
				crashed = true
				return
			}
			panic(r)
		}
	}()
	mode, cluster := maintenance.CLUST_MODE_SINGLE, ""
	if ic.Clustered {
		mode, cluster = maintenance.CLUST_MODE_SINGLE|maintenance.CLUST_MODE_DISTRIBUTED, "c1"
	}
	err = maintenance.Update(initConn{c}, "qryn", cluster, mode, ic.Days, ic.Policy, ic.Ordering, ic.Skip, quietLogger{})
	return err, false
}

// dataTables: the tables that hold data (MergeTree family) in the catalogue, except the version bookkeeping.
func dataTables(db *fakeconn.DB) []string {
	var res []string
	for n, o := range db.Objects {
		if o.Kind == "table" && strings.HasSuffix(o.Engine, "MergeTree") && n != "ver" {
			res = append(res, n)
		}
	}
	sort.Strings(res)
	return res
}

func unknownStatements(c *fakeconn.Conn, infra *[]string) {
	for _, le := range c.Log {
		if strings.Contains(le.Err, "not understood") {
			*infra = append(*infra, le.Err)
		}
	}
}

// initScripts records a fault-free initialisation and returns, in execution order, every schema script with its
// version stream k and the data tables it creates (constant Scripts of InitSchema.tla).
func initScripts(infra *[]string) []map[string]any {
	db := fakeconn.NewDB()
	c := fakeconn.NewConn(db)
	if err, _ := runUpdate(c, InitCfg{Days: 7, Policy: "p", Clustered: true}); err != nil {
		*infra = append(*infra, "baseline Update failed: "+err.Error())
		return nil
	}
	unknownStatements(c, infra)
	var res []map[string]any
	var pending *fakeconn.LogEntry
	for i := range c.Log {
		le := &c.Log[i]
		switch {
		case le.Op.Kind == "SelectVer" || ((le.Op.Kind == "CreateINE" || le.Op.Kind == "Create") && (le.Op.Obj == "ver" || le.Op.Obj == "ver_dist")):
		case le.Op.Kind == "InsertVer":
			if pending == nil {
				*infra = append(*infra, "version recorded without a script before it")
				continue
			}
			creates := []string{}
			if (pending.Op.Kind == "Create" || pending.Op.Kind == "CreateINE") && pending.Op.ObjKind == "table" && pending.Effect {
				if o := db.Objects[pending.Op.Obj]; o != nil && strings.HasSuffix(o.Engine, "MergeTree") {
					creates = append(creates, pending.Op.Obj)
				}
			}
			res = append(res, map[string]any{"k": int(toU(le.Args[0])), "v": int(toU(le.Args[1])), "creates": creates})
			pending = nil
		default:
			if pending != nil {
				*infra = append(*infra, "two scripts without a version record between them: "+le.SQL)
			}
			pending = le
		}
	}
	return res
}

type InitCase struct {
	Cfg       InitCfg `json:"cfg"`
	N         int     `json:"n"`
	Window    string  `json:"window"`
	Stmt      string  `json:"stmt,omitempty"`
	Violation string  `json:"violation,omitempty"`
	Signature string  `json:"signature,omitempty"`
}

func short(s string) string {
	if len(s) > 160 {
		return s[:160] + "..."
	}
	return s
}

// stmtClass: structural class of the statement a fault hit (for signatures that are stable across seeds)
func stmtClass(le *fakeconn.LogEntry) string {
	k := le.Op.Kind
	if (k == "Create" || k == "CreateINE") && le.Op.ObjKind != "" {
		return k + "-" + le.Op.ObjKind
	}
	return k
}

// initCase: an initialisation interrupted at statement n (n = 0: not interrupted), the next initialisation, then the
// retention maintenance twice.  Checked: the second initialisation completes; every data table of a fault-free
// initialisation exists and has the configured storage policy; Rotate completes and gives every rotated table the
// configured TTL; running Rotate again issues no ALTER.
func (w *world) initCase(ic InitCfg, n int, win string, want []string, infra *[]string) InitCase {
	res := InitCase{Cfg: ic, N: n, Window: win}
	db := fakeconn.NewDB()
	hit := "-"
	if n > 0 {
		c := fakeconn.NewConn(db)
		switch win {
		case "fail":
			c.FailAt[n] = true
		case "crash-before":
			c.CrashBefore = n
		case "crash-after":
			c.CrashAfter = n
		}
		runUpdate(c, ic)
		unknownStatements(c, infra)
		if n <= len(c.Log) {
			res.Stmt = short(c.Log[n-1].SQL)
			hit = stmtClass(&c.Log[n-1])
		}
	}
	c2 := fakeconn.NewConn(db)
	err, _ := runUpdate(c2, ic)
	unknownStatements(c2, infra)
	if err != nil {
		res.Violation = fmt.Sprintf("initialisation %+v interrupted at statement #%d (%s: %s): the next initialisation does not complete: %v", ic, n, win, res.Stmt, err)
		res.Signature = "init-rerun-fails|" + hit
		return res
	}
	for _, t := range want {
		o := db.Objects[t]
		if o == nil {
			res.Violation = fmt.Sprintf("initialisation %+v interrupted at statement #%d (%s: %s) and run again to completion: data table %s does not exist", ic, n, win, res.Stmt, t)
			res.Signature = "init-not-completed|" + t
			return res
		}
		if got := strings.Trim(o.Settings["storage_policy"], "'"); got != ic.Policy {
			res.Violation = fmt.Sprintf("after initialisation %+v (fault at #%d %s) data table %s has storage policy %q, configured %q", ic, n, win, t, got, ic.Policy)
			res.Signature = "init-not-converged|policy|" + t
			return res
		}
	}
	cfg := Cfg{ID: "A", Days: ic.Days, Policy: ic.Policy}
	for _, c := range w.all {
		if c.Days == ic.Days && c.Policy == ic.Policy {
			cfg = c
			break
		}
	}
	var last *fakeconn.Conn
	for i := 0; i < 2; i++ {
		last = fakeconn.NewConn(db)
		if err, _ := runRotate(last, cfg, ic.Clustered); err != nil {
			res.Violation = fmt.Sprintf("initialisation %+v interrupted at statement #%d (%s: %s) and run again to completion: the retention maintenance fails: %v", ic, n, win, res.Stmt, err)
			res.Signature = "init-rotate-fails|" + hit
			return res
		}
		unknownStatements(last, infra)
	}
	for _, g := range groupsSpec {
		for _, t := range g.Tables {
			o := db.Objects[t]
			if o == nil {
				*infra = append(*infra, "table missing in catalogue: "+t)
				continue
			}
			if g.Kind == "ttl" && !matches(o.TTL, cfg, t) {
				res.Violation = fmt.Sprintf("after initialisation %+v (fault at #%d %s) and maintenance table %s has TTL %q, not the configured retention", ic, n, win, t, o.TTL)
				res.Signature = "init-not-converged|ttl|" + t
				return res
			}
		}
	}
	if a := alterCount(last); a != 0 {
		res.Violation = fmt.Sprintf("after initialisation %+v (fault at #%d %s) the second maintenance run issued %d ALTER statement(s)", ic, n, win, a)
		res.Signature = "init-rerun-alters"
	}
	return res
}

func (w *world) initSweep(rnd *rand.Rand, full bool, infra *[]string) []InitCase {
	var cases []InitCase
	orderings := []string{"", "fingerprint, timestamp_ns"}
	for _, clustered := range []bool{false, true} {
		for _, pol := range []string{"", "p", "q"} {
			if !full && pol == "q" {
				continue
			}
			for oi, ord := range orderings {
				ic := InitCfg{Days: []int{7, 1, 30}[rnd.Intn(3)], Policy: pol, Ordering: ord, Clustered: clustered, Skip: clustered && oi == 1}
				// the data tables of a fault-free initialisation, and its length
				db := fakeconn.NewDB()
				c := fakeconn.NewConn(db)
				if err, _ := runUpdate(c, ic); err != nil {
					cases = append(cases, InitCase{Cfg: ic, Violation: fmt.Sprintf("initialisation %+v fails on an empty database: %v", ic, err), Signature: "init-fails"})
					continue
				}
				want := dataTables(db)
				if len(want) < 8 {
					*infra = append(*infra, fmt.Sprintf("only %d data tables after a fault-free initialisation", len(want)))
				}
				cases = append(cases, w.initCase(ic, 0, "", want, infra))
				for n := 1; n <= len(c.Log); n++ {
					for _, win := range []string{"fail", "crash-before", "crash-after"} {
						// quick tier: exhaustive for the plain configuration with a storage policy, sampled by seed for the others
						if !full && (clustered || ord != "" || pol == "") && rnd.Intn(6) != 0 {
							continue
						}
						cases = append(cases, w.initCase(ic, n, win, want, infra))
					}
				}
			}
		}
	}
	return cases
}

// c19 drives the REAL retention maintenance (ctrl/qryn/maintenance.Rotate) against fakeconn.
//
//	c19 groups -out groups.json       the settings key each (kind, tables) group uses, from a recorded run
//	c19 sweep  -out r.json -trace t.ndjson [-seed S -full]
//	    for every configuration: every statement x {fail, crash-before, crash-after}, then re-runs, plus
//	    configuration-change sequences; semantic checks of the final TTL/policy per table + event trace
package main

import (
	"encoding/json"
	"flag"
	"fmt"
	"io"
	"math/rand"
	"os"
	"reflect"
	"regexp"
	"strconv"
	"strings"
	"time"

	"github.com/metrico/qryn/ctrl/qryn/heputils"
	"github.com/metrico/qryn/ctrl/qryn/maintenance"
	"github.com/sirupsen/logrus"
	"verif/harness/fakeconn"
)

type quietLogger struct{}

func (quietLogger) Error(args ...any) {}
func (quietLogger) Debug(args ...any) {}
func (quietLogger) Info(args ...any)  {}

type Tier struct {
	D    time.Duration
	Disk string
}
type Cfg struct {
	ID     string // abstract ttl id
	Days   int
	Tiers  []Tier
	Policy string
}

var ttlVariants = map[string]struct {
	Days  int
	Tiers []Tier
}{
	"A": {7, nil},
	"B": {1, []Tier{{10 * time.Second, "cold"}}},                       // below both clamps
	"C": {30, []Tier{{time.Hour, "warm"}, {48 * time.Hour, "cold"}}},   // between the clamps / above
	"D": {7, []Tier{{24 * time.Hour, ""}, {90 * time.Minute, "cold"}}}, // exactly one day; no disk
}

func configs(full bool) []Cfg {
	var res []Cfg
	ids := []string{"A", "B", "C"}
	if full {
		ids = []string{"A", "B", "C", "D"}
	}
	for _, id := range ids {
		for _, p := range []string{"", "p", "q"} {
			if !full && p == "q" {
				continue
			}
			v := ttlVariants[id]
			res = append(res, Cfg{ID: id, Days: v.Days, Tiers: v.Tiers, Policy: p})
		}
	}
	return res
}

var groupsSpec = []struct {
	Kind   string
	Tables []string
	Clamp  string
}{
	{"policy", []string{"time_series", "time_series_gin", "samples_v3"}, "none"},
	{"policy", []string{"tempo_traces", "tempo_traces_attrs_gin", "tempo_traces_kv"}, "none"},
	{"policy", []string{"metrics_15s"}, "none"},
	{"ttl", []string{"samples_v3"}, "minute"},
	{"ttl", []string{"time_series", "time_series_gin"}, "day"},
	{"ttl", []string{"tempo_traces"}, "minute"},
	{"ttl", []string{"tempo_traces_attrs_gin", "tempo_traces_kv"}, "day"},
	{"ttl", []string{"metrics_15s"}, "minute"},
}

func clampOf(table string) (string, time.Duration) {
	switch table {
	case "samples_v3", "tempo_traces", "metrics_15s":
		return "minute", time.Minute
	}
	return "day", 24 * time.Hour
}

// parsed TTL expression
type ttlParsed struct {
	Tiers []struct {
		Expr string
		Secs int64
		Disk string
	}
	DropExpr string
	DropDays int
}

var reTier = regexp.MustCompile(`^(.+?) \+ toIntervalSecond\((-?\d+)\)(?: TO DISK '([^']*)')?$`)
var reDrop = regexp.MustCompile(`^(.+?) \+ toIntervalDay\((-?\d+)\)$`)

func splitTop(s string) []string {
	var res []string
	depth, start := 0, 0
	for i := 0; i < len(s); i++ {
		switch s[i] {
		case '(':
			depth++
		case ')':
			depth--
		case ',':
			if depth == 0 {
				res = append(res, strings.TrimSpace(s[start:i]))
				start = i + 1
			}
		}
	}
	return append(res, strings.TrimSpace(s[start:]))
}

func parseTTL(s string) (*ttlParsed, error) {
	parts := splitTop(s)
	p := &ttlParsed{}
	for i, part := range parts {
		if i == len(parts)-1 {
			m := reDrop.FindStringSubmatch(part)
			if m == nil {
				return nil, fmt.Errorf("bad drop clause %q", part)
			}
			p.DropExpr = m[1]
			p.DropDays, _ = strconv.Atoi(m[2])
			continue
		}
		m := reTier.FindStringSubmatch(part)
		if m == nil {
			return nil, fmt.Errorf("bad tier clause %q", part)
		}
		secs, _ := strconv.ParseInt(m[2], 10, 64)
		p.Tiers = append(p.Tiers, struct {
			Expr string
			Secs int64
			Disk string
		}{m[1], secs, m[3]})
	}
	return p, nil
}

// matches reports whether the TTL string s is the configured retention c for table (semantic comparison).
func matches(s string, c Cfg, table string) bool {
	p, err := parseTTL(s)
	if err != nil {
		return false
	}
	_, clamp := clampOf(table)
	timeCol := "date"
	if cl, _ := clampOf(table); cl == "minute" {
		timeCol = "toDateTime(timestamp_ns / 1000000000)"
	}
	if p.DropDays != c.Days || p.DropExpr != timeCol || len(p.Tiers) != len(c.Tiers) {
		return false
	}
	for i, t := range c.Tiers {
		want := int64(t.D.Seconds())
		if want < int64(clamp.Seconds()) {
			want = int64(clamp.Seconds())
		}
		if p.Tiers[i].Secs != want || p.Tiers[i].Disk != t.Disk || p.Tiers[i].Expr != timeCol {
			return false
		}
	}
	return true
}

// abstractTTL maps a TTL string applied to table to "<ttl id>/<clamp>" of the configuration it realises.
func abstractTTL(s string, table string, all []Cfg) string {
	cl, _ := clampOf(table)
	for _, c := range all {
		if matches(s, c, table) {
			return c.ID + "/" + cl
		}
	}
	return "?:" + s
}

var knownKeys = []string{"v3_storage_policy", "v1_traces_storage_policy", "metrics_15s", "v3_samples_days",
	"v3_time_series_days", "v1_traces_days", "tempo_attrs_v1", "metrics_15s_storage_policy", "metrics_15s_policy", "v3_metrics_15s_days", "metrics_15s_days"}

func fpOf(name string) uint64 {
	return uint64(heputils.FingerprintLabelsDJBHashPrometheus([]byte(fmt.Sprintf(`{"type":%s, "name":%s`, strconv.Quote("rotate"), strconv.Quote(name)))))
}

type Event map[string]any

type world struct {
	all    []Cfg
	fpName map[uint64]string
	ttlKey map[string]string // settings key -> clamp of its group (to abstract recorded TTL values)
}

func statusOf(le *fakeconn.LogEntry) string {
	switch {
	case le.Fault == "fail":
		return "fail"
	case le.Fault == "crash-before":
		return "crash-before"
	case le.Fault == "crash-after":
		return "crash-after"
	case le.Err != "":
		return "err"
	}
	return "ok"
}

func (w *world) absVal(v string, clampHint string) string {
	if v == "" || !strings.Contains(v, "toInterval") {
		return v
	}
	tbl := "samples_v3"
	if clampHint == "day" {
		tbl = "time_series"
	}
	if strings.HasPrefix(v, "date") {
		tbl = "time_series"
	}
	return abstractTTL(v, tbl, w.all)
}

func (w *world) eventsOf(c *fakeconn.Conn, infra *[]string) []Event {
	var ev []Event
	for i := range c.Log {
		le := &c.Log[i]
		if strings.Contains(le.Err, "not understood") {
			*infra = append(*infra, le.Err)
			continue
		}
		st := statusOf(le)
		switch le.Op.Kind {
		case "SelectSetting":
			fp := toU(le.Args[0])
			name, ok := w.fpName[fp]
			if !ok {
				name = fmt.Sprintf("?fp%d", fp)
			}
			val, _ := le.Result.(string)
			ev = append(ev, Event{"ev": "Get", "key": name, "val": w.absVal(val, ""), "st": st})
		case "Insert":
			if len(le.Args) == 4 {
				name := fmt.Sprint(le.Args[2])
				w.fpName[toU(le.Args[0])] = name
				ev = append(ev, Event{"ev": "Put", "key": name, "val": w.absVal(fmt.Sprint(le.Args[3]), ""), "st": st})
			}
		case "Alter":
			sql := le.SQL
			switch {
			case strings.Contains(sql, "MODIFY TTL"):
				ttl := strings.TrimSpace(sql[strings.Index(sql, "MODIFY TTL")+len("MODIFY TTL"):])
				ev = append(ev, Event{"ev": "AlterTTL", "table": le.Op.Obj, "val": abstractTTL(ttl, le.Op.Obj, w.all), "st": st, "raw": ttl})
			case strings.Contains(sql, "storage_policy"):
				v := ""
				if len(le.Args) > 0 {
					v = fmt.Sprint(le.Args[0])
				}
				ev = append(ev, Event{"ev": "AlterPolicy", "table": le.Op.Obj, "val": v, "st": st})
			default:
				ev = append(ev, Event{"ev": "AlterSetting", "table": le.Op.Obj, "st": st})
			}
		default:
			*infra = append(*infra, "unexpected statement in Rotate: "+le.SQL)
		}
	}
	return ev
}

func runRotate(c *fakeconn.Conn, cfg Cfg, clustered bool) (err error, crashed bool) {
	defer func() {
		if r := recover(); r != nil {
			if _, ok := r.(fakeconn.Crash); ok {
				crashed = true
				return
			}
			panic(r)
		}
	}()
	var days []maintenance.RotatePolicy
	for _, t := range cfg.Tiers {
		days = append(days, maintenance.RotatePolicy{TTL: t.D, MoveTo: t.Disk})
	}
	cluster := ""
	if clustered {
		cluster = "c1"
	}
	err = maintenance.Rotate(c, cluster, clustered, days, cfg.Days, cfg.Policy, quietLogger{})
	return err, false
}

func freshDB(clustered bool) *fakeconn.DB {
	db := fakeconn.NewDB()
	c := fakeconn.NewConn(db)
	mode, cluster := maintenance.CLUST_MODE_SINGLE, ""
	if clustered {
		mode, cluster = maintenance.CLUST_MODE_SINGLE|maintenance.CLUST_MODE_DISTRIBUTED, "c1"
	}
	if err := maintenance.Update(c, "qryn", cluster, mode, 7, "", "", false, quietLogger{}); err != nil {
		panic(err)
	}
	return db
}

type Run struct {
	Cfg    int    `json:"cfg"` // index into configs
	N      int    `json:"n,omitempty"`
	Window string `json:"window,omitempty"`
}

type CaseResult struct {
	Clustered bool     `json:"clustered"`
	Runs      []Run    `json:"runs"`
	CfgIDs    []string `json:"cfg_ids"`
	Violation string   `json:"violation,omitempty"`
	Signature string   `json:"signature,omitempty"`
	Alters    []int    `json:"alters_per_run"`
}

func alterCount(c *fakeconn.Conn) int {
	n := 0
	for _, le := range c.Log {
		if le.Op.Kind == "Alter" && le.Fault != "fail" && le.Fault != "crash-before" {
			n++
		}
	}
	return n
}

// runCase executes the runs in order on one database; the LAST TWO runs must be fault-free runs with the same
// configuration: the first of them must complete and converge, the second must issue no ALTER.
func (w *world) runCase(clustered bool, runs []Run, trace *[]Event, infra *[]string) CaseResult {
	db := freshDB(clustered)
	res := CaseResult{Clustered: clustered, Runs: runs}
	first := w.all[runs[0].Cfg]
	*trace = append(*trace, Event{"ev": "Reset", "policy": first.Policy, "ttl": first.ID})
	var conns []*fakeconn.Conn
	var errs []error
	for _, r := range runs {
		cfg := w.all[r.Cfg]
		res.CfgIDs = append(res.CfgIDs, cfg.ID+"/"+cfg.Policy)
		c := fakeconn.NewConn(db)
		switch r.Window {
		case "fail":
			c.FailAt[r.N] = true
		case "crash-before":
			c.CrashBefore = r.N
		case "crash-after":
			c.CrashAfter = r.N
		}
		*trace = append(*trace, Event{"ev": "Start", "policy": cfg.Policy, "ttl": cfg.ID})
		err, crashed := runRotate(c, cfg, clustered)
		*trace = append(*trace, w.eventsOf(c, infra)...)
		switch {
		case crashed:
			*trace = append(*trace, Event{"ev": "Crash"})
		case err != nil:
			*trace = append(*trace, Event{"ev": "ReturnErr"})
		default:
			*trace = append(*trace, Event{"ev": "ReturnOK"})
		}
		conns = append(conns, c)
		errs = append(errs, err)
		res.Alters = append(res.Alters, alterCount(c))
	}
	n := len(runs)
	cfg := w.all[runs[n-1].Cfg]
	if errs[n-2] != nil {
		res.Violation = fmt.Sprintf("a fault-free run after %v does not complete: %v", runs[:n-2], errs[n-2])
		res.Signature = "rerun-fails"
		return res
	}
	// convergence: every table's TTL and storage policy equal the configuration
	for _, g := range groupsSpec {
		for _, t := range g.Tables {
			o := db.Objects[t]
			if o == nil {
				*infra = append(*infra, "table missing in catalogue: "+t)
				continue
			}
			if stale, why := w.revertStale(conns, runs, g.Kind, t); stale && ((g.Kind == "ttl" && !matches(o.TTL, cfg, t)) ||
				(g.Kind == "policy" && cfg.Policy != "" && strings.Trim(o.Settings["storage_policy"], "'") != cfg.Policy)) {
				res.Violation = fmt.Sprintf("after runs %v (configs %v) table %s keeps the %s of the interrupted configuration: %s", runs, res.CfgIDs, t, g.Kind, why)
				res.Signature = "revert-after-interrupted-change|" + g.Kind
				return res
			}
			if g.Kind == "ttl" && !matches(o.TTL, cfg, t) {
				res.Violation = fmt.Sprintf("after runs %v (configs %v) table %s has TTL %q, which is not the configured retention (days=%d tiers=%v, tier moves clamped to >= 1 %s)",
					runs, res.CfgIDs, t, o.TTL, cfg.Days, cfg.Tiers, g.Clamp)
				res.Signature = "not-converged|ttl|" + t
				return res
			}
			if g.Kind == "policy" && cfg.Policy != "" && strings.Trim(o.Settings["storage_policy"], "'") != cfg.Policy {
				res.Violation = fmt.Sprintf("after runs %v (configs %v) table %s has storage policy %q, configured %q", runs, res.CfgIDs, t, o.Settings["storage_policy"], cfg.Policy)
				res.Signature = "not-converged|policy|" + t
				return res
			}
		}
	}
	if res.Alters[n-1] != 0 {
		var which []string
		for _, le := range conns[n-1].Log {
			if le.Op.Kind == "Alter" {
				which = append(which, le.Op.Obj)
			}
		}
		res.Violation = fmt.Sprintf("running again with unchanged configuration %s issued %d ALTER statement(s) on %v", res.CfgIDs[n-1], res.Alters[n-1], uniq(which))
		res.Signature = "rerun-alters|" + strings.Join(uniq(which), ",")
		if cfg.Policy != "" {
			res.Signature += "|policy-set"
		}
	}
	return res
}

// revertStale recognises the one history in which the marker and the ALTERs are known to diverge: the
// configuration of the final runs was already recorded by an earlier completed run, a later run with a DIFFERENT
// configuration altered table t and was interrupted before it recorded its value, and the configuration was then
// reverted.  The final runs read the old marker, find it equal and skip the group.
func (w *world) revertStale(conns []*fakeconn.Conn, runs []Run, kind string, t string) (bool, string) {
	n := len(runs)
	final := runs[n-1].Cfg
	recorded := false
	for i := 0; i < n-2; i++ {
		if runs[i].Cfg == final && runs[i].Window == "" {
			recorded = true
			continue
		}
		if !recorded || runs[i].Cfg == final {
			continue
		}
		cfgI, cfgF := w.all[runs[i].Cfg], w.all[final]
		if (kind == "ttl" && cfgI.ID == cfgF.ID) || (kind == "policy" && cfgI.Policy == cfgF.Policy) {
			continue
		}
		// was t altered (statement executed) by run i, with no later successful Put in that run?
		altered, putAfter := false, false
		for j := range conns[i].Log {
			le := &conns[i].Log[j]
			executed := le.Fault != "fail" && le.Fault != "crash-before" && le.Err == ""
			isKind := (kind == "ttl" && strings.Contains(le.SQL, "MODIFY TTL")) || (kind == "policy" && strings.Contains(le.SQL, "storage_policy"))
			if le.Op.Kind == "Alter" && le.Op.Obj == t && isKind && executed {
				altered, putAfter = true, false
			}
			if le.Op.Kind == "Insert" && altered && executed {
				putAfter = true
			}
		}
		later := false
		for k := i + 1; k < n-2; k++ {
			if runs[k].Cfg != final {
				later = true
			}
		}
		if altered && !putAfter && !later {
			return true, fmt.Sprintf("run %d (configuration %s) altered it and was interrupted before putSetting; the marker still holds the value recorded for %s, so the run after the revert skips the group", i+1, cfgI.ID+"/"+cfgI.Policy, cfgF.ID+"/"+cfgF.Policy)
		}
	}
	return false, ""
}

func toU(v any) uint64 {
	rv := reflect.ValueOf(v)
	switch rv.Kind() {
	case reflect.Int, reflect.Int8, reflect.Int16, reflect.Int32, reflect.Int64:
		return uint64(rv.Int())
	}
	return rv.Uint()
}

func uniq(a []string) []string {
	seen := map[string]bool{}
	var r []string
	for _, x := range a {
		if !seen[x] {
			seen[x] = true
			r = append(r, x)
		}
	}
	return r
}

func main() {
	logrus.SetOutput(io.Discard)
	cmd := os.Args[1]
	fs := flag.NewFlagSet(cmd, flag.ExitOnError)
	out := fs.String("out", "", "")
	tracePath := fs.String("trace", "", "")
	seed := fs.Int64("seed", 1, "")
	full := fs.Bool("full", false, "")
	fs.Parse(os.Args[2:])
	var infra []string
	result := map[string]any{}
	w := &world{all: configs(*full), fpName: map[uint64]string{}}
	for _, k := range knownKeys {
		w.fpName[fpOf(k)] = k
	}
	switch cmd {
	case "groups":
		// record one full run with a storage policy configured and read off the key of every group
		db := freshDB(false)
		c := fakeconn.NewConn(db)
		cfg := Cfg{ID: "C", Days: 30, Tiers: ttlVariants["C"].Tiers, Policy: "p"}
		w.all = append(w.all, cfg)
		if err, _ := runRotate(c, cfg, false); err != nil {
			infra = append(infra, "baseline Rotate failed: "+err.Error())
		}
		ev := w.eventsOf(c, &infra)
		var groups []map[string]any
		gi := 0
		for i := 0; i < len(ev) && gi < len(groupsSpec); i++ {
			if ev[i]["ev"] == "Get" {
				groups = append(groups, map[string]any{"kind": groupsSpec[gi].Kind, "key": ev[i]["key"], "tables": groupsSpec[gi].Tables, "clamp": groupsSpec[gi].Clamp})
				gi++
			}
		}
		result["groups"] = groups
		result["events"] = ev
		var cs []map[string]string
		for _, c := range configs(*full) {
			cs = append(cs, map[string]string{"policy": c.Policy, "ttl": c.ID})
		}
		result["configs"] = cs
		result["scripts"] = initScripts(&infra)
	case "sweep":
		rnd := rand.New(rand.NewSource(*seed))
		var trace []Event
		var cases []CaseResult
		ncfg := len(w.all)
		for _, clustered := range []bool{false, true} {
			for ci := range w.all {
				// baseline length
				db := freshDB(clustered)
				c := fakeconn.NewConn(db)
				runRotate(c, w.all[ci], clustered)
				base := len(c.Log)
				// plain: run, run, run
				cases = append(cases, w.runCase(clustered, []Run{{Cfg: ci}, {Cfg: ci}, {Cfg: ci}}, &trace, &infra))
				for n := 1; n <= base; n++ {
					for _, win := range []string{"fail", "crash-before", "crash-after"} {
						if clustered && !*full && rnd.Intn(3) != 0 {
							continue
						}
						cases = append(cases, w.runCase(clustered, []Run{{Cfg: ci, N: n, Window: win}, {Cfg: ci}, {Cfg: ci}}, &trace, &infra))
					}
				}
				if *full || !clustered {
					// revert after an interrupted change, every statement of the other configuration's run as fault point
					cj := (ci + 1) % ncfg
					dbj := freshDB(clustered)
					cjc := fakeconn.NewConn(dbj)
					runRotate(cjc, w.all[ci], clustered)
					cjc2 := fakeconn.NewConn(dbj)
					runRotate(cjc2, w.all[cj], clustered)
					for n := 1; n <= len(cjc2.Log); n++ {
						cases = append(cases, w.runCase(clustered, []Run{{Cfg: ci}, {Cfg: cj, N: n, Window: "fail"}, {Cfg: ci}, {Cfg: ci}}, &trace, &infra))
					}
				}
				// configuration changes: complete run with another config first, then (faulty) run with this one
				for k := 0; k < 6; k++ {
					cj := rnd.Intn(ncfg)
					n := 1 + rnd.Intn(base)
					win := []string{"fail", "crash-before", "crash-after"}[rnd.Intn(3)]
					cases = append(cases, w.runCase(clustered, []Run{{Cfg: cj}, {Cfg: ci, N: n, Window: win}, {Cfg: ci}, {Cfg: ci}}, &trace, &infra))
					// revert: complete with this config, interrupted change to another one, back to this config
					n2 := 1 + rnd.Intn(base)
					cases = append(cases, w.runCase(clustered, []Run{{Cfg: ci}, {Cfg: cj, N: n2, Window: win}, {Cfg: ci}, {Cfg: ci}}, &trace, &infra))
					ck := rnd.Intn(ncfg)
					cases = append(cases, w.runCase(clustered, []Run{{Cfg: cj, N: n, Window: win}, {Cfg: ck}, {Cfg: ci}, {Cfg: ci}}, &trace, &infra))
				}
			}
		}
		result["cases"] = cases
		t0 := time.Now()
		result["init_cases"] = w.initSweep(rnd, *full, &infra)
		result["init_sweep_ms"] = time.Since(t0).Milliseconds()
		if *tracePath != "" {
			f, _ := os.Create(*tracePath)
			enc := json.NewEncoder(f)
			for _, e := range trace {
				enc.Encode(e)
			}
			f.Close()
			result["events"] = len(trace)
		}
	}
	result["infra"] = infra
	b, _ := json.MarshalIndent(result, "", " ")
	if *out != "" {
		os.WriteFile(*out, b, 0644)
	} else {
		fmt.Println(string(b))
	}
	if len(infra) > 0 {
		os.Exit(2)
	}
}

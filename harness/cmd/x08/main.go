// x08 replays the cases enumerated by spec/query/MC_PromDown.tla into the REAL PromQL read path of qryn over the 15 s
// downsample table:
//
//	abstract database (samples: series, 15 s bucket, position in the bucket, value)
//	  --concretise (bucket b -> t0 + b*15000 ms, t0 = a whole hour of a fixed UTC day; positions +0 / +7000 / +14999 ms)-->
//	  rows of time_series and samples_v3 inserted straight into the store of an e2e.World (chsql over the REAL DDL; the
//	  REAL materialized view metrics_15s_mv fills metrics_15s)
//	abstract request (fn, range, step, start, end in buckets)
//	  --> GET /api/v1/query_range?query=fn(metric[range])&start=&end=&step= on the REAL reader router (controller -> vendored
//	  Prometheus engine -> CLokiQuerier.Select -> TranspileLabelMatchersDownsample -> SQL on chsql -> MapResult -> engine)
//	  --> matrix decoded and compared with the DEFINITION's answer computed by TLC.
//
// An answer equal to the definition passes; one that differs from it but equals the as-coded prediction is attributed to
// the smallest quirk set that reproduces it; anything else is unexplained.  A case whose SQL did not read metrics_15s is
// counted as raw_path and not judged.  A statement chsql cannot run is infrastructure, never a mismatch.
//
//	x08 run -cases cases.ndjson -out result.json -seed S
package main

import (
	"bufio"
	"encoding/json"
	"flag"
	"fmt"
	"math"
	"math/rand"
	"net/url"
	"os"
	"sort"
	"strconv"
	"strings"
	"time"

	"verif/harness/e2e"
)

type Smp struct {
	S int `json:"s"`
	B int `json:"b"`
	P int `json:"p"`
	V int `json:"v"`
}
type Req struct {
	Fn string `json:"fn"`
	R  int    `json:"R"`
	S  int    `json:"S"`
	St int    `json:"st"`
	En int    `json:"en"`
}
type Pt struct {
	S int   `json:"s"`
	K int   `json:"k"`
	N int64 `json:"n"`
	D int64 `json:"d"`
}
type Case struct {
	DB    []Smp      `json:"db"`
	Req   Req        `json:"req"`
	LB    int        `json:"lb"`
	Def   []Pt       `json:"def"`
	Coded []Pt       `json:"coded"`
	Fired [][]string `json:"fired"`
}

type Mismatch struct {
	Signature string         `json:"signature"`
	Kind      string         `json:"kind"`
	Msg       string         `json:"msg"`
	Case      *Case          `json:"case"`
	Concrete  map[string]any `json:"concrete"`
	Expected  map[string]any `json:"expected_per_promql"`
	AsCoded   map[string]any `json:"predicted_as_coded"`
	Observed  map[string]any `json:"observed"`
	Size      int            `json:"-"`
}

var posMs = []int64{0, 7000, 14999}

type key struct{ s, k int }

func ptsMap(ps []Pt) map[key]float64 {
	m := map[key]float64{}
	for _, p := range ps {
		m[key{p.S, p.K}] = float64(p.N) / float64(p.D)
	}
	return m
}

func feq(a, b float64) bool {
	if a == b {
		return true
	}
	d := math.Abs(a - b)
	return d <= 1e-9*math.Max(math.Abs(a), math.Abs(b))
}

func eqMap(a, b map[key]float64) bool {
	if len(a) != len(b) {
		return false
	}
	for k, v := range a {
		w, ok := b[k]
		if !ok || !feq(v, w) {
			return false
		}
	}
	return true
}

func diffKind(ref, got map[key]float64) string {
	kinds := map[string]bool{}
	for k, v := range ref {
		if w, ok := got[k]; !ok {
			kinds["point-missing"] = true
		} else if !feq(v, w) {
			kinds["value-differs"] = true
		}
	}
	for k := range got {
		if _, ok := ref[k]; !ok {
			kinds["point-extra"] = true
		}
	}
	var ks []string
	for k := range kinds {
		ks = append(ks, k)
	}
	sort.Strings(ks)
	return strings.Join(ks, "+")
}

func show(m map[key]float64) map[string]any {
	out := map[string]any{}
	for k, v := range m {
		out[fmt.Sprintf("series%d@eval%d", k.s, k.k)] = v
	}
	return out
}

func firedName(f [][]string) string {
	var names []string
	for _, q := range f {
		q = append([]string(nil), q...)
		sort.Strings(q)
		names = append(names, strings.Join(q, "+"))
	}
	sort.Strings(names)
	if len(names) == 0 {
		return "none"
	}
	return names[0]
}

func fnName(fn string) string {
	if fn == "" {
		return "selector"
	}
	return fn
}

func main() {
	if len(os.Args) < 2 || os.Args[1] != "run" {
		fmt.Fprintln(os.Stderr, "usage: x08 run -cases f -out f -seed n")
		os.Exit(2)
	}
	fs := flag.NewFlagSet("run", flag.ExitOnError)
	casesP := fs.String("cases", "", "ndjson cases")
	outP := fs.String("out", "", "result json")
	seed := fs.Int64("seed", 1, "seed")
	fs.Parse(os.Args[2:])
	realStderr := os.Stderr
	if dn, err := os.OpenFile(os.DevNull, os.O_WRONLY, 0); err == nil && os.Getenv("X08_VERBOSE") == "" {
		os.Stdout = dn // the reader prints SQL and debug lines
	}
	if err := run(*casesP, *outP, *seed); err != nil {
		fmt.Fprintln(realStderr, "x08:", err)
		os.Exit(2)
	}
}

func run(casesP, outP string, seed int64) error {
	f, err := os.Open(casesP)
	if err != nil {
		return err
	}
	defer f.Close()
	w, err := e2e.New(e2e.Options{})
	if err != nil {
		return err
	}
	defer w.Close()
	r := rand.New(rand.NewSource(seed*7919 + 17))
	day := time.Date(2023, 11, 14, 0, 0, 0, 0, time.UTC).AddDate(0, 0, int(seed%100))

	stats := map[string]int{}
	fired := map[string]int{}
	byFn := map[string]int{}
	mism := map[string]*Mismatch{}
	counts := map[string]int{}
	var infra []string
	var sample any
	distinct := map[string]bool{}

	var curDB string
	var t0 int64
	var metric string
	jobOf := map[string]int{}

	sc := bufio.NewScanner(f)
	sc.Buffer(make([]byte, 1<<20), 1<<24)
	for sc.Scan() {
		line := sc.Bytes()
		if len(line) == 0 {
			continue
		}
		var c Case
		if err := json.Unmarshal(line, &c); err != nil {
			return fmt.Errorf("bad case: %v: %.200s", err, line)
		}
		stats["cases"]++
		dbk, _ := json.Marshal(c.DB)
		if string(dbk) != curDB {
			curDB = string(dbk)
			stats["databases"]++
			for _, t := range []string{"time_series", "time_series_gin", "samples_v3", "metrics_15s"} {
				if err := w.Store.DB.Truncate(t); err != nil {
					return err
				}
			}
			// a whole hour: a multiple of every step of the specification (15, 30, 45, 60 s), as the specification assumes of bucket 0
			t0 = day.Add(time.Duration(11+r.Intn(5)) * time.Hour).UnixMilli()
			metric = fmt.Sprintf("m%d_total", r.Intn(1000))
			jobOf = map[string]int{}
			fps := map[int]uint64{}
			var tsRows, smpRows [][]any
			for _, x := range c.DB {
				if _, ok := fps[x.S]; !ok {
					fp := r.Uint64()>>1 + uint64(x.S)
					fps[x.S] = fp
					job := fmt.Sprintf("j%d_%d", x.S, r.Intn(100))
					jobOf[job] = x.S
					lj, _ := json.Marshal(map[string]string{"__name__": metric, "job": job})
					tsRows = append(tsRows, []any{uint8(2), day, fp, string(lj), ""})
				}
				ms := t0 + int64(x.B)*15000 + posMs[x.P]
				smpRows = append(smpRows, []any{uint8(2), fps[x.S], ms * 1000000, "", float64(x.V)})
			}
			// insertion order must not matter
			r.Shuffle(len(smpRows), func(i, j int) { smpRows[i], smpRows[j] = smpRows[j], smpRows[i] })
			if err := w.Store.Insert("time_series", []string{"type", "date", "fingerprint", "labels", "name"}, tsRows); err != nil {
				return err
			}
			if r.Intn(2) == 0 || len(smpRows) < 2 {
				err = w.Store.Insert("samples_v3", []string{"type", "fingerprint", "timestamp_ns", "string", "value"}, smpRows)
			} else { // two INSERT blocks: the view writes partial states that the reader has to merge
				h := 1 + r.Intn(len(smpRows)-1)
				err = w.Store.Insert("samples_v3", []string{"type", "fingerprint", "timestamp_ns", "string", "value"}, smpRows[:h])
				if err == nil {
					err = w.Store.Insert("samples_v3", []string{"type", "fingerprint", "timestamp_ns", "string", "value"}, smpRows[h:])
				}
				stats["databases_inserted_in_two_blocks"]++
			}
			if err != nil {
				return err
			}
			w.Bridge.Drain()
		}
		// ---- the request
		q := metric
		if c.Req.Fn == "sum" {
			q = "sum(" + metric + ")"
		} else if c.Req.Fn != "" {
			q = fmt.Sprintf("%s(%s[%ds])", c.Req.Fn, metric, c.Req.R*15)
		}
		startS := t0/1000 + int64(c.Req.St)*15
		endS := t0/1000 + int64(c.Req.En)*15
		stepS := int64(c.Req.S) * 15
		path := fmt.Sprintf("/api/v1/query_range?query=%s&start=%d&end=%d&step=%d", url.QueryEscape(q), startS, endS, stepS)
		code, body := w.Get(path)
		var sqls []string
		down := false
		var failed []string
		for _, e := range w.Bridge.Drain() {
			sqls = append(sqls, e.SQL)
			if strings.Contains(e.SQL, "metrics_15s") {
				down = true
			}
			if e.Err != nil {
				failed = append(failed, e.Err.Error())
			}
		}
		if len(w.Bridge.Unsupported) > 0 {
			infra = append(infra, "chsql cannot run: "+strings.Join(w.Bridge.Unsupported, " ;; "))
			w.Bridge.Unsupported = nil
			continue
		}
		if !down {
			stats["raw_path"]++
			continue
		}
		stats["downsample_path"]++
		byFn[fnName(c.Req.Fn)]++
		defM, codedM := ptsMap(c.Def), ptsMap(c.Coded)
		if len(defM) > 0 {
			stats["definition_nonempty"]++
		}
		distinct[curDB+string(mustJSON(c.Req))] = true
		got := map[key]float64{}
		kind := ""
		if code != 200 {
			kind = fmt.Sprintf("http-%d", code)
		} else {
			var resp struct {
				Status string `json:"status"`
				Data   struct {
					ResultType string `json:"resultType"`
					Result     []struct {
						Metric map[string]string `json:"metric"`
						Values [][]any           `json:"values"`
					} `json:"result"`
				} `json:"data"`
			}
			dec := json.NewDecoder(strings.NewReader(body))
			dec.UseNumber()
			if err := dec.Decode(&resp); err != nil || resp.Status != "success" || resp.Data.ResultType != "matrix" {
				kind = "bad-answer"
			} else {
				for _, s := range resp.Data.Result {
					sn, ok := jobOf[s.Metric["job"]]
					if c.Req.Fn == "sum" && len(s.Metric) == 0 {
						sn, ok = 0, true // the aggregated series
					}
					if !ok {
						kind = "unknown-series"
						break
					}
					for _, v := range s.Values {
						if len(v) != 2 {
							kind = "bad-answer"
							break
						}
						tf, _ := v[0].(json.Number).Float64()
						vs, _ := v[1].(string)
						vf, err := strconv.ParseFloat(vs, 64)
						ms := int64(math.Round(tf * 1000))
						off := ms - startS*1000
						if err != nil || off < 0 || off%(stepS*1000) != 0 || ms > endS*1000 {
							kind = "off-grid-point"
							break
						}
						k := key{sn, int(off / (stepS * 1000))}
						if _, dup := got[k]; dup {
							kind = "duplicate-point"
						}
						got[k] = vf
					}
				}
			}
		}
		concrete := func() map[string]any {
			var ss []map[string]any
			for _, x := range c.DB {
				ms := t0 + int64(x.B)*15000 + posMs[x.P]
				ss = append(ss, map[string]any{"series": x.S, "ts_ms": ms, "rel_to_start_ms": ms - startS*1000, "value": x.V})
			}
			return map[string]any{"request": path, "query": q, "t0_ms": t0, "samples": ss, "sql": sqls, "failed_sql": failed, "seed": seed}
		}
		if kind == "" && eqMap(got, defM) {
			stats["answers_equal_definition"]++
			if len(c.Fired) > 0 {
				// TLC predicted a deviation, the real code answers the definition: fine as a verdict, counted
				stats["answers_definition_where_as_coded_prediction_differs"]++
				fired["silent|"+firedName(c.Fired)]++
			} else if sample == nil && len(defM) > 1 && c.Req.Fn != "" {
				sample = map[string]any{"case": c, "concrete": concrete(), "observed": show(got), "verdict": "ok"}
			}
			continue
		}
		var sig, mk string
		if kind == "" && eqMap(got, codedM) {
			qn := firedName(c.Fired)
			sig, mk = "as-coded|"+fnName(c.Req.Fn)+"|"+qn, "quirk"
			stats["answers_equal_as_coded_prediction"]++
			fired[qn]++
		} else {
			if kind == "" {
				// what changed with respect to the code the specification transcribes
				kind = diffKind(codedM, got)
			}
			sig, mk = "unexplained|"+fnName(c.Req.Fn)+"|"+kind, "unexplained"
			stats["answers_unexplained"]++
		}
		counts[sig]++
		size := len(line)
		if old, ok := mism[sig]; !ok || size < old.Size {
			cc := c
			mism[sig] = &Mismatch{Signature: sig, Kind: mk, Case: &cc, Concrete: concrete(), Expected: show(defM), AsCoded: show(codedM),
				Observed: map[string]any{"status": code, "points": show(got), "body": trunc(body, 600)}, Size: size,
				Msg: fmt.Sprintf("%s start=t0%+ds end=t0%+ds step=%ds over %s: PromQL over the stored samples gives %v, qryn (metrics_15s path) answers %v",
					q, c.Req.St*15, c.Req.En*15, stepS, descDB(c.DB), show(defM), show(got))}
		}
	}
	if err := sc.Err(); err != nil {
		return err
	}
	if len(w.StoreErr) > 0 {
		infra = append(infra, w.StoreErr...)
	}
	var ms []*Mismatch
	for _, m := range mism {
		ms = append(ms, m)
	}
	sort.Slice(ms, func(i, j int) bool { return ms[i].Signature < ms[j].Signature })
	stats["distinct_cases"] = len(distinct)
	res := map[string]any{"stats": stats, "by_fn": byFn, "fired_observed": fired, "mismatches": ms, "mismatch_counts": counts, "infra": infra, "sample": sample}
	b, err := json.MarshalIndent(res, "", " ")
	if err != nil {
		return err
	}
	return os.WriteFile(outP, b, 0o644)
}

func mustJSON(v any) []byte { b, _ := json.Marshal(v); return b }

func trunc(s string, n int) string {
	if len(s) > n {
		return s[:n] + "..."
	}
	return s
}

func descDB(db []Smp) string {
	var p []string
	for _, x := range db {
		p = append(p, fmt.Sprintf("s%d@t0+%dms=%d", x.S, int64(x.B)*15000+posMs[x.P], x.V))
	}
	return "{" + strings.Join(p, ", ") + "}"
}

package main

import (
	"context"
	"encoding/json"
	"flag"
	"fmt"
	"math"
	"math/rand"
	"os"
	"sort"
	"strings"
	"time"

	"github.com/metrico/qryn/reader/model"
	"github.com/metrico/qryn/reader/service"
	"github.com/prometheus/prometheus/model/labels"
	"github.com/prometheus/prometheus/promql"
	"github.com/prometheus/prometheus/storage"
	"github.com/prometheus/prometheus/tsdb/chunkenc"
	"github.com/prometheus/prometheus/util/teststorage"
)

// ---- recording the select hints the engine passes to the qryn Queryable ----

type hintRec struct {
	storage.Queryable
	hints *[]storage.SelectHints
}

func (h hintRec) Querier(ctx context.Context, mint, maxt int64) (storage.Querier, error) {
	q, err := h.Queryable.Querier(ctx, mint, maxt)
	if err != nil {
		return nil, err
	}
	return hintQuerier{q, h.hints}, nil
}

type hintQuerier struct {
	storage.Querier
	hints *[]storage.SelectHints
}

func (h hintQuerier) Select(sortSeries bool, hints *storage.SelectHints, ms ...*labels.Matcher) storage.SeriesSet {
	if hints != nil {
		*h.hints = append(*h.hints, *hints)
	}
	return h.Querier.Select(sortSeries, hints, ms...)
}

// ---- the reference TSDB seen through a select range that is open on the left: (hints.Start, hints.End] ----
// Used only to NAME a difference: if qryn's result equals Prometheus' result over this view, the difference is the
// sample stored exactly at the start of the select range.

type leftOpen struct{ storage.Queryable }

func (l leftOpen) Querier(ctx context.Context, mint, maxt int64) (storage.Querier, error) {
	q, err := l.Queryable.Querier(ctx, mint, maxt)
	if err != nil {
		return nil, err
	}
	return leftOpenQuerier{q}, nil
}

type leftOpenQuerier struct{ storage.Querier }

func (l leftOpenQuerier) Select(sortSeries bool, hints *storage.SelectHints, ms ...*labels.Matcher) storage.SeriesSet {
	ss := l.Querier.Select(sortSeries, hints, ms...)
	if hints == nil {
		return ss
	}
	var out []storage.Series
	for ss.Next() {
		s := ss.At()
		it := s.Iterator()
		var sm []smp
		for it.Next() {
			t, v := it.At()
			if t > hints.Start && t <= hints.End {
				sm = append(sm, smp{t, v})
			}
		}
		if len(sm) > 0 {
			out = append(out, &memSeries{s.Labels(), sm})
		}
	}
	return &memSet{series: out, idx: -1, err: ss.Err()}
}

type memSeries struct {
	l  labels.Labels
	sm []smp
}

func (m *memSeries) Labels() labels.Labels        { return m.l }
func (m *memSeries) Iterator() chunkenc.Iterator { return &memIt{sm: m.sm, i: -1} }

type memIt struct {
	sm []smp
	i  int
}

func (m *memIt) Next() bool {
	if m.i < len(m.sm) {
		m.i++
	}
	return m.i < len(m.sm)
}
func (m *memIt) Seek(t int64) bool {
	if m.i < 0 {
		m.i = 0
	}
	for m.i < len(m.sm) && m.sm[m.i].T < t {
		m.i++
	}
	return m.i < len(m.sm)
}
func (m *memIt) At() (int64, float64) { return m.sm[m.i].T, m.sm[m.i].V }
func (m *memIt) Err() error           { return nil }

type memSet struct {
	series []storage.Series
	idx    int
	err    error
}

func (m *memSet) Next() bool                 { m.idx++; return m.idx < len(m.series) }
func (m *memSet) At() storage.Series         { return m.series[m.idx] }
func (m *memSet) Err() error                 { return m.err }
func (m *memSet) Warnings() storage.Warnings { return nil }

// how transpiler.go processHints treats a hint (transcribed classification, used only to NAME a difference)
var instantFns = map[string]bool{"abs": true, "absent": true, "ceil": true, "exp": true, "floor": true, "ln": true, "log2": true, "log10": true, "round": true,
	"scalar": true, "sgn": true, "sort": true, "sqrt": true, "atan": true, "cos": true, "cosh": true, "sin": true, "sinh": true, "tan": true,
	"tanh": true, "deg": true, "rad": true}
var rangeFns = map[string]bool{"absent_over_time": true, "deriv": true, "idelta": true, "irate": true, "rate": true, "resets": true, "min_over_time": true,
	"max_over_time": true, "sum_over_time": true, "count_over_time": true, "stddev_over_time": true, "stdvar_over_time": true, "last_over_time": true,
	"present_over_time": true, "delta": true, "increase": true, "avg_over_time": true}

func hintTrait(class string, hs []storage.SelectHints) string {
	if class == "subquery" {
		// inside a subquery the engine evaluates on the subquery's own grid, which the select hints do not carry: what
		// processHints does with the hints of the QUERY step names the difference
		t := "subquery"
		for _, h := range hs {
			switch {
			case h.Step == 0:
			case instantFns[h.Func] || h.Func == "":
				t = "subquery|step-bucketed"
			case rangeFns[h.Func] && h.Range > 0 && h.Step > h.Range:
				t = "subquery|step>range"
			}
		}
		return t
	}
	set := map[string]bool{}
	al := func(ok bool) string {
		if ok {
			return "|aligned"
		}
		return "|misaligned"
	}
	for _, h := range hs {
		switch {
		case h.Step == 0:
			set["raw"] = true
		case instantFns[h.Func] || h.Func == "":
			// the rows are re-timed to bucket ends hints.Start + k*Step; the engine evaluates at hints.Start + lookback + j*Step
			// (timestamp() is not an instant function here: its selector is not re-timed)
			set["step-bucketed"+al(300000%h.Step == 0)] = true
		case rangeFns[h.Func] && h.Range > 0 && h.Step > h.Range:
			// rows outside the windows [t - Range, t], t = hints.Start + Range + j*Step (the engine's evaluation times), are dropped
			set["step>range"] = true
		default:
			set["unfiltered"] = true
		}
	}
	var k []string
	for x := range set {
		k = append(k, x)
	}
	sort.Strings(k)
	return strings.Join(k, "+")
}

type tt struct{ err *string }

func (t tt) Errorf(format string, args ...interface{}) { *t.err = fmt.Sprintf(format, args...) }
func (t tt) FailNow()                                  { panic("teststorage: " + *t.err) }
func (t tt) Helper()                                   {}

type pqSeries struct {
	Labels  map[string]string `json:"labels"`
	Samples []smp             `json:"samples"`
}

type pqQuery struct {
	Expr  string `json:"expr"`
	Class string `json:"class"`
}

func canonical(v interface{}) (map[string][]smp, string) {
	res := map[string][]smp{}
	switch x := v.(type) {
	case promql.Vector:
		for _, s := range x {
			res[s.Metric.String()] = append(res[s.Metric.String()], smp{s.T, s.V})
		}
		return res, "vector"
	case promql.Matrix:
		for _, s := range x {
			for _, p := range s.Points {
				res[s.Metric.String()] = append(res[s.Metric.String()], smp{p.T, p.V})
			}
		}
		return res, "matrix"
	case promql.Scalar:
		res["scalar"] = []smp{{x.T, x.V}}
		return res, "scalar"
	}
	return res, fmt.Sprintf("%T", v)
}

func feq(a, b float64) bool {
	if math.IsNaN(a) && math.IsNaN(b) {
		return true
	}
	if a == b {
		return true
	}
	d := math.Abs(a - b)
	return d <= 1e-9*math.Max(math.Abs(a), math.Abs(b)) || d < 1e-12
}

// diffKind names the first structural difference between the reference result and the qryn result
func diffKind(ref, got map[string][]smp) string {
	var missing, extra []string
	for k := range ref {
		if _, ok := got[k]; !ok {
			missing = append(missing, k)
		}
	}
	for k := range got {
		if _, ok := ref[k]; !ok {
			extra = append(extra, k)
		}
	}
	if len(missing) > 0 && len(extra) > 0 {
		return "series-differ"
	}
	if len(missing) > 0 {
		return "series-missing"
	}
	if len(extra) > 0 {
		return "series-extra"
	}
	kinds := map[string]bool{}
	for k, rp := range ref {
		gp := got[k]
		gm := map[int64]float64{}
		for _, p := range gp {
			gm[p.T] = p.V
		}
		rm := map[int64]float64{}
		for _, p := range rp {
			rm[p.T] = p.V
			if v, ok := gm[p.T]; !ok {
				kinds["point-missing"] = true
			} else if !feq(v, p.V) {
				kinds["value-differs"] = true
			}
		}
		for _, p := range gp {
			if _, ok := rm[p.T]; !ok {
				kinds["point-extra"] = true
			}
		}
	}
	if len(kinds) == 0 {
		return ""
	}
	var k []string
	for x := range kinds {
		k = append(k, x)
	}
	sort.Strings(k)
	return strings.Join(k, "+")
}

func promqlMain(fs *flag.FlagSet, args []string) error {
	outp := fs.String("out", "", "result")
	seed := fs.Int64("seed", 1, "seed")
	n := fs.Int("n", 6, "scenarios")
	tmp := fs.String("tmp", os.TempDir(), "directory for the reference TSDBs")
	fs.Parse(args)
	os.Setenv("TMPDIR", *tmp)
	w, err := newWorld()
	if err != nil {
		return err
	}
	svc := &service.CLokiQueriable{ServiceData: model.ServiceData{Session: w.Reg}}
	newEngine := func() *promql.Engine {
		// the options of reader/router/prometheusQueryRangeRouter.go (MaxSamples from the configuration)
		return promql.NewEngine(promql.EngineOpts{MaxSamples: 50000000, Timeout: 30 * time.Second})
	}
	var viol findings
	stats := map[string]int{}
	infra := []string{}
	var samples []any
	for sc := 0; sc < *n; sc++ {
		r := rand.New(rand.NewSource(*seed*7919 + int64(sc)))
		regime := []string{"offgrid", "ongrid"}[sc%2]
		day := time.Date(2023, 11, 14, 0, 0, 0, 0, time.UTC).AddDate(0, 0, int(*seed%100))
		// t0 is a multiple of 15 s like the start of every /api/v1/query_range request (the controller rounds)
		t0 := day.Add(11*time.Hour).UnixMilli() + int64(r.Intn(200))*15000
		// ---- data: a counter family and a gauge family
		var series []*pqSeries
		jobs := []string{"a", "b"}
		for _, fam := range []string{"reqs_total", "temp"} {
			for _, job := range jobs {
				for inst := 0; inst < 1+r.Intn(2); inst++ {
					s := &pqSeries{Labels: map[string]string{"__name__": fam, "job": job, "instance": fmt.Sprintf("i%d", inst)}}
					t := t0 - 60000 + int64(r.Intn(3000))
					acc := float64(r.Intn(50))
					for t < t0+150000 {
						ts := t
						if regime == "ongrid" {
							ts = t / 1000 * 1000
						} else if ts%1000 == 0 {
							ts += 1 + int64(r.Intn(998))
						}
						if len(s.Samples) == 0 || ts > s.Samples[len(s.Samples)-1].T {
							v := acc
							if fam == "temp" {
								v = math.Round(20+10*math.Sin(float64(ts%97))+float64(r.Intn(5))) / 2
							} else {
								acc += float64(r.Intn(9))
								if r.Intn(40) == 0 {
									acc = 0 // counter reset
								}
							}
							s.Samples = append(s.Samples, smp{ts, v})
						}
						t += 1000 + int64(r.Intn(4000))
						if r.Intn(25) == 0 {
							t += 20000 // a gap
						}
					}
					series = append(series, s)
				}
			}
		}
		// ---- store: qryn
		if err := w.truncate("time_series", "time_series_gin", "samples_v3", "metrics_15s"); err != nil {
			return err
		}
		var tsRows, smpRows [][]any
		for i, s := range series {
			fp := r.Uint64()>>1 + uint64(i)
			lj, _ := json.Marshal(s.Labels)
			tsRows = append(tsRows, []any{uint8(2), time.UnixMilli(s.Samples[0].T).UTC().Truncate(24 * time.Hour), fp, string(lj), ""})
			for _, p := range s.Samples {
				smpRows = append(smpRows, []any{uint8(2), fp, p.T * 1000000, "", p.V})
			}
		}
		if err := w.St.Insert("time_series", []string{"type", "date", "fingerprint", "labels", "name"}, tsRows); err != nil {
			return err
		}
		if err := w.St.Insert("samples_v3", []string{"type", "fingerprint", "timestamp_ns", "string", "value"}, smpRows); err != nil {
			return err
		}
		// ---- store: a real Prometheus TSDB
		var terr string
		ref := teststorage.New(tt{&terr})
		app := ref.Appender(context.Background())
		for _, s := range series {
			l := labels.FromMap(s.Labels)
			for _, p := range s.Samples {
				if _, err := app.Append(0, l, p.T, p.V); err != nil {
					ref.Close()
					return fmt.Errorf("reference append: %v", err)
				}
			}
		}
		if err := app.Commit(); err != nil {
			ref.Close()
			return err
		}
		stats["scenarios"]++
		stats["scenario_"+regime]++
		// ---- queries
		sel := func(fam string) string {
			return []string{fam, fam + `{job="a"}`, fam + `{job=~"a|b"}`, fam + `{job="b",instance="i0"}`, `{__name__="` + fam + `"}`}[r.Intn(5)]
		}
		d := func(lo, hi int) string { return fmt.Sprintf("%ds", lo+r.Intn(hi-lo+1)) }
		var qs []pqQuery
		add := func(class, expr string) { qs = append(qs, pqQuery{expr, class}) }
		add("selector", sel("temp"))
		add("selector", sel("reqs_total"))
		add("offset", sel("temp")+" offset "+d(3, 40))
		for _, f := range []string{"rate", "increase", "irate", "delta", "idelta", "deriv", "resets", "changes"} {
			fam := "reqs_total"
			if f == "delta" || f == "idelta" || f == "deriv" || f == "changes" {
				fam = "temp"
			}
			add(f, fmt.Sprintf("%s(%s[%s])", f, sel(fam), d(3, 40)))
		}
		for _, f := range []string{"sum_over_time", "avg_over_time", "min_over_time", "max_over_time", "count_over_time", "last_over_time", "stddev_over_time", "present_over_time"} {
			add(f, fmt.Sprintf("%s(%s[%s])", f, sel("temp"), d(3, 40)))
		}
		add("quantile_over_time", fmt.Sprintf("quantile_over_time(0.5, %s[%s])", sel("temp"), d(5, 40)))
		add("range-offset", fmt.Sprintf("sum_over_time(%s[%s] offset %s)", sel("temp"), d(3, 20), d(2, 20)))
		add("agg", "sum("+sel("temp")+")")
		add("agg", "max by (job) ("+sel("temp")+")")
		add("agg", "count without (instance) ("+sel("reqs_total")+")")
		add("agg-rate", fmt.Sprintf("sum by (job) (rate(%s[%s]))", sel("reqs_total"), d(5, 40)))
		add("timestamp", "timestamp("+sel("temp")+")")
		add("instant-fn", "abs("+sel("temp")+")")
		add("instant-fn", "ceil("+sel("temp")+" / 3)")
		add("binop", sel("temp")+" * 2")
		add("binop", "temp > 22")
		add("binop", `temp{job="a"} + on (instance) group_left temp{job="b",instance="i0"}`)
		add("subquery", fmt.Sprintf("max_over_time(temp[%s:%s])", d(20, 60), d(2, 9)))
		add("subquery", fmt.Sprintf("avg_over_time(rate(reqs_total[%s])[%s:%s])", d(10, 30), d(20, 60), d(3, 9)))
		add("absent", `absent(nosuch{job="a"})`)
		add("absent_over_time", fmt.Sprintf(`absent_over_time(temp{job="zz"}[%s])`, d(5, 20)))
		add("scalar", `scalar(temp{job="b",instance="i0"})`)
		steps := []int64{1000, 2000, 5000, 7000, 10000, 14000}
		for qi, q := range qs {
			for _, kind := range []string{"instant", "range"} {
				var hints []storage.SelectHints
				qq := hintRec{svc.SetOidAndDB(context.Background()), &hints}
				var rq, gq promql.Query
				var rerr, gerr error
				desc := map[string]any{"expr": q.Expr, "kind": kind}
				if kind == "instant" {
					ts := time.UnixMilli(t0 + int64(r.Intn(120))*1000 + int64(r.Intn(2))*500)
					desc["time_ms"] = ts.UnixMilli()
					rq, rerr = newEngine().NewInstantQuery(ref, nil, q.Expr, ts)
					gq, gerr = newEngine().NewInstantQuery(qq, nil, q.Expr, ts)
				} else {
					step := steps[(qi+sc+int(*seed))%len(steps)]
					start := time.UnixMilli(t0 + int64(r.Intn(3))*15000)
					end := start.Add(time.Duration(4+r.Intn(4)) * 15 * time.Second)
					desc["start_ms"], desc["end_ms"], desc["step_ms"] = start.UnixMilli(), end.UnixMilli(), step
					rq, rerr = newEngine().NewRangeQuery(ref, nil, q.Expr, start, end, time.Duration(step)*time.Millisecond)
					gq, gerr = newEngine().NewRangeQuery(qq, nil, q.Expr, start, end, time.Duration(step)*time.Millisecond)
				}
				if rerr != nil || gerr != nil {
					if (rerr == nil) != (gerr == nil) {
						return fmt.Errorf("query construction differs for %s: %v / %v", q.Expr, rerr, gerr)
					}
					stats["queries_rejected_by_parser"]++
					continue
				}
				rres := rq.Exec(context.Background())
				gres := gq.Exec(context.Background())
				rq.Close()
				gq.Close()
				uns, failed, sqls := w.drain()
				if len(uns) > 0 {
					infra = append(infra, uns...)
					continue
				}
				stats["queries"]++
				stats["queries_"+kind]++
				trait := hintTrait(q.Class, hints)
				stats["hint_"+trait]++
				if rres.Err != nil {
					// the reference itself refuses the query (e.g. many-to-many matching): nothing to compare
					stats["reference_errors"]++
					if gres.Err == nil {
						viol.add(fmt.Sprintf("promql|%s|succeeds-where-prometheus-fails", trait),
							fmt.Sprintf("%s query %s: Prometheus over the same samples fails (%v), qryn returns a result", kind, q.Expr, rres.Err), func() any { return desc })
					}
					continue
				}
				detail := func(extra map[string]any) func() any {
					return func() any {
						m := map[string]any{"query": desc, "class": q.Class, "regime": regime, "series": series, "hints": hints, "sql": sqls, "seed": *seed, "scenario": sc}
						for k, v := range extra {
							m[k] = v
						}
						return m
					}
				}
				if gres.Err != nil {
					viol.add(fmt.Sprintf("promql|%s|error", trait),
						fmt.Sprintf("%s query %s fails over the qryn storage: %v %v (Prometheus over the same samples answers)", kind, q.Expr, gres.Err, failed), detail(nil))
					continue
				}
				rc, rt := canonical(rres.Value)
				if len(rc) > 0 {
					stats["queries_reference_nonempty"]++
				}
				gc, gt := canonical(gres.Value)
				dk := ""
				if rt != gt {
					dk = "result-type"
				} else {
					dk = diffKind(rc, gc)
				}
				if dk != "" {
					sig := "promql|" + trait + "|result-differs"
					// is it the sample stored exactly at the start of a select range?
					var aq promql.Query
					var aerr error
					if kind == "instant" {
						aq, aerr = newEngine().NewInstantQuery(leftOpen{ref}, nil, q.Expr, time.UnixMilli(desc["time_ms"].(int64)))
					} else {
						aq, aerr = newEngine().NewRangeQuery(leftOpen{ref}, nil, q.Expr, time.UnixMilli(desc["start_ms"].(int64)), time.UnixMilli(desc["end_ms"].(int64)),
							time.Duration(desc["step_ms"].(int64))*time.Millisecond)
					}
					if aerr == nil {
						ares := aq.Exec(context.Background())
						if ares.Err == nil {
							ac, at := canonical(ares.Value)
							if at == gt && diffKind(ac, gc) == "" {
								sig = "promql|range-start-sample-excluded"
							}
						}
						aq.Close()
					}
					stats["diff_"+sig+"|"+regime]++
					viol.add(sig,
						fmt.Sprintf("%s query %s (%v): result over the qryn storage differs from Prometheus over the same samples (%s)", kind, q.Expr, desc, dk),
						detail(map[string]any{"prometheus": rc, "qryn": gc}))
				} else {
					stats["queries_equal"]++
					if len(rc) > 0 {
						stats["queries_equal_nonempty"]++
						if len(samples) < 2 && q.Class == "rate" {
							samples = append(samples, map[string]any{"query": desc, "hints": hints, "result": rc})
						}
					}
				}
			}
		}
		ref.Close()
	}
	return writeJSON(*outp, map[string]any{"stats": stats, "violations": viol.list(), "infra": infra, "samples": samples})
}

package main

import (
	"flag"
	"fmt"
	"sort"

	"github.com/metrico/qryn/reader/model"
	"github.com/prometheus/prometheus/tsdb/chunkenc"
)

// rows of the TLC-generated tables (MC_PromCursor.tla)
type refRow struct {
	A  []int  `json:"a"`
	P  int    `json:"p"`
	Op string `json:"op"`
	T  int    `json:"t"`
	Np int    `json:"np"`
	Ok string `json:"ok"`
	Ts int    `json:"ts"`
}
type implRow struct {
	A  []int  `json:"a"`
	I  int    `json:"i"`
	Op string `json:"op"`
	T  int    `json:"t"`
	Ni int    `json:"ni"`
	Ok string `json:"ok"`
	Ts int    `json:"ts"`
}

type call struct {
	Op string `json:"op"`
	T  int    `json:"t"`
}

type obs struct {
	Ok string `json:"ok"`
	Ts int    `json:"ts"`
}

type stepKey struct {
	arr string
	st  int
	op  string
	t   int
}

type cursorCase struct {
	Arr   []int  `json:"arr"`
	Calls []call `json:"calls"`
}

func arrKey(a []int) string { return fmt.Sprint(a) }

// timestamp maps: abstract k (0..SeekMax) -> concrete millisecond timestamps, strictly monotone
var tsMaps = []struct {
	Name string
	F    func(k int) int64
	Inv  func(v int64) int
}{
	{"identity", func(k int) int64 { return int64(k) }, func(v int64) int { return int(v) }},
	{"epoch-ms", func(k int) int64 { return 1700000000000 + int64(k)*15000 }, func(v int64) int { return int((v - 1700000000000) / 15000) }},
	{"negative", func(k int) int64 { return int64(k-3)*7 - 1 }, func(v int64) int { return int((v+1)/7) + 3 }},
}

func valueOf(ts int64) float64 { return float64(ts)*0.5 + 1 }

// one real call, panics recovered. A successful Next/Seek is observed together with the sample under the cursor.
func realCall(it chunkenc.Iterator, c call, f func(int) int64, inv func(int64) int) (o obs, badValue bool) {
	defer func() {
		if r := recover(); r != nil {
			o = obs{Ok: "panic"}
		}
	}()
	switch c.Op {
	case "Next", "Seek":
		var ok bool
		if c.Op == "Next" {
			ok = it.Next()
		} else {
			ok = it.Seek(f(c.T))
		}
		if !ok {
			return obs{Ok: "false"}, false
		}
		ts, v := it.At()
		return obs{Ok: "true", Ts: inv(ts)}, v != valueOf(ts)
	default:
		ts, v := it.At()
		return obs{Ok: "at", Ts: inv(ts)}, v != valueOf(ts)
	}
}

func cursorMain(fs *flag.FlagSet, args []string) error {
	refp := fs.String("ref", "", "contract table (TLC)")
	implp := fs.String("impl", "", "transcription table (TLC)")
	outp := fs.String("out", "", "result file")
	casesp := fs.String("cases", "", "explicit candidate cases (TLC counterexamples)")
	maxCalls := fs.Int("maxcalls", 4, "call sequence length")
	fs.Parse(args)
	var rt struct{ Rows []refRow }
	var it struct{ Rows []implRow }
	if err := readJSON(*refp, &rt); err != nil {
		return err
	}
	if err := readJSON(*implp, &it); err != nil {
		return err
	}
	ref := map[stepKey]refRow{}
	impl := map[stepKey]implRow{}
	arrs := map[string][]int{}
	callSet := map[call]bool{}
	for _, r := range rt.Rows {
		ref[stepKey{arrKey(r.A), r.P, r.Op, r.T}] = r
		arrs[arrKey(r.A)] = r.A
		callSet[call{r.Op, r.T}] = true
	}
	for _, r := range it.Rows {
		impl[stepKey{arrKey(r.A), r.I, r.Op, r.T}] = r
	}
	var calls []call
	for c := range callSet {
		calls = append(calls, c)
	}
	sort.Slice(calls, func(i, j int) bool {
		if calls[i].Op != calls[j].Op {
			return calls[i].Op < calls[j].Op
		}
		return calls[i].T < calls[j].T
	})
	var akeys []string
	for k := range arrs {
		akeys = append(akeys, k)
	}
	sort.Strings(akeys)

	var viol, unfaithful findings
	stats := map[string]int{}
	var sample any

	// runs one call sequence on a fresh real cursor; returns index of first divergence from the contract or -1
	run := func(a []int, seq []call, mi int, record bool) (div int, trace []map[string]any) {
		m := tsMaps[mi]
		s := &model.Series{Samples: make([]model.Sample, len(a))}
		if len(a) == 0 && mi%2 == 1 {
			s.Samples = nil
		}
		for i, k := range a {
			ts := m.F(k)
			s.Samples[i] = model.Sample{TimestampMs: ts, Value: valueOf(ts)}
		}
		cur := s.Iterator()
		pos, idx := -1, -1
		idxKnown := true
		ak := arrKey(a)
		for n, c := range seq {
			o, bad := realCall(cur, c, m.F, m.Inv)
			r, ok := ref[stepKey{ak, pos, c.Op, c.T}]
			if !ok {
				panic(fmt.Sprintf("contract table has no entry for %v pos=%d %v", a, pos, c))
			}
			exp := obs{r.Ok, r.Ts}
			if record {
				trace = append(trace, map[string]any{"call": c, "observed": o, "contract": exp})
			}
			stats["calls"]++
			if n == len(seq)-1 {
				// transcription faithfulness (only the last call of a sequence: prefixes are sequences of their own)
				if idxKnown {
					if ir, ok := impl[stepKey{ak, idx, c.Op, c.T}]; ok {
						if (obs{ir.Ok, ir.Ts}) != o {
							unfaithful.add(fmt.Sprintf("%s|%s->%s", c.Op, ir.Ok, o.Ok), "real cursor differs from the transcription in PromCursor.tla", func() any {
								return map[string]any{"arr": a, "calls": seq, "tsmap": m.Name, "transcription": ir, "observed": o}
							})
						}
					}
				}
			}
			if idxKnown {
				if ir, ok := impl[stepKey{ak, idx, c.Op, c.T}]; ok {
					idx = ir.Ni
				} else {
					idxKnown = false
				}
			}
			if bad && n == len(seq)-1 {
				viol.add("cursor|"+c.Op+"|value-not-of-sample", "At() returned a value that does not belong to the timestamp", func() any {
					return cursorCase{a, seq}
				})
			}
			if exp.Ok != "unspecified" && exp != o {
				return n, trace
			}
			pos = r.Np
		}
		return -1, trace
	}

	classify := func(a []int, seq []call, n int) (string, string) {
		// recompute contract state before call n
		pos := -1
		ak := arrKey(a)
		for i := 0; i < n; i++ {
			pos = ref[stepKey{ak, pos, seq[i].Op, seq[i].T}].Np
		}
		c := seq[n]
		r := ref[stepKey{ak, pos, c.Op, c.T}]
		ctx := "fresh"
		switch {
		case len(a) == 0:
			ctx = "empty"
		case pos >= len(a):
			ctx = "exhausted"
		case pos >= 0:
			ctx = "positioned"
			if c.Op == "Seek" {
				if c.T <= a[pos] {
					ctx = "positioned-back"
				} else {
					ctx = "positioned-fwd"
				}
			}
		}
		hit := ""
		if c.Op == "Seek" && len(a) > 0 {
			switch {
			case c.T <= a[0]:
				hit = "|t<=first"
			case c.T > a[len(a)-1]:
				hit = "|t>last"
			default:
				hit = "|t-between"
				for _, x := range a {
					if x == c.T {
						hit = "|t-exact"
					}
				}
			}
		}
		return ctx + hit, r.Ok
	}

	report := func(a []int, seq []call, n int, mi int) {
		_, trace := run(a, seq[:n+1], mi, true)
		last := trace[len(trace)-1]
		o := last["observed"].(obs)
		e := last["contract"].(obs)
		ctx, _ := classify(a, seq, n)
		class := ""
		switch {
		case o.Ok == "panic":
			class = "panic"
		case o.Ok != e.Ok:
			class = o.Ok + "-for-" + e.Ok
		case o.Ts < e.Ts:
			class = "lands-before"
		default:
			class = "lands-after"
		}
		sig := fmt.Sprintf("cursor|%s|%s|%s", seq[n].Op, ctx, class)
		viol.add(sig, fmt.Sprintf("series cursor breaks the chunkenc.Iterator contract: samples(ts)=%v calls=%v: %s returned %+v, the contract says %+v",
			a, fmtCalls(seq[:n+1]), fmtCalls(seq[n:n+1]), o, e), func() any {
			return map[string]any{"arr": a, "calls": seq[:n+1], "tsmap": tsMaps[mi].Name, "trace": trace}
		})
	}

	// exhaustive DFS over call sequences; a subtree is pruned at the first divergence
	var dfs func(a []int, seq []call, mi int)
	dfs = func(a []int, seq []call, mi int) {
		if len(seq) > 0 {
			stats["sequences"]++
			d, tr := run(a, seq, mi, sample == nil && len(seq) == *maxCalls && len(a) >= 3 && seq[0].Op == "Seek" && seq[1].Op == "Next")
			if tr != nil && d < 0 && sample == nil {
				sample = map[string]any{"arr": a, "tsmap": tsMaps[mi].Name, "trace": tr}
			}
			if d >= 0 {
				stats["divergent_sequences"]++
				report(a, seq, d, mi)
				return
			}
		}
		if len(seq) == *maxCalls {
			return
		}
		for _, c := range calls {
			dfs(a, append(seq[:len(seq):len(seq)], c), mi)
		}
	}
	for ai, k := range akeys {
		stats["arrays"]++
		dfs(arrs[k], nil, ai%len(tsMaps))
		if len(arrs[k]) <= 2 { // small arrays under every timestamp map
			for mi := range tsMaps {
				if mi != ai%len(tsMaps) {
					dfs(arrs[k], nil, mi)
				}
			}
		}
	}

	// explicit candidates (TLC counterexamples)
	var cands []map[string]any
	if *casesp != "" {
		var cs []cursorCase
		if err := readJSON(*casesp, &cs); err != nil {
			return err
		}
		for _, c := range cs {
			d, tr := run(c.Arr, c.Calls, 0, true)
			if d >= 0 {
				report(c.Arr, c.Calls, d, 0)
			}
			cands = append(cands, map[string]any{"case": c, "diverges_at": d, "trace": tr})
		}
	}
	return writeJSON(*outp, map[string]any{"stats": stats, "violations": viol.list(), "unfaithful": unfaithful.list(),
		"candidates": cands, "sample": sample, "tables": map[string]int{"ref": len(ref), "impl": len(impl)}})
}

func indexOf(a []int, ts int) int {
	for i, x := range a {
		if x == ts {
			return i
		}
	}
	return -99
}

func fmtCalls(cs []call) string {
	s := ""
	for i, c := range cs {
		if i > 0 {
			s += ","
		}
		if c.Op == "Seek" {
			s += fmt.Sprintf("Seek(%d)", c.T)
		} else {
			s += c.Op + "()"
		}
	}
	return s
}

package main

import (
	"fmt"
	"math/rand"
	"regexp"
	"sort"
	"strings"

	"github.com/prometheus/prometheus/model/labels"
)

// ---- the TLC export of MC_Selector.tla ----

type absSeries map[string]string // abstract label name (n1, n2, g1) -> "", "x", "xy"

type absMatcher struct {
	Name string `json:"name"`
	Op   string `json:"op"`
	Pat  string `json:"pat"`
}

type selCase struct {
	DB     []absSeries  `json:"db"`
	MS     []absMatcher `json:"ms"`
	Def    []absSeries  `json:"def"`
	Mech   []absSeries  `json:"mech"`
	Traits []string     `json:"traits"`
}

type selExport struct {
	Names struct {
		KV []string `json:"kv"`
		GL []string `json:"gl"`
	} `json:"names"`
	Cases []selCase `json:"cases"`
}

func (s absSeries) key(names []string) string {
	var b strings.Builder
	for _, n := range names {
		b.WriteString(n + "=" + s[n] + ";")
	}
	return b.String()
}

func dbKey(db []absSeries, names []string) string {
	var ks []string
	for _, s := range db {
		ks = append(ks, s.key(names))
	}
	sort.Strings(ks)
	return strings.Join(ks, "|")
}

// ---- concretisation: abstract atoms -> hostile strings ----

// c1 / c2 pools use disjoint alphabets: c1 never occurs in c2 and vice versa, so "x" (= c1) is a proper prefix and
// "y" (= c2) a proper suffix of "xy" (= c1+c2) and no other containment holds.
var c1Pool = []string{"a", "a.b", "it's", `q"t`, `b\s`, "ü", "a b", "{a}", "a|b", "$^", "(p", "*", "[", "%", "_", "a,b", "=", "a\tb", "0", "a?", `\d`, "''", "a/b", "ab#"}
var c2Pool = []string{"Z", "Z.Y", "'Z", `"Y`, `\Z`, "Ω", " Z", "}Z{", "|Z", "$", ")", "+", "]", "%%", "__Y", ",Z", "==", "\tY", "9", "?", `\D`, "ZZ", "//", "-- Z"}

type concr struct {
	Names  map[string]string // abstract name -> concrete label name
	Prefix map[string]string // abstract name -> constant prefix of every value of that label (profile type ids)
	C1     string
	C2     string
}

// valN is the concrete value of abstract value v of label n
func (c *concr) valN(n, v string) string {
	if v == "" {
		return ""
	}
	return c.Prefix[n] + c.val(v)
}

func (c *concr) reN(n, p string) string {
	switch p {
	case "x":
		return regexp.QuoteMeta(c.Prefix[n] + c.C1)
	case "xy":
		return regexp.QuoteMeta(c.Prefix[n] + c.C1 + c.C2)
	}
	return c.re(p)
}

func (c *concr) val(v string) string {
	switch v {
	case "x":
		return c.C1
	case "xy":
		return c.C1 + c.C2
	}
	return ""
}

// regex atom -> concrete pattern
func (c *concr) re(p string) string {
	switch p {
	case "x":
		return regexp.QuoteMeta(c.C1)
	case "xy":
		return regexp.QuoteMeta(c.C1 + c.C2)
	case "y":
		return regexp.QuoteMeta(c.C2)
	}
	return p // ".*", ".+", ""
}

func (c *concr) matcher(m absMatcher) *labels.Matcher {
	var t labels.MatchType
	v := c.valN(m.Name, m.Pat)
	switch m.Op {
	case "=":
		t = labels.MatchEqual
	case "!=":
		t = labels.MatchNotEqual
	case "=~":
		t = labels.MatchRegexp
		v = c.reN(m.Name, m.Pat)
	case "!~":
		t = labels.MatchNotRegexp
		v = c.reN(m.Name, m.Pat)
	}
	return labels.MustNewMatcher(t, c.Names[m.Name], v)
}

// selector text {name op "value", ...} in PromQL / Pyroscope syntax
func (c *concr) selector(ms []absMatcher, quote func(string) string) string {
	var parts []string
	for _, m := range ms {
		lm := c.matcher(m)
		parts = append(parts, lm.Name+m.Op+quote(lm.Value))
	}
	return "{" + strings.Join(parts, ",") + "}"
}

// labelsOf gives the concrete labels an abstract series carries (absent labels are not stored)
func (c *concr) labelsOf(s absSeries, names []string) map[string]string {
	res := map[string]string{}
	for _, n := range names {
		if s[n] != "" {
			res[c.Names[n]] = c.valN(n, s[n])
		}
	}
	return res
}

// holdsConcrete evaluates the matchers with Prometheus' own labels.Matcher on the concrete labels (absent = "").
func holdsConcrete(ms []*labels.Matcher, lbls map[string]string) bool {
	for _, m := range ms {
		if !m.Matches(lbls[m.Name]) {
			return false
		}
	}
	return true
}

func pick(r *rand.Rand, pool []string) string { return pool[r.Intn(len(pool))] }

// pickValues chooses c1, c2 such that neither contains the other.
func pickValues(r *rand.Rand) (string, string) {
	for {
		c1, c2 := pick(r, c1Pool), pick(r, c2Pool)
		if !strings.Contains(c1, c2) && !strings.Contains(c2, c1) && !strings.Contains(c1+c2, c2+c1) {
			return c1, c2
		}
	}
}

func shuffled[T any](r *rand.Rand, in []T) []T {
	out := append([]T(nil), in...)
	r.Shuffle(len(out), func(i, j int) { out[i], out[j] = out[j], out[i] })
	return out
}

func fmtMatchers(ms []*labels.Matcher) string {
	var p []string
	for _, m := range ms {
		p = append(p, m.String())
	}
	return "{" + strings.Join(p, ", ") + "}"
}

func fmtLabels(m map[string]string) string {
	var ks []string
	for k := range m {
		ks = append(ks, k)
	}
	sort.Strings(ks)
	var p []string
	for _, k := range ks {
		p = append(p, fmt.Sprintf("%s=%q", k, m[k]))
	}
	return "{" + strings.Join(p, ", ") + "}"
}

func sameMap(a, b map[string]string) bool {
	if len(a) != len(b) {
		return false
	}
	for k, v := range a {
		if w, ok := b[k]; !ok || w != v {
			return false
		}
	}
	return true
}

// traitSig turns the spec's trait set into one signature component (smallest trait first, stable)
func traitSig(traits []string) string {
	if len(traits) == 0 {
		return ""
	}
	t := append([]string(nil), traits...)
	sort.Strings(t)
	return t[0]
}

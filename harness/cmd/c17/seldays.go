package main

// c17 seldays -cases seldays.json -out res.json -seed N
//
// Binding of spec/query/SelectDays.tla: the DAY dimension of Select.  TLC enumerates (zone of the reader process, window
// [ws, we] in ticks over three UTC days, the series shapes the definition selects with their samples of the window).  The
// driver stores ONE database holding every shape of the specification (a series per shape: samples at the shape's ticks,
// one time_series row on the UTC day of every sample -- the writer's rule), then runs the REAL CLokiQuerier.Select for
// every case with time.Local set to a zone of the case's offset class and compares which series are handed out, under
// which labels, with which samples.  The expectation does not depend on the zone.

import (
	"encoding/json"
	"errors"
	"flag"
	"fmt"
	"math/rand"
	"sort"
	"time"

	"github.com/metrico/qryn/reader/model"
	"github.com/metrico/qryn/reader/service"
	"github.com/prometheus/prometheus/model/labels"
	"verif/harness/chsql"
)

type dayCase struct {
	Zone int `json:"zone"`
	S    int `json:"s"`
	E    int `json:"e"`
	Sel  []struct {
		Shape []int `json:"shape"`
		Win   []int `json:"win"`
	} `json:"sel"`
	MechLocalHi int `json:"mech_local_hi"`
	MechLocalLo int `json:"mech_local_lo"`
}

type dayExport struct {
	Days     int       `json:"days"`
	DayTicks int       `json:"dayticks"`
	Shapes   [][]int   `json:"shapes"`
	Cases    []dayCase `json:"cases"`
}

// first days of the three-day spans: month, year and leap-day boundaries, plain days
var dayPool = []time.Time{
	time.Date(2023, 12, 30, 0, 0, 0, 0, time.UTC), time.Date(2024, 2, 28, 0, 0, 0, 0, time.UTC), time.Date(2024, 3, 1, 0, 0, 0, 0, time.UTC),
	time.Date(2023, 11, 29, 0, 0, 0, 0, time.UTC), time.Date(2024, 6, 14, 0, 0, 0, 0, time.UTC), time.Date(2025, 2, 27, 0, 0, 0, 0, time.UTC),
	time.Date(2024, 12, 31, 0, 0, 0, 0, time.UTC),
}

// zones of an offset class; a class of +-1 tick stands for "at least one tick away from UTC" (DayTicks = 4: six hours)
var zonePool = map[int][]*time.Location{
	-1: {time.FixedZone("W6", -6*3600), time.FixedZone("W7", -7*3600), time.FixedZone("PST", -8*3600), time.FixedZone("W930", -9*3600-1800),
		time.FixedZone("HST", -10*3600), time.FixedZone("W11", -11*3600), time.FixedZone("W12", -12*3600)},
	0: {time.UTC, time.FixedZone("Z", 0)},
	1: {time.FixedZone("E6", 6*3600), time.FixedZone("E8", 8*3600), time.FixedZone("JST", 9*3600), time.FixedZone("E930", 9*3600+1800),
		time.FixedZone("E12", 12*3600), time.FixedZone("E1245", 12*3600+2700), time.FixedZone("E13", 13*3600), time.FixedZone("E14", 14*3600)},
}

var zoneClass = map[int]string{-1: "west", 0: "utc", 1: "east"}

func shapeKey(s []int) string {
	t := append([]int(nil), s...)
	sort.Ints(t)
	return fmt.Sprint(t)
}

type daySeries struct {
	UID     string
	Shape   []int
	Labels  map[string]string
	Fp      uint64
	Samples map[int]smp // tick -> stored sample
}

func seldaysMain(fs *flag.FlagSet, args []string) error {
	casesp := fs.String("cases", "", "TLC export of MC_SelectDays")
	outp := fs.String("out", "", "result")
	seed := fs.Int64("seed", 1, "seed")
	fs.Parse(args)
	var ex dayExport
	if err := readJSON(*casesp, &ex); err != nil {
		return err
	}
	if ex.DayTicks <= 0 || len(ex.Shapes) == 0 || len(ex.Cases) == 0 {
		return fmt.Errorf("empty export")
	}
	w, err := newWorld()
	if err != nil {
		return err
	}
	svc := &service.CLokiQueriable{ServiceData: model.ServiceData{Session: w.Reg}}
	r := rand.New(rand.NewSource(*seed*7919 + 17))
	day0 := dayPool[int(*seed)%len(dayPool)]
	q := int64(24*3600*1000) / int64(ex.DayTicks) // ms per tick
	third := q / 3
	// instants inside tick k: window starts fall into the first third, samples into the second, window ends into the last
	startOf := func(k int, rr *rand.Rand) int64 { return day0.UnixMilli() + int64(k)*q + rr.Int63n(third) }
	sampleAt := func(k int, rr *rand.Rand) int64 { return day0.UnixMilli() + int64(k)*q + third + rr.Int63n(third) }
	endOf := func(k int, rr *rand.Rand) int64 { return day0.UnixMilli() + int64(k)*q + 2*third + rr.Int63n(third) }

	// ---- the database: one series per shape of the specification
	if err := w.truncate("time_series", "time_series_gin", "samples_v3", "metrics_15s"); err != nil {
		return err
	}
	var tsRows, smpRows [][]any
	byShape := map[string]*daySeries{}
	var all []*daySeries
	usedFp := map[uint64]bool{}
	for i, sh := range ex.Shapes {
		fp := r.Uint64()
		for fp == 0 || usedFp[fp] {
			fp = r.Uint64()
		}
		usedFp[fp] = true
		s := &daySeries{UID: fmt.Sprintf("u%d", i), Shape: sh, Fp: fp, Samples: map[int]smp{},
			Labels: map[string]string{"__name__": "up_d", "job": "dj", "zz_uid": fmt.Sprintf("u%d", i), "par": fmt.Sprint(i % 2), "ticks": shapeKey(sh)}}
		lj, _ := json.Marshal(s.Labels)
		days := map[int]bool{}
		for j, k := range sh {
			t := sampleAt(k, r)
			v := float64(i*100+j) + 0.5
			s.Samples[k] = smp{t, v}
			smpRows = append(smpRows, []any{uint8(2), fp, t * 1000000, "", v})
			d := k / ex.DayTicks
			if !days[d] {
				days[d] = true
				tsRows = append(tsRows, []any{uint8(2), day0.AddDate(0, 0, d), fp, string(lj), ""})
			}
		}
		byShape[shapeKey(sh)] = s
		all = append(all, s)
	}
	r.Shuffle(len(tsRows), func(i, j int) { tsRows[i], tsRows[j] = tsRows[j], tsRows[i] })
	r.Shuffle(len(smpRows), func(i, j int) { smpRows[i], smpRows[j] = smpRows[j], smpRows[i] })
	if err := w.St.Insert("time_series", []string{"type", "date", "fingerprint", "labels", "name"}, tsRows); err != nil {
		return fmt.Errorf("store setup: %v", err)
	}
	if err := w.St.Insert("samples_v3", []string{"type", "fingerprint", "timestamp_ns", "string", "value"}, smpRows); err != nil {
		return fmt.Errorf("store setup: %v", err)
	}
	byUIDm := map[string]*daySeries{}
	for _, s := range all {
		byUIDm[s.UID] = s
	}

	matcherSets := []struct {
		name string
		ms   []*labels.Matcher
		par  string // "" = every series
	}{
		{"all", []*labels.Matcher{labels.MustNewMatcher(labels.MatchEqual, "job", "dj")}, ""},
		{"name+eq", []*labels.Matcher{labels.MustNewMatcher(labels.MatchEqual, "__name__", "up_d"), labels.MustNewMatcher(labels.MatchEqual, "par", "0")}, "0"},
		{"re+ne", []*labels.Matcher{labels.MustNewMatcher(labels.MatchRegexp, "zz_uid", "u.*"), labels.MustNewMatcher(labels.MatchNotEqual, "par", "0")}, "1"},
	}
	rawHints := []hintVariant{hintVariants[0], hintVariants[1], hintVariants[5]}
	for _, hv := range rawHints {
		if !hv.Raw || hv.Step != 0 {
			return fmt.Errorf("hint variant %s is not a raw-sample variant", hv.Name)
		}
	}

	var viol findings
	stats := map[string]int{"shapes": len(all), "index_rows": len(tsRows), "stored_samples": len(smpRows)}
	infra := []string{}
	var samples []any
	saved := time.Local
	defer func() { time.Local = saved }()
	env := &promEnv{w: w, svc: svc}
	order := r.Perm(len(ex.Cases))
	for n, ci := range order {
		cs := ex.Cases[ci]
		zones := zonePool[cs.Zone]
		if zones == nil {
			return fmt.Errorf("case %d: unknown zone class %d", ci, cs.Zone)
		}
		zone := zones[r.Intn(len(zones))]
		class := zoneClass[cs.Zone]
		mset := matcherSets[n%len(matcherSets)]
		hv := rawHints[(n/len(matcherSets))%len(rawHints)]
		env.start, env.end = startOf(cs.S, r), endOf(cs.E, r)
		stats["cases"]++
		stats["cases_zone_"+class]++
		if cs.MechLocalHi != len(cs.Sel) {
			stats["cases_a_process_zone_upper_day_bound_would_lose_series"]++
		}
		if cs.MechLocalLo != len(cs.Sel) {
			stats["cases_a_process_zone_lower_day_bound_would_lose_series"]++
		}
		// expected: the definition's selection (TLC), restricted by the matcher set
		exp := map[string][]smp{}
		for _, e := range cs.Sel {
			s := byShape[shapeKey(e.Shape)]
			if s == nil {
				return fmt.Errorf("case %d: selected shape %v is not a shape of the export", ci, e.Shape)
			}
			if mset.par != "" && s.Labels["par"] != mset.par {
				continue
			}
			var want []smp
			ticks := append([]int(nil), e.Win...)
			sort.Ints(ticks)
			for _, k := range ticks {
				want = append(want, s.Samples[k])
			}
			exp[s.UID] = want
		}
		// the concretisation must preserve the abstract window: stored samples of [start, end] = the window ticks
		for _, s := range all {
			var in []smp
			for _, x := range s.Samples {
				if x.T >= env.start && x.T <= env.end {
					in = append(in, x)
				}
			}
			matches := mset.par == "" || s.Labels["par"] == mset.par
			if matches && len(in) != len(exp[s.UID]) || !matches && exp[s.UID] != nil {
				return fmt.Errorf("concretisation does not preserve the abstract window: case %d series %s", ci, s.UID)
			}
		}
		stats["expected_series"] += len(exp)
		if len(exp) > 0 {
			stats["cases_selecting_some"]++
		}
		time.Local = zone
		obs, serr, pan := env.doSelect(hv, mset.ms)
		time.Local = saved
		uns, failed, sqls := w.drain()
		if len(uns) > 0 {
			infra = append(infra, uns...)
			continue
		}
		stats["selects"]++
		detail := func() any {
			var expl []string
			for u := range exp {
				expl = append(expl, u+" "+byUIDm[u].Labels["ticks"])
			}
			sort.Strings(expl)
			return map[string]any{"route": "CLokiQuerier.Select", "abstract_case": map[string]any{"zone": cs.Zone, "ws": cs.S, "we": cs.E, "day_ticks": ex.DayTicks},
				"process_zone": zone.String(), "first_day": day0.Format("2006-01-02"), "matchers": fmtMatchers(mset.ms),
				"hints": map[string]any{"start": env.start, "end": env.end, "start_utc": time.UnixMilli(env.start).UTC().Format(time.RFC3339Nano),
					"end_utc": time.UnixMilli(env.end).UTC().Format(time.RFC3339Nano), "step": hv.Step, "func": hv.Func, "range": hv.Range},
				"stored":   "one series per shape (label ticks = the ticks with a sample), one time_series row on the UTC day of every sample",
				"expected": expl, "observed": obs, "sql": sqls, "seed": *seed}
		}
		pos := "zone=" + class
		if pan != nil {
			viol.add("select|prom|days|panic|"+pos, fmt.Sprintf("Select panicked: %v", pan), detail)
			continue
		}
		if serr != nil {
			if errors.Is(serr, chsql.ErrUnsupported) {
				infra = append(infra, serr.Error())
				continue
			}
			viol.add("select|prom|days|error|"+pos, fmt.Sprintf("Select %s failed: %v (%v)", fmtMatchers(mset.ms), serr, failed), detail)
			continue
		}
		seen := map[string]int{}
		where := fmt.Sprintf("process zone %s, window [%s, %s], matchers %s", zone, time.UnixMilli(env.start).UTC().Format(time.RFC3339), time.UnixMilli(env.end).UTC().Format(time.RFC3339), fmtMatchers(mset.ms))
		for _, o := range obs {
			s := byUIDm[o.Labels["zz_uid"]]
			if s == nil || !sameMap(o.Labels, s.Labels) {
				viol.add("select|prom|days|series-not-under-its-own-labels|"+pos, fmt.Sprintf("%s: a series is handed out under the label set %s, which is the label set of no stored series (%d samples)", where, fmtLabels(o.Labels), len(o.Samples)), detail)
				continue
			}
			seen[s.UID]++
			if seen[s.UID] > 1 {
				viol.add("select|prom|days|series-handed-twice|"+pos, fmt.Sprintf("%s: series %s handed out more than once", where, s.UID), detail)
				continue
			}
			want, ok := exp[s.UID]
			if !ok {
				viol.add("select|prom|days|selected-but-not-matching|"+pos, fmt.Sprintf("%s: series %s (samples at ticks %s) is handed out but has no sample in the window or does not match", where, s.UID, s.Labels["ticks"]), detail)
				continue
			}
			if cl := sampleClass(hv, env, o.Samples, want); cl != "" {
				viol.add("select|prom|days|samples|"+cl+"|"+pos, fmt.Sprintf("%s: series %s: samples %v, stored in [start,end]: %v", where, s.UID, o.Samples, want), detail)
			}
		}
		var missing []string
		for u := range exp {
			if seen[u] == 0 {
				missing = append(missing, u+" "+byUIDm[u].Labels["ticks"])
			}
		}
		sort.Strings(missing)
		if len(missing) > 0 {
			viol.add("select|prom|days|matching-but-not-selected|"+pos, fmt.Sprintf("%s: %d of %d series with a sample in the window are not handed out under their labels, e.g. %v (label ticks = [tick...] of %d per UTC day starting %s)",
				where, len(missing), len(exp), missing[:min(3, len(missing))], ex.DayTicks, day0.Format("2006-01-02")), detail)
		} else if len(samples) < 1 && len(exp) > 2 && cs.Zone != 0 {
			samples = append(samples, detail())
		}
	}
	return writeJSON(*outp, map[string]any{"stats": stats, "violations": viol.list(), "infra": infra, "samples": samples})
}

package main

import (
	"bytes"
	"encoding/json"
	"flag"
	"fmt"
	"math/rand"
	"net/http/httptest"
	"sort"
	"strconv"
	"strings"
	"time"

	"github.com/gorilla/mux"
	rrouter "github.com/metrico/qryn/reader/router"
)

var profTagPairs = [][2]string{{"pod", "region"}, {"a", "aa"}, {"__x", "x__"}, {"job", "instance"}, {"key", "val"}, {"Pod", "pod"}}
var profPseudo = []string{"__name__", "service_name", "__period_type__", "__period_unit__", "__sample_type__", "__sample_unit__", "__profile_type__"}

type profSeries struct {
	UID    string            `json:"uid"`
	Abs    absSeries         `json:"abstract"`
	Tags   map[string]string `json:"tags"`   // what the index holds: tags + service_name
	Labels map[string]string `json:"labels"` // the full label set of the series (pseudo labels + tags)
	TypeID string            `json:"type_id"`
}

type profEnv struct {
	w      *world
	router *mux.Router
	day    time.Time
	base   time.Time
}

func (e *profEnv) post(path string, body any) (int, string) {
	b, _ := json.Marshal(body)
	req := httptest.NewRequest("POST", path, bytes.NewReader(b))
	req.Header.Set("Content-Type", "application/json")
	rw := httptest.NewRecorder()
	e.router.ServeHTTP(rw, req)
	return rw.Code, rw.Body.String()
}

func (e *profEnv) setup(r *rand.Rand, c *concr, db []absSeries, kv, gl []string) ([]*profSeries, error) {
	if err := e.w.truncate("profiles", "profiles_series", "profiles_series_gin", "profiles_series_keys"); err != nil {
		return nil, err
	}
	var rows [][]any
	var res []*profSeries
	for i, s := range db {
		f := map[string]string{"__name__": "process_cpu", "__period_type__": "cpu", "__period_unit__": "nanoseconds",
			"__sample_type__": "samples", "__sample_unit__": "count", "service_name": "svc"}
		for _, g := range gl {
			pl := c.Names[g]
			if pl == "__profile_type__" {
				f["__period_unit__"] = c.val(s[g]) // the last component of the profile type id
			} else {
				f[pl] = c.val(s[g])
			}
		}
		ps := &profSeries{UID: fmt.Sprintf("u%d", i), Abs: s, Tags: map[string]string{}, Labels: map[string]string{}}
		var tags []any
		for _, k := range kv {
			if s[k] != "" {
				ps.Tags[c.Names[k]] = c.val(s[k])
			}
		}
		ps.Tags["zz_uid"] = ps.UID
		ps.Tags[c.Names[kv[0]]+"_d"] = c.C1
		for k, v := range ps.Tags {
			tags = append(tags, []any{k, v})
			ps.Labels[k] = v
		}
		r.Shuffle(len(tags), func(a, b int) { tags[a], tags[b] = tags[b], tags[a] })
		ps.Tags["service_name"] = f["service_name"]
		for k, v := range f {
			ps.Labels[k] = v
		}
		ps.Labels["__profile_type__"] = strings.Join([]string{f["__name__"], f["__sample_type__"], f["__sample_unit__"], f["__period_type__"], f["__period_unit__"]}, ":")
		ps.TypeID = ps.Labels["__profile_type__"]
		stu := f["__sample_type__"] + ":" + f["__sample_unit__"]
		for k := 0; k < 2; k++ {
			rows = append(rows, []any{uint64(e.base.UnixNano() + int64(20+k*20)*1e9), f["__name__"], f["service_name"],
				[]any{[]any{f["__sample_type__"], f["__sample_unit__"]}}, f["__period_type__"], f["__period_unit__"], tags, uint64(10), "0", "payload",
				[]any{[]any{stu, int64(5 + i + k), int32(1)}}, []any{}, []any{}})
		}
		res = append(res, ps)
	}
	if len(rows) > 0 {
		if err := e.w.St.Insert("profiles_input", []string{"timestamp_ns", "type", "service_name", "sample_types_units", "period_type", "period_unit", "tags",
			"duration_ns", "payload_type", "payload", "values_agg", "tree", "functions"}, rows); err != nil {
			return nil, err
		}
	}
	return res, nil
}

func profQuote(r *rand.Rand, v string) string {
	if !strings.Contains(v, "`") && r.Intn(3) == 0 {
		return "`" + v + "`"
	}
	return strconv.Quote(v)
}

func profMain(fs *flag.FlagSet, args []string) error {
	casesp := fs.String("cases", "", "TLC export")
	outp := fs.String("out", "", "result")
	seed := fs.Int64("seed", 1, "seed")
	extraEvery := fs.Int("extra", 5, "LabelValues/LabelNames/SelectSeries on every k-th case (0 = never)")
	fs.Parse(args)
	var ex selExport
	if err := readJSON(*casesp, &ex); err != nil {
		return err
	}
	kv := append([]string{}, ex.Names.KV...)
	gl := append([]string{}, ex.Names.GL...)
	sort.Strings(kv)
	sort.Strings(gl)
	names := append(append([]string{}, kv...), gl...)
	sort.Strings(names)
	w, err := newWorld()
	if err != nil {
		return err
	}
	env := &profEnv{w: w, router: mux.NewRouter()}
	rrouter.RouteProf(env.router, w.Reg)
	env.day = time.Date(2023, 11, 14, 0, 0, 0, 0, time.UTC).AddDate(0, 0, int(*seed%200))
	env.base = env.day.Add(10*time.Hour + time.Duration(*seed%3600)*time.Second)
	startMs, endMs := env.base.UnixMilli(), env.base.UnixMilli()+60000

	groups := map[string][]int{}
	var order []string
	for i, c := range ex.Cases {
		k := dbKey(c.DB, names)
		if _, ok := groups[k]; !ok {
			order = append(order, k)
		}
		groups[k] = append(groups[k], i)
	}
	var viol findings
	stats := map[string]int{}
	infra := []string{}
	var samples []any
	traitSeen := map[string]int{}
	for gi, gk := range order {
		r := rand.New(rand.NewSource(*seed*1000003 + hashStr(gk)))
		c := &concr{Names: map[string]string{}, Prefix: map[string]string{}}
		pair := profTagPairs[(gi+int(*seed))%len(profTagPairs)]
		for i, n := range kv {
			if i < 2 {
				c.Names[n] = pair[i]
			} else {
				c.Names[n] = "t_" + n
			}
		}
		for i, g := range gl {
			c.Names[g] = profPseudo[(gi+int(*seed)+i)%len(profPseudo)]
			if c.Names[g] == "__profile_type__" {
				c.Prefix[g] = "process_cpu:samples:count:cpu:"
			}
			stats["pseudo_"+c.Names[g]]++
		}
		c.C1, c.C2 = pickValues(r)
		db := ex.Cases[groups[gk][0]].DB
		stored, err := env.setup(r, c, db, kv, gl)
		if err != nil {
			return fmt.Errorf("store setup: %v", err)
		}
		stats["databases"]++
		byKey := map[string]*profSeries{}
		for _, s := range stored {
			byKey[s.Abs.key(names)] = s
		}
		for _, ci := range groups[gk] {
			cs := ex.Cases[ci]
			stats["cases"]++
			for _, t := range cs.Traits {
				traitSeen[t]++
			}
			if len(cs.Def) > 0 && len(cs.Def) < len(cs.DB) {
				stats["cases_selecting_proper_subset"]++
			}
			abs := shuffled(r, cs.MS)
			exp := map[string]*profSeries{}
			for _, s := range cs.Def {
				st := byKey[s.key(names)]
				if st == nil {
					return fmt.Errorf("case %d: def series not in db", ci)
				}
				exp[st.UID] = st
			}
			mech := map[string]bool{}
			for _, s := range cs.Mech {
				mech[byKey[s.key(names)].UID] = true
			}
			var lms []string
			for _, m := range abs {
				lm := c.matcher(m)
				lms = append(lms, lm.String())
			}
			// cross-check TLC's verdict with Prometheus' matcher on the concrete label sets
			for _, st := range stored {
				ok := true
				for _, m := range abs {
					lm := c.matcher(m)
					if !lm.Matches(st.Labels[lm.Name]) {
						ok = false
					}
				}
				if ok != (exp[st.UID] != nil) {
					return fmt.Errorf("concretisation does not preserve the abstract semantics: case %d series %v matchers %v", ci, st.Labels, lms)
				}
			}
			sel := c.selector(abs, func(v string) string { return profQuote(r, v) })
			detail := func(extra map[string]any) func() any {
				return func() any {
					m := map[string]any{"abstract_case": cs, "stored_series": stored, "selector": sel, "expected_uids": keysOfProf(exp), "seed": *seed,
						"start_ms": startMs, "end_ms": endMs}
					for k, v := range extra {
						m[k] = v
					}
					return m
				}
			}
			explainedBy := func(seen map[string]int) bool {
				for u := range seen {
					if !mech[u] {
						return false
					}
				}
				for u := range mech {
					if seen[u] == 0 {
						return false
					}
				}
				return len(cs.Traits) > 0
			}
			// ---- Series
			code, body := env.post("/querier.v1.QuerierService/Series", map[string]any{"matchers": []string{sel}, "start": startMs, "end": endMs})
			uns, _, sqls := w.drain()
			if len(uns) > 0 {
				infra = append(infra, uns...)
				continue
			}
			ext := map[string]any{"route": "/querier.v1.QuerierService/Series", "status": code, "body": body, "sql": sqls}
			if code != 200 {
				viol.add("select|prof|series|status|"+traitSig(cs.Traits), fmt.Sprintf("Series %s answered %d %s", sel, code, body), detail(ext))
				continue
			}
			var resp struct {
				LabelsSet []struct {
					Labels []struct{ Name, Value string }
				}
			}
			if err := json.Unmarshal([]byte(body), &resp); err != nil {
				viol.add("select|prof|series|not-json", fmt.Sprintf("Series %s: %v", sel, err), detail(ext))
				continue
			}
			seen := map[string]int{}
			for _, ls := range resp.LabelsSet {
				m := map[string]string{}
				dupName := false
				for _, l := range ls.Labels {
					if _, ok := m[l.Name]; ok {
						dupName = true
					}
					m[l.Name] = l.Value
				}
				u := m["zz_uid"]
				seen[u]++
				st := byUIDProf(stored, u)
				if st == nil {
					viol.add("select|prof|series|foreign-series", fmt.Sprintf("Series %s returned %s", sel, fmtLabels(m)), detail(ext))
				} else if !sameMap(m, st.Labels) || dupName {
					viol.add("select|prof|series|labels-differ", fmt.Sprintf("Series %s: series %s returned as %s", sel, fmtLabels(st.Labels), fmtLabels(m)), detail(ext))
				}
			}
			var missing, extra, twice []string
			for u := range exp {
				if seen[u] == 0 {
					missing = append(missing, u)
				}
			}
			for u, n := range seen {
				if exp[u] == nil {
					extra = append(extra, u)
				}
				if n > 1 {
					twice = append(twice, u)
				}
			}
			sort.Strings(missing)
			sort.Strings(extra)
			if len(missing)+len(extra) > 0 {
				kind := "selected-but-not-matching"
				if len(missing) > 0 && len(extra) > 0 {
					kind = "both"
				} else if len(missing) > 0 {
					kind = "matching-but-not-selected"
				}
				sig := "select|prof|unexplained|" + kind
				if explainedBy(seen) {
					sig = "select|prof|" + traitSig(cs.Traits)
				}
				viol.add(sig, fmt.Sprintf("profile selector %s over %s: expected exactly %v, Series returned %v", sel, fmtProf(stored), keysOfProf(exp), keysOfInt(seen)), detail(ext))
			}
			if len(twice) > 0 {
				viol.add("select|prof|series-listed-twice", fmt.Sprintf("Series %s lists %v more than once", sel, twice), detail(ext))
			}
			if len(samples) < 2 && len(exp) > 0 && len(exp) < len(stored) && len(abs) > 1 && len(missing)+len(extra)+len(twice) == 0 {
				samples = append(samples, detail(ext)())
			}
			if *extraEvery == 0 || ci%*extraEvery != 0 {
				continue
			}
			// ---- LabelValues of the first tag name, LabelNames
			tag := c.Names[kv[0]]
			code, body = env.post("/querier.v1.QuerierService/LabelValues", map[string]any{"name": tag, "matchers": []string{sel}, "start": startMs, "end": endMs})
			uns, _, sqls = w.drain()
			if len(uns) > 0 {
				infra = append(infra, uns...)
				continue
			}
			stats["label_values_requests"]++
			ext = map[string]any{"route": "LabelValues " + tag, "status": code, "body": body, "sql": sqls}
			var nresp struct{ Names []string }
			if code != 200 || json.Unmarshal([]byte(body), &nresp) != nil {
				viol.add("select|prof|label-values|status", fmt.Sprintf("LabelValues %s %s answered %d %s", tag, sel, code, body), detail(ext))
			} else {
				want, mv, got := map[string]bool{}, map[string]bool{}, map[string]bool{}
				for _, st := range stored {
					if v, ok := st.Tags[tag]; ok {
						if exp[st.UID] != nil {
							want[v] = true
						}
						if mech[st.UID] {
							mv[v] = true
						}
					}
				}
				for _, v := range nresp.Names {
					got[v] = true
				}
				if !sameSet(got, want) {
					sig := "select|prof|label-values|unexplained"
					if sameSet(got, mv) && len(cs.Traits) > 0 {
						sig = "select|prof|" + traitSig(cs.Traits)
					}
					viol.add(sig, fmt.Sprintf("values of %s for %s over %s: expected %v, got %v", tag, sel, fmtProf(stored), setKeys(want), setKeys(got)), detail(ext))
				}
			}
			code, body = env.post("/querier.v1.QuerierService/LabelNames", map[string]any{"matchers": []string{sel}, "start": startMs, "end": endMs})
			uns, _, sqls = w.drain()
			if len(uns) > 0 {
				infra = append(infra, uns...)
				continue
			}
			stats["label_names_requests"]++
			ext = map[string]any{"route": "LabelNames", "status": code, "body": body, "sql": sqls}
			nresp.Names = nil
			if code != 200 || json.Unmarshal([]byte(body), &nresp) != nil {
				viol.add("select|prof|label-names|status", fmt.Sprintf("LabelNames %s answered %d %s", sel, code, body), detail(ext))
			} else {
				want, mv, got := map[string]bool{}, map[string]bool{}, map[string]bool{}
				for _, st := range stored {
					for k := range st.Tags {
						if exp[st.UID] != nil {
							want[k] = true
						}
						if mech[st.UID] {
							mv[k] = true
						}
					}
				}
				for _, v := range nresp.Names {
					if v != "" { // the controller answers [""] for an empty result
						got[v] = true
					}
				}
				if !sameSet(got, want) {
					sig := "select|prof|label-names|unexplained"
					if sameSet(got, mv) && len(cs.Traits) > 0 {
						sig = "select|prof|" + traitSig(cs.Traits)
					}
					viol.add(sig, fmt.Sprintf("label names for %s over %s: expected %v, got %v", sel, fmtProf(stored), setKeys(want), setKeys(got)), detail(ext))
				}
			}
			// ---- SelectSeries for the profile type of the first stored series
			if len(stored) == 0 {
				continue
			}
			tid := stored[(ci/(*extraEvery))%len(stored)].TypeID
			code, body = env.post("/querier.v1.QuerierService/SelectSeries", map[string]any{"profile_typeID": tid, "label_selector": sel, "start": startMs, "end": endMs, "step": 15.0})
			uns, _, sqls = w.drain()
			if len(uns) > 0 {
				infra = append(infra, uns...)
				continue
			}
			stats["select_series_requests"]++
			ext = map[string]any{"route": "SelectSeries", "profile_typeID": tid, "status": code, "body": body, "sql": sqls}
			var sresp struct {
				Series []struct {
					Labels []struct{ Name, Value string }
					Points []struct {
						Value     float64
						Timestamp json.RawMessage
					}
				}
			}
			if code != 200 || json.Unmarshal([]byte(body), &sresp) != nil {
				viol.add("select|prof|select-series|status", fmt.Sprintf("SelectSeries %s %s answered %d %s", tid, sel, code, body), detail(ext))
				continue
			}
			seen2 := map[string]int{}
			for _, s := range sresp.Series {
				m := map[string]string{}
				for _, l := range s.Labels {
					m[l.Name] = l.Value
				}
				seen2[m["zz_uid"]]++
				if st := byUIDProf(stored, m["zz_uid"]); st == nil || !sameMap(m, st.Tags) {
					viol.add("select|prof|select-series|labels-differ", fmt.Sprintf("SelectSeries %s %s returned a series labelled %s", tid, sel, fmtLabels(m)), detail(ext))
				}
			}
			want2, mech2 := map[string]int{}, map[string]bool{}
			for _, st := range stored {
				if st.TypeID == tid {
					if exp[st.UID] != nil {
						want2[st.UID] = 1
					}
					if mech[st.UID] {
						mech2[st.UID] = true
					}
				}
			}
			if !sameKeys(seen2, want2) {
				sig := "select|prof|select-series|unexplained"
				ok := len(cs.Traits) > 0
				for u := range seen2 {
					if !mech2[u] {
						ok = false
					}
				}
				for u := range mech2 {
					if seen2[u] == 0 {
						ok = false
					}
				}
				if ok {
					sig = "select|prof|" + traitSig(cs.Traits)
				}
				viol.add(sig, fmt.Sprintf("SelectSeries type %s selector %s over %s: expected series %v, got %v", tid, sel, fmtProf(stored), keysOfInt(want2), keysOfInt(seen2)), detail(ext))
			}
			for u, n := range seen2 {
				if n > 1 {
					viol.add("select|prof|select-series|series-twice", fmt.Sprintf("SelectSeries %s %s returns series %s %d times", tid, sel, u, n), detail(ext))
				}
			}
		}
	}
	for t, n := range traitSeen {
		stats["trait_"+t] = n
	}
	return writeJSON(*outp, map[string]any{"stats": stats, "violations": viol.list(), "infra": infra, "samples": samples})
}

func sameKeys(a, b map[string]int) bool {
	if len(a) != len(b) {
		return false
	}
	for k := range a {
		if _, ok := b[k]; !ok {
			return false
		}
	}
	return true
}

func byUIDProf(st []*profSeries, u string) *profSeries {
	for _, s := range st {
		if s.UID == u {
			return s
		}
	}
	return nil
}

func keysOfProf(m map[string]*profSeries) []string {
	var k []string
	for x := range m {
		k = append(k, x)
	}
	sort.Strings(k)
	return k
}

func fmtProf(st []*profSeries) string {
	var p []string
	for _, s := range st {
		p = append(p, s.UID+":"+fmtLabels(s.Labels))
	}
	return "[" + strings.Join(p, " ") + "]"
}

package main

import (
	"context"
	"encoding/json"
	"errors"
	"flag"
	"fmt"
	"hash/fnv"
	"math/rand"
	"net/http/httptest"
	"net/url"
	"sort"
	"strconv"
	"strings"
	"time"

	"github.com/gorilla/mux"
	"github.com/metrico/qryn/reader/model"
	rrouter "github.com/metrico/qryn/reader/router"
	"github.com/metrico/qryn/reader/service"
	"github.com/prometheus/prometheus/model/labels"
	"github.com/prometheus/prometheus/storage"
	"verif/harness/chsql"
)

var promNamePairs = [][2]string{
	{"__name__", "job"}, {"job", "__name__"}, {"le", "instance"}, {"a", "aa"}, {"A_b", "a_b"}, {"_x", "x_"}, {"n1", "n2"}, {"key", "val"}, {"fingerprint", "type"},
}

type smp struct {
	T int64   `json:"t"`
	V float64 `json:"v"`
}

type storedSeries struct {
	UID     string            `json:"uid"`
	Abs     absSeries         `json:"abstract"`
	Labels  map[string]string `json:"labels"`
	Fps     []uint64          `json:"fingerprints"`
	Samples []smp             `json:"samples"` // all stored samples (ms), ascending
}

type hintVariant struct {
	Name  string
	Step  int64
	Func  string
	Range int64
	Raw   bool // the rows are the raw samples of [start, end]
}

var hintVariants = []hintVariant{
	{"step0", 0, "", 0, true},
	{"step0-rate", 0, "rate", 30000, true},
	{"step1s-rate-range5s", 1000, "rate", 5000, true},
	{"step10s-sum_over_time-range3s", 10000, "sum_over_time", 3000, false},
	{"step5s-instant", 5000, "", 0, false},
	{"step0-quantile_over_time", 0, "quantile_over_time", 20000, true},
}

func hashStr(s string) int64 {
	h := fnv.New64a()
	h.Write([]byte(s))
	return int64(h.Sum64() >> 1)
}

type promEnv struct {
	w      *world
	svc    *service.CLokiQueriable
	router *mux.Router
	day    time.Time
	base   time.Time
	start  int64 // ms
	end    int64 // ms
}

func (e *promEnv) get(path string) (int, string) {
	req := httptest.NewRequest("GET", path, nil)
	rw := httptest.NewRecorder()
	e.router.ServeHTTP(rw, req)
	return rw.Code, rw.Body.String()
}

// store a database of abstract series; mode: plain | dupfp | duprows
func (e *promEnv) setup(r *rand.Rand, c *concr, db []absSeries, names []string, mode string) ([]*storedSeries, error) {
	if err := e.w.truncate("time_series", "time_series_gin", "samples_v3", "metrics_15s"); err != nil {
		return nil, err
	}
	var tsRows, smpRows [][]any
	var res []*storedSeries
	used := map[uint64]bool{}
	newFp := func() uint64 {
		for {
			fp := r.Uint64()
			if r.Intn(3) == 0 {
				fp |= 1 << 63
			}
			if fp != 0 && !used[fp] {
				used[fp] = true
				return fp
			}
		}
	}
	base := e.base.UnixMilli()
	for i, s := range db {
		st := &storedSeries{UID: fmt.Sprintf("u%d", i), Abs: s, Labels: c.labelsOf(s, names)}
		st.Labels["zz_uid"] = st.UID
		st.Labels[c.Names[names[0]]+"_d"] = c.C1 // a label whose NAME extends the first matched name
		nfp := 1
		if mode == "dupfp" {
			nfp = 2
		}
		for k := 0; k < nfp; k++ {
			fp := newFp()
			st.Fps = append(st.Fps, fp)
			lj, _ := json.Marshal(st.Labels)
			tsRows = append(tsRows, []any{uint8(2), e.day, fp, string(lj), ""})
			if mode == "duprows" {
				tsRows = append(tsRows, []any{uint8(2), e.day, fp, string(lj), ""})
			}
		}
		// samples: before the range, exactly at start (included: the select range is [start, end]), just inside, middle, exactly at end (included), after
		offs := []int64{5000, 10000, 10001, 20500 + int64(i), 31000 + int64(7*i), 40000, 47000 + int64(i), 58123, 70000, 70001, 80000}
		for j, o := range offs {
			t := base + o
			v := float64(i*1000+j) + 0.5
			st.Samples = append(st.Samples, smp{t, v})
			smpRows = append(smpRows, []any{uint8(2), st.Fps[j%len(st.Fps)], t * 1000000, "", v})
		}
		res = append(res, st)
	}
	// decoy: a LOG stream (type 1) with the labels of the first series and samples in range
	if len(res) > 0 {
		fp := newFp()
		l := map[string]string{}
		for k, v := range res[0].Labels {
			l[k] = v
		}
		l["zz_uid"] = "logdecoy"
		lj, _ := json.Marshal(l)
		tsRows = append(tsRows, []any{uint8(1), e.day, fp, string(lj), ""})
		smpRows = append(smpRows, []any{uint8(1), fp, (base + 30000) * 1000000, "a log line", 0.0})
	}
	r.Shuffle(len(tsRows), func(i, j int) { tsRows[i], tsRows[j] = tsRows[j], tsRows[i] })
	r.Shuffle(len(smpRows), func(i, j int) { smpRows[i], smpRows[j] = smpRows[j], smpRows[i] })
	if len(tsRows) > 0 {
		if err := e.w.St.Insert("time_series", []string{"type", "date", "fingerprint", "labels", "name"}, tsRows); err != nil {
			return nil, err
		}
		if err := e.w.St.Insert("samples_v3", []string{"type", "fingerprint", "timestamp_ns", "string", "value"}, smpRows); err != nil {
			return nil, err
		}
	}
	return res, nil
}

type obsSeries struct {
	Labels  map[string]string `json:"labels"`
	Samples []smp             `json:"samples"`
}

func (e *promEnv) doSelect(hv hintVariant, ms []*labels.Matcher) (res []obsSeries, err error, panicked any) {
	defer func() {
		if r := recover(); r != nil {
			panicked = r
		}
	}()
	q, err := e.svc.SetOidAndDB(context.Background()).Querier(context.Background(), e.start, e.end)
	if err != nil {
		return nil, err, nil
	}
	hints := &storage.SelectHints{Start: e.start, End: e.end, Step: hv.Step, Func: hv.Func, Range: hv.Range}
	ss := q.Select(true, hints, ms...)
	for ss.Next() {
		s := ss.At()
		o := obsSeries{Labels: map[string]string{}}
		for _, l := range s.Labels() {
			o.Labels[l.Name] = l.Value
		}
		it := s.Iterator()
		for it.Next() {
			t, v := it.At()
			o.Samples = append(o.Samples, smp{t, v})
		}
		res = append(res, o)
	}
	return res, ss.Err(), nil
}

func selectMain(fs *flag.FlagSet, args []string) error {
	casesp := fs.String("cases", "", "TLC export")
	outp := fs.String("out", "", "result")
	seed := fs.Int64("seed", 1, "seed")
	httpEvery := fs.Int("http", 7, "run the HTTP routes on every k-th case (0 = never)")
	fs.Parse(args)
	var ex selExport
	if err := readJSON(*casesp, &ex); err != nil {
		return err
	}
	names := append(append([]string{}, ex.Names.KV...), ex.Names.GL...)
	sort.Strings(names)
	w, err := newWorld()
	if err != nil {
		return err
	}
	env := &promEnv{w: w, svc: &service.CLokiQueriable{ServiceData: model.ServiceData{Session: w.Reg}}, router: mux.NewRouter()}
	rrouter.RouteSelectPrometheusLabels(env.router, w.Reg)
	env.day = time.Date(2023, 11, 14, 0, 0, 0, 0, time.UTC).AddDate(0, 0, int(*seed%200))
	// base = 1 s past a multiple of 10 s: the windows of the step10s/range3s hint variant are not multiples of the step
	env.base = env.day.Add(10*time.Hour + time.Duration(*seed%360)*10*time.Second + time.Second)
	env.start = env.base.UnixMilli() + 10000
	env.end = env.base.UnixMilli() + 70000

	// group by database, keep the first-seen order
	groups := map[string][]int{}
	var order []string
	for i, c := range ex.Cases {
		k := dbKey(c.DB, names)
		if _, ok := groups[k]; !ok {
			order = append(order, k)
		}
		groups[k] = append(groups[k], i)
	}
	var viol findings
	stats := map[string]int{}
	infra := []string{}
	var samples []any
	modes := []string{"plain", "dupfp", "duprows"}
	traitSeen := map[string]int{}
	for gi, gk := range order {
		r := rand.New(rand.NewSource(*seed*1000003 + hashStr(gk)))
		c := &concr{Names: map[string]string{}}
		pair := promNamePairs[(gi+int(*seed))%len(promNamePairs)]
		for i, n := range names {
			if i < 2 {
				c.Names[n] = pair[i]
			} else {
				c.Names[n] = fmt.Sprintf("l%d_%s", i, n)
			}
		}
		c.C1, c.C2 = pickValues(r)
		mode := modes[(gi+int(*seed))%len(modes)]
		db := ex.Cases[groups[gk][0]].DB
		stored, err := env.setup(r, c, db, names, mode)
		if err != nil {
			return fmt.Errorf("store setup: %v", err)
		}
		stats["databases"]++
		stats["db_mode_"+mode]++
		byKey := map[string]*storedSeries{}
		for _, s := range stored {
			byKey[s.Abs.key(names)] = s
		}
		for _, ci := range groups[gk] {
			cs := ex.Cases[ci]
			stats["cases"]++
			if len(cs.Def) != len(cs.Mech) {
				stats["cases_mech_ne_def"]++
			}
			if len(cs.Def) > 0 && len(cs.Def) < len(cs.DB) {
				stats["cases_selecting_proper_subset"]++
			}
			for _, t := range cs.Traits {
				traitSeen[t]++
			}
			abs := shuffled(r, cs.MS)
			var ms []*labels.Matcher
			for _, m := range abs {
				ms = append(ms, c.matcher(m))
			}
			// expected (definition, computed by TLC) as uids; cross-checked with Prometheus' matcher on the concrete labels
			exp := map[string]*storedSeries{}
			for _, s := range cs.Def {
				st := byKey[s.key(names)]
				if st == nil {
					return fmt.Errorf("case %d: def series not in db", ci)
				}
				exp[st.UID] = st
			}
			mech := map[string]bool{}
			for _, s := range cs.Mech {
				mech[byKey[s.key(names)].UID] = true
			}
			for _, st := range stored {
				if holdsConcrete(ms, st.Labels) != (exp[st.UID] != nil) {
					return fmt.Errorf("concretisation does not preserve the abstract semantics: case %d series %v matchers %s: TLC says %v", ci, st.Labels, fmtMatchers(ms), exp[st.UID] != nil)
				}
			}
			hvi := 0
			if ci%2 == 1 {
				hvi = (ci / 2) % len(hintVariants)
			}
			hv := hintVariants[hvi]
			stats["hints_"+hv.Name]++
			obs, serr, pan := env.doSelect(hv, ms)
			uns, failed, sqls := w.drain()
			if len(uns) > 0 {
				infra = append(infra, uns...)
				continue
			}
			detail := func(extra map[string]any) func() any {
				return func() any {
					var dbl []any
					for _, s := range stored {
						dbl = append(dbl, map[string]any{"uid": s.UID, "labels": s.Labels, "fingerprints": fmt.Sprint(s.Fps)})
					}
					var expl []string
					for u := range exp {
						expl = append(expl, u)
					}
					sort.Strings(expl)
					m := map[string]any{"route": "CLokiQuerier.Select", "abstract_case": cs, "store_mode": mode, "stored_series": dbl, "matchers": fmtMatchers(ms),
						"hints": map[string]any{"start": env.start, "end": env.end, "step": hv.Step, "func": hv.Func, "range": hv.Range},
						"expected_uids": expl, "observed": obs, "sql": sqls, "seed": *seed}
					for k, v := range extra {
						m[k] = v
					}
					return m
				}
			}
			if pan != nil {
				viol.add("select|prom|panic", fmt.Sprintf("Select panicked: %v", pan), detail(nil))
				continue
			}
			if serr != nil {
				if errors.Is(serr, chsql.ErrUnsupported) {
					infra = append(infra, serr.Error())
					continue
				}
				viol.add("select|prom|error|"+traitSig(cs.Traits), fmt.Sprintf("Select %s failed: %v (%v)", fmtMatchers(ms), serr, failed), detail(nil))
				continue
			}
			// ---- which series, how often, under which labels
			seen := map[string]int{}
			for _, o := range obs {
				seen[o.Labels["zz_uid"]]++
			}
			// the sets judged for Select (the HTTP routes below use the full ones)
			expAll, mechAll := exp, mech
			exp, mech = map[string]*storedSeries{}, map[string]bool{}
			for u, st := range expAll {
				exp[u] = st
			}
			for u := range mechAll {
				mech[u] = true
			}
			if !hv.Raw && hv.Range > 0 && hv.Step > hv.Range {
				// a series none of whose samples survive the window filter of processHints is not handed out at all:
				// that is a matter of samples (judged here), not of selection
				for u, st := range expAll {
					if seen[u] > 0 {
						continue
					}
					if !mechAll[u] {
						// the label-index query itself does not select the series (a trait of the case): a matter of
						// selection, judged below, not of the window filter
						continue
					}
					var want []smp
					for _, x := range st.Samples {
						if x.T >= env.start && x.T <= env.end {
							want = append(want, x)
						}
					}
					if sampleClass(hv, env, nil, want) != "" {
						viol.add("select|prom|samples|needed-window-sample-dropped",
							fmt.Sprintf("series %s hints %s: no samples at all, stored in [start,end]: %v", fmtLabels(st.Labels), hv.Name, want), detail(nil))
					}
					delete(exp, u)
					delete(mech, u)
				}
				for u := range mech {
					if seen[u] == 0 {
						delete(mech, u)
					}
				}
			}
			var missing, extra, twice []string
			for u := range exp {
				if seen[u] == 0 {
					missing = append(missing, u)
				}
			}
			obsEqMech := true
			for u, n := range seen {
				if exp[u] == nil {
					extra = append(extra, u)
				}
				if n > 1 {
					twice = append(twice, u)
				}
				if !mech[u] {
					obsEqMech = false
				}
			}
			for u := range mech {
				if seen[u] == 0 {
					obsEqMech = false
				}
			}
			sort.Strings(missing)
			sort.Strings(extra)
			if len(missing)+len(extra) > 0 {
				kind := "selected-but-not-matching"
				if len(missing) > 0 && len(extra) > 0 {
					kind = "both"
				} else if len(missing) > 0 {
					kind = "matching-but-not-selected"
				}
				sig := "select|prom|unexplained|" + kind
				if obsEqMech && len(cs.Traits) > 0 {
					sig = "select|prom|" + traitSig(cs.Traits)
				}
				viol.add(sig, fmt.Sprintf("matchers %s over stored series %s: expected exactly %v, Select returned %v (not selected: %v, wrongly selected: %v)",
					fmtMatchers(ms), fmtStored(stored), keysOf(exp), keysOfInt(seen), missing, extra), detail(map[string]any{"missing": missing, "extra": extra}))
			}
			if len(twice) > 0 {
				viol.add("select|prom|series-handed-twice|store="+mode, fmt.Sprintf("label set of %v handed to the engine more than once (store mode %s: %s)", twice, mode, modeDoc(mode)), detail(nil))
			}
			// ---- per series: labels and samples
			done := map[string]bool{}
			for _, o := range obs {
				u := o.Labels["zz_uid"]
				st := byUID(stored, u)
				if st == nil {
					viol.add("select|prom|foreign-series", fmt.Sprintf("Select returned a series that is no stored metric series: %s", fmtLabels(o.Labels)), detail(nil))
					continue
				}
				if !sameMap(o.Labels, st.Labels) {
					viol.add("select|prom|labels-differ", fmt.Sprintf("series %s returned under labels %s", fmtLabels(st.Labels), fmtLabels(o.Labels)), detail(nil))
				}
				if done[u] {
					continue
				}
				done[u] = true
				var want []smp
				for _, x := range st.Samples {
					if x.T >= env.start && x.T <= env.end {
						want = append(want, x)
					}
				}
				if cl := sampleClass(hv, env, o.Samples, want); cl != "" {
					viol.add("select|prom|samples|"+cl+sampleStoreSuffix(cl, mode), fmt.Sprintf("series %s hints %s: samples %v, stored in [start,end]: %v", fmtLabels(st.Labels), hv.Name, o.Samples, want), detail(nil))
				}
			}
			if len(samples) < 2 && len(exp) > 0 && len(exp) < len(stored) && len(ms) > 1 && len(missing)+len(extra)+len(twice) == 0 && hv.Raw {
				samples = append(samples, detail(nil)())
			}
			// ---- the HTTP routes that take a selector
			if *httpEvery > 0 && ci%*httpEvery == 0 {
				env.httpRoutes(c, cs, abs, ms, stored, expAll, mechAll, &viol, stats, &infra, detail)
			}
		}
	}
	for t, n := range traitSeen {
		stats["trait_"+t] = n
	}
	return writeJSON(*outp, map[string]any{"stats": stats, "violations": viol.list(), "infra": infra, "samples": samples})
}

// the window filter is independent of how the series are stored
func sampleStoreSuffix(class, mode string) string {
	if class == "needed-window-sample-dropped" {
		return ""
	}
	return storeSuffix(mode)
}

func storeSuffix(mode string) string {
	if mode == "plain" {
		return ""
	}
	return "|store=" + mode
}

func modeDoc(mode string) string {
	switch mode {
	case "dupfp":
		return "every label set is stored under two fingerprints, the samples alternate between them"
	case "duprows":
		return "every time_series row is stored twice (unmerged ReplacingMergeTree parts)"
	}
	return "one time_series row per series"
}

// sampleClass compares the samples handed out with the stored samples of [start, end]
func sampleClass(hv hintVariant, env *promEnv, got, want []smp) string {
	for i := 1; i < len(got); i++ {
		if got[i].T <= got[i-1].T {
			return "not-ascending"
		}
	}
	if hv.Raw {
		if len(got) == len(want) {
			same := true
			for i := range got {
				if got[i] != want[i] {
					same = false
				}
			}
			if same {
				return ""
			}
		}
		for _, g := range got {
			if g.T < env.start || g.T > env.end {
				return "outside-range"
			}
		}
		if len(got) < len(want) {
			return "sample-missing"
		}
		if len(got) > len(want) {
			return "sample-extra"
		}
		return "sample-differs"
	}
	wantV := map[float64]bool{}
	for _, x := range want {
		wantV[x.V] = true
	}
	for _, g := range got {
		if !wantV[g.V] {
			return "value-of-no-stored-sample-in-range"
		}
		if g.T < env.start || g.T > env.end+hv.Step {
			return "outside-range"
		}
	}
	if hv.Range > 0 && hv.Step > hv.Range {
		// range-vector function evaluated every Step: evaluation times start+Range+k*Step; the engine needs every sample of
		// [t-Range, t] -- none of them may be dropped
		have := map[int64]bool{}
		for _, g := range got {
			have[g.T] = true
		}
		for t := env.start + hv.Range; t <= env.end; t += hv.Step {
			for _, x := range want {
				if x.T >= t-hv.Range && x.T <= t && !have[x.T] {
					return "needed-window-sample-dropped"
				}
			}
		}
	}
	return ""
}

func byUID(st []*storedSeries, u string) *storedSeries {
	for _, s := range st {
		if s.UID == u {
			return s
		}
	}
	return nil
}

func keysOf(m map[string]*storedSeries) []string {
	var k []string
	for x := range m {
		k = append(k, x)
	}
	sort.Strings(k)
	return k
}

func keysOfInt(m map[string]int) []string {
	var k []string
	for x := range m {
		k = append(k, x)
	}
	sort.Strings(k)
	return k
}

func fmtStored(st []*storedSeries) string {
	var p []string
	for _, s := range st {
		p = append(p, s.UID+":"+fmtLabels(s.Labels))
	}
	return "[" + strings.Join(p, " ") + "]"
}

// ---- /api/v1/series and /api/v1/label/<name>/values with match[] ----

func (e *promEnv) httpRoutes(c *concr, cs selCase, abs []absMatcher, ms []*labels.Matcher, stored []*storedSeries,
	exp map[string]*storedSeries, mech map[string]bool, viol *findings, stats map[string]int, infra *[]string, detail func(map[string]any) func() any) {
	// PromQL requires one matcher that does not match the empty string
	valid := false
	for _, m := range ms {
		if !m.Matches("") {
			valid = true
		}
	}
	if !valid {
		stats["http_skipped_selector_matches_empty"]++
		return
	}
	sel := c.selector(abs, strconv.Quote)
	q := url.Values{}
	q.Add("match[]", sel)
	q.Set("start", fmt.Sprint(e.start/1000-60))
	q.Set("end", fmt.Sprint(e.end/1000+60))
	code, body := e.get("/api/v1/series?" + q.Encode())
	uns, _, sqls := e.w.drain()
	if len(uns) > 0 {
		*infra = append(*infra, uns...)
		return
	}
	stats["http_series_requests"]++
	ext := map[string]any{"route": "/api/v1/series", "selector": sel, "status": code, "body": body, "sql": sqls}
	explained := func(seen map[string]int) bool {
		for u := range seen {
			if !mech[u] {
				return false
			}
		}
		for u := range mech {
			if seen[u] == 0 {
				return false
			}
		}
		return len(cs.Traits) > 0
	}
	if code != 200 {
		stats["http_series_rejected"]++
		viol.add("select|prom|http-series|status", fmt.Sprintf("/api/v1/series match[]=%s answered %d %s", sel, code, body), detail(ext))
	} else {
		var resp struct {
			Status string
			Data   []map[string]string
		}
		if err := json.Unmarshal([]byte(body), &resp); err != nil {
			viol.add("select|prom|http-series|not-json", fmt.Sprintf("/api/v1/series match[]=%s: %v", sel, err), detail(ext))
		} else {
			seen := map[string]int{}
			bad := false
			for _, l := range resp.Data {
				u := l["zz_uid"]
				seen[u]++
				if st := byUID(stored, u); st == nil || !sameMap(st.Labels, l) {
					bad = true
				}
			}
			var missing, extra, twice []string
			for u := range exp {
				if seen[u] == 0 {
					missing = append(missing, u)
				}
			}
			for u, n := range seen {
				if exp[u] == nil {
					extra = append(extra, u)
				}
				if n > 1 {
					twice = append(twice, u)
				}
			}
			sort.Strings(missing)
			sort.Strings(extra)
			if len(missing)+len(extra) > 0 {
				sig := "select|prom|http-series|unexplained"
				if explained(seen) {
					sig = "select|prom|" + traitSig(cs.Traits)
				}
				viol.add(sig, fmt.Sprintf("/api/v1/series match[]=%s over %s: expected %v, got %v", sel, fmtStored(stored), keysOf(exp), keysOfInt(seen)), detail(ext))
			}
			if len(twice) > 0 {
				viol.add("select|prom|http-series|series-listed-twice"+storeSuffix(detail(nil)().(map[string]any)["store_mode"].(string)), fmt.Sprintf("/api/v1/series match[]=%s lists %v twice", sel, twice), detail(ext))
			}
			if bad {
				viol.add("select|prom|http-series|labels-differ", fmt.Sprintf("/api/v1/series match[]=%s returns label sets that are not the stored ones: %s", sel, body), detail(ext))
			}
		}
	}
	// label values of the first abstract name restricted by the selector
	ln := c.Names[abs[0].Name]
	code, body = e.get("/api/v1/label/" + ln + "/values?" + q.Encode())
	uns, _, sqls = e.w.drain()
	if len(uns) > 0 {
		*infra = append(*infra, uns...)
		return
	}
	stats["http_label_values_requests"]++
	ext = map[string]any{"route": "/api/v1/label/" + ln + "/values", "selector": sel, "status": code, "body": body, "sql": sqls}
	if code != 200 {
		viol.add("select|prom|http-label-values|status", fmt.Sprintf("label values of %s match[]=%s answered %d %s", ln, sel, code, body), detail(ext))
		return
	}
	var resp struct {
		Status string
		Data   []string
	}
	if err := json.Unmarshal([]byte(body), &resp); err != nil {
		viol.add("select|prom|http-label-values|not-json", fmt.Sprintf("label values match[]=%s: %v", sel, err), detail(ext))
		return
	}
	wantV, mechV := map[string]bool{}, map[string]bool{}
	for _, st := range stored {
		if v, ok := st.Labels[ln]; ok {
			if exp[st.UID] != nil {
				wantV[v] = true
			}
			if mech[st.UID] {
				mechV[v] = true
			}
		}
	}
	gotV := map[string]bool{}
	for _, v := range resp.Data {
		gotV[v] = true
	}
	if !sameSet(gotV, wantV) {
		sig := "select|prom|http-label-values|unexplained"
		if sameSet(gotV, mechV) && len(cs.Traits) > 0 {
			sig = "select|prom|" + traitSig(cs.Traits)
		}
		viol.add(sig, fmt.Sprintf("values of label %s for match[]=%s over %s: expected %v, got %v", ln, sel, fmtStored(stored), setKeys(wantV), setKeys(gotV)), detail(ext))
	}
}

func sameSet(a, b map[string]bool) bool {
	if len(a) != len(b) {
		return false
	}
	for k := range a {
		if !b[k] {
			return false
		}
	}
	return true
}

func setKeys(m map[string]bool) []string {
	var k []string
	for x := range m {
		k = append(k, x)
	}
	sort.Strings(k)
	return k
}

// Command c17 binds spec/query/PromCursor.tla and spec/query/Selector.tla to the real reader code:
//
//	c17 cursor  -ref cursor_ref.json -impl cursor_impl.json -out res.json [-cases cand.json]
//	    replays every (timestamp array, call sequence) on the real model.Series iterator; the expected returns are
//	    the TLC-generated contract table (RefStep of PromCursor.tla)
//	c17 select  -cases sel_cases.json -out res.json -seed N [-http K]
//	    concretises the TLC-enumerated (series database, matcher set) cases, stores the series (time_series,
//	    samples_v3; the real materialized views derive the label index) and runs the REAL CLokiQuerier.Select
//	    (and the Prometheus HTTP routes) over chsql
//	c17 prof    -cases prof_cases.json -out res.json -seed N
//	    the same through the Pyroscope routes (Series, LabelValues, LabelNames, SelectSeries)
//	c17 seldays -cases seldays.json -out res.json -seed N
//	    spec/query/SelectDays.tla: (zone of the reader process, window position relative to the UTC midnights, series
//	    whose index rows exist only on the UTC days of their samples) through the real CLokiQuerier.Select with
//	    time.Local set to the zone
//	c17 promql  -out res.json -seed N -n K
//	    the vendored Prometheus engine over the real qryn Queryable versus over a real Prometheus TSDB
//	    (util/teststorage) holding the same samples
package main

import (
	"encoding/json"
	"flag"
	"fmt"
	"io"
	"os"
	"sort"
	"strings"

	clconfig "github.com/metrico/cloki-config"
	"github.com/metrico/cloki-config/config"
	rconfig "github.com/metrico/qryn/reader/config"
	"github.com/metrico/qryn/reader/model"
	rlogger "github.com/metrico/qryn/reader/utils/logger"
	"verif/harness/chbridge"
	"verif/harness/fakesql"
	"verif/harness/store"
)

var realStdout = os.Stdout

func main() {
	if len(os.Args) < 2 {
		fmt.Fprintln(os.Stderr, "usage: c17 cursor|select|prof|seldays|promql ...")
		os.Exit(2)
	}
	// the reader prints SQL and debug lines to stdout: silence it, results go to files
	if dn, err := os.OpenFile(os.DevNull, os.O_WRONLY, 0); err == nil && os.Getenv("C17_VERBOSE") == "" {
		os.Stdout = dn
	}
	rlogger.Logger.SetOutput(io.Discard)
	cmd := os.Args[1]
	fs := flag.NewFlagSet(cmd, flag.ExitOnError)
	var err error
	switch cmd {
	case "cursor":
		err = cursorMain(fs, os.Args[2:])
	case "select":
		err = selectMain(fs, os.Args[2:])
	case "prof":
		err = profMain(fs, os.Args[2:])
	case "promql":
		err = promqlMain(fs, os.Args[2:])
	case "seldays":
		err = seldaysMain(fs, os.Args[2:])
	default:
		err = fmt.Errorf("unknown subcommand %s", cmd)
	}
	if err != nil {
		fmt.Fprintln(os.Stderr, "c17:", err)
		os.Exit(2)
	}
}

func writeJSON(path string, v any) error {
	b, err := json.MarshalIndent(v, "", " ")
	if err != nil {
		return err
	}
	return os.WriteFile(path, b, 0o644)
}

func readJSON(path string, v any) error {
	b, err := os.ReadFile(path)
	if err != nil {
		return err
	}
	return json.Unmarshal(b, v)
}

// ---- a reader-only world: the store (real DDL + materialized views on chsql) behind the reader's SQL session ----

type world struct {
	St     *store.Store
	Bridge *chbridge.Bridge
	SQL    *fakesql.DB
	Reg    model.IDBRegistry
}

var worldSeq int

func newWorld() (*world, error) {
	st, err := store.New()
	if err != nil {
		return nil, err
	}
	if rconfig.Cloki == nil {
		cfg := config.ClokiBaseSettingServer{}
		cfg.FingerPrintType = 1
		cfg.SYSTEM_SETTINGS.MetricsMaxSamples = 50000000
		rconfig.Cloki = &clconfig.ClokiConfig{Setting: &cfg}
	}
	w := &world{St: st, Bridge: chbridge.New(st.DB)}
	w.Bridge.Tables = []string{"time_series", "samples_v3", "time_series_gin", "metrics_15s", "tempo_traces", "tempo_traces_attrs_gin", "tempo_traces_kv", "settings", "profiles", "profiles_series", "profiles_series_gin", "profiles_series_keys"}
	worldSeq++
	w.SQL = fakesql.New(fmt.Sprintf("c17-%d-%d", os.Getpid(), worldSeq), w.Bridge.Handler())
	w.Reg = w.SQL.Registry("")
	return w, nil
}

// truncate empties the data tables between cases.
func (w *world) truncate(tables ...string) error {
	for _, t := range tables {
		if err := w.St.DB.Truncate(t); err != nil {
			return err
		}
	}
	return nil
}

// drain forgets recorded statements, returns the chsql-unsupported ones and the failed ones.
func (w *world) drain() (unsupported []string, failed []string, sqls []string) {
	for _, e := range w.Bridge.Drain() {
		sqls = append(sqls, e.SQL)
		if e.Err != nil {
			failed = append(failed, e.Err.Error()+" :: "+e.SQL)
		}
	}
	unsupported = append(unsupported, w.Bridge.Unsupported...)
	w.Bridge.Unsupported = nil
	w.SQL.Drain()
	return
}

// ---- mismatch bookkeeping: one example per structural signature + counts ----

type finding struct {
	Signature string `json:"signature"`
	Count     int    `json:"count"`
	Msg       string `json:"msg"`
	Example   any    `json:"example"`
}

type findings struct {
	m map[string]*finding
}

func (f *findings) add(sig, msg string, example func() any) {
	if f.m == nil {
		f.m = map[string]*finding{}
	}
	if x, ok := f.m[sig]; ok {
		x.Count++
		if len(msg) < len(x.Msg) { // keep the smallest example
			x.Msg, x.Example = msg, example()
		}
		return
	}
	f.m[sig] = &finding{Signature: sig, Count: 1, Msg: msg, Example: example()}
}

func (f *findings) list() []*finding {
	var keys []string
	for k := range f.m {
		keys = append(keys, k)
	}
	sort.Strings(keys)
	res := []*finding{}
	for _, k := range keys {
		res = append(res, f.m[k])
	}
	return res
}

func sanitize(s string) string {
	return strings.Map(func(r rune) rune {
		if r == '|' || r == '\n' {
			return '/'
		}
		return r
	}, s)
}

package main

import (
	"bytes"
	"context"
	"encoding/json"
	"fmt"
	"net/http/httptest"
	"net/url"
	"os"
	"time"

	"github.com/metrico/qryn/reader/model"
	"github.com/metrico/qryn/reader/service"
	"github.com/prometheus/prometheus/model/labels"
	"github.com/prometheus/prometheus/storage"
	"verif/harness/e2e"
)

func main() {
	w, err := e2e.New(e2e.Options{})
	if err != nil {
		panic(err)
	}
	defer w.Close()
	day := time.Date(2023, 11, 14, 0, 0, 0, 0, time.UTC)
	base := day.Add(10 * time.Hour)
	must(w.Store.Insert("time_series", []string{"type", "date", "fingerprint", "labels", "name"}, [][]any{
		{uint8(2), day, uint64(7), `{"__name__":"up","a":"x"}`, ""},
		{uint8(2), day, uint64(8), `{"__name__":"up","a":"xy","b":"q"}`, ""},
		{uint8(1), day, uint64(9), `{"__name__":"up","a":"x"}`, ""},
	}))
	var rows [][]any
	for i := 0; i < 5; i++ {
		for _, fp := range []uint64{7, 8, 9} {
			tp := uint8(2)
			if fp == 9 {
				tp = 1
			}
			rows = append(rows, []any{tp, fp, base.Add(time.Duration(i) * time.Second).UnixNano(), "", float64(i) + float64(fp)})
		}
	}
	must(w.Store.Insert("samples_v3", []string{"type", "fingerprint", "timestamp_ns", "string", "value"}, rows))
	svc := &service.CLokiQueriable{ServiceData: model.ServiceData{Session: w.SQL.Registry("")}}
	q, err := svc.SetOidAndDB(context.Background()).Querier(context.Background(), 0, 0)
	must(err)
	hints := &storage.SelectHints{Start: base.UnixMilli() - 1000, End: base.UnixMilli() + 10000, Step: 0}
	ss := q.Select(true, hints, labels.MustNewMatcher(labels.MatchRegexp, "a", "x"), labels.MustNewMatcher(labels.MatchNotEqual, "b", "zz"))
	for ss.Next() {
		s := ss.At()
		fmt.Println("series", s.Labels())
		it := s.Iterator()
		for it.Next() {
			fmt.Println(it.At())
		}
	}
	fmt.Println("err", ss.Err())
	for _, e := range w.Bridge.Drain() {
		fmt.Println(e.Err, e.Rows, e.SQL)
	}
	v := url.Values{}
	v.Set("query", `up{a=~"x.*"}`)
	v.Set("time", fmt.Sprint(base.Unix()+4))
	fmt.Println(w.Get("/api/v1/query?" + v.Encode()))
	v = url.Values{}
	v.Set("query", `rate(up[3s])`)
	v.Set("start", fmt.Sprint(base.Unix()))
	v.Set("end", fmt.Sprint(base.Unix()+15))
	v.Set("step", "1")
	fmt.Println(w.Get("/api/v1/query_range?" + v.Encode()))
	v = url.Values{}
	v.Add("match[]", `up{a="x"}`)
	v.Set("start", fmt.Sprint(base.Unix()))
	v.Set("end", fmt.Sprint(base.Unix()+15))
	fmt.Println(w.Get("/api/v1/series?" + v.Encode()))
	fmt.Println(w.Get("/api/v1/label/a/values?" + v.Encode()))
	fmt.Println(w.Get("/api/v1/labels?" + v.Encode()))
	for _, e := range w.Bridge.Drain() {
		fmt.Println(e.Err, e.Rows, e.SQL)
	}
	// profiles
	must(w.Store.Insert("profiles_input", []string{"timestamp_ns", "type", "service_name", "sample_types_units", "period_type", "period_unit", "tags", "duration_ns", "payload_type", "payload", "values_agg", "tree", "functions"},
		[][]any{{uint64(base.UnixNano()), "process_cpu", "svc", []any{[]any{"cpu", "nanoseconds"}, []any{"samples", "count"}}, "cpu", "nanoseconds", []any{[]any{"pod", "p1"}}, uint64(10), "0", "x",
			[]any{[]any{"cpu", int64(5), int32(1)}, []any{"samples", int64(7), int32(1)}}, []any{}, []any{}},
			{uint64(base.UnixNano()), "memory", "svc2", []any{[]any{"alloc", "bytes"}}, "space", "bytes", []any{[]any{"pod", "p12"}}, uint64(10), "0", "x",
				[]any{[]any{"alloc", int64(5), int32(1)}}, []any{}, []any{}}}))
	post := func(path string, body any) {
		b, _ := json.Marshal(body)
		req := httptest.NewRequest("POST", path, bytes.NewReader(b))
		req.Header.Set("Content-Type", "application/json")
		fmt.Println(w.Do(req))
	}
	post("/querier.v1.QuerierService/Series", map[string]any{"matchers": []string{`{pod=~"p1"}`}, "start": base.UnixMilli() - 1000, "end": base.UnixMilli() + 1000})
	post("/querier.v1.QuerierService/Series", map[string]any{"matchers": []string{`{__sample_type__!="cpu"}`}, "start": base.UnixMilli() - 1000, "end": base.UnixMilli() + 1000})
	post("/querier.v1.QuerierService/LabelNames", map[string]any{"matchers": []string{`{pod="p1"}`}, "start": base.UnixMilli() - 1000, "end": base.UnixMilli() + 1000})
	post("/querier.v1.QuerierService/LabelValues", map[string]any{"name": "pod", "matchers": []string{`{service_name="svc"}`}, "start": base.UnixMilli() - 1000, "end": base.UnixMilli() + 1000})
	post("/querier.v1.QuerierService/SelectSeries", map[string]any{"profileTypeID": "process_cpu:cpu:nanoseconds:cpu:nanoseconds", "labelSelector": `{pod="p1"}`, "step": 1, "groupBy": []string{"pod"}, "start": base.UnixMilli() - 1000, "end": base.UnixMilli() + 1000})
	for _, e := range w.Bridge.Drain() {
		fmt.Println(e.Err, e.Rows, e.SQL)
	}
	fmt.Println(w.Bridge.Unsupported)
	_ = os.Stdout
}

func must(err error) {
	if err != nil {
		panic(err)
	}
}

package main

type caseOutcome struct {
	Name string `json:"name"`
}

func (r *runner) runCases(path string) {}

package main

import (
	"encoding/json"
	"fmt"
	"os"
	"sort"
	"strings"

	"github.com/metrico/qryn/reader/logql/logql_parser"
	"github.com/metrico/qryn/reader/logql/logql_transpiler_v2/clickhouse_planner"
)

// ---------------------------------------------------------------------------------------------------------------
// Abstract cases enumerated by TLC from Replan.tla (query class x execution number, with the expected outcome):
// concretised from seeded pools, run on the real planners, observed outcome reported per case; the calls of two
// interleaved plan objects are written as a trace that TLC validates against Replan.tla.
// ---------------------------------------------------------------------------------------------------------------

type absQuery struct {
	Kind string `json:"kind"`
	Op   string `json:"op"`
	Text string `json:"text"`
	Attr string `json:"attr"`
}

type absCase struct {
	Q        absQuery `json:"q"`
	K        int      `json:"k"`
	Diverges bool     `json:"diverges"`
	Writes   []string `json:"writes"`
}

type caseOutcome struct {
	Q         absQuery `json:"q"`
	K         int      `json:"k"`
	Concrete  string   `json:"concrete"`
	Entry     string   `json:"entry"`
	Diverges  bool     `json:"diverges"`
	Class     string   `json:"class"`
	Writes    []string `json:"writes"`
	Signature string   `json:"signature,omitempty"`
}

// the fields Replan.tla models (its constant Fields)
var modelled = map[string]bool{
	"LineFilterPlanner.Val": true, "FingerprintFilterPlanner.FingerprintSelectWithCache": true, "MainFinalizerPlanner.Alias": true,
	"ByWithoutPlanner.LabelsCache": true, "LineFormatPlanner.formatStr": true,
	"AttrConditionPlanner.sqlConds": true, "AttrConditionPlanner.where": true, "AttrConditionPlanner.AggregatedAttr": true,
}

func modelledWrites(ws []fieldWrite) []string {
	set := map[string]bool{}
	for _, w := range ws {
		if modelled[w.Field] {
			set[w.Field] = true
		}
	}
	out := []string{}
	for k := range set {
		out = append(out, k)
	}
	sort.Strings(out)
	return out
}

var textPool = map[string][]string{
	"lit":     {`plain`, `ab`, `x1`, `it's`},
	"esc":     {`a\\.b`, `\\^x`, `a\\+b`, `a\\|b`},
	"escl":    {`\\[x\\]`},
	"escfix":  {`a\\-b`, `100\\%`},
	"fold":    {`(?i)ab`, `(?i)plain`},
	"foldesc": {`(?i)a\\.b`},
	"rx":      {`a|b`, `x[0-9]+$`, `a.b`},
}

var attrPool = map[string][]string{
	"p0":       {`x`},
	"p1":       {`.x`, `span.x`, `resource.x`},
	"p2":       {`.span.x`, `span.span.x`, `resource.span.x`},
	"duration": {`duration`},
}

// lineFormatSpec: a clickhouse_planner.LineFormatPlanner object driven directly (no entry point of the reader
// reaches it: logql_transpiler_v2.Plan moves every line_format to the in-process stages).
func lineFormatSpec(tpl string) *spec {
	return &spec{Lang: "logql", Entry: "unreachable_LineFormatPlanner", Query: `{a="b"} | line_format "` + tpl + `"`, Make: func() (subject, error) {
		script, err := logql_parser.Parse(`{a="b"}`)
		if err != nil {
			return nil, err
		}
		main, err := clickhouse_planner.Plan(script, false)
		if err != nil {
			return nil, err
		}
		pl := &clickhouse_planner.LineFormatPlanner{Main: main, Template: tpl}
		return &sqlPlan{root: pl, planner: pl, opts: clusterOpts}, nil
	}}
}

func (r *runner) concretise(q absQuery) []*spec {
	var out []*spec
	switch q.Kind {
	case "sel":
		out = append(out, logSpec(`{a="b"}`), logSpec(`{a="b", c!="d"}`))
	case "lf":
		for _, t := range textPool[q.Text] {
			out = append(out, logSpec(fmt.Sprintf(`{a="b"} %s "%s"`, q.Op, t)))
		}
	case "bw":
		out = append(out, logSpec(`sum by (a) (rate({a="b"}[1m]))`), logSpec(`sum(count_over_time({a="b"} |= "x" [1m])) without (c)`),
			logSpec(`avg(rate({a="b"}[1m])) by (a)`))
	case "lfmt":
		out = append(out, lineFormatSpec("x{{.a}}y"), lineFormatSpec("{{.c}}"))
	case "ac":
		if q.Attr == "none" {
			out = append(out, tracePortionSpec(`{.a="b"}`), tracePortionSpec(`{.a="b"} | count() > 1`))
		} else {
			for _, a := range attrPool[q.Attr] {
				cmp := "> 60"
				if a == "duration" {
					cmp = "> 1s"
				}
				out = append(out, tracePortionSpec(fmt.Sprintf(`{.a="b"} | max(%s) %s`, a, cmp)))
			}
		}
	}
	return out
}

func (r *runner) runCases(path string) {
	raw, err := os.ReadFile(path)
	if err != nil {
		fmt.Fprintln(os.Stderr, "cases:", err)
		os.Exit(2)
	}
	var cases []absCase
	if err := json.Unmarshal(raw, &cases); err != nil {
		fmt.Fprintln(os.Stderr, "cases:", err)
		os.Exit(2)
	}
	// distinct query classes, in a stable order
	seen := map[absQuery]bool{}
	var qs []absQuery
	for _, c := range cases {
		if !seen[c.Q] {
			seen[c.Q] = true
			qs = append(qs, c.Q)
		}
	}
	sort.Slice(qs, func(i, j int) bool {
		return fmt.Sprint(qs[i]) < fmt.Sprint(qs[j])
	})
	wins := windowsA()
	type conc struct {
		q absQuery
		s *spec
	}
	var all []conc
	n := 0
	for _, q := range qs {
		for _, s := range r.concretise(q) {
			if r.mine(n) {
				all = append(all, conc{q, s})
			}
			n++
		}
	}
	r.res.Stats["case_classes"] = len(qs)
	r.res.Stats["case_concrete_queries"] = len(all)
	// every concrete query: one plan object executed 3 times, interleaved with the plan object of another class
	// (the next one in a seeded order); the calls are the trace
	perm := r.rng.Perm(len(all))
	slot := 0
	tr := func(ev map[string]any) {
		if r.trace != nil {
			b, _ := json.Marshal(ev)
			r.trace.Write(append(b, '\n'))
		}
	}
	for i := 0; i < len(perm); i += 2 {
		pair := []conc{all[perm[i]]}
		if i+1 < len(perm) {
			pair = append(pair, all[perm[i+1]])
		}
		subs := make([]subject, len(pair))
		fresh := make([][]*arm, len(pair))
		okPair := true
		for j, c := range pair {
			r.setup(c.s)
			sub, err := c.s.Make()
			if err != nil {
				r.res.PlanErrors["case:"+c.s.id()] = err.Error()
				okPair = false
				break
			}
			fa, err := r.freshArms(c.s, "A", wins)
			if err != nil {
				okPair = false
				break
			}
			subs[j], fresh[j] = sub, fa
		}
		if !okPair {
			continue
		}
		for j, c := range pair {
			tr(map[string]any{"ev": "New", "p": j + 1, "q": c.q, "concrete": c.s.Query})
		}
		var order []int
		for j := range pair {
			order = append(order, j, j, j)
		}
		r.rng.Shuffle(len(order), func(a, b int) { order[a], order[b] = order[b], order[a] })
		ks := make([]int, len(pair))
		priors := make([][]fieldWrite, len(pair))
		for _, j := range order {
			c := pair[j]
			k := ks[j]
			a := r.proc(c.s, subs[j], wins[k], k+1, true)
			v := r.x.compareArms(a, fresh[j][k])
			div := v.Class == "MEANING" || v.Class == "ERROR"
			name := fmt.Sprintf("%s %s %s %s", c.q.Kind, c.q.Op, c.q.Text, c.q.Attr)
			mode := "case"
			if strings.HasPrefix(c.s.Entry, "unreachable") {
				mode = "unreachable"
			}
			before := len(r.res.Findings)
			r.report(c.s, mode, "A", k+1, wins[k], v, a, fresh[j][k], nil, priors[j], strings.TrimSpace(name))
			sig := ""
			if len(r.res.Findings) > before {
				sig = r.res.Findings[len(r.res.Findings)-1].Signature
				if mode == "unreachable" {
					// dead code: kept as an observation, not a finding
					r.res.Unreachable = append(r.res.Unreachable, r.res.Findings[len(r.res.Findings)-1])
					r.res.Findings = r.res.Findings[:before]
				}
			}
			mw := modelledWrites(a.Writes)
			r.res.Cases = append(r.res.Cases, caseOutcome{Q: c.q, K: k + 1, Concrete: c.s.Query, Entry: c.s.Entry, Diverges: div, Class: v.Class, Writes: mw, Signature: sig})
			tr(map[string]any{"ev": "Process", "p": j + 1, "k": k + 1, "writes": mw, "same": !div})
			priors[j] = append(priors[j], a.Writes...)
			ks[j]++
			slot++
		}
		for j := range pair {
			tr(map[string]any{"ev": "Drop", "p": j + 1})
		}
	}
	r.res.Stats["case_calls"] = slot
}

// probeFields: which of the fields modelled by Replan.tla do the real Process calls write? (the specification's
// Mutates constant is generated from this)
func (r *runner) probeFields() {
	var qs []absQuery
	qs = append(qs, absQuery{Kind: "sel"}, absQuery{Kind: "bw"}, absQuery{Kind: "lfmt"})
	for _, op := range []string{"|=", "!=", "|~", "!~"} {
		for t := range textPool {
			qs = append(qs, absQuery{Kind: "lf", Op: op, Text: t})
		}
	}
	for _, a := range []string{"p0", "p1", "p2", "duration", "none"} {
		qs = append(qs, absQuery{Kind: "ac", Attr: a})
	}
	set := map[string]bool{}
	for _, q := range qs {
		for _, s := range r.concretise(q) {
			r.setup(s)
			sub, err := s.Make()
			if err != nil {
				r.res.PlanErrors["probe:"+s.id()] = err.Error()
				continue
			}
			r.x.DB.dry = true
			for k, w := range windowsA() {
				a := sub.process(r.x, w, k+1, true)
				r.noteWrites(s, a)
				for _, f := range modelledWrites(a.Writes) {
					set[f] = true
				}
			}
			r.x.DB.dry = false
			r.res.Stats["probed_plans"]++
		}
	}
	for f := range set {
		r.res.Mutates = append(r.res.Mutates, f)
	}
	sort.Strings(r.res.Mutates)
}

package main

import (
	"fmt"
	"reflect"
	"sort"
	"strings"
)

// ---------------------------------------------------------------------------------------------------------------
// Field probe: a read-only deep snapshot of a plan (chain of planner objects, including unexported fields) taken
// before and after every Process call. The difference is the set of planner FIELDS the call wrote: this is what
// binds the state variables of Replan.tla (Val, WithCache, Alias, formatStr/args, sqlConds/where/AggregatedAttr..)
// to the real objects, and it is how the specification's `Mutates` constant is generated from the code.
// ---------------------------------------------------------------------------------------------------------------

type snap map[string]string

type fieldWrite struct {
	Field  string `json:"field"` // OwnerType.Field of the innermost named struct
	Path   string `json:"path"`
	Before string `json:"before"`
	After  string `json:"after"`
	// Disc: the operator of the planner object that owns the field (its immutable Op / Fn / Func field), if it has one
	Disc string `json:"disc,omitempty"`
}

var skipPkgs = []string{"regexp", "sync", "text/template", "context", "time", "reflect"}

type walker struct {
	m       snap
	owner   map[string]string
	visited map[uintptr]bool
}

func takeSnap(root any) (snap, map[string]string) {
	w := &walker{m: snap{}, owner: map[string]string{}, visited: map[uintptr]bool{}}
	w.walk(reflect.ValueOf(root), "plan", "", 0)
	return w.m, w.owner
}

func (w *walker) put(path, owner, val string) {
	w.m[path] = val
	w.owner[path] = owner
}

func (w *walker) walk(v reflect.Value, path, owner string, depth int) {
	if depth > 40 {
		w.put(path, owner, "<deep>")
		return
	}
	if !v.IsValid() {
		w.put(path, owner, "nil")
		return
	}
	switch v.Kind() {
	case reflect.Ptr:
		if v.IsNil() {
			w.put(path, owner, "nil")
			return
		}
		p := v.Pointer()
		if w.visited[p] && v.Elem().Kind() == reflect.Struct {
			w.put(path, owner, "<shared>")
			return
		}
		w.visited[p] = true
		w.put(path, owner, "ptr")
		w.walk(v.Elem(), path+"*", owner, depth+1)
	case reflect.Interface:
		if v.IsNil() {
			w.put(path, owner, "nil")
			return
		}
		w.walk(v.Elem(), path, owner, depth+1)
	case reflect.Struct:
		t := v.Type()
		for _, sp := range skipPkgs {
			if t.PkgPath() == sp {
				w.put(path, owner, "<"+t.String()+">")
				return
			}
		}
		name := t.Name()
		if name == "" {
			name = "struct"
		}
		for i := 0; i < v.NumField(); i++ {
			f := t.Field(i)
			w.walk(v.Field(i), path+"/"+name+"."+f.Name, name+"."+f.Name, depth+1)
		}
	case reflect.Slice:
		if v.IsNil() {
			w.put(path+"#len", owner, "nil")
			return
		}
		fallthrough
	case reflect.Array:
		n := v.Len()
		w.put(path+"#len", owner, fmt.Sprint(n))
		if v.Type().Elem().Kind() == reflect.Uint8 {
			return
		}
		for i := 0; i < n && i < 64; i++ {
			w.walk(v.Index(i), fmt.Sprintf("%s[%d]", path, i), owner, depth+1)
		}
	case reflect.Map:
		if v.IsNil() {
			w.put(path+"#len", owner, "nil")
			return
		}
		w.put(path+"#len", owner, fmt.Sprint(v.Len()))
		keys := v.MapKeys()
		sort.Slice(keys, func(i, j int) bool { return fmt.Sprint(keys[i]) < fmt.Sprint(keys[j]) })
		for i, k := range keys {
			if i >= 64 {
				break
			}
			w.walk(v.MapIndex(k), fmt.Sprintf("%s[%v]", path, k), owner, depth+1)
		}
	case reflect.String:
		w.put(path, owner, fmt.Sprintf("%q", v.String()))
	case reflect.Bool:
		w.put(path, owner, fmt.Sprint(v.Bool()))
	case reflect.Int, reflect.Int8, reflect.Int16, reflect.Int32, reflect.Int64:
		w.put(path, owner, fmt.Sprint(v.Int()))
	case reflect.Uint, reflect.Uint8, reflect.Uint16, reflect.Uint32, reflect.Uint64, reflect.Uintptr:
		w.put(path, owner, fmt.Sprint(v.Uint()))
	case reflect.Float32, reflect.Float64:
		w.put(path, owner, fmt.Sprint(v.Float()))
	case reflect.Func:
		if v.IsNil() {
			w.put(path, owner, "nil")
		} else {
			w.put(path, owner, "func")
		}
	case reflect.Chan, reflect.UnsafePointer:
		w.put(path, owner, "<"+v.Kind().String()+">")
	default:
		w.put(path, owner, "<"+v.Kind().String()+">")
	}
}

// diffSnap lists the fields whose value changed; what appears below a pointer that went nil -> ptr (or below a
// slice that grew) is summarised by that one change.
func diffSnap(b, a snap, owner map[string]string) []fieldWrite {
	var changedRoots []string
	var out []fieldWrite
	keys := make([]string, 0, len(a))
	for k := range a {
		keys = append(keys, k)
	}
	for k := range b {
		if _, ok := a[k]; !ok {
			keys = append(keys, k)
		}
	}
	sort.Strings(keys)
	for _, k := range keys {
		bv, bok := b[k]
		av, aok := a[k]
		if bok && aok && bv == av {
			continue
		}
		under := false
		for _, r := range changedRoots {
			if strings.HasPrefix(k, r) {
				under = true
				break
			}
		}
		if under {
			continue
		}
		if !bok {
			bv = "<absent>"
		}
		if !aok {
			av = "<absent>"
		}
		if bok && aok {
			root := strings.TrimSuffix(k, "#len")
			changedRoots = append(changedRoots, root+"*", root+"[", root+"/")
		}
		fw := fieldWrite{Field: owner[k], Path: k, Before: clip(bv, 120), After: clip(av, 120)}
		if i := strings.LastIndex(k, "/"); i > 0 {
			if j := strings.Index(owner[k], "."); j > 0 {
				for _, n := range []string{"Op", "Fn", "Func", "Function"} {
					if v, ok := b[k[:i]+"/"+owner[k][:j]+"."+n]; ok {
						fw.Disc = n + "=" + strings.Trim(v, `"`)
						break
					}
				}
			}
		}
		out = append(out, fw)
	}
	return out
}

func clip(s string, n int) string {
	if len(s) > n {
		return s[:n] + "..."
	}
	return s
}

func writeNames(ws []fieldWrite) []string {
	set := map[string]bool{}
	for _, w := range ws {
		set[w.Field] = true
	}
	var out []string
	for k := range set {
		out = append(out, k)
	}
	sort.Strings(out)
	return out
}

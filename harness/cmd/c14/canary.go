package main

import (
	"encoding/json"
	"fmt"
	"os"
)

// ---------------------------------------------------------------------------------------------------------------
// Cross-process determinism: "independent of earlier translations in the process". State that sticks to the
// process (a package-level cache filled by the first translation) is the same for every comparison made inside one
// process. So every shard (a process of its own) translates the same canary queries FIRST, each shard starting at a
// different query; the checker compares the statements across the processes and, where the text differs, hands the
// pairs back (`c14 xcompare`) to be compared by meaning on the store.
// ---------------------------------------------------------------------------------------------------------------

func (r *runner) canarySpecs() []*spec {
	var out []*spec
	for i, q := range corpusLogQL {
		if i%5 == 0 {
			out = append(out, logSpec(q))
		}
	}
	for i, q := range hostileLogQL {
		if i%3 == 0 {
			out = append(out, logSpec(q))
		}
	}
	for i, q := range append(append([]string{}, corpusTraceQL...), hostileTraceQL...) {
		if i%5 == 0 {
			out = append(out, traceSpec(q, 20, 0), tagsSpec(q))
		}
	}
	for i, q := range corpusProf {
		if i%3 == 0 {
			out = append(out, profSpecs(q)...)
		}
	}
	return out
}

func (r *runner) canary() {
	specs := r.canarySpecs()
	n := len(specs)
	start := 0
	if r.shards > 1 {
		start = r.shard * n / r.shards
	}
	r.res.Canary = map[string][]string{}
	w := windowsA()[0]
	for j := 0; j < n; j++ {
		s := specs[(start+j)%n]
		sub, err := s.Make()
		if err != nil {
			continue
		}
		r.x.forceComplexity(0)
		r.x.DB.dry = true
		a := sub.process(r.x, w, 1, false)
		r.x.DB.dry = false
		r.res.Canary[s.id()] = a.SQL
	}
	r.res.Stats["canary_translations"] = len(r.res.Canary)
}

type xpair struct {
	ID     string   `json:"id"`
	ShardA int      `json:"shard_a"`
	ShardB int      `json:"shard_b"`
	A      []string `json:"a"`
	B      []string `json:"b"`
}

// xcompare: statements of the same query translated first-thing in two different processes, compared by meaning.
func (r *runner) xcompare(path string) {
	raw, err := os.ReadFile(path)
	if err != nil {
		fmt.Fprintln(os.Stderr, "xcompare:", err)
		os.Exit(2)
	}
	var pairs []xpair
	if err := json.Unmarshal(raw, &pairs); err != nil {
		fmt.Fprintln(os.Stderr, "xcompare:", err)
		os.Exit(2)
	}
	byID := map[string]*spec{}
	for _, s := range r.canarySpecs() {
		byID[s.id()] = s
	}
	for _, p := range pairs {
		s := byID[p.ID]
		if s == nil {
			s = &spec{Lang: "?", Entry: "?", Query: p.ID}
		}
		a, b := &arm{K: 1, SQL: p.A}, &arm{K: 1, SQL: p.B}
		v := r.x.compareArms(a, b)
		w := windowsA()[0]
		r.count(s.Lang, "cross-process", v.Class)
		if v.Class == "identical" || v.Class == "text_only" {
			continue
		}
		f := finding{Lang: s.Lang, Entry: s.Entry, Query: s.Query, Mode: "cross-process", Base: "A", K: 1, Verdict: v,
			From: fmtT(w.From), To: fmtT(w.To), SQLReuse: p.A, SQLFresh: p.B,
			Case:      fmt.Sprintf("translated in process %d (after other queries) and in process %d", p.ShardA, p.ShardB),
			Signature: fmt.Sprintf("order-dependent|%s|%s", s.Lang, v.TokDiff)}
		switch v.Class {
		case "MEANING", "ERROR":
			r.res.Findings = append(r.res.Findings, f)
		case "benign":
			r.res.Benign = append(r.res.Benign, f)
		default:
			r.res.Undecided = append(r.res.Undecided, f)
		}
	}
	r.res.Stats["cross_process_pairs"] = len(pairs)
}

package main

import (
	"fmt"
	"io"
	"sort"
	"strings"
	"time"

	"github.com/metrico/qryn/reader/logql/logql_transpiler_v2"
	"github.com/metrico/qryn/reader/logql/logql_transpiler_v2/shared"
)

// ---------------------------------------------------------------------------------------------------------------
// LogQL: logql_transpiler_v2.Transpile -> chain; chain[0].Process(ctx, nil) exactly as QueryRangeService.Tail does.
// ---------------------------------------------------------------------------------------------------------------

func renderLabels(l map[string]string) string {
	ks := make([]string, 0, len(l))
	for k := range l {
		ks = append(ks, k)
	}
	sort.Strings(ks)
	var b strings.Builder
	for _, k := range ks {
		fmt.Fprintf(&b, "%q=%q,", k, l[k])
	}
	return b.String()
}

type logPlan struct {
	Query string
	Chain shared.RequestProcessorChain
}

func planLog(q string) (p *logPlan, err error) {
	defer func() {
		if r := recover(); r != nil {
			err = fmt.Errorf("panic while planning: %v", r)
		}
	}()
	chain, err := logql_transpiler_v2.Transpile(q)
	if err != nil {
		return nil, err
	}
	if len(chain) == 0 || chain[0] == nil {
		return nil, fmt.Errorf("empty chain")
	}
	return &logPlan{Query: q, Chain: chain}, nil
}

const stepDefault = 5 * time.Second

// processLog runs one Process call on the plan and drains the result.
func (x *X) processLog(p *logPlan, w window, k int, probe bool) *arm {
	return x.processLogOpt(p, w, k, probe, stepDefault)
}

// processLogStep: no probe, explicit step (Tail: 0)
func (x *X) processLogStep(p *logPlan, w window, k int, step time.Duration) *arm {
	return x.processLogOpt(p, w, k, false, step)
}

func (x *X) processLogOpt(p *logPlan, w window, k int, probe bool, step time.Duration) *arm {
	a := &arm{K: k}
	var before snap
	if probe {
		before, _ = takeSnap(p.Chain)
	}
	ctx := x.plannerCtx(w, step, 0)
	defer ctx.CancelCtx()
	x.DB.begin(ctx)
	func() {
		defer func() {
			if r := recover(); r != nil {
				a.Err = fmt.Sprintf("panic: %v", r)
			}
		}()
		ch, err := p.Chain[0].Process(ctx, nil)
		if err != nil {
			a.Err = "error: " + err.Error()
			return
		}
		timeout := time.After(20 * time.Second)
		for {
			select {
			case entries, ok := <-ch:
				if !ok {
					return
				}
				for _, e := range entries {
					if e.Err == io.EOF {
						continue
					}
					if e.Err != nil {
						a.Out = append(a.Out, "ERR "+e.Err.Error())
						continue
					}
					a.Out = append(a.Out, fmt.Sprintf("%d %s %q %d %.9g", e.Fingerprint, renderLabels(e.Labels), e.Message, e.TimestampNS, e.Value))
				}
			case <-timeout:
				a.Err = "timeout draining the chain"
				return
			}
		}
	}()
	for _, s := range x.DB.end() {
		a.SQL = append(a.SQL, s.SQL)
		a.Snaps = append(a.Snaps, s.Snap)
		if s.Err != nil {
			a.SQLErr = append(a.SQLErr, s.Err.Error())
		}
	}
	if probe {
		after, owner := takeSnap(p.Chain)
		a.Writes = diffSnap(before, after, owner)
	}
	return a
}

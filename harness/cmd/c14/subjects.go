package main

import (
	"fmt"
	"sort"
	"strings"
	"time"

	"github.com/metrico/qryn/reader/logql/logql_parser"
	"github.com/metrico/qryn/reader/logql/logql_transpiler_v2"
	"github.com/metrico/qryn/reader/logql/logql_transpiler_v2/clickhouse_planner"
	"github.com/metrico/qryn/reader/logql/logql_transpiler_v2/shared"
	profparser "github.com/metrico/qryn/reader/prof/parser"
	profshared "github.com/metrico/qryn/reader/prof/shared"
	proftr "github.com/metrico/qryn/reader/prof/transpiler"
	v1 "github.com/metrico/qryn/reader/prof/types/v1"
	traceql_parser "github.com/metrico/qryn/reader/traceql/parser"
	traceql_transpiler "github.com/metrico/qryn/reader/traceql/transpiler"
	"github.com/metrico/qryn/reader/traceql/transpiler/clickhouse_transpiler"
	sqlsel "github.com/metrico/qryn/reader/utils/sql_select"
)

// A subject is one prepared plan object; process executes it once.
type subject interface {
	process(x *X, w window, k int, probe bool) *arm
}

// spec describes how to make plan objects for one (language, entry point, query).
type spec struct {
	Lang  string
	Entry string
	Query string
	Make  func() (subject, error)
	// Complexity > 0: the TraceQL complexity estimate is forced to this value (several portions)
	Complexity int64
	// Dry: the statements do not depend on earlier answers and nothing but the database evaluates them (no in-process
	// stages): they are recorded, not executed, and executed on the store only where two of them differ
	Dry bool
}

func (s *spec) id() string { return s.Lang + "/" + s.Entry + "/" + s.Query }

func guard(a *arm, f func()) {
	defer func() {
		if r := recover(); r != nil {
			a.Err = fmt.Sprintf("panic: %v", r)
		}
	}()
	f()
}

func collect(x *X, a *arm) {
	for _, s := range x.DB.end() {
		a.SQL = append(a.SQL, s.SQL)
		a.Snaps = append(a.Snaps, s.Snap)
		if s.Err != nil {
			a.SQLErr = append(a.SQLErr, s.Err.Error())
		}
	}
}

// ---- LogQL chain ----

func (p *logPlan) process(x *X, w window, k int, probe bool) *arm {
	return x.processLog(p, w, k, probe)
}

func logSpec(q string) *spec {
	dry := false
	if script, err := logql_parser.Parse(q); err == nil {
		if bp, err := logql_transpiler_v2.GetBreakpoint(script); err == nil {
			dry = bp == logql_transpiler_v2.BreakpointNo || clickhouse_planner.AnalyzeMetrics15sShortcut(script)
		}
	}
	return &spec{Lang: "logql", Entry: "chain", Query: q, Dry: dry, Make: func() (subject, error) {
		p, err := planLog(q)
		if err != nil {
			return nil, err
		}
		return p, nil
	}}
}

// ---- any shared.SQLRequestPlanner: Process + String, nothing executed ----

type sqlPlan struct {
	root    any
	planner shared.SQLRequestPlanner
	limit   int64
	opts    func(x *X) []int
	strCtx  func(ctx *shared.PlannerContext) *sqlsel.Ctx
	mod     func(ctx *shared.PlannerContext, k int)
}

func (p *sqlPlan) process(x *X, w window, k int, probe bool) *arm {
	a := &arm{K: k}
	var before snap
	if probe {
		before, _ = takeSnap(p.root)
	}
	ctx := x.plannerCtx(w, stepDefault, p.limit)
	defer ctx.CancelCtx()
	if p.mod != nil {
		p.mod(ctx, k)
	}
	guard(a, func() {
		sel, err := p.planner.Process(ctx)
		if err != nil {
			a.Err = "error: " + err.Error()
			return
		}
		var opts []int
		if p.opts != nil {
			opts = p.opts(x)
		}
		sctx := sqlsel.DefaultCtx()
		if p.strCtx != nil {
			sctx = p.strCtx(ctx)
		}
		s, err := sel.String(sctx, opts...)
		if err != nil {
			a.Err = "error: " + err.Error()
			return
		}
		a.SQL = []string{s}
	})
	if probe {
		after, owner := takeSnap(p.root)
		a.Writes = diffSnap(before, after, owner)
	}
	return a
}

func clusterOpts(x *X) []int {
	if x.Cluster != "" {
		return []int{sqlsel.STRING_OPT_INLINE_WITH}
	}
	return nil
}

func fpSpec(q string) *spec {
	return &spec{Lang: "logql", Entry: "fingerprints", Query: q, Make: func() (subject, error) {
		script, err := logql_parser.Parse(q)
		if err != nil {
			return nil, err
		}
		if script.StrSelector == nil {
			return nil, fmt.Errorf("not a stream selector")
		}
		pl, err := logql_transpiler_v2.PlanFingerprints(script)
		if err != nil {
			return nil, err
		}
		return &sqlPlan{root: pl, planner: pl, opts: clusterOpts}, nil
	}}
}

// the ClickHouse part alone (what Tail's chain wraps), finalised
func chSpec(q string) *spec {
	return &spec{Lang: "logql", Entry: "clickhouse_planner", Query: q, Make: func() (s subject, err error) {
		defer func() {
			if r := recover(); r != nil {
				err = fmt.Errorf("panic while planning: %v", r)
			}
		}()
		script, err := logql_parser.Parse(q)
		if err != nil {
			return nil, err
		}
		// production hands a script to clickhouse_planner.Plan(.., true) only in these two situations
		bp, err := logql_transpiler_v2.GetBreakpoint(script)
		if err != nil {
			return nil, err
		}
		if bp != logql_transpiler_v2.BreakpointNo && !clickhouse_planner.AnalyzeMetrics15sShortcut(script) {
			return nil, fmt.Errorf("not planned by the ClickHouse planner alone")
		}
		pl, err := clickhouse_planner.Plan(script, true)
		if err != nil {
			return nil, err
		}
		return &sqlPlan{root: pl, planner: pl, opts: clusterOpts, strCtx: func(ctx *shared.PlannerContext) *sqlsel.Ctx { return ctx.CHSqlCtx }}, nil
	}}
}

// ---- TraceQL ----

type tracePlan struct {
	proc  shared.TraceRequestProcessor
	limit int64
}

func (p *tracePlan) process(x *X, w window, k int, probe bool) *arm {
	a := &arm{K: k}
	var before snap
	if probe {
		before, _ = takeSnap(p.proc)
	}
	ctx := x.plannerCtx(w, 0, p.limit)
	ctx.CHFinalize = false
	ctx.CHSqlCtx = nil
	defer ctx.CancelCtx()
	x.DB.begin(ctx)
	guard(a, func() {
		ch, err := p.proc.Process(ctx)
		if err != nil {
			a.Err = "error: " + err.Error()
			return
		}
		timeout := time.After(20 * time.Second)
		for {
			select {
			case infos, ok := <-ch:
				if !ok {
					return
				}
				for _, ti := range infos {
					var sp []string
					for _, s := range ti.SpanSet.Spans {
						sp = append(sp, s.SpanID+":"+s.StartTimeUnixNano+":"+s.DurationNanos)
					}
					sort.Strings(sp)
					a.Out = append(a.Out, fmt.Sprintf("%s %s %q %q %.6g [%s]", ti.TraceID, ti.StartTimeUnixNano, ti.RootServiceName, ti.RootTraceName, ti.DurationMs, strings.Join(sp, ",")))
				}
			case <-timeout:
				a.Err = "timeout draining the processor"
				return
			}
		}
	})
	collect(x, a)
	if probe {
		after, owner := takeSnap(p.proc)
		a.Writes = diffSnap(before, after, owner)
	}
	return a
}

func traceSpec(q string, limit int64, complexity int64) *spec {
	entry := "search"
	if complexity > 0 {
		entry = "search_complex"
	}
	if limit == 0 {
		entry += "_nolimit"
	}
	return &spec{Lang: "traceql", Entry: entry, Query: q, Complexity: complexity, Dry: complexity == 0, Make: func() (subject, error) {
		script, err := traceql_parser.Parse(q)
		if err != nil {
			return nil, err
		}
		pl, err := traceql_transpiler.Plan(script)
		if err != nil {
			return nil, err
		}
		return &tracePlan{proc: pl, limit: limit}, nil
	}}
}

type tagsPlan struct {
	proc  shared.GenericTraceRequestProcessor[string]
	limit int64
}

func (p *tagsPlan) process(x *X, w window, k int, probe bool) *arm {
	a := &arm{K: k}
	var before snap
	if probe {
		before, _ = takeSnap(p.proc)
	}
	ctx := x.plannerCtx(w, 0, p.limit)
	ctx.CHFinalize = false
	ctx.CHSqlCtx = nil
	defer ctx.CancelCtx()
	x.DB.begin(ctx)
	guard(a, func() {
		ch, err := p.proc.Process(ctx)
		if err != nil {
			a.Err = "error: " + err.Error()
			return
		}
		timeout := time.After(20 * time.Second)
		for {
			select {
			case tags, ok := <-ch:
				if !ok {
					return
				}
				for _, t := range tags {
					a.Out = append(a.Out, fmt.Sprintf("%q", t))
				}
			case <-timeout:
				a.Err = "timeout draining the processor"
				return
			}
		}
	})
	collect(x, a)
	if probe {
		after, owner := takeSnap(p.proc)
		a.Writes = diffSnap(before, after, owner)
	}
	return a
}

func tagsSpec(q string) *spec {
	return &spec{Lang: "traceql", Entry: "tags_v2", Query: q, Dry: true, Make: func() (subject, error) {
		script, err := traceql_parser.Parse(q)
		if err != nil {
			return nil, err
		}
		pl, err := traceql_transpiler.PlanTagsV2(script)
		if err != nil {
			return nil, err
		}
		return &tagsPlan{proc: pl, limit: 100}, nil
	}}
}

func valuesSpec(q, key string) *spec {
	return &spec{Lang: "traceql", Entry: "values_v2:" + key, Query: q, Dry: true, Make: func() (subject, error) {
		script, err := traceql_parser.Parse(q)
		if err != nil {
			return nil, err
		}
		pl, err := traceql_transpiler.PlanValuesV2(script, key)
		if err != nil {
			return nil, err
		}
		return &tagsPlan{proc: pl, limit: 100}, nil
	}}
}

// the ClickHouse planner of a TraceQL query alone, with a portion context (random filter + cached trace ids)
func tracePortionSpec(q string) *spec {
	return &spec{Lang: "traceql", Entry: "planner_portion", Query: q, Make: func() (subject, error) {
		script, err := traceql_parser.Parse(q)
		if err != nil {
			return nil, err
		}
		pl, err := clickhouse_transpiler.Plan(script)
		if err != nil {
			return nil, err
		}
		return &sqlPlan{root: pl, planner: pl, limit: 20, strCtx: func(*shared.PlannerContext) *sqlsel.Ctx {
			return &sqlsel.Ctx{Params: map[string]sqlsel.SQLObject{}, Result: map[string]sqlsel.SQLObject{}}
		}, mod: func(ctx *shared.PlannerContext, k int) {
			ctx.Step = 0
			ctx.RandomFilter = shared.RandomFilter{Max: 3, I: k - 1}
			if k > 1 {
				ctx.CachedTraceIds = []string{fmt.Sprintf("%032x", 0xa000+1), fmt.Sprintf("%032x", 0xa000+12)}
			}
		}}, nil
	}}
}

// ---- profiles ----

const profTypeID = "process_cpu:cpu:nanoseconds:cpu:nanoseconds"

func profSpecs(script string) []*spec {
	parse := func() (*profparser.Script, *profshared.TypeId, error) {
		s, err := profparser.Parse(script)
		if err != nil {
			return nil, nil, err
		}
		t, err := profshared.ParseTypeId(profTypeID)
		if err != nil {
			return nil, nil, err
		}
		return s, &t, nil
	}
	mk := func(entry string, f func(s *profparser.Script, t *profshared.TypeId) (shared.SQLRequestPlanner, error)) *spec {
		return &spec{Lang: "prof", Entry: entry, Query: script, Make: func() (subject, error) {
			s, t, err := parse()
			if err != nil {
				return nil, err
			}
			pl, err := f(s, t)
			if err != nil {
				return nil, err
			}
			return &sqlPlan{root: pl, planner: pl}, nil
		}}
	}
	return []*spec{
		mk("LabelNames", func(s *profparser.Script, t *profshared.TypeId) (shared.SQLRequestPlanner, error) {
			return proftr.PlanLabelNames([]*profparser.Script{s})
		}),
		mk("LabelValues", func(s *profparser.Script, t *profshared.TypeId) (shared.SQLRequestPlanner, error) {
			return proftr.PlanLabelValues([]*profparser.Script{s}, "it's")
		}),
		mk("MergeTraces", func(s *profparser.Script, t *profshared.TypeId) (shared.SQLRequestPlanner, error) {
			return proftr.PlanMergeTraces(s, t)
		}),
		mk("SelectSeries", func(s *profparser.Script, t *profshared.TypeId) (shared.SQLRequestPlanner, error) {
			return proftr.PlanSelectSeries(s, t, []string{"pod", "region"}, v1.TimeSeriesAggregationType_TIME_SERIES_AGGREGATION_TYPE_AVERAGE, 15)
		}),
		mk("SelectSeriesSum", func(s *profparser.Script, t *profshared.TypeId) (shared.SQLRequestPlanner, error) {
			return proftr.PlanSelectSeries(s, t, nil, v1.TimeSeriesAggregationType_TIME_SERIES_AGGREGATION_TYPE_SUM, 60)
		}),
		mk("MergeProfiles", func(s *profparser.Script, t *profshared.TypeId) (shared.SQLRequestPlanner, error) {
			return proftr.PlanMergeProfiles(s, t)
		}),
		mk("Series", func(s *profparser.Script, t *profshared.TypeId) (shared.SQLRequestPlanner, error) {
			s2, err := profparser.Parse(`{service_name=~"svc.*", pod!="q"}`)
			if err != nil {
				return nil, err
			}
			return proftr.PlanSeries([]*profparser.Script{s, s2}, []string{"service_name", "pod"})
		}),
		mk("Series1", func(s *profparser.Script, t *profshared.TypeId) (shared.SQLRequestPlanner, error) {
			return proftr.PlanSeries([]*profparser.Script{s}, nil)
		}),
		mk("AnalyzeQuery", func(s *profparser.Script, t *profshared.TypeId) (shared.SQLRequestPlanner, error) {
			return proftr.PlanAnalyzeQuery(s)
		}),
	}
}

// c14 drives the REAL qryn query planners the way live tailing and complex TraceQL requests do - one prepared plan
// object, Process called again and again with advancing time bounds - and compares every execution with a freshly
// made plan executed with the same context:
//
//	(0) byte-identical SQL, (i) identical token streams (chsql.Lex), (ii) identical MEANING on a populated store
//	(real writer routes -> real DDL/materialized views on chsql): result rows of the statements and the entries the
//	chain delivers. Only a difference in meaning is reported.
//
// Also: determinism (the same query translated repeatedly, and after all other queries), two plans interleaved in
// one process, the portions of complex TraceQL requests (ComplexRequestProcessor) against a fresh plan per portion,
// the real QueryRangeService.Tail for 3 ticks, and the abstract cases enumerated by TLC from spec/query/Replan.tla.
// Every Process call is bracketed by a deep read-only snapshot of the plan objects: the planner fields written by the
// call are the state variables of Replan.tla; they are exported (`fields`) to generate the specification's Mutates
// constant and recorded in a trace (`-trace`) that TLC validates against Replan.tla.
//
//	c14 run -seed S -tier quick|thorough -out result.json [-cases cases.json] [-trace trace.ndjson] [-cluster c1]
package main

import (
	"encoding/json"
	"flag"
	"fmt"
	"math/rand"
	"os"
	"sort"
	"strings"
	"time"

	clconfig "github.com/metrico/cloki-config"
	rconfig "github.com/metrico/qryn/reader/config"
)

type finding struct {
	Lang      string       `json:"lang"`
	Entry     string       `json:"entry"`
	Query     string       `json:"query"`
	Mode      string       `json:"mode"` // reexec | determinism | interleave | portion | tail | case
	Base      string       `json:"base,omitempty"`
	K         int          `json:"k"`
	Signature string       `json:"signature"`
	Verdict   verdict      `json:"verdict"`
	From      string       `json:"from,omitempty"`
	To        string       `json:"to,omitempty"`
	SQLReuse  []string     `json:"sql_reuse"`
	SQLFresh  []string     `json:"sql_fresh"`
	SQLFirst  []string     `json:"sql_first_execution,omitempty"`
	Writes    []fieldWrite `json:"fields_written_before,omitempty"`
	Cluster   string       `json:"cluster,omitempty"`
	Case      string       `json:"case,omitempty"`
}

type fieldStat struct {
	Execs   map[string]int `json:"execs"` // execution number -> how many Process calls wrote the field
	Example *fieldWrite    `json:"example,omitempty"`
	Query   string         `json:"query,omitempty"`
}

type result struct {
	Seed        int64                 `json:"seed"`
	Tier        string                `json:"tier"`
	Stats       map[string]int        `json:"stats"`
	Classes     map[string]int        `json:"classes"` // lang/mode/class -> count
	Findings    []finding             `json:"findings"`
	Benign      []finding             `json:"benign_samples"`
	Undecided   []finding             `json:"undecided"`
	Fields      map[string]*fieldStat `json:"fields"`
	PlanErrors  map[string]string     `json:"plan_errors"`
	Samples     []any                 `json:"samples"`
	Cases       []caseOutcome         `json:"cases"`
	Unreachable []finding             `json:"unreachable_code_observations,omitempty"`
	Unsup       []string              `json:"unsupported,omitempty"`
	Tail        map[string]any        `json:"tail,omitempty"`
	Mutates     []string              `json:"mutates,omitempty"`
	Canary      map[string][]string   `json:"canary,omitempty"`
	WallS       float64               `json:"wall_s"`
}

type runner struct {
	x     *X
	res   *result
	rng   *rand.Rand
	trace *os.File
	planN int
	fresh map[string][]*arm // spec id + base -> fresh arms per window
	keep  map[string]int
	// LogQL query -> fields written by execution 1, 2, 3 of its chain
	logWrites map[string][][]fieldWrite
	// baseline: planner fields that even the simplest plan of a language writes (set-once aliases and caches)
	baseline map[string]map[string]bool
	timers   map[string]float64
	shard    int
	shards   int
}

func (r *runner) mine(i int) bool { return r.shards <= 1 || i%r.shards == r.shard }

func (r *runner) count(lang, mode, class string) {
	r.res.Classes[lang+"/"+mode+"/"+class]++
}

func (r *runner) noteWrites(s *spec, a *arm) {
	for _, w := range a.Writes {
		fs := r.res.Fields[w.Field]
		if fs == nil {
			fs = &fieldStat{Execs: map[string]int{}}
			r.res.Fields[w.Field] = fs
		}
		fs.Execs[fmt.Sprint(a.K)]++
		if fs.Example == nil || (a.K > 1 && fs.Query == "") {
			ww := w
			fs.Example = &ww
			if a.K > 1 {
				fs.Query = s.id()
			}
		}
	}
}

// harmless: the planner fields Replan.tla classifies as set-once-idempotent (every later execution finds what it
// would have computed itself), as overwritten by every call before use, or as recomputed from immutable inputs on
// every call. (A fixed list read off the unchanged code: a field a change adds is never in it.)
var harmless = map[string]bool{
	"MainFinalizerPlanner.Alias": true, "FingerprintFilterPlanner.FingerprintSelectWithCache": true,
	"LabelsJoinPlanner.FpCache": true, "LabelsJoinPlanner.LabelsCache": true, "ByWithoutPlanner.FPCache": true,
	"UnwrapPlanner.fpCache": true, "UnwrapPlanner.labelsCache": true, "PlannerDrop.LabelsCache": true, "PlannerDrop.fpCache": true,
	"LineFilterPlanner.re": true, "ParserPlanner.logfmtFields": true, "ParserPlanner.parameterTypedValues": true, "ByWithoutPlanner.labels": true,
	"AttrConditionPlanner.sqlConds": true, "AttrConditionPlanner.alias": true, "AggregatorPlanner.fCmpVal": true,
	"SimpleRequestProcessor.main": true, "ComplexRequestProcessor.main": true, "SimpleTagsV2RequestProcessor.main": true,
}

// culprit names ONE planner field written by earlier executions as the structural part of a signature: the harmless
// fields are left out; a rewritten value is preferred to a pointer that was set, a pointer
// to a new object to an alias of one already seen.
func (r *runner) culprit(lang string, prior []fieldWrite) string {
	best, bestRank := "", -1
	for _, w := range prior {
		if w.Field == "" || harmless[w.Field] {
			continue
		}
		// only fields of planner objects, not of the cached statements hanging below them
		if !(strings.Contains(w.Field, "Planner.") || strings.Contains(w.Field, "Processor.") || strings.HasPrefix(w.Field, "planner.")) {
			continue
		}
		rank := 2
		if w.After == "ptr" || w.After == "nil" || w.Before == "ptr" {
			rank = 1
		}
		if w.After == "<shared>" {
			rank = 0
		}
		name := w.Field
		if w.Disc != "" {
			name += "|" + w.Disc
		}
		if rank > bestRank || (rank == bestRank && name < best) {
			best, bestRank = name, rank
		}
	}
	if best == "" {
		return "no-planner-field"
	}
	return best
}

// priorOf: the fields the first k executions of the plan of a LogQL query wrote (learnt in the re-execution pass).
func (r *runner) priorOf(q string, k int) []fieldWrite {
	var out []fieldWrite
	for i := 0; i < k && i < len(r.logWrites[q]); i++ {
		out = append(out, r.logWrites[q][i]...)
	}
	return out
}

func fmtT(t time.Time) string { return t.UTC().Format("2006-01-02T15:04:05.000Z") }

func (r *runner) report(s *spec, mode, base string, k int, w window, v verdict, reuse, fresh, first *arm, prior []fieldWrite, caseName string) {
	r.count(s.Lang, mode, v.Class)
	if v.Class == "identical" || v.Class == "text_only" {
		return
	}
	f := finding{Lang: s.Lang, Entry: s.Entry, Query: s.Query, Mode: mode, Base: base, K: k, Verdict: v,
		From: fmtT(w.From), To: fmtT(w.To), SQLReuse: reuse.SQL, SQLFresh: fresh.SQL, Writes: prior, Cluster: r.x.Cluster, Case: caseName}
	if first != nil && first != reuse {
		f.SQLFirst = first.SQL
	}
	if mode == "determinism" {
		entry := s.Entry
		if i := strings.Index(entry, ":"); i >= 0 {
			entry = entry[:i]
		}
		f.Signature = fmt.Sprintf("nondeterministic|%s|%s|%s", s.Lang, entry, v.TokDiff)
	} else {
		// the written planner field is the structure of the finding; the shape of the difference is added only when no
		// planner field explains it
		f.Signature = fmt.Sprintf("stateful|%s|%s", s.Lang, r.culprit(s.Lang, prior))
		if strings.HasSuffix(f.Signature, "no-planner-field") {
			f.Signature += "|" + v.TokDiff
		}
	}
	switch v.Class {
	case "MEANING", "ERROR":
		r.res.Findings = append(r.res.Findings, f)
	case "benign":
		key := "benign_kept/" + s.Lang + "/" + mode + "/" + v.TokDiff
		if r.keep[key] < 2 && len(r.res.Benign) < 60 {
			r.keep[key]++
			r.res.Benign = append(r.res.Benign, f)
		}
	default:
		r.res.Undecided = append(r.res.Undecided, f)
	}
}

func (r *runner) emitTrace(ev map[string]any) {
	// only the calls of the TLC-enumerated cases (runCases) are written to the trace: their query class is known
	if true {
		return
	}
	b, _ := json.Marshal(ev)
	r.trace.Write(append(b, '\n'))
}

func (r *runner) setup(s *spec) {
	r.x.forceComplexity(s.Complexity)
	// C14_ALLDRY: statement-only mode (used after the planners' own in-process stages crashed the driver)
	r.x.DB.dry = (s.Dry && os.Getenv("C14_NODRY") == "") || os.Getenv("C14_ALLDRY") != ""
}

// proc: one Process call on a plan object of spec s
func (r *runner) proc(s *spec, sub subject, w window, k int, probe bool) *arm {
	r.setup(s)
	return sub.process(r.x, w, k, probe)
}

// freshArms: a new plan object for every window.
func (r *runner) freshArms(s *spec, base string, wins []window) ([]*arm, error) {
	key := s.id() + "@" + base
	if a, ok := r.fresh[key]; ok {
		return a, nil
	}
	r.setup(s)
	var arms []*arm
	for k, w := range wins {
		sub, err := s.Make()
		if err != nil {
			return nil, err
		}
		arms = append(arms, sub.process(r.x, w, k+1, false))
	}
	r.fresh[key] = arms
	return arms, nil
}

// reexec: one plan object, Process with windows 1..n; each execution against the fresh plan of that window.
func (r *runner) reexec(s *spec, base string, wins []window) bool {
	r.setup(s)
	sub, err := s.Make()
	if err != nil {
		r.res.PlanErrors[s.id()] = err.Error()
		return false
	}
	fresh, err := r.freshArms(s, base, wins)
	if err != nil {
		r.res.PlanErrors[s.id()] = err.Error()
		return false
	}
	r.planN++
	pid := r.planN
	r.emitTrace(map[string]any{"ev": "New", "p": pid, "lang": s.Lang, "entry": s.Entry, "q": s.Query})
	var first *arm
	var prior []fieldWrite
	for k, w := range wins {
		a := r.proc(s, sub, w, k+1, os.Getenv("C14_NOPROBE") == "")
		if k == 0 {
			first = a
		}
		r.noteWrites(s, a)
		if s.Lang == "logql" && s.Entry == "chain" && base == "A" {
			r.logWrites[s.Query] = append(r.logWrites[s.Query], a.Writes)
		}
		v := r.x.compareArms(a, fresh[k])
		r.report(s, "reexec", base, k+1, w, v, a, fresh[k], first, prior, "")
		r.emitTrace(map[string]any{"ev": "Process", "p": pid, "k": k + 1, "writes": writeNames(a.Writes), "same": v.Class != "MEANING" && v.Class != "ERROR", "class": v.Class})
		prior = append(prior, a.Writes...)
		r.res.Stats["process_calls"]++
		if len(r.res.Samples) < 3 && k == 1 && len(a.SQL) > 0 {
			r.res.Samples = append(r.res.Samples, map[string]any{"query": s.Query, "lang": s.Lang, "entry": s.Entry, "k": 2, "from": fmtT(w.From), "to": fmtT(w.To),
				"sql_reuse": a.SQL, "sql_fresh": fresh[k].SQL, "class": v.Class, "entries_delivered": len(a.Out), "fields_written_by_exec_1": writeNames(first.Writes)})
		}
	}
	r.res.Stats["plans_reexecuted"]++
	return true
}

// determinism: the same query translated n+1 more times (now: after many other translations, in another order)
// gives the same SQL every time, and the same as the very first translation. Nothing is executed (every statement
// answers no rows) unless the statements depend on earlier answers (complex TraceQL requests).
func (r *runner) determinism(s *spec, base string, wins []window, n int) {
	r.setup(s)
	dry := s.Complexity == 0 || os.Getenv("C14_ALLDRY") != ""
	var ref *arm
	if !dry {
		fresh, err := r.freshArms(s, base, wins)
		if err != nil {
			return
		}
		ref = fresh[0]
	}
	for i := 0; i < n+1; i++ {
		sub, err := s.Make()
		if err != nil {
			r.report(s, "determinism", base, 1, wins[0], verdict{Class: "ERROR", TokDiff: "plan-error", Detail: err.Error()}, &arm{}, &arm{}, nil, nil, "")
			return
		}
		r.x.DB.dry = dry
		a := sub.process(r.x, wins[0], 1, false)
		r.setup(s)
		r.res.Stats["determinism_translations"]++
		if ref == nil {
			ref = a
			// the statement that does not depend on answers must also equal the one of the first translation in this process
			r.setup(s)
			if fresh, err := r.freshArms(s, base, wins); err == nil && len(fresh[0].SQL) > 0 && len(a.SQL) > 0 && fresh[0].SQL[0] != a.SQL[0] {
				one, two := &arm{K: 1, SQL: a.SQL[:1]}, &arm{K: 1, SQL: fresh[0].SQL[:1]}
				r.report(s, "determinism", base, 1, wins[0], r.x.compareArms(one, two), one, two, nil, nil, "")
			}
			continue
		}
		v := r.x.compareArms(a, ref)
		r.report(s, "determinism", base, 1, wins[0], v, a, ref, nil, nil, "")
	}
}

// interleave: two plan objects alive at the same time, their Process calls interleaved.
func (r *runner) interleave(s1, s2 *spec, base string, wins []window) {
	f1, err := r.freshArms(s1, base, wins)
	if err != nil {
		return
	}
	f2, err := r.freshArms(s2, base, wins)
	if err != nil {
		return
	}
	a, err := s1.Make()
	if err != nil {
		return
	}
	b, err := s2.Make()
	if err != nil {
		return
	}
	r.planN += 2
	pa, pb := r.planN-1, r.planN
	r.emitTrace(map[string]any{"ev": "New", "p": pa, "lang": s1.Lang, "entry": s1.Entry, "q": s1.Query})
	r.emitTrace(map[string]any{"ev": "New", "p": pb, "lang": s2.Lang, "entry": s2.Entry, "q": s2.Query})
	// a random interleaving of 3 + 3 calls
	order := []int{0, 0, 0, 1, 1, 1}
	r.rng.Shuffle(len(order), func(i, j int) { order[i], order[j] = order[j], order[i] })
	ka, kb := 0, 0
	var priorA, priorB []fieldWrite
	for _, who := range order {
		if who == 0 {
			arm := r.proc(s1, a, wins[ka], ka+1, true)
			v := r.x.compareArms(arm, f1[ka])
			r.report(s1, "interleave", base, ka+1, wins[ka], v, arm, f1[ka], nil, priorA, "")
			priorA = append(priorA, arm.Writes...)
			r.emitTrace(map[string]any{"ev": "Process", "p": pa, "k": ka + 1, "writes": writeNames(arm.Writes), "same": v.Class != "MEANING" && v.Class != "ERROR", "class": v.Class})
			ka++
		} else {
			arm := r.proc(s2, b, wins[kb], kb+1, true)
			v := r.x.compareArms(arm, f2[kb])
			r.report(s2, "interleave", base, kb+1, wins[kb], v, arm, f2[kb], nil, priorB, "")
			priorB = append(priorB, arm.Writes...)
			r.emitTrace(map[string]any{"ev": "Process", "p": pb, "k": kb + 1, "writes": writeNames(arm.Writes), "same": v.Class != "MEANING" && v.Class != "ERROR", "class": v.Class})
			kb++
		}
		r.res.Stats["interleaved_calls"]++
	}
}

var (
	histPath, isoPath string
	histSeed          int64
)

func main() {
	if len(os.Args) < 2 {
		fmt.Fprintln(os.Stderr, "usage: c14 run|adhoc ...")
		os.Exit(2)
	}
	fs := flag.NewFlagSet(os.Args[1], flag.ExitOnError)
	seed := fs.Int64("seed", 1, "seed")
	tier := fs.String("tier", "quick", "quick|thorough")
	outp := fs.String("out", "", "result file")
	casesp := fs.String("cases", "", "abstract cases exported by TLC (json)")
	tracep := fs.String("trace", "", "trace file (ndjson) for TLC trace validation")
	cluster := fs.String("cluster", "", "cluster name (\"\" = single node)")
	noTail := fs.Bool("notail", false, "skip the real Tail")
	shard := fs.Int("shard", 0, "this process handles the specs/cases/tails with index %% shards == shard")
	shards := fs.Int("shards", 1, "number of shards")
	query := fs.String("q", "", "adhoc: one query")
	lang := fs.String("lang", "logql", "adhoc: logql|traceql")
	histp := fs.String("hist", "", "neighbour pairs exported by TLC from ReplanHist.tla (json)")
	isop := fs.String("iso", "", "isolated translations of the requests of the pairs (written by isolate-all)")
	reqj := fs.String("req", "", "isolate: one abstract request (json)")
	fs.Parse(os.Args[2:])

	// the planners print debugging output to stdout
	devnull, _ := os.OpenFile(os.DevNull, os.O_WRONLY, 0)
	realStdout := os.Stdout
	if os.Getenv("C14_DEBUG") == "" {
		os.Stdout = devnull
	}

	if os.Args[1] == "isolate-all" {
		isolateAll(*histp, *outp, *seed)
		return
	}
	t0 := time.Now()
	x, err := newX(*cluster)
	if err != nil {
		fmt.Fprintln(os.Stderr, "world:", err)
		os.Exit(2)
	}
	defer x.Close()
	if rconfig.Cloki == nil {
		rconfig.Cloki = &clconfig.ClokiConfig{}
	}
	if os.Args[1] == "probe" || os.Args[1] == "isolate" {
	} else if err := x.populate(!*noTail && os.Args[1] == "run"); err != nil {
		fmt.Fprintln(os.Stderr, "populate:", err)
		os.Exit(2)
	}
	res := &result{Seed: *seed, Tier: *tier, Stats: map[string]int{}, Classes: map[string]int{}, Fields: map[string]*fieldStat{}, PlanErrors: map[string]string{}}
	r := &runner{x: x, res: res, rng: rand.New(rand.NewSource(*seed)), fresh: map[string][]*arm{}, keep: map[string]int{}, logWrites: map[string][][]fieldWrite{},
		baseline: map[string]map[string]bool{}, timers: map[string]float64{}, shard: *shard, shards: *shards}
	for t, n := range x.W.Store.Counts {
		res.Stats["rows_"+t] = n
	}
	if *tracep != "" {
		f, err := os.Create(*tracep)
		if err != nil {
			fmt.Fprintln(os.Stderr, err)
			os.Exit(2)
		}
		defer f.Close()
		r.trace = f
	}

	histPath, isoPath, histSeed = *histp, *isop, *seed
	switch os.Args[1] {
	case "isolate":
		r.isolate(*reqj, *seed, realStdout)
		return
	case "adhoc":
		var s *spec
		if *lang == "traceql" {
			s = traceSpec(*query, 20, 25_000_000)
		} else {
			s = logSpec(*query)
		}
		r.reexec(s, "A", windowsA())
		r.reexec(s, "B", windowsB())
	case "probe":
		r.probeFields()
	case "xcompare":
		r.xcompare(*casesp)
	case "run":
		r.runAll(*tier, *casesp, !*noTail)
	default:
		fmt.Fprintln(os.Stderr, "unknown command")
		os.Exit(2)
	}
	res.Unsup = x.W.Bridge.Unsupported
	if len(res.Unsup) > 20 {
		res.Unsup = res.Unsup[:20]
	}
	res.WallS = time.Since(t0).Seconds()
	sort.Slice(res.Findings, func(i, j int) bool { return res.Findings[i].Signature < res.Findings[j].Signature })
	b, _ := json.MarshalIndent(res, "", " ")
	if *outp == "" {
		realStdout.Write(b)
	} else if err := os.WriteFile(*outp, b, 0o644); err != nil {
		fmt.Fprintln(os.Stderr, err)
		os.Exit(2)
	}
}

package main

import (
	"fmt"

	traceql_parser "github.com/metrico/qryn/reader/traceql/parser"
	"github.com/metrico/qryn/reader/traceql/transpiler/clickhouse_transpiler"
	sqlsel "github.com/metrico/qryn/reader/utils/sql_select"
)

// portions: one complex TraceQL request (ComplexRequestProcessor: Process once per portion on the same planner
// objects, with the random filter, the cached trace ids and From changing) - the statement of every portion must
// mean what a freshly made plan means for that portion's context.
func (r *runner) portions(s *spec) {
	r.setup(s)
	sub, err := s.Make()
	if err != nil {
		return
	}
	w := windowsA()[0]
	a := sub.process(r.x, w, 1, true)
	r.noteWrites(s, a)
	if a.Err != "" || len(a.SQL) < 2 {
		r.res.Stats["portion_runs_without_portions"]++
		return
	}
	r.planN++
	pid := r.planN
	r.emitTrace(map[string]any{"ev": "New", "p": pid, "lang": s.Lang, "entry": "portions", "q": s.Query})
	for i := 1; i < len(a.SQL); i++ {
		sn := a.Snaps[i]
		fresh := &arm{K: i}
		guard(fresh, func() {
			script, err := traceql_parser.Parse(s.Query)
			if err != nil {
				fresh.Err = "error: " + err.Error()
				return
			}
			pl, err := clickhouse_transpiler.Plan(script)
			if err != nil {
				fresh.Err = "error: " + err.Error()
				return
			}
			ctx := r.x.plannerCtx(window{sn.From, sn.To}, 0, sn.Limit)
			defer ctx.CancelCtx()
			ctx.CHFinalize = false
			ctx.RandomFilter = sn.RandomFilter
			ctx.CachedTraceIds = sn.CachedTraceIds
			sel, err := pl.Process(ctx)
			if err != nil {
				fresh.Err = "error: " + err.Error()
				return
			}
			str, err := sel.String(&sqlsel.Ctx{Params: map[string]sqlsel.SQLObject{}, Result: map[string]sqlsel.SQLObject{}})
			if err != nil {
				fresh.Err = "error: " + err.Error()
				return
			}
			fresh.SQL = []string{str}
		})
		re := &arm{K: i, SQL: []string{a.SQL[i]}}
		v := r.x.compareArms(re, fresh)
		ps := *s
		ps.Entry = "portion"
		var prior []fieldWrite
		if i > 1 {
			prior = a.Writes
		}
		r.report(&ps, "portion", "A", i, window{sn.From, sn.To}, v, re, fresh, &arm{SQL: []string{a.SQL[1]}}, prior,
			fmt.Sprintf("portion %d of %d, %d cached trace ids", sn.RandomFilter.I+1, sn.RandomFilter.Max, len(sn.CachedTraceIds)))
		r.emitTrace(map[string]any{"ev": "Process", "p": pid, "k": i, "writes": []string{}, "same": v.Class != "MEANING" && v.Class != "ERROR", "class": v.Class})
		r.res.Stats["portions_compared"]++
	}
}

package main

import (
	"reflect"

	"verif/harness/chsql"
	"verif/harness/fakech"
)

// (same normalisation as cmd/c13/norm.go)
// normBlock rewrites values the shared store cannot coerce (slices of the writer's tuple structs, as ch-go's
// ColTuple-of-struct columns hand them back) into chsql's value model ([]any of chsql.Tuple). Called from
// e2e.Options.OnDo, i.e. before the block is applied to the store. Nothing else is changed.
func normBlock(b *fakech.Block) error {
	for _, r := range b.Rows {
		for i, v := range r {
			r[i] = normVal(v)
		}
	}
	return nil
}

func normVal(v any) any {
	if v == nil {
		return v
	}
	rv := reflect.ValueOf(v)
	switch rv.Kind() {
	case reflect.Struct:
		if rv.Type().PkgPath() != "github.com/metrico/qryn/writer/model" {
			return v
		}
		t := make(chsql.Tuple, rv.NumField())
		for i := 0; i < rv.NumField(); i++ {
			t[i] = normVal(rv.Field(i).Interface())
		}
		return t
	case reflect.Slice:
		et := rv.Type().Elem()
		if et.Kind() == reflect.Struct && et.PkgPath() == "github.com/metrico/qryn/writer/model" {
			out := make([]any, rv.Len())
			for i := 0; i < rv.Len(); i++ {
				out[i] = normVal(rv.Index(i).Interface())
			}
			return out
		}
	}
	return v
}

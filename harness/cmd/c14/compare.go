package main

import (
	"fmt"
	"sort"
	"strings"

	"verif/harness/chsql"
)

// ---------------------------------------------------------------------------------------------------------------
// Comparing two executions: (0) byte-identical SQL, (i) identical token streams, (ii) identical MEANING on the
// populated store (result rows of the statements, and the entries the chain delivers). Only (ii) is a verdict.
// ---------------------------------------------------------------------------------------------------------------

type arm struct {
	K      int          `json:"k"`
	SQL    []string     `json:"sql"`
	SQLErr []string     `json:"sql_err,omitempty"`
	Out    []string     `json:"out,omitempty"` // what the chain / processor delivered, rendered
	Err    string       `json:"err,omitempty"`
	Snaps  []ctxSnap    `json:"-"`
	Writes []fieldWrite `json:"writes,omitempty"` // planner fields written by this Process call
}

type verdict struct {
	Class     string      `json:"class"` // identical | text_only | benign | MEANING | ERROR | undecided
	TokDiff   string      `json:"tokdiff,omitempty"`
	Detail    string      `json:"detail,omitempty"`
	ResA      []sqlResult `json:"res_reuse,omitempty"`
	ResB      []sqlResult `json:"res_fresh,omitempty"`
	OutOnlyA  []string    `json:"out_only_reuse,omitempty"`
	OutOnlyB  []string    `json:"out_only_fresh,omitempty"`
	DiffStmts []int       `json:"diff_stmts,omitempty"`
}

func tokAbs(t chsql.Token) string {
	switch t.Kind {
	case chsql.TokString:
		return "String"
	case chsql.TokNumber:
		return "Number"
	case chsql.TokIdent, chsql.TokKeyword:
		return strings.ToLower(t.Text)
	}
	return t.Text
}

// tokenDiff returns "" when the token streams are equal; otherwise a position independent description of the
// difference: the bag difference of the non-literal tokens ("-x": only in the fresh plan's statement, "+x": only in
// the re-used plan's statement), or "literals" when only string / number literals differ.
func tokenDiff(reuse, fresh string) (string, error) {
	ta, err := chsql.Lex(reuse)
	if err != nil {
		return "", err
	}
	tb, err := chsql.Lex(fresh)
	if err != nil {
		return "", err
	}
	same := len(ta) == len(tb)
	if same {
		for i := range ta {
			if ta[i].Kind != tb[i].Kind || ta[i].Text != tb[i].Text {
				same = false
				break
			}
		}
	}
	if same {
		return "", nil
	}
	bag := map[string]int{}
	for _, t := range ta {
		if t.Kind != chsql.TokString && t.Kind != chsql.TokNumber {
			bag[stem(tokAbs(t))]++
		}
	}
	for _, t := range tb {
		if t.Kind != chsql.TokString && t.Kind != chsql.TokNumber {
			bag[stem(tokAbs(t))]--
		}
	}
	var parts []string
	for k, n := range bag {
		if n > 0 {
			parts = append(parts, "+"+k)
		} else if n < 0 {
			parts = append(parts, "-"+k)
		}
	}
	if len(parts) == 0 {
		if len(ta) != len(tb) {
			return "literal-count", nil
		}
		return "literals", nil
	}
	sort.Strings(parts)
	if len(parts) > 8 {
		parts = append(parts[:8], "...")
	}
	return strings.Join(parts, " "), nil
}

func stem(s string) string {
	i := len(s)
	for i > 0 && s[i-1] >= '0' && s[i-1] <= '9' {
		i--
	}
	if i < len(s) && i > 0 && s[i-1] == '_' {
		return s[:i] + "N"
	}
	return s
}

func multisetDiff(a, b []string) (onlyA, onlyB []string) {
	m := map[string]int{}
	for _, s := range a {
		m[s]++
	}
	for _, s := range b {
		m[s]--
	}
	var keys []string
	for k := range m {
		keys = append(keys, k)
	}
	sort.Strings(keys)
	for _, k := range keys {
		for i := 0; i < m[k]; i++ {
			onlyA = append(onlyA, k)
		}
		for i := 0; i < -m[k]; i++ {
			onlyB = append(onlyB, k)
		}
	}
	return
}

func sameStrings(a, b []string) bool {
	if len(a) != len(b) {
		return false
	}
	for i := range a {
		if a[i] != b[i] {
			return false
		}
	}
	return true
}

func clipList(l []string, n int) []string {
	if len(l) > n {
		return append(append([]string{}, l[:n]...), fmt.Sprintf("... (%d more)", len(l)-n))
	}
	return l
}

// compareArms judges execution k of a re-used plan (a) against a freshly made plan executed with the same context (b).
func (x *X) compareArms(a, b *arm) verdict {
	if a.Err != b.Err {
		v := verdict{Class: "ERROR", TokDiff: "error", Detail: fmt.Sprintf("re-used plan: %q; fresh plan: %q", a.Err, b.Err)}
		for i := range a.SQL {
			if i < len(b.SQL) && a.SQL[i] != b.SQL[i] {
				if td, err := tokenDiff(a.SQL[i], b.SQL[i]); err == nil && td != "" {
					v.TokDiff = "error:" + td
					break
				}
			}
		}
		return v
	}
	if sameStrings(a.SQL, b.SQL) {
		oa, ob := multisetDiff(a.Out, b.Out)
		if len(oa)+len(ob) > 0 {
			// same statements, different delivery: state outside the SQL (in-process stages)
			return verdict{Class: "MEANING", TokDiff: "out", Detail: "identical SQL, different entries delivered", OutOnlyA: clipList(oa, 8), OutOnlyB: clipList(ob, 8)}
		}
		return verdict{Class: "identical"}
	}
	v := verdict{}
	if len(a.SQL) != len(b.SQL) {
		v.Class = "MEANING"
		v.TokDiff = "stmts"
		v.Detail = fmt.Sprintf("%d statements from the re-used plan, %d from the fresh plan", len(a.SQL), len(b.SQL))
		return v
	}
	textOnly := true
	for i := range a.SQL {
		if a.SQL[i] == b.SQL[i] {
			continue
		}
		td, err := tokenDiff(a.SQL[i], b.SQL[i])
		if err != nil {
			v.Class = "undecided"
			v.Detail = "lexer: " + err.Error()
			return v
		}
		if td == "" {
			continue
		}
		textOnly = false
		if v.TokDiff == "" {
			v.TokDiff = td
		}
		v.DiffStmts = append(v.DiffStmts, i)
	}
	if textOnly {
		v.Class = "text_only"
		return v
	}
	// (ii) meaning on data
	meaning := false
	for _, i := range v.DiffStmts {
		ra, rb := x.runSQL(a.SQL[i]), x.runSQL(b.SQL[i])
		if ra.Unsup || rb.Unsup {
			v.Class = "undecided"
			v.Detail = "chsql cannot run: " + ra.Err + " / " + rb.Err
			return v
		}
		oa, ob := multisetDiff(ra.Rows, rb.Rows)
		if ra.Err != rb.Err || len(oa)+len(ob) > 0 {
			meaning = true
			ra.Rows, rb.Rows = clipList(oa, 8), clipList(ob, 8)
			v.ResA = append(v.ResA, ra)
			v.ResB = append(v.ResB, rb)
			v.Detail = fmt.Sprintf("statement %d: rows only from the re-used plan / only from the fresh plan listed", i)
		}
	}
	oa, ob := multisetDiff(a.Out, b.Out)
	if len(oa)+len(ob) > 0 {
		meaning = true
		v.OutOnlyA, v.OutOnlyB = clipList(oa, 8), clipList(ob, 8)
	}
	if meaning {
		v.Class = "MEANING"
	} else {
		v.Class = "benign"
	}
	return v
}

package main

import (
	"strings"
	"time"

	"github.com/metrico/qryn/reader/logql/logql_transpiler_v2/shared"
)

func (r *runner) allSpecs(tier string) []*spec {
	var specs []*spec
	for _, q := range corpusLogQL {
		specs = append(specs, logSpec(q))
	}
	for _, q := range hostileLogQL {
		specs = append(specs, logSpec(q))
	}
	// the stream-selector planner alone (label values / series endpoints) and the finalised ClickHouse plan
	for i, q := range append(append([]string{}, corpusLogQL...), hostileLogQL...) {
		if i < 13 {
			specs = append(specs, fpSpec(q))
		}
		if tier == "thorough" || i%6 == 0 {
			specs = append(specs, chSpec(q))
		}
	}
	tq := append(append([]string{}, corpusTraceQL...), hostileTraceQL...)
	for i, q := range tq {
		hostile := i >= len(corpusTraceQL)
		specs = append(specs, traceSpec(q, 20, 0))
		if tier == "thorough" || hostile || i%2 == 0 {
			specs = append(specs, traceSpec(q, 20, 25_000_000))
		}
		if tier == "thorough" || hostile || i%2 == 1 {
			specs = append(specs, tracePortionSpec(q))
		}
		if tier == "thorough" || i%4 == 0 {
			specs = append(specs, traceSpec(q, 0, 0), tagsSpec(q))
			for _, key := range []string{".a", "span.x", "resource.a", "name"} {
				specs = append(specs, valuesSpec(q, key))
			}
		}
	}
	for _, q := range corpusProf {
		specs = append(specs, profSpecs(q)...)
	}
	return specs
}

func (r *runner) runAll(tier, casesPath string, tail bool) {
	var specs []*spec
	for i, s := range r.allSpecs(tier) {
		if r.mine(i) {
			specs = append(specs, s)
		}
	}
	r.res.Stats["specs"] = len(specs)
	bases := []struct {
		name string
		wins []window
	}{{"A", windowsA()}, {"B", windowsB()}}
	t0 := time.Now()
	lap := func(name string) {
		r.res.Stats["ms_"+name] = int(time.Since(t0).Milliseconds())
		t0 = time.Now()
	}
	// the canary translations are the very first translations of this process
	r.canary()
	// the neighbour pairs of ReplanHist.tla against the isolated translations
	if histPath != "" && isoPath != "" && r.x.Cluster == "" {
		r.histories(histPath, isoPath, histSeed)
		lap("history")
	}
	// the real Tail next, while the "live" lines are fresh; its statements are compared at the end
	var tails []*tailRun
	if tail {
		tails = r.tailCollect(tier)
		lap("tail")
	}
	// pass 1: re-execution (fresh arms are made first, i.e. "before" everything that follows)
	var ok []*spec
	for _, s := range specs {
		good := false
		for _, b := range bases {
			if b.name == "B" && (s.Lang != "logql" || (tier != "thorough" && r.rng.Intn(3) != 0)) {
				continue
			}
			if r.reexec(s, b.name, b.wins) {
				good = true
			}
		}
		if good {
			ok = append(ok, s)
		}
	}
	r.res.Stats["specs_planned"] = len(ok)
	lap("reexec")
	// pass 2: determinism, in a shuffled order, after every other query has been translated several times
	perm := r.rng.Perm(len(ok))
	n := 2
	if tier == "thorough" {
		n = 8
	}
	for _, i := range perm {
		r.determinism(ok[i], "A", bases[0].wins, n)
	}
	lap("determinism")
	// pass 3: two plans interleaved (neighbours in the shuffled order; every third pair is the same query twice)
	pairs := len(perm)
	if tier != "thorough" {
		pairs = len(perm) / 3
	}
	for j := 0; j < pairs; j++ {
		s1 := ok[perm[j]]
		s2 := ok[perm[(j+1)%len(perm)]]
		if j%3 == 0 {
			s2 = s1
		}
		r.interleave(s1, s2, "A", bases[0].wins)
	}
	lap("interleave")
	// pass 4: portions of complex TraceQL requests against a fresh plan per portion
	for _, s := range ok {
		if strings.HasPrefix(s.Entry, "search_complex") {
			r.portions(s)
		}
	}
	lap("portions")
	if casesPath != "" {
		r.runCases(casesPath)
	}
	if tail {
		r.tailCompare(tails)
		lap("tail_compare")
	}
}

var _ = shared.RandomFilter{}

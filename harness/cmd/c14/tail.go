package main

import (
	"context"
	"regexp"
	"strconv"
	"strings"
	"sync"
	"time"

	"github.com/metrico/qryn/reader/model"
	"github.com/metrico/qryn/reader/service"
)

// ---------------------------------------------------------------------------------------------------------------
// The REAL QueryRangeService.Tail: Transpile once, then every second Process on the same chain with
// From = newest delivered line + 1 ns and To = now. Driven for 3 ticks per query over a session of its own; the
// statement of every tick must mean what a freshly made plan means for the bounds that tick used.
// ---------------------------------------------------------------------------------------------------------------

type tailRegistry struct{ m *model.DataDatabasesMap }

func (t *tailRegistry) GetDB(ctx context.Context) (*model.DataDatabasesMap, error) { return t.m, nil }
func (t *tailRegistry) Run()                                                       {}
func (t *tailRegistry) Stop()                                                      {}
func (t *tailRegistry) Ping() error                                                { return nil }

var reBounds = regexp.MustCompile(`\(samples\.timestamp_ns\) >= \((\d+)\)\) and \(\(samples\.timestamp_ns\) < \((\d+)\)`)

type tailRun struct {
	q     string
	db    *recDB
	ticks int
	err   string
	outs  []string
}

func (r *runner) tailQueries(tier string) []string {
	var qs []string
	all := append(append([]string{}, hostileLogQL...), corpusLogQL...)
	for i, q := range all {
		if !r.mine(i) {
			continue
		}
		p, err := planLog(q)
		if err != nil || p.Chain[0].IsMatrix() {
			continue // Tail on a metric query divides by the zero Step in a goroutine of its own: not this property
		}
		qs = append(qs, q)
	}
	max := 48 / r.shards
	if r.shards <= 1 {
		max = 48
	}
	if tier == "thorough" {
		max = len(qs)
	}
	if len(qs) > max {
		// the hostile ones first, then a seeded sample of the rest
		h := max / 2
		head := qs[:h]
		rest := qs[h:]
		r.rng.Shuffle(len(rest), func(i, j int) { rest[i], rest[j] = rest[j], rest[i] })
		qs = append(head, rest[:max-h]...)
	}
	return qs
}

func (r *runner) tailCollect(tier string) []*tailRun {
	qs := r.tailQueries(tier)
	runs := make([]*tailRun, len(qs))
	var wg sync.WaitGroup
	for i, q := range qs {
		db := r.x.newRecDB()
		tr := &tailRun{q: q, db: db}
		runs[i] = tr
		reg := &tailRegistry{m: &model.DataDatabasesMap{Config: r.x.Conn.Config, Session: db}}
		svc := service.NewQueryRangeService(&model.ServiceData{Session: reg})
		wg.Add(1)
		go func() {
			defer wg.Done()
			defer func() {
				if rec := recover(); rec != nil {
					tr.err = "panic"
				}
			}()
			w, err := svc.Tail(context.Background(), q)
			if err != nil {
				tr.err = err.Error()
				return
			}
			defer w.Close()
			deadline := time.After(8 * time.Second)
			for tr.ticks < 3 {
				select {
				case o, ok := <-w.GetRes():
					if !ok {
						if tr.ticks == 0 {
							tr.err = "watcher closed before the first tick"
						}
						return
					}
					tr.ticks++
					tr.outs = append(tr.outs, o.Str)
				case <-deadline:
					tr.err = "timeout"
					return
				}
			}
		}()
	}
	wg.Wait()
	time.Sleep(50 * time.Millisecond)
	return runs
}

func (r *runner) tailCompare(runs []*tailRun) {
	stats := map[string]any{}
	nq, nt, advanced, delivered := 0, 0, 0, 0
	var sample map[string]any
	for _, tr := range runs {
		tr.db.mu.Lock()
		log := append([]stmt(nil), tr.db.log...)
		tr.db.mu.Unlock()
		var sqls []string
		for _, s := range log {
			t := strings.TrimSpace(s.SQL)
			if strings.HasPrefix(t, "SHOW TABLES") || strings.Contains(t, "argMax(name, inserted_at)") {
				continue
			}
			sqls = append(sqls, s.SQL)
		}
		if tr.err != "" && len(sqls) == 0 {
			r.res.Stats["tail_failed"]++
			continue
		}
		nq++
		r.planN++
		pid := r.planN
		r.emitTrace(map[string]any{"ev": "New", "p": pid, "lang": "logql", "entry": "tail", "q": tr.q})
		s := &spec{Lang: "logql", Entry: "tail", Query: tr.q}
		var lastFrom int64
		for k, sq := range sqls {
			if k >= 3 {
				break
			}
			m := reBounds.FindStringSubmatch(sq)
			if m == nil {
				r.res.Stats["tail_bounds_not_found"]++
				continue
			}
			from, _ := strconv.ParseInt(m[1], 10, 64)
			to, _ := strconv.ParseInt(m[2], 10, 64)
			if k > 0 && from > lastFrom {
				advanced++
			}
			lastFrom = from
			w := window{time.Unix(0, from), time.Unix(0, to)}
			p, err := planLog(tr.q)
			if err != nil {
				continue
			}
			fresh := r.x.processLogStep(p, w, k+1, 0)
			fresh.Out = nil
			re := &arm{K: k + 1, SQL: []string{sq}}
			fr := &arm{K: k + 1, SQL: fresh.SQL, Err: ""}
			v := r.x.compareArms(re, fr)
			// the fields written by the first tick are those of the same query's plan in the re-execution pass
			r.report(s, "tail", "now", k+1, w, v, re, fr, &arm{SQL: sqls[:1]}, r.priorOf(tr.q, k), "")
			r.emitTrace(map[string]any{"ev": "Process", "p": pid, "k": k + 1, "writes": []string{}, "same": v.Class != "MEANING" && v.Class != "ERROR", "class": v.Class})
			nt++
			if k < len(tr.outs) && strings.Contains(tr.outs[k], `"values"`) {
				delivered++
			}
			if sample == nil && k == 1 {
				sample = map[string]any{"query": tr.q, "tick": 2, "sql_tail": sq, "sql_fresh": fresh.SQL, "class": v.Class, "output": clip(tr.outs[min(k, len(tr.outs)-1)], 300)}
			}
		}
	}
	stats["queries"] = nq
	stats["ticks_compared"] = nt
	stats["ticks_with_advanced_from"] = advanced
	stats["ticks_that_delivered_lines"] = delivered
	stats["sample"] = sample
	r.res.Tail = stats
	r.res.Stats["tail_queries"] = nq
	r.res.Stats["tail_ticks"] = nt
}

func min(a, b int) int {
	if a < b {
		return a
	}
	return b
}

package main

import (
	"encoding/json"
	"fmt"
	"os"
	"os/exec"
	"sort"
	"sync"
	"time"
)

// ---------------------------------------------------------------------------------------------------------------
// Histories (ReplanHist.tla): the translation of a request is a function of the request alone. TLC enumerates the
// NEIGHBOUR PAIRS <<n, t>> (two requests that differ in exactly one coordinate: stream selector, line filter
// operator, line filter text, day of From, From within the first 30 minutes of its day) and proves that they expose
// every process-level memo whose key leaves out something the remembered part depends on. The driver translates
// n then t in this process (after whatever it translated before) and compares EVERY translation with the
// translation of the same request made first-thing in a process of its own (`c14 isolate`, one child process per
// request). Statements that differ are compared by meaning on the store, like everywhere else in this check.
// Whatever the process remembered from ANY earlier translation shows in these comparisons (the pair only guarantees
// that a remembered part is exposed at the latest by its second request), so the signature names the language and the
// shape of the difference, not the pair.
// A request is concretised on every planning path that renders the coordinate: the LogQL chain, the fingerprint
// (series / label values) planner, and - for a pure selector - the TraceQL tags/values and the profile planners,
// which take only the context coordinates.
// ---------------------------------------------------------------------------------------------------------------

type absReq struct {
	Sel  string `json:"sel"`
	Op   string `json:"op"`
	Text string `json:"text"`
	Ctx  string `json:"ctx"`
}

type absPair struct {
	N       absReq `json:"n"`
	T       absReq `json:"t"`
	Differs string `json:"differs"`
}

type isoOut struct {
	SQL []string `json:"sql"`
	Err string   `json:"err,omitempty"`
}

var histSel = map[string]string{"s1": `{a="b"}`, "s2": `{c="d"}`}

// the context classes around day D = the day of base B (the store has lines on D-1 and on D from 00:29 on; one
// stream stopped writing on D-1)
func histWindow(c string) window {
	switch c {
	case "early":
		return window{baseB, baseB.Add(300 * time.Second)} // From 00:29:00
	case "late":
		return window{baseB.Add(90 * time.Second), baseB.Add(302 * time.Second)} // From 00:30:30
	case "prev":
		return windowsA()[0]
	default:
		return window{baseA.Add(48 * time.Hour), baseA.Add(48*time.Hour + 300*time.Second)}
	}
}

func histSpecs(q absReq, seed int64) []*spec {
	sel := histSel[q.Sel]
	if q.Op != "none" {
		pool := textPool[q.Text]
		if q.Text == "lit" {
			pool = append(append([]string{}, textPool["lit"]...), textPool["esc"]...)
		}
		t := pool[int(seed%int64(len(pool))+int64(len(pool)))%len(pool)]
		return []*spec{logSpec(fmt.Sprintf(`%s %s "%s"`, sel, q.Op, t))}
	}
	out := []*spec{logSpec(sel), fpSpec(sel), logSpec(fmt.Sprintf(`sum by (a) (rate(%s[1m]))`, sel))}
	i := 0
	if q.Sel == "s2" {
		i = 1
	}
	tq := corpusTraceQL[i%len(corpusTraceQL)]
	out = append(out, tagsSpec(tq), valuesSpec(tq, ".a"))
	out = append(out, profSpecs(corpusProf[i%len(corpusProf)])...)
	return out
}

func reqKey(q absReq) string { return q.Sel + " " + q.Op + " " + q.Text + " " + q.Ctx }

// translate: a new plan object per spec of the request, one Process call, nothing executed
func (r *runner) histTranslate(q absReq, seed int64) map[string]isoOut {
	out := map[string]isoOut{}
	w := histWindow(q.Ctx)
	for _, s := range histSpecs(q, seed) {
		sub, err := s.Make()
		if err != nil {
			out[s.id()] = isoOut{Err: "plan: " + err.Error()}
			continue
		}
		r.x.forceComplexity(0)
		r.x.DB.dry = true
		a := sub.process(r.x, w, 1, false)
		r.x.DB.dry = false
		out[s.id()] = isoOut{SQL: a.SQL, Err: a.Err}
	}
	return out
}

func loadPairs(path string) []absPair {
	raw, err := os.ReadFile(path)
	if err != nil {
		fmt.Fprintln(os.Stderr, "hist:", err)
		os.Exit(2)
	}
	var pairs []absPair
	if err := json.Unmarshal(raw, &pairs); err != nil {
		fmt.Fprintln(os.Stderr, "hist:", err)
		os.Exit(2)
	}
	return pairs
}

// isolate: the request given as JSON, translated as the very first translation of this process
func (r *runner) isolate(reqJSON string, seed int64, realStdout *os.File) {
	var q absReq
	if err := json.Unmarshal([]byte(reqJSON), &q); err != nil {
		fmt.Fprintln(os.Stderr, "isolate:", err)
		os.Exit(2)
	}
	b, _ := json.Marshal(r.histTranslate(q, seed))
	realStdout.Write(b)
}

// isolateAll: one child process per distinct request of the pairs; the result file maps request -> spec id -> SQL
func isolateAll(histPath, outPath string, seed int64) {
	pairs := loadPairs(histPath)
	reqs := map[string]absReq{}
	for _, p := range pairs {
		reqs[reqKey(p.N)] = p.N
		reqs[reqKey(p.T)] = p.T
	}
	keys := make([]string, 0, len(reqs))
	for k := range reqs {
		keys = append(keys, k)
	}
	sort.Strings(keys)
	self, err := os.Executable()
	if err != nil {
		fmt.Fprintln(os.Stderr, "isolate-all:", err)
		os.Exit(2)
	}
	res := map[string]map[string]isoOut{}
	var mu sync.Mutex
	var firstErr error
	sem := make(chan struct{}, 8)
	var wg sync.WaitGroup
	for _, k := range keys {
		wg.Add(1)
		sem <- struct{}{}
		go func(k string) {
			defer wg.Done()
			defer func() { <-sem }()
			rj, _ := json.Marshal(reqs[k])
			cmd := exec.Command(self, "isolate", "-seed", fmt.Sprint(seed), "-req", string(rj))
			cmd.Env = os.Environ()
			out, err := cmd.Output()
			var m map[string]isoOut
			if err == nil {
				err = json.Unmarshal(out, &m)
			}
			mu.Lock()
			defer mu.Unlock()
			if err != nil {
				if firstErr == nil {
					firstErr = fmt.Errorf("isolate %s: %v", k, err)
				}
				return
			}
			res[k] = m
		}(k)
	}
	wg.Wait()
	if firstErr != nil {
		fmt.Fprintln(os.Stderr, firstErr)
		os.Exit(2)
	}
	b, _ := json.Marshal(res)
	if err := os.WriteFile(outPath, b, 0o644); err != nil {
		fmt.Fprintln(os.Stderr, err)
		os.Exit(2)
	}
}

// histories: the pairs of this shard, in a seeded order
func (r *runner) histories(histPath, isoPath string, seed int64) {
	pairs := loadPairs(histPath)
	raw, err := os.ReadFile(isoPath)
	if err != nil {
		fmt.Fprintln(os.Stderr, "hist:", err)
		os.Exit(2)
	}
	iso := map[string]map[string]isoOut{}
	if err := json.Unmarshal(raw, &iso); err != nil {
		fmt.Fprintln(os.Stderr, "hist:", err)
		os.Exit(2)
	}
	sort.Slice(pairs, func(i, j int) bool {
		return reqKey(pairs[i].N)+"|"+reqKey(pairs[i].T) < reqKey(pairs[j].N)+"|"+reqKey(pairs[j].T)
	})
	var mine []absPair
	for i, p := range pairs {
		if r.mine(i) {
			mine = append(mine, p)
		}
	}
	r.rng.Shuffle(len(mine), func(i, j int) { mine[i], mine[j] = mine[j], mine[i] })
	specOf := func(q absReq, id string) *spec {
		for _, s := range histSpecs(q, seed) {
			if s.id() == id {
				return s
			}
		}
		return &spec{Lang: "?", Entry: "?", Query: id}
	}
	for _, p := range mine {
		r.res.Stats["history_pairs"]++
		for pos, q := range []absReq{p.N, p.T} {
			got := r.histTranslate(q, seed)
			ref := iso[reqKey(q)]
			if ref == nil {
				fmt.Fprintln(os.Stderr, "hist: no isolated translation of", reqKey(q))
				os.Exit(2)
			}
			ids := make([]string, 0, len(got))
			for id := range got {
				ids = append(ids, id)
			}
			sort.Strings(ids)
			for _, id := range ids {
				g, ok := got[id], true
				f, ok := ref[id]
				if !ok {
					fmt.Fprintln(os.Stderr, "hist: no isolated translation of", reqKey(q), id)
					os.Exit(2)
				}
				r.res.Stats["history_translations"]++
				if len(g.SQL) > 0 {
					r.res.Stats["history_statements"]++
				}
				a, b := &arm{K: 1, SQL: g.SQL, Err: g.Err}, &arm{K: 1, SQL: f.SQL, Err: f.Err}
				v := r.x.compareArms(a, b)
				s := specOf(q, id)
				r.count(s.Lang, "history", v.Class)
				if v.Class == "identical" || v.Class == "text_only" {
					continue
				}
				w := histWindow(q.Ctx)
				other := p.T
				if pos == 1 {
					other = p.N
				}
				fd := finding{Lang: s.Lang, Entry: s.Entry, Query: s.Query, Mode: "history", Base: q.Ctx, K: pos + 1, Verdict: v,
					From: fmtT(w.From), To: fmtT(w.To), SQLReuse: g.SQL, SQLFresh: f.SQL, Cluster: r.x.Cluster,
					Case: fmt.Sprintf("request [%s] translated as number %d of the neighbour pair <<[%s], [%s]>> (they differ in %s; other request: [%s]) "+
						"against the same request translated first-thing in a process of its own", reqKey(q), pos+1, reqKey(p.N), reqKey(p.T), p.Differs, reqKey(other)),
					Signature: fmt.Sprintf("history-dependent|%s|%s", s.Lang, v.TokDiff)}
				switch v.Class {
				case "MEANING", "ERROR":
					r.res.Findings = append(r.res.Findings, fd)
				case "benign":
					key := "benign_kept/history/" + s.Lang + "/" + v.TokDiff
					if r.keep[key] < 2 && len(r.res.Benign) < 60 {
						r.keep[key]++
						r.res.Benign = append(r.res.Benign, fd)
					}
				default:
					r.res.Undecided = append(r.res.Undecided, fd)
				}
			}
		}
	}
}

package main

import (
	"bytes"
	"context"
	"database/sql"
	"database/sql/driver"
	"encoding/json"
	"errors"
	"fmt"
	"sort"
	"strings"
	"sync"
	"time"

	pprof "github.com/google/pprof/profile"
	"github.com/metrico/qryn/reader/logql/logql_transpiler_v2/shared"
	"github.com/metrico/qryn/reader/model"
	"github.com/metrico/qryn/reader/utils/dbVersion"
	sqlsel "github.com/metrico/qryn/reader/utils/sql_select"
	"github.com/metrico/qryn/reader/utils/tables"
	"verif/harness/chsql"
	"verif/harness/e2e"
	"verif/harness/fakesql"
)

// ---------------------------------------------------------------------------------------------------------------
// The world: the REAL writer routes fill a chsql store (real DDL + materialized views); the REAL planners are
// driven with a database session that executes their SQL on that store and records every statement together
// with a snapshot of the planner context at the moment of the call.
// ---------------------------------------------------------------------------------------------------------------

// Base instants. A: mid-day; B: the three From values straddle 00:30 UTC, where FormatFromDate(From) (= date of
// From - 30 min) changes from one day to the next.
var (
	baseA = time.Date(2023, 11, 15, 10, 0, 0, 0, time.UTC)
	baseB = time.Date(2023, 11, 16, 0, 29, 0, 0, time.UTC)
)

// window k (1-based) of a base: From advances, To advances (as in Tail: From follows the newest line, To = now).
type window struct{ From, To time.Time }

func windowsA() []window {
	return []window{
		{baseA, baseA.Add(300 * time.Second)},
		{baseA.Add(100 * time.Second), baseA.Add(301 * time.Second)},
		{baseA.Add(200 * time.Second), baseA.Add(302 * time.Second)},
	}
}

func windowsB() []window {
	return []window{
		{baseB, baseB.Add(300 * time.Second)},
		{baseB.Add(59 * time.Second), baseB.Add(301 * time.Second)},
		{baseB.Add(90 * time.Second), baseB.Add(302 * time.Second)},
	}
}

// offsets (ms from the base) at which every line of every stream is stored: each window has samples that only it
// contains, so a stale time bound changes the result
var offsetsMs = []int64{10_000, 150_000, 250_000, 300_200, 301_500}

type stmt struct {
	SQL  string
	Err  error
	Snap ctxSnap
}

type ctxSnap struct {
	From, To       time.Time
	RandomFilter   shared.RandomFilter
	CachedTraceIds []string
	Limit          int64
}

// recDB is the model.ISqlxDB handed to the planners.
type recDB struct {
	name  string
	inner *fakesql.DB
	mu    sync.Mutex
	log   []stmt
	// ctx is the planner context of the Process call in flight (snapshotted per statement)
	ctx *shared.PlannerContext
	// forced answer for the n-th (0-based) statement of the Process call in flight: complexity estimate
	forceAt    int
	forceVal   int64
	forceDB    *fakesql.DB
	nInProcess int
	// dry: nothing is executed, every statement answers no rows
	dry   bool
	dryDB *fakesql.DB
}

func (d *recDB) GetName() string { return d.name }
func (d *recDB) QueryCtx(ctx context.Context, q string, args ...any) (*sql.Rows, error) {
	d.mu.Lock()
	s := stmt{SQL: q}
	if d.ctx != nil {
		s.Snap = ctxSnap{From: d.ctx.From, To: d.ctx.To, RandomFilter: d.ctx.RandomFilter,
			CachedTraceIds: append([]string(nil), d.ctx.CachedTraceIds...), Limit: d.ctx.Limit}
	}
	n := d.nInProcess
	d.nInProcess++
	force := d.forceDB != nil && n == d.forceAt
	d.mu.Unlock()
	var rows *sql.Rows
	var err error
	execMu.Lock()
	defer execMu.Unlock()
	if force {
		rows, err = d.forceDB.QueryCtx(ctx, q, args...)
	} else if d.dry {
		rows, err = d.dryDB.QueryCtx(ctx, q, args...)
	} else {
		rows, err = d.inner.QueryCtx(ctx, q, args...)
	}
	s.Err = err
	d.mu.Lock()
	d.log = append(d.log, s)
	d.mu.Unlock()
	return rows, err
}
func (d *recDB) ExecCtx(ctx context.Context, q string, args ...any) error { return nil }
func (d *recDB) Conn(ctx context.Context) (*sql.Conn, error)              { return d.inner.Conn(ctx) }
func (d *recDB) Begin() (*sql.Tx, error)                                  { return nil, fmt.Errorf("no tx") }
func (d *recDB) Close()                                                   {}
func (d *recDB) begin(ctx *shared.PlannerContext) {
	d.mu.Lock()
	d.ctx = ctx
	d.nInProcess = 0
	d.log = nil
	d.mu.Unlock()
}
func (d *recDB) end() []stmt {
	d.mu.Lock()
	defer d.mu.Unlock()
	r := d.log
	d.log = nil
	d.ctx = nil
	return r
}

// chsql executions are serialised (several Tail goroutines share the store)
var execMu sync.Mutex

type X struct {
	W       *e2e.World
	Cluster string
	DB      *recDB
	Conn    *model.DataDatabasesMap
	Ver     dbVersion.VersionInfo
	Now     time.Time // base of the "live" data used by the real Tail
	nDB     int
}

func newX(cluster string) (*X, error) {
	w, err := e2e.New(e2e.Options{Cluster: cluster, OnDo: normBlock})
	if err != nil {
		return nil, err
	}
	x := &X{W: w, Cluster: cluster}
	x.DB = x.newRecDB()
	reg := w.SQL.Registry(cluster)
	conn, _ := reg.GetDB(context.Background())
	x.Conn = &model.DataDatabasesMap{Config: conn.Config, Session: x.DB}
	ver, err := dbVersion.GetVersionInfo(context.Background(), cluster != "", x.DB)
	if err != nil {
		return nil, err
	}
	x.Ver = ver
	x.DB.end()
	return x, nil
}

func (x *X) newRecDB() *recDB {
	x.nDB++
	name := fmt.Sprintf("c14-%s-%d-%d", x.Cluster, time.Now().UnixNano(), x.nDB)
	inner := fakesql.New(name, x.W.Bridge.Handler())
	dry := fakesql.New(name+"-dry", func(ctx context.Context, q string, args []driver.NamedValue) (*fakesql.Answer, error) {
		return &fakesql.Answer{Cols: []string{"c"}, ErrAt: -1}, nil
	})
	return &recDB{name: name, inner: inner, dryDB: dry}
}

// forceComplexity makes the first statement of every following Process call (the complexity estimate of the
// TraceQL evaluator) answer `v`.
func (x *X) forceComplexity(v int64) {
	if v == 0 {
		x.DB.forceDB = nil
		return
	}
	x.DB.forceAt = 0
	x.DB.forceVal = v
	x.nDB++
	x.DB.forceDB = fakesql.New(fmt.Sprintf("c14-force-%d-%d", time.Now().UnixNano(), x.nDB), func(ctx context.Context, q string, args []driver.NamedValue) (*fakesql.Answer, error) {
		return &fakesql.Answer{Cols: []string{"c"}, Rows: [][]driver.Value{{v}}, ErrAt: -1}, nil
	})
}

func (x *X) Close() { x.W.Close() }

// plannerCtx builds the context exactly as QueryRangeService.Tail does (plus Step/Limit for the other entry points).
func (x *X) plannerCtx(w window, step time.Duration, limit int64) *shared.PlannerContext {
	cctx, cancel := context.WithCancel(context.Background())
	return tables.PopulateTableNames(&shared.PlannerContext{
		IsCluster:  x.Cluster != "",
		From:       w.From,
		To:         w.To,
		OrderASC:   false,
		Limit:      limit,
		Ctx:        cctx,
		CHDb:       x.DB,
		CHFinalize: true,
		CHSqlCtx: &sqlsel.Ctx{
			Params: map[string]sqlsel.SQLObject{},
			Result: map[string]sqlsel.SQLObject{},
		},
		CancelCtx:   cancel,
		VersionInfo: x.Ver,
		Step:        step,
	}, x.Conn)
}

// ---------------------------------------------------------------------------------------------------------------
// data
// ---------------------------------------------------------------------------------------------------------------

var logStreams = []map[string]string{
	{"a": "b", "c": "d", "e": "f"},
	{"a": "b", "c": "0.5", "freq": "4"},
	{"a": "b", "c": "12", "x": "3"},
	{"a": "bb", "c": "e"},
	{"a": "b1", "c": "d", "g": "h"},
	{"a": `it's \ "q"`, "c": "d"},
}

var logLines = []string{
	// the first lines are also stored in the sparse streams and around base B
	"x", "plain", "PLAIN", "a.b", "axb", `{"y":"1","c":"d","x":3,"f":2.5}`, `y=1 c=d x=3`, "x23", "(?i)ab", "ab", "AB", "A.B", "[x]", "x.y",
	"x1", "Plain text", "a-b", "a|b", `100%_done\`, "100%", "100x_done", "it's", "x'", "'", "tab\there", "z99", "2x", "12345",
	`{"y":{"z":"w"},"w":[7],"x":"598"}`, `{"y":"2","x":1}`, `y="two words" x=7`, "12 abc", "a+b", `a\.b`, "a\\", "a_b", "a%b", "a$",
	"^x", "été", "ÉTÉ",
}

// lokiPush stores every line at every offset in the first `full` streams and the first 6 lines in the others; it
// returns the number of samples.
func lokiPush(w *e2e.World, streams []map[string]string, full int, lines []string, base time.Time, offs []int64) (int, error) {
	n := 0
	type pstream struct {
		Stream map[string]string `json:"stream"`
		Values [][2]string       `json:"values"`
	}
	var body struct {
		Streams []pstream `json:"streams"`
	}
	for si, s := range streams {
		ps := pstream{Stream: s}
		for oi, o := range offs {
			for li, l := range lines {
				if si >= full && li >= 6 {
					break
				}
				n++
				ts := base.UnixNano() + o*1e6 + int64(li)*1_000_003 + int64(si)*17 + int64(oi)
				ps.Values = append(ps.Values, [2]string{fmt.Sprint(ts), l})
			}
		}
		body.Streams = append(body.Streams, ps)
	}
	raw, _ := json.Marshal(body)
	code, resp := w.Push("POST", "/loki/api/v1/push", "application/json", raw, nil)
	if code/100 != 2 {
		return 0, fmt.Errorf("loki push: %d %s", code, resp)
	}
	return n, nil
}

type spanSpec struct {
	trace, id string
	offMs     int64
	durUs     int64
	name, svc string
	tags      map[string]string
}

func spanSpecs() []spanSpec {
	var out []spanSpec
	n := 0
	add := func(tr int, offMs int64, durUs int64, name, svc string, tags map[string]string) {
		n++
		out = append(out, spanSpec{fmt.Sprintf("%032x", 0xa000+tr), fmt.Sprintf("%016x", 0xb000+n), offMs, durUs, name, svc, tags})
	}
	// traces spread over the windows; attributes chosen so that every corpus query selects something and rejects something
	for i, off := range []int64{10_000, 70_000, 150_000, 250_000, 300_200, 301_500} {
		t := i * 10
		add(t+1, off, 2_000_000, "op", "svc", map[string]string{"a": "b", "c": "d", "n": "12", "x": "3", "span.x": "50", "f": "11"})
		add(t+1, off+5, 500_000, "op2", "svc", map[string]string{"a": "b", "c": "e", "n": "5", "x": "7", "span.x": "70"})
		add(t+2, off+10, 3_000_000, "op", "svc2", map[string]string{"a": "bo", "e": "f", "n": "3", "x": "1", "span.x": "900", "g": "i"})
		add(t+3, off+20, 100, "other", "svc", map[string]string{"a": "it's", "c": "d", "e": "f", "n": "10.5", "x": "x"})
		add(t+4, off+30, 90_000_000, "long", "svc3", map[string]string{"a": "b1", "g": "h", "n": "-4", "x": "2.5", "span.x": "1"})
		add(t+4, off+31, 1_500_000, "op", "svc3", map[string]string{"a": "adm", "f": "20", "x": "4", "span.x": "2"})
	}
	return out
}

func spansPush(w *e2e.World, base time.Time) error {
	var items []string
	for _, s := range spanSpecs() {
		tg, _ := json.Marshal(s.tags)
		items = append(items, fmt.Sprintf(`{"traceId":"%s","id":"%s","timestamp":%d,"duration":%d,"name":%q,"localEndpoint":{"serviceName":%q},"tags":%s}`,
			s.trace, s.id, (base.UnixNano()+s.offMs*1e6)/1000, s.durUs, s.name, s.svc, tg))
	}
	code, resp := w.Push("POST", "/tempo/spans", "application/json", []byte("["+strings.Join(items, ",")+"]"), nil)
	if code/100 != 2 {
		return fmt.Errorf("span push: %d %s", code, resp)
	}
	return nil
}

func pprofBytes(tsNs int64, v int64) []byte {
	fn := &pprof.Function{ID: 1, Name: "main.work", SystemName: "main.work", Filename: "main.go"}
	fn2 := &pprof.Function{ID: 2, Name: "main.main", SystemName: "main.main", Filename: "main.go"}
	loc := &pprof.Location{ID: 1, Address: 0x1000, Line: []pprof.Line{{Function: fn, Line: 10}}}
	loc2 := &pprof.Location{ID: 2, Address: 0x2000, Line: []pprof.Line{{Function: fn2, Line: 20}}}
	p := &pprof.Profile{
		SampleType:    []*pprof.ValueType{{Type: "cpu", Unit: "nanoseconds"}},
		PeriodType:    &pprof.ValueType{Type: "cpu", Unit: "nanoseconds"},
		Period:        10000000,
		TimeNanos:     tsNs,
		DurationNanos: 1000000000,
		Function:      []*pprof.Function{fn, fn2},
		Location:      []*pprof.Location{loc, loc2},
		Sample:        []*pprof.Sample{{Location: []*pprof.Location{loc, loc2}, Value: []int64{v}}, {Location: []*pprof.Location{loc2}, Value: []int64{v * 2}}},
	}
	var b bytes.Buffer
	if err := p.Write(&b); err != nil {
		panic(err)
	}
	return b.Bytes()
}

var profSeries = []string{
	"svc%7Bpod%3Dp-1%2Cregion%3Deu-1%7D",
	"svc%7Bpod%3Dp-2%2Cregion%3Dus-1%7D",
	"svc2%7Bpod%3Dp%7D",
	"other%7Bpod%3Dq%2Cregion%3Deu-2%7D",
}

func profPush(w *e2e.World, base time.Time) error {
	for si, name := range profSeries {
		for oi, off := range []int64{10_000, 150_000, 250_000, 300_200, 301_500} {
			ns := base.UnixNano() + off*1e6
			code, resp := w.Push("POST", fmt.Sprintf("/ingest?name=%s&from=%d&until=%d", name, ns/1e9, ns/1e9+1), "binary/octet-stream",
				pprofBytes(ns, int64(100+si*10+oi)), nil)
			if code/100 != 2 {
				return fmt.Errorf("profile push %s: %d %s %v", name, code, resp, w.StoreErr)
			}
		}
	}
	return nil
}

// populate pushes everything through the real writer and waits until the store has it.
func (x *X) populate(live bool) error {
	w := x.W
	want := map[string]int{}
	for i, b := range []time.Time{baseA, baseB} {
		lines := logLines
		if i == 1 {
			lines = logLines[:14]
		}
		n, err := lokiPush(w, logStreams, 3, lines, b, offsetsMs)
		if err != nil {
			return err
		}
		want["samples_v3"] += n
	}
	// the day before base B, so that the series exist on both days (as they would with a continuously writing agent)
	n, err := lokiPush(w, logStreams, 3, logLines[:3], baseB.Add(-40*time.Minute), []int64{0})
	if err != nil {
		return err
	}
	want["samples_v3"] += n
	// a stream that stopped writing on the day of base A: its series rows exist on that day only, so the date bound of
	// the series index sub-selects decides whether a request on the next day sees it
	n, err = lokiPush(w, []map[string]string{{"a": "b", "c": "d", "gone": "1"}}, 1, logLines[:6], baseA, offsetsMs[:2])
	if err != nil {
		return err
	}
	want["samples_v3"] += n
	if err := spansPush(w, baseA); err != nil {
		return err
	}
	want["tempo_traces"] += len(spanSpecs())
	if err := profPush(w, baseA); err != nil {
		return err
	}
	want["profiles_input"] += len(profSeries) * 5
	if live {
		x.Now = time.Now()
		// lines from 4 minutes ago up to 6 seconds into the future: every tick of Tail sees new ones
		var offs []int64
		for _, o := range []int64{-240_000, -60_000, -2_000, 500, 1_200, 1_900, 2_600, 3_300, 4_000, 4_700, 5_400} {
			offs = append(offs, o)
		}
		n, err := lokiPush(w, logStreams, 2, logLines[:14], x.Now, offs)
		if err != nil {
			return err
		}
		want["samples_v3"] += n
	}
	deadline := time.Now().Add(20 * time.Second)
	for {
		w.Settle()
		ok := true
		for t, n := range want {
			if w.Store.Counts[t] < n {
				ok = false
			}
		}
		if ok {
			break
		}
		if time.Now().After(deadline) {
			return fmt.Errorf("writer did not flush within 20s: have %v want %v; store errors %v", w.Store.Counts, want, w.StoreErr)
		}
	}
	if len(w.StoreErr) > 0 {
		return fmt.Errorf("store errors: %v", w.StoreErr)
	}
	return nil
}

// ---------------------------------------------------------------------------------------------------------------
// running a statement on the store and canonicalising the result
// ---------------------------------------------------------------------------------------------------------------

type sqlResult struct {
	Err   string   `json:"err,omitempty"`
	Unsup bool     `json:"unsupported,omitempty"`
	Cols  []string `json:"cols,omitempty"`
	Rows  []string `json:"rows,omitempty"` // canonical text per row, in result order
}

func canonVal(v any) string {
	switch t := v.(type) {
	case *chsql.Map:
		type kv struct{ k, v string }
		var kvs []kv
		for i, k := range t.Keys {
			kvs = append(kvs, kv{canonVal(k), canonVal(t.Vals[i])})
		}
		sort.Slice(kvs, func(i, j int) bool { return kvs[i].k < kvs[j].k })
		var b strings.Builder
		b.WriteString("{")
		for _, e := range kvs {
			b.WriteString(e.k + ":" + e.v + ",")
		}
		b.WriteString("}")
		return b.String()
	case []any:
		var p []string
		for _, e := range t {
			p = append(p, canonVal(e))
		}
		return "[" + strings.Join(p, ",") + "]"
	case chsql.Tuple:
		var p []string
		for _, e := range t {
			p = append(p, canonVal(e))
		}
		return "(" + strings.Join(p, ",") + ")"
	case string:
		return fmt.Sprintf("%q", t)
	case float64:
		return fmt.Sprintf("%.9g", t)
	}
	return fmt.Sprintf("%v", v)
}

func (x *X) runSQL(q string) sqlResult {
	res, err := x.W.Store.DB.Query(q)
	if err != nil {
		return sqlResult{Err: err.Error(), Unsup: isUnsupported(err)}
	}
	out := sqlResult{Cols: res.Cols}
	for _, r := range res.Rows {
		var p []string
		for _, v := range r {
			p = append(p, canonVal(v))
		}
		out.Rows = append(out.Rows, strings.Join(p, " | "))
	}
	return out
}

func isUnsupported(err error) bool { return errors.Is(err, chsql.ErrUnsupported) }

// c12: no query can crash, hang or leak work on the read side (property C12).
//
//	c12 schema                      {endpoint: {param: [classes]}} + query classes + database fault classes
//	c12 run -cases cases.json -out r.json -seed N [-random M]
//	    every case (endpoint, query class, param, param class, db fault) enumerated by TLC + M seeded random/mutated
//	    query strings per endpoint is sent to the REAL reader router (over fakesql/chsql with preloaded data and
//	    scripted database faults) in a CHILD process; verdicts: HTTP response within the time limit, child alive,
//	    every goroutine started for the request gone afterwards (goroutine census in reader code).
//	c12 serve                       (internal) the child
package main

import (
	"bufio"
	"bytes"
	"context"
	"database/sql/driver"
	"encoding/json"
	"flag"
	"fmt"
	"io"
	"math/rand"
	"net/http"
	"net/http/httptest"
	"net/url"
	"os"
	"os/exec"
	"regexp"
	"runtime"
	"sort"
	"strings"
	"strconv"
	"sync"
	"sync/atomic"
	"syscall"
	"time"

	"github.com/google/pprof/profile"

	"verif/harness/e2e"
	"verif/harness/fakesql"
)

type Req struct {
	ID       int    `json:"id"`
	Label    string `json:"label"`
	Method   string `json:"method"`
	URL      string `json:"url"`
	Fault    string `json:"fault"`     // none | query_err | row_err_first | row_err_mid | slow_rows
	AbortMs  int    `json:"abort_ms"`  // > 0: the client goes away after that many ms
	Settle   bool   `json:"settle"`    // census request
	TimeoutS int    `json:"timeout_s"` // per request limit
	Body     string `json:"body,omitempty"`
	CT       string `json:"ct,omitempty"`
}

type Resp struct {
	ID       int      `json:"id"`
	Code     int      `json:"code"`
	Ms       int64    `json:"ms"`
	Timeout  bool     `json:"timeout"`
	Spinning []string `json:"spinning,omitempty"`
	Left     []string `json:"left,omitempty"` // goroutines in reader code still alive after the request
	Body     string   `json:"body,omitempty"`
	OpenRows int64    `json:"open_rows"`
	Served   int64    `json:"served"`
	Unsup    []string `json:"unsup,omitempty"`
}

var reGo = regexp.MustCompile(`(?m)^goroutine (\d+) \[([^\]]+)\]:\n((?:.+\n)+)`)

type gor struct{ id, state, stack string }

func goroutines() []gor {
	buf := make([]byte, 8<<20)
	n := runtime.Stack(buf, true)
	var res []gor
	for _, m := range reGo.FindAllStringSubmatch(string(buf[:n])+"\n", -1) {
		res = append(res, gor{m[1], m[2], m[3]})
	}
	return res
}

var frameArgs = regexp.MustCompile(`\((0x[0-9a-f]+\??|\.\.\.|[{}, ?])*\)?$`)

// topRepoFrame names the innermost frame of the repository on the stack, without its argument values
func topRepoFrame(stack string) string {
	for _, l := range strings.Split(stack, "\n") {
		if strings.HasPrefix(l, "github.com/metrico/qryn/") {
			f := strings.TrimPrefix(l, "github.com/metrico/qryn/")
			return frameArgs.ReplaceAllString(f, "")
		}
	}
	return ""
}

var permanent = regexp.MustCompile(`InsertServiceV2|numbercache\.NewCache|watchdog\.|StartPushStat|dbVersion\.throttle|c12/main|e2e\.|prometheus/.*\.(run|Run)\b|ActiveQueryTracker`)

const day0 = 1700000000

const manyValues = 30

const pyroType = "process_cpu:cpu:nanoseconds:cpu:nanoseconds"

func preload(w *e2e.World) error {
	var vals []string
	for i := 0; i < 40; i++ {
		vals = append(vals, fmt.Sprintf(`["%d","{\"lvl\":\"info\",\"n\":%d,\"msg\":\"m %d\"}"]`, int64(day0+i)*1e9, i, i))
	}
	body := `{"streams":[{"stream":{"app":"a1","env":"prod"},"values":[` + strings.Join(vals, ",") + `]},` +
		`{"stream":{"app":"a2","env":"dev"},"values":[["` + fmt.Sprint(int64(day0+3)*1e9) + `","plain line x"],["` + fmt.Sprint(int64(day0+9)*1e9) + `","n=5 k=v"]]}]}`
	if c, b := w.Push("POST", "/loki/api/v1/push", "application/json", []byte(body), nil); c != 204 {
		return fmt.Errorf("preload logs: %d %s", c, b)
	}
	// two long streams (several 100-row batches of the getter): big2 all JSON, big with one non-JSON line early on
	for _, app := range []string{"big", "big2"} {
		var bv []string
		for i := 0; i < 350; i++ {
			line := fmt.Sprintf(`{\"lvl\":\"info\",\"n\":%d,\"msg\":\"b %d\"}`, i, i)
			if app == "big" && i == 343 { // the newest lines come first (backward): the 7th row of the result
				line = "this line is not json"
			}
			bv = append(bv, fmt.Sprintf(`["%d","%s"]`, int64(day0)*1e9+int64(i)*200e6, line))
		}
		body = `{"streams":[{"stream":{"app":"` + app + `","env":"load"},"values":[` + strings.Join(bv, ",") + `]}]}`
		if c, b := w.Push("POST", "/loki/api/v1/push", "application/json", []byte(body), nil); c != 204 {
			return fmt.Errorf("preload %s: %d %s", app, c, b)
		}
	}
	// a stream whose lines carry 2600 distinct values of one JSON field: more series than an in-process aggregation accepts
	// (2000) - the stage fails of its own accord while the scan still has batches to deliver
	{
		var bv []string
		for i := 0; i < 2600; i++ {
			bv = append(bv, fmt.Sprintf(`["%d","{\"u\":\"u%d\"}"]`, int64(day0)*1e9+int64(i)*20e6, i))
		}
		body = `{"streams":[{"stream":{"app":"big3","env":"load"},"values":[` + strings.Join(bv, ",") + `]}]}`
		if c, b := w.Push("POST", "/loki/api/v1/push", "application/json", []byte(body), nil); c != 204 {
			return fmt.Errorf("preload big3: %d %s", c, b)
		}
	}
	// metric samples through the Loki values layout with a numeric third element
	var mv []string
	for i := 0; i < 30; i++ {
		mv = append(mv, fmt.Sprintf(`["%d","",%d]`, int64(day0+i*2)*1e9, i))
	}
	body = `{"streams":[{"stream":{"__name__":"m1","job":"j"},"values":[` + strings.Join(mv, ",") + `]}]}`
	if c, b := w.Push("POST", "/loki/api/v1/push", "application/json", []byte(body), nil); c != 204 {
		return fmt.Errorf("preload metrics: %d %s", c, b)
	}
	zip := fmt.Sprintf(`[{"traceId":"0123456789abcdef0123456789abcdef","id":"0123456789abcdef","name":"op","timestamp":%d,"duration":1500,"localEndpoint":{"serviceName":"svc"},"tags":{"k":"v","http.status_code":"200"}},`+
		`{"traceId":"0123456789abcdef0123456789abcdef","id":"1123456789abcdef","parentId":"0123456789abcdef","name":"child","timestamp":%d,"duration":500,"localEndpoint":{"serviceName":"svc"},"tags":{"k":"w"}}]`,
		int64(day0+1)*1e6, int64(day0+2)*1e6)
	if c, b := w.Push("POST", "/tempo/spans", "application/json", []byte(zip), nil); c != 202 {
		return fmt.Errorf("preload traces: %d %s", c, b)
	}
	// 30 single-span traces whose tag `many` has 30 distinct values: more rows than the limit (20) of the limit-bounded
	// Tempo requests, so that "the consumer has what it needs while the producer still has rows" (LimitReached in
	// ReadPipeline.tla) is reached on the list endpoints too
	{
		var sp []string
		for i := 0; i < manyValues; i++ {
			sp = append(sp, fmt.Sprintf(`{"traceId":"%032x","id":"%016x","name":"op%d","timestamp":%d,"duration":%d,"localEndpoint":{"serviceName":"svc2"},"tags":{"many":"v%03d"}}`,
				0xabc000+i, 0xdef000+i, i%3, int64(day0+3+i)*1e6, 1000+i, i))
		}
		if c, b := w.Push("POST", "/tempo/spans", "application/json", []byte("["+strings.Join(sp, ",")+"]"), nil); c != 202 {
			return fmt.Errorf("preload many traces: %d %s", c, b)
		}
	}
	// one CPU profile with two label sets (Pyroscope /ingest, pprof)
	for i, pod := range []string{"p1", "p2"} {
		fn := &profile.Function{ID: 1, Name: "main.f", SystemName: "main.f", Filename: "f.go"}
		fn2 := &profile.Function{ID: 2, Name: "main.g", SystemName: "main.g", Filename: "g.go"}
		loc := &profile.Location{ID: 1, Line: []profile.Line{{Function: fn, Line: 1}}}
		loc2 := &profile.Location{ID: 2, Line: []profile.Line{{Function: fn2, Line: 2}}}
		pp := &profile.Profile{SampleType: []*profile.ValueType{{Type: "cpu", Unit: "nanoseconds"}}, PeriodType: &profile.ValueType{Type: "cpu", Unit: "nanoseconds"}, Period: 1,
			Sample:   []*profile.Sample{{Location: []*profile.Location{loc2, loc}, Value: []int64{10 + int64(i)}}, {Location: []*profile.Location{loc}, Value: []int64{5}}},
			Location: []*profile.Location{loc, loc2}, Function: []*profile.Function{fn, fn2}, TimeNanos: int64(day0+5) * 1e9, DurationNanos: 1e9}
		var pb bytes.Buffer
		pp.Write(&pb)
		path := fmt.Sprintf("/ingest?name=c12svc%%7Bpod%%3D%s%%7D&from=%d&until=%d", pod, day0+5, day0+15)
		if c, b := w.Push("POST", path, "binary/octet-stream", pb.Bytes(), nil); c >= 300 {
			return fmt.Errorf("preload profile: %d %s", c, b)
		}
	}
	return nil
}

// goneWriter fails every Write once the request context is cancelled (what net/http does when the peer closed)
type goneWriter struct {
	http.ResponseWriter
	ctx context.Context
}

func (g *goneWriter) Write(b []byte) (int, error) {
	if g.ctx.Err() != nil {
		return 0, syscall.EPIPE
	}
	return g.ResponseWriter.Write(b)
}

func serve() int {
	w, err := e2e.New(e2e.Options{IntervalMs: 2, Attempts: 1})
	if err != nil {
		fmt.Fprintln(os.Stderr, "e2e:", err)
		return 2
	}
	if err := preload(w); err != nil {
		fmt.Fprintln(os.Stderr, err)
		return 2
	}
	// database fault plan wrapped around the chsql handler
	var fault atomic.Value
	fault.Store("none")
	inner := w.SQL.Handler
	w.SQL.Handler = func(ctx context.Context, q string, args []driver.NamedValue) (*fakesql.Answer, error) {
		a, err := inner(ctx, q, args)
		if err != nil || a == nil {
			return a, err
		}
		if fakesql.VersionAnswers(q, nil, nil) != nil {
			return a, nil
		}
		switch fault.Load().(string) {
		case "query_err":
			return nil, fmt.Errorf("code: 241, DB::Exception: Memory limit (total) exceeded")
		case "row_err_first":
			a.ErrAt = 0
			a.Err = fmt.Errorf("code: 210, DB::NetException: connection reset by peer")
		case "row_err_mid":
			a.ErrAt = len(a.Rows) / 2
			a.Err = fmt.Errorf("code: 210, DB::NetException: connection reset by peer")
		case "slow_rows":
			a.RowDelay = 3 * time.Millisecond
		case "endless_rows":
			// the database has far more rows than any limit: the request must stop reading once it has what it needs
			if len(a.Rows) >= 100 {
				a.Cycle = 50000000
			}
		}
		return a, nil
	}
	in := bufio.NewReaderSize(os.Stdin, 16<<20)
	for {
		line, err := in.ReadBytes('\n')
		if len(line) == 0 && err != nil {
			return 0
		}
		var rq Req
		if json.Unmarshal(line, &rq) != nil {
			continue
		}
		rs := Resp{ID: rq.ID}
		if rq.Settle {
			time.Sleep(60 * time.Millisecond)
			for _, g := range goroutines() {
				if f := topRepoFrame(g.stack); f != "" && strings.HasPrefix(f, "reader/") && !permanent.MatchString(g.stack) {
					rs.Left = append(rs.Left, f+" ["+g.state+"]")
				}
			}
			rs.OpenRows = atomic.LoadInt64(&w.SQL.Opened) - atomic.LoadInt64(&w.SQL.Closed)
			rs.Served = atomic.LoadInt64(&w.SQL.Served)
			rb, _ := json.Marshal(rs)
			fmt.Fprintf(os.Stdout, "\n@@RESP@@%s\n", rb)
			continue
		}
		fault.Store(rq.Fault)
		w.Bridge.Unsupported = nil
		ctx, cancel := context.WithCancel(context.Background())
		var rbody io.Reader
		if rq.Body != "" || rq.Method == "POST" {
			rbody = strings.NewReader(rq.Body)
		}
		req, err := http.NewRequestWithContext(ctx, rq.Method, rq.URL, rbody)
		if err == nil && rq.CT != "" {
			req.Header.Set("Content-Type", rq.CT)
		}
		if err != nil {
			rs.Code = -1
			cancel()
			rb, _ := json.Marshal(rs)
			fmt.Fprintf(os.Stdout, "\n@@RESP@@%s\n", rb)
			continue
		}
		req.RequestURI = rq.URL
		rw := httptest.NewRecorder()
		var hw http.ResponseWriter = rw
		if rq.AbortMs > 0 {
			hw = &goneWriter{ResponseWriter: rw, ctx: ctx} // a client that went away: writes fail with EPIPE
		}
		done := make(chan struct{})
		t0 := time.Now()
		panicMsg := ""
		go func() {
			defer func() {
				if r := recover(); r != nil {
					rw.Code = 599
					buf := make([]byte, 1<<16)
					n := runtime.Stack(buf, false)
					panicMsg = fmt.Sprintf("%v\n%s", r, buf[:n])
				}
				close(done)
			}()
			w.Reader.ServeHTTP(hw, req)
		}()
		if rq.AbortMs > 0 {
			go func() {
				time.Sleep(time.Duration(rq.AbortMs) * time.Millisecond)
				cancel()
			}()
		}
		limit := 6 * time.Second
		if rq.TimeoutS > 0 {
			limit = time.Duration(rq.TimeoutS) * time.Second
		}
		select {
		case <-done:
			rs.Code = rw.Code
			b := rw.Body.String()
			if len(b) > 300 {
				b = b[:300]
			}
			rs.Body = b
			if panicMsg != "" {
				rs.Body = panicMsg
			}
		case <-time.After(limit):
			rs.Timeout = true
			a := goroutines()
			time.Sleep(200 * time.Millisecond)
			b := goroutines()
			running := map[string]string{}
			for _, g := range a {
				if (g.state == "running" || g.state == "runnable") && topRepoFrame(g.stack) != "" {
					running[g.id] = topRepoFrame(g.stack)
				}
			}
			for _, g := range b {
				if f, ok := running[g.id]; ok && (g.state == "running" || g.state == "runnable") {
					rs.Spinning = append(rs.Spinning, f)
				}
			}
			for _, g := range b {
				if f := topRepoFrame(g.stack); f != "" && strings.HasPrefix(f, "reader/") && !permanent.MatchString(g.stack) && g.state != "running" && g.state != "runnable" {
					rs.Left = append(rs.Left, f+" ["+g.state+"]")
				}
			}
		}
		cancel()
		fault.Store("none")
		rs.Ms = time.Since(t0).Milliseconds()
		rs.Unsup = w.Bridge.Unsupported
		rb, _ := json.Marshal(rs)
		fmt.Fprintf(os.Stdout, "\n@@RESP@@%s\n", rb)
		if rs.Timeout {
			return 3
		}
	}
}

// ------------------------------------------------------------------ schema

type endpoint struct {
	Name   string
	Path   string
	Params map[string]string // valid values
	Query  string            // name of the query parameter ("" = none)
	Lang   string            // logql | promql | traceql | pyro | none
	Post   bool              // Pyroscope querier: POST with a JSON body made of Params (+ the selector under Query)
}

var start, end = int64(day0 - 10), int64(day0 + 100)

func endpoints() []endpoint {
	s, e := fmt.Sprint(start*1e9), fmt.Sprint(end*1e9)
	ss, es := fmt.Sprint(start), fmt.Sprint(end)
	ms, me := fmt.Sprint(start*1000), fmt.Sprint(end*1000)
	return []endpoint{
		{"loki_query_range", "/loki/api/v1/query_range", map[string]string{"start": s, "end": e, "step": "5", "limit": "100", "direction": "backward"}, "query", "logql", false},
		{"loki_query", "/loki/api/v1/query", map[string]string{"time": e, "limit": "100"}, "query", "logql", false},
		{"loki_labels", "/loki/api/v1/labels", map[string]string{"start": s, "end": e}, "", "none", false},
		{"loki_label_values", "/loki/api/v1/label/app/values", map[string]string{"start": s, "end": e}, "", "none", false},
		{"loki_series", "/loki/api/v1/series", map[string]string{"start": s, "end": e}, "match[]", "logql", false},
		{"prom_query_range", "/api/v1/query_range", map[string]string{"start": ss, "end": es, "step": "15"}, "query", "promql", false},
		{"prom_query", "/api/v1/query", map[string]string{"time": es}, "query", "promql", false},
		{"prom_series", "/api/v1/series", map[string]string{"start": ss, "end": es}, "match[]", "promql", false},
		{"prom_labels", "/api/v1/labels", map[string]string{"start": ss, "end": es}, "", "none", false},
		{"prom_label_values", "/api/v1/label/job/values", map[string]string{"start": ss, "end": es}, "", "none", false},
		{"tempo_trace", "/api/traces/0123456789abcdef0123456789abcdef", map[string]string{"start": ss, "end": es}, "", "none", false},
		{"tempo_search", "/api/search", map[string]string{"start": ss, "end": es, "limit": "20", "minDuration": "1us", "maxDuration": "1h"}, "q", "traceql", false},
		{"tempo_search_tags", "/api/search", map[string]string{"start": ss, "end": es, "limit": "20"}, "tags", "tags", false},
		{"tempo_tags", "/api/search/tags", map[string]string{}, "", "none", false},
		{"tempo_tag_values", "/api/search/tag/k/values", map[string]string{}, "", "none", false},
		{"tempo_v2_tags", "/api/v2/search/tags", map[string]string{"start": ss, "end": es, "q": "{}"}, "", "none", false},
		{"tempo_v2_tag_values", "/api/v2/search/tag/k/values", map[string]string{"start": ss, "end": es, "q": "{}"}, "", "none", false},
		// list endpoints over a tag with more values (30) / more traces than the limit the request carries
		{"tempo_tag_values_many", "/api/search/tag/many/values", map[string]string{"limit": "20"}, "", "none", false},
		{"tempo_v2_tag_values_many", "/api/v2/search/tag/many/values", map[string]string{"start": ss, "end": es, "q": "{}", "limit": "20"}, "", "none", false},
		{"tempo_v2_tag_values_span", "/api/v2/search/tag/span.many/values", map[string]string{"start": ss, "end": es, "limit": "20"}, "", "none", false},
		{"tempo_search_many", "/api/search", map[string]string{"start": ss, "end": es, "limit": "20"}, "q", "traceql_many", false},
		// Pyroscope querier (connect protocol over POST, JSON bodies; times in ms)
		{"pyro_profile_types", "/querier.v1.QuerierService/ProfileTypes", map[string]string{"start": ms, "end": me}, "", "none", true},
		{"pyro_label_names", "/querier.v1.QuerierService/LabelNames", map[string]string{"start": ms, "end": me}, "matchers", "pyro", true},
		{"pyro_label_values", "/querier.v1.QuerierService/LabelValues", map[string]string{"start": ms, "end": me, "name": "pod"}, "matchers", "pyro", true},
		{"pyro_series", "/querier.v1.QuerierService/Series", map[string]string{"start": ms, "end": me}, "matchers", "pyro", true},
		{"pyro_merge_stacktraces", "/querier.v1.QuerierService/SelectMergeStacktraces", map[string]string{"start": ms, "end": me, "profile_typeID": pyroType}, "label_selector", "pyro", true},
		{"pyro_select_series", "/querier.v1.QuerierService/SelectSeries", map[string]string{"start": ms, "end": me, "profile_typeID": pyroType, "step": "15"}, "label_selector", "pyro", true},
		{"pyro_merge_profile", "/querier.v1.QuerierService/SelectMergeProfile", map[string]string{"start": ms, "end": me, "profile_typeID": pyroType}, "label_selector", "pyro", true},
		{"pyro_profile_stats", "/querier.v1.QuerierService/GetProfileStats", map[string]string{}, "", "none", true},
		{"pyro_analyze_query", "/querier.v1.QuerierService/AnalyzeQuery", map[string]string{"start": ms, "end": me}, "query", "pyro", true},
	}
}

var paramClasses = []string{"valid", "absent", "empty", "zero", "negative", "reversed", "huge", "non_numeric", "float", "rfc3339", "batch_multiple", "small"}
var faultClasses = []string{"none", "query_err", "row_err_first", "row_err_mid", "client_abort", "endless_rows", "endless_rows_abort"}

// queries whose result size is bounded by the limit parameter on the reader side (a stage runs in process, so the SQL
// carries no LIMIT): only these may be combined with an endless row source without a client abort
var limitBounded = map[string]bool{"big_json": true, "big_fmt": true, "big_json_err": true, "log_json": true, "log_fmt": true}

var queryClasses = map[string]map[string]string{
	"logql": {
		"log":          `{app="a1"}`,
		"log_filter":   `{app=~"a.*"} |= "m" != "zz" |~ "m \\d"`,
		"log_json":     `{app="a1"} | json | lvl="info" | n > 3`,
		"log_fmt":      `{app="a2"} | logfmt | line_format "{{.n}}"`,
		"big_log":      `{app="big2"}`,
		"big_json":     `{app="big2"} | json`,
		"big_json_err": `{app="big"} | json`,
		"big_fmt":      `{app="big2"} | line_format "{{.msg}}"`,
		"big_metric":   `sum by (app) (count_over_time({app="big2"} | json [10s]))`,
		"big_too_many": `sum by (app) (count_over_time({app="big3"} | json [10s]))`,
		"metric_rate":  `rate({app="a1"}[5s])`,
		"metric_agg":   `sum by (app) (count_over_time({env=~".+"}[10s]))`,
		"metric_unw":   `sum_over_time({app="a1"} | json | unwrap n [10s]) by (app)`,
		"metric_cmp":   `topk(1, sum by (app) (rate({env=~".+"}[5s]))) > 0`,
		"syntax_error": `{app="a1"`,
		"empty_sel":    `{}`,
		"bad_regex":    `{app=~"a(("}`,
		"unsupported":  `quantile_over_time(0.5, {app="a1"} | json | unwrap n [5s])`,
		"huge":         `{app="` + strings.Repeat("x", 200000) + `"}`,
		"empty":        ``,
		"zero_range":   `rate({app="a1"}[0s])`,
	},
	"promql": {
		"sel":          `m1`,
		"rate":         `rate(m1{job="j"}[1m])`,
		"agg":          `sum by (job) (m1) / 2`,
		"syntax_error": `sum(m1`,
		"bad_regex":    `m1{job=~"(("}`,
		"empty":        ``,
		"huge":         `m1{job="` + strings.Repeat("y", 200000) + `"}`,
		"subquery":     `max_over_time(rate(m1[1m])[5m:10s])`,
	},
	"traceql": {
		"attr":         `{.k="v"}`,
		"and_or":       `{.k="v" && (.k="w" || name="op")}`,
		"duration":     `{duration>1us}`,
		"agg":          `{.k=~"v|w"} | count() > 0`,
		"chain":        `{.k="v"} && {.k="w"}`,
		"syntax_error": `{.k="v"`,
		"empty":        ``,
		"bad_regex":    `{.k=~"(("}`,
		"huge":         `{.k="` + strings.Repeat("z", 200000) + `"}`,
	},
	"traceql_many": {
		"attr_many": `{.many=~"v.*"}`,
		"svc_many":  `{resource.service.name="svc2"}`,
	},
	"pyro": {
		"sel":          `{service_name="c12svc"}`,
		"sel_regex":    `{service_name=~"c12.*", pod!="zz"}`,
		"empty_sel":    `{}`,
		"syntax_error": `{service_name="c12svc"`,
		"bad_regex":    `{service_name=~"(("}`,
		"empty":        ``,
		"huge":         `{service_name="` + strings.Repeat("p", 200000) + `"}`,
	},
	"tags": {"tags": `k=v`, "bad": `k="v`, "empty": ``},
	"none": {"none": ``},
}

func schema() {
	out := map[string]any{}
	eps := map[string]any{}
	for _, e := range endpoints() {
		ps := map[string][]string{}
		for p := range e.Params {
			ps[p] = paramClasses
		}
		var qs []string
		for q := range queryClasses[e.Lang] {
			qs = append(qs, q)
		}
		sort.Strings(qs)
		var good []string
		for _, q := range qs {
			switch q {
			case "syntax_error", "empty_sel", "bad_regex", "unsupported", "huge", "empty", "bad", "zero_range":
			default:
				good = append(good, q)
			}
		}
		eps[e.Name] = map[string]any{"params": ps, "queries": qs, "good": good}
	}
	out["endpoints"] = eps
	var wep []string
	for _, e := range endpoints() {
		if e.Params["start"] != "" && e.Params["end"] != "" && e.Params["step"] != "" {
			wep = append(wep, e.Name)
		}
	}
	out["window"] = map[string]any{"endpoints": wep, "start": winStart, "end": winEnd, "step": winStep}
	out["faults"] = faultClasses
	b, _ := json.MarshalIndent(out, "", " ")
	fmt.Println(string(b))
}

func paramValue(name, valid, class string, other map[string]string) (string, bool) {
	switch class {
	case "valid":
		return valid, true
	case "absent":
		return "", false
	case "empty":
		return "", true
	case "zero":
		return "0", true
	case "negative":
		return "-" + strings.TrimLeft(valid, "-"), true
	case "reversed":
		// swap roles: start gets a value after end, end/time a value before start; other params: a large value
		switch name {
		case "start":
			return other["end"] + "0", true
		case "end":
			return "1", true
		}
		return "99999", true
	case "huge":
		return "9999999999999999999999999999", true
	case "non_numeric":
		return "abc", true
	case "float":
		return "1700000000.123456789", true
	case "rfc3339":
		return "2023-11-14T22:13:20Z", true
	case "batch_multiple":
		if name == "limit" {
			return "200", true // exactly two batches of the getter
		}
		return valid, true
	case "small":
		if name == "limit" {
			return "7", true
		}
		return valid, true
	}
	return valid, true
}

// ---- window alignment classes (param "@window", class "<start>/<end>/<step>") ----
// FixPeriod / MatrixStep / the engines' step loops compute slot indices from (start, end, step, range of the aggregation,
// sample time); which slot the bucket of a sample falls into - inside, the last one, one past the last one - depends on
// how start and end lie relative to the range grid and to the data, and on step relative to the range. The single
// parameter classes above keep start before and end far behind all data with one step, so only "inside" ever happened.
var winStart = []string{"before_aligned", "before_off", "in_aligned"}
var winEnd = []string{"after_data", "in_aligned", "in_aligned_odd", "in_off", "last_sample"}
var winStep = []string{"eq_range", "half_range", "double_range", "coprime"}

var reRange = regexp.MustCompile(`\[(\d+)([smh])(?:\]|:)`)

// rangeOf: the range (s) of the first range selector of the query text; 10 without one
func rangeOf(qtext string) int64 {
	if m := reRange.FindStringSubmatch(qtext); m != nil {
		n, _ := strconv.ParseInt(m[1], 10, 64)
		switch m[2] {
		case "m":
			n *= 60
		case "h":
			n *= 3600
		}
		if n > 0 {
			return n
		}
	}
	return 10
}

// windowValues concretises a window class for an endpoint: start / end in the endpoint's time unit, step in seconds.
// The preloaded streams have a sample every second (a1: day0..day0+39), every 200 ms (big*: day0..day0+70) and every
// other second (m1: day0..day0+58); day0 is a multiple of 100.
func windowValues(e endpoint, qtext, class string) map[string]string {
	parts := strings.Split(class, "/")
	if len(parts) != 3 {
		return nil
	}
	R := rangeOf(qtext)
	al := func(x int64) int64 { return x / R * R }
	var st, en, step int64
	switch parts[0] {
	case "before_aligned":
		st = al(day0-1) - R
	case "before_off":
		st = al(day0-1) - R + R/3 + 1
	default: // in_aligned: on the range grid, inside the data where the range allows
		st = al(day0 + 10)
	}
	switch parts[2] {
	case "half_range":
		step = R / 2
	case "double_range":
		step = 2 * R
	case "coprime":
		step = 7
		if R%7 == 0 {
			step = 3
		}
	default:
		step = R
	}
	if step < 1 {
		step = 1
	}
	switch parts[1] {
	case "after_data":
		en = day0 + 100
	case "in_aligned": // on the range grid with samples in the bucket that begins at end; an even number of ranges after start
		en = al(day0 + 20)
		if (en-al(st))/R%2 != 0 {
			en += R
		}
	case "in_aligned_odd":
		en = al(day0 + 20)
		if (en-al(st))/R%2 == 0 {
			en += R
		}
	case "in_off":
		en = day0 + 23
	default: // last_sample
		en = day0 + 39
	}
	for en <= st {
		en += R
	}
	unit := int64(1)
	if v, err := strconv.ParseInt(e.Params["start"], 10, 64); err == nil && start != 0 {
		unit = v / start
	}
	return map[string]string{"start": fmt.Sprint(st * unit), "end": fmt.Sprint(en * unit), "step": fmt.Sprint(step)}
}

type Case struct {
	Endpoint string `json:"endpoint"`
	Query    string `json:"query"`
	Param    string `json:"param"`
	Class    string `json:"class"`
	Fault    string `json:"fault"`
}

func build(e endpoint, qtext string, param, class string) string {
	v := url.Values{}
	var win map[string]string
	if param == "@window" {
		win = windowValues(e, qtext, class)
	}
	for p, val := range e.Params {
		if wv, ok := win[p]; ok {
			v.Set(p, wv)
			continue
		}
		if p == param {
			if nv, present := paramValue(p, val, class, e.Params); present {
				v.Set(p, nv)
			}
			continue
		}
		v.Set(p, val)
	}
	if e.Query != "" {
		v.Set(e.Query, qtext)
	}
	return e.Path + "?" + v.Encode()
}

// buildBody renders the JSON body of a Pyroscope querier request: numeric fields as numbers when they look like numbers
// (so that the parameter classes produce wrong types, negative, zero, huge values), the selector as string or list.
func buildBody(e endpoint, qtext string, param, class string) string {
	m := map[string]any{}
	var win map[string]string
	if param == "@window" {
		win = windowValues(e, qtext, class)
	}
	for p, val := range e.Params {
		v, present := val, true
		if wv, ok := win[p]; ok {
			v = wv
		} else if p == param {
			v, present = paramValue(p, val, class, e.Params)
		}
		if !present {
			continue
		}
		switch p {
		case "start", "end", "step":
			if f, err := strconv.ParseFloat(v, 64); err == nil {
				m[p] = json.Number(v)
				_ = f
			} else {
				m[p] = v
			}
		default:
			m[p] = v
		}
	}
	switch e.Query {
	case "matchers":
		m["matchers"] = []string{qtext}
	case "label_selector":
		m["label_selector"] = qtext
	case "query":
		m["query"] = qtext
	}
	if e.Name == "pyro_select_series" {
		m["group_by"] = []string{"pod"}
	}
	b, _ := json.Marshal(m)
	return string(b)
}

// ------------------------------------------------------------------ parent

type child struct {
	cmd    *exec.Cmd
	in     io.WriteCloser
	out    *bufio.Reader
	stderr *bytes.Buffer
}

func startChild() (*child, error) {
	c := exec.Command(os.Args[0], "serve")
	in, _ := c.StdinPipe()
	outp, _ := c.StdoutPipe()
	eb := &bytes.Buffer{}
	c.Stderr = eb
	if err := c.Start(); err != nil {
		return nil, err
	}
	return &child{cmd: c, in: in, out: bufio.NewReaderSize(outp, 16<<20), stderr: eb}, nil
}

func (c *child) send(r Req) (*Resp, bool) {
	b, _ := json.Marshal(r)
	if _, err := c.in.Write(append(b, '\n')); err != nil {
		return nil, false
	}
	type res struct {
		line []byte
		err  error
	}
	ch := make(chan res, 1)
	go func() {
		for {
			l, err := c.out.ReadBytes('\n')
			if err != nil {
				ch <- res{nil, err}
				return
			}
			if bytes.HasPrefix(l, []byte("@@RESP@@")) {
				ch <- res{l[len("@@RESP@@"):], nil}
				return
			}
		}
	}()
	select {
	case x := <-ch:
		if x.err != nil {
			return nil, false
		}
		var rs Resp
		if json.Unmarshal(x.line, &rs) != nil {
			return nil, false
		}
		return &rs, true
	case <-time.After(time.Duration(25+r.TimeoutS) * time.Second):
		return nil, false
	}
}

func (c *child) kill() {
	c.in.Close()
	c.cmd.Process.Kill()
	c.cmd.Wait()
}

var rePanicFn = regexp.MustCompile(`(?m)^github\.com/metrico/qryn/(\S+?)(?:\(0x|\(\.\.\.|\(\)|\({)`)

func crashSignature(stderr string) (string, string) {
	msg := ""
	for _, key := range []string{"panic:", "fatal error:"} {
		if i := strings.Index(stderr, key); i >= 0 {
			msg = stderr[i:]
			if j := strings.Index(msg, "\n"); j > 0 {
				msg = msg[:j]
			}
			stderr = stderr[i:]
			break
		}
	}
	fn := ""
	if m := rePanicFn.FindStringSubmatch(stderr); m != nil {
		fn = m[1]
	}
	return fn, msg
}

type Finding struct {
	Signature string `json:"signature"`
	Msg       string `json:"msg"`
	Label     string `json:"label"`
	Req       Req    `json:"req"`
	Detail    string `json:"detail,omitempty"`
}

var shards = 6

func run(casesPath, outPath string, seed int64, nrandom int) int {
	raw, err := os.ReadFile(casesPath)
	if err != nil {
		fmt.Fprintln(os.Stderr, err)
		return 2
	}
	var cases []Case
	if err := json.Unmarshal(raw, &cases); err != nil {
		fmt.Fprintln(os.Stderr, err)
		return 2
	}
	rnd := rand.New(rand.NewSource(seed))
	emap := map[string]endpoint{}
	for _, e := range endpoints() {
		emap[e.Name] = e
	}
	var reqs []Req
	for _, c := range cases {
		e, ok := emap[c.Endpoint]
		if !ok {
			continue
		}
		qt := queryClasses[e.Lang][c.Query]
		u := build(e, qt, c.Param, c.Class)
		r := Req{Label: fmt.Sprintf("%s|q=%s|%s=%s|db=%s", c.Endpoint, c.Query, c.Param, c.Class, c.Fault), Method: "GET", URL: u, Fault: c.Fault}
		if e.Post {
			r.Method, r.URL, r.Body, r.CT = "POST", e.Path, buildBody(e, qt, c.Param, c.Class), "application/json"
		}
		if c.Fault == "client_abort" {
			r.Fault = "slow_rows"
			r.AbortMs = 1 + rnd.Intn(20)
		}
		if c.Fault == "endless_rows_abort" {
			if e.Lang != "logql" || !strings.HasPrefix(c.Query, "big_") && !limitBounded[c.Query] {
				continue // an endless result needs a row-streaming endpoint
			}
			r.Fault = "endless_rows"
			r.AbortMs = 5 + rnd.Intn(40)
		}
		if c.Fault == "endless_rows" && !(limitBounded[c.Query] && e.Name == "loki_query_range") {
			continue
		}
		reqs = append(reqs, r)
		// a stage that holds entries sends its messages in map order: whether the error message overtakes data messages is a
		// matter of chance per request, so row faults on pipelines with such a stage are repeated
		if strings.HasPrefix(c.Fault, "row_err") && (limitBounded[c.Query] || strings.HasPrefix(c.Query, "big_")) {
			for k := 2; k <= 5; k++ {
				rr := r
				rr.Label = fmt.Sprintf("%s#%d", r.Label, k)
				reqs = append(reqs, rr)
			}
		}
	}
	// seeded random / mutated query strings
	for _, e := range endpoints() {
		if e.Query == "" {
			continue
		}
		var pool []string
		for _, q := range queryClasses[e.Lang] {
			if len(q) < 1000 {
				pool = append(pool, q)
			}
		}
		sort.Strings(pool)
		for i := 0; i < nrandom; i++ {
			var q string
			switch rnd.Intn(3) {
			case 0:
				b := make([]byte, 1+rnd.Intn(40))
				rnd.Read(b)
				q = string(b)
			default:
				b := []byte(pool[rnd.Intn(len(pool))])
				for k := 0; k < 1+rnd.Intn(3) && len(b) > 0; k++ {
					switch rnd.Intn(3) {
					case 0:
						b[rnd.Intn(len(b))] = "{}()[]|=~!\"\\,. 09az"[rnd.Intn(19)]
					case 1:
						p := rnd.Intn(len(b))
						b = append(b[:p], b[p+1:]...)
					case 2:
						p := rnd.Intn(len(b))
						b = append(b[:p], append([]byte{"{}()[]|=~!\"\\,. 09az"[rnd.Intn(19)]}, b[p:]...)...)
					}
				}
				q = string(b)
			}
			if e.Post {
				reqs = append(reqs, Req{Label: fmt.Sprintf("%s|random#%d", e.Name, i), Method: "POST", URL: e.Path, Body: buildBody(e, q, "", ""), CT: "application/json", Fault: "none"})
				continue
			}
			reqs = append(reqs, Req{Label: fmt.Sprintf("%s|random#%d", e.Name, i), Method: "GET", URL: build(e, q, "", ""), Fault: "none"})
		}
	}
	probe := Req{Label: "probe", Method: "GET", URL: build(emap["loki_query_range"], `{app="a1"}`, "", ""), Fault: "none"}
	var mu sync.Mutex
	var findings []Finding
	sigCount := map[string]int{}
	add := func(f Finding) {
		mu.Lock()
		defer mu.Unlock()
		sigCount[f.Signature]++
		if sigCount[f.Signature] <= 2 {
			if len(f.Req.URL) > 1500 {
				f.Req.URL = f.Req.URL[:1500] + "...(truncated)"
			}
			if len(f.Req.Body) > 1500 {
				f.Req.Body = f.Req.Body[:1500] + "...(truncated)"
			}
			findings = append(findings, f)
		}
	}
	codes := map[string]int{}
	restarts := 0
	var infra []string
	unsup := map[string]bool{}
	for i := range reqs {
		reqs[i].ID = i + 1
	}
	// the requests are independent of each other: shards run in parallel, each against its own child process
	nshards := shards
	if nshards < 1 {
		nshards = 1
	}
	var wg sync.WaitGroup
	for sh := 0; sh < nshards; sh++ {
		var mine []Req
		for i := sh; i < len(reqs); i += nshards {
			mine = append(mine, reqs[i])
		}
		wg.Add(1)
		go func(mine []Req) {
			defer wg.Done()
			runShard(mine, probe, add, &mu, codes, &restarts, &infra, unsup)
		}(mine)
	}
	wg.Wait()
	var ul []string
	for u := range unsup {
		ul = append(ul, u)
	}
	sort.Strings(ul)
	res := map[string]any{"requests": len(reqs), "cases": len(cases), "random_queries": len(reqs) - len(cases), "status_codes": codes, "child_restarts": restarts,
		"findings": findings, "signature_counts": sigCount, "infra": infra, "chsql_unsupported": ul}
	b, _ := json.MarshalIndent(res, "", " ")
	os.WriteFile(outPath, b, 0644)
	if len(infra) > 0 {
		return 2
	}
	return 0
}

// runShard sends its requests, one after the other, to a child process of its own
func runShard(reqs []Req, probe Req, add func(Finding), mu *sync.Mutex, codes map[string]int, restarts *int, infra *[]string, unsup map[string]bool) {
	ch, err := startChild()
	if err != nil {
		mu.Lock()
		*infra = append(*infra, err.Error())
		mu.Unlock()
		return
	}
	if rs, ok := ch.send(probe); !ok || rs.Code != 200 || !strings.Contains(rs.Body, "success") {
		mu.Lock()
		*infra = append(*infra, fmt.Sprintf("probe fails on a fresh child: %+v %s", rs, ch.stderr.String()))
		mu.Unlock()
		return
	}
	restart := func() bool {
		ch.kill()
		var err error
		if ch, err = startChild(); err != nil {
			return false
		}
		rs, ok := ch.send(probe)
		return ok && rs.Code == 200
	}
	for i := range reqs {
		rq := reqs[i]
		ep := strings.SplitN(rq.Label, "|", 2)[0]
		rs, ok := ch.send(rq)
		if !ok {
			if _, m := crashSignature(ch.stderr.String()); m == "" {
				// no answer and no Go crash report (panic / fatal error): not evidence of a crash - once more on a fresh child
				mu.Lock()
				*restarts++
				mu.Unlock()
				if !restart() {
					mu.Lock()
					*infra = append(*infra, "cannot restart child")
					mu.Unlock()
					break
				}
				again := rq
				again.TimeoutS = 30
				if rs2, ok2 := ch.send(again); ok2 {
					mu.Lock()
					codes["answered-on-second-try:"+ep]++
					mu.Unlock()
					rs, ok = rs2, true
				} else if _, m2 := crashSignature(ch.stderr.String()); m2 == "" {
					mu.Lock()
					*infra = append(*infra, fmt.Sprintf("request %q: the child stopped answering twice without a Go crash report (killed from outside or out of time)", rq.Label))
					mu.Unlock()
					break
				}
			}
		}
		if !ok {
			stderr := ch.stderr.String()
			fn, msg := crashSignature(stderr)
			if len(stderr) > 3000 {
				stderr = stderr[len(stderr)-3000:]
			}
			add(Finding{Signature: "crash|" + ep + "|" + fn, Msg: fmt.Sprintf("request %q terminates the process: %s (in %s)", rq.Label, msg, fn), Label: rq.Label, Req: rq, Detail: stderr})
			mu.Lock()
			*restarts++
			mu.Unlock()
			if !restart() {
				mu.Lock()
				*infra = append(*infra, "cannot restart child")
				mu.Unlock()
				break
			}
			continue
		}
		mu.Lock()
		for _, u := range rs.Unsup {
			unsup[strings.SplitN(u, "::", 2)[0]] = true
		}
		codes[fmt.Sprintf("%s:%d", ep, rs.Code)]++
		mu.Unlock()
		if rs.Timeout && rq.TimeoutS == 0 {
			// a loaded machine can make an innocent request slow: a hang must reproduce on a fresh child with five times the limit
			if !restart() {
				mu.Lock()
				*infra = append(*infra, "cannot restart child")
				mu.Unlock()
				break
			}
			again := rq
			again.TimeoutS = 30
			if rs2, ok2 := ch.send(again); ok2 && !rs2.Timeout {
				mu.Lock()
				codes["slow-not-hung:"+ep]++
				mu.Unlock()
				rs = rs2
			} else if ok2 {
				rs = rs2
			}
		}
		if rs.Timeout {
			kind, where := "blocked", strings.Join(rs.Left, ",")
			if len(rs.Spinning) > 0 {
				kind, where = "spinning", strings.Join(rs.Spinning, ",")
			}
			first := strings.Fields(strings.SplitN(where+" ", ",", 2)[0] + " ")
			f0 := ""
			if len(first) > 0 {
				f0 = first[0]
			}
			add(Finding{Signature: "hang|" + ep + "|" + kind + "|" + f0, Msg: fmt.Sprintf("request %q is not answered within the time limit; goroutine(s) %s in %s", rq.Label, kind, where), Label: rq.Label, Req: rq})
			mu.Lock()
			*restarts++
			mu.Unlock()
			if !restart() {
				mu.Lock()
				*infra = append(*infra, "cannot restart child")
				mu.Unlock()
				break
			}
			continue
		}
		if rs.Code == 599 {
			add(Finding{Signature: "handler-panic|" + ep, Msg: fmt.Sprintf("request %q panics in the handler goroutine without a response", rq.Label), Label: rq.Label, Req: rq})
		}
		// goroutine census after every request that had a fault or an error status, and periodically
		if rq.Fault != "none" || rs.Code >= 400 || i%10 == 9 || strings.Contains(rq.Label, "q=big_") {
			cs, ok := ch.send(Req{ID: -1, Settle: true})
			if !ok {
				if _, m := crashSignature(ch.stderr.String()); m == "" {
					// the census was not answered and the child left no Go crash report (panic / fatal error): a child killed
					// from outside or starved of CPU is not evidence about the code - the request and its census once more on
					// a fresh child; no answer again without a crash report = infrastructure
					mu.Lock()
					*restarts++
					mu.Unlock()
					if !restart() {
						mu.Lock()
						*infra = append(*infra, "cannot restart child")
						mu.Unlock()
						break
					}
					again := rq
					again.TimeoutS = 30
					if _, ok2 := ch.send(again); ok2 {
						cs, ok = ch.send(Req{ID: -1, Settle: true, TimeoutS: 30})
					}
					if !ok {
						if _, m2 := crashSignature(ch.stderr.String()); m2 == "" {
							mu.Lock()
							*infra = append(*infra, fmt.Sprintf("census after request %q: the child stopped answering twice without a Go crash report (killed from outside or out of time)", rq.Label))
							mu.Unlock()
							break
						}
					} else {
						mu.Lock()
						codes["census-answered-on-second-try:"+ep]++
						mu.Unlock()
					}
				}
			}
			if !ok {
				stderr := ch.stderr.String()
				fn, msg := crashSignature(stderr)
				add(Finding{Signature: "crash-after|" + ep + "|" + fn, Msg: fmt.Sprintf("after request %q the process terminates: %s", rq.Label, msg), Label: rq.Label, Req: rq, Detail: stderr})
				mu.Lock()
			*restarts++
			mu.Unlock()
				if !restart() {
					mu.Lock()
				*infra = append(*infra, "cannot restart child")
				mu.Unlock()
					break
				}
				continue
			}
			if len(cs.Left) > 0 {
				sort.Strings(cs.Left)
				fault := rq.Fault
				if rq.AbortMs > 0 {
					fault = "client_abort"
				}
				add(Finding{Signature: "leak|" + strings.Fields(cs.Left[0])[0] + "|db=" + fault, Msg: fmt.Sprintf("after request %q (status %d) goroutine(s) started for it are still alive: %v", rq.Label, rs.Code, cs.Left), Label: rq.Label, Req: rq})
				mu.Lock()
			*restarts++
			mu.Unlock()
				if !restart() {
					mu.Lock()
				*infra = append(*infra, "cannot restart child")
				mu.Unlock()
					break
				}
			}
		}
	}
	if ch != nil {
		ch.kill()
	}
}

func main() {
	if len(os.Args) < 2 {
		os.Exit(2)
	}
	switch os.Args[1] {
	case "serve":
		os.Exit(serve())
	case "schema":
		schema()
	case "run":
		fs := flag.NewFlagSet("run", flag.ExitOnError)
		cases := fs.String("cases", "", "")
		out := fs.String("out", "", "")
		seed := fs.Int64("seed", 1, "")
		nr := fs.Int("random", 30, "")
		sh := fs.Int("shards", 6, "")
		fs.Parse(os.Args[2:])
		shards = *sh
		os.Exit(run(*cases, *out, *seed, *nr))
	}
}

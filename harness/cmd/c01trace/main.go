// c01trace records executions of the REAL writer ingest path — HTTP handler (controllerv1.PushStreamV2),
// Loki JSON parser, doPush retry loop, the production service wiring of
// QrynWriterPlugin.CreateStaticServiceRegistry (series + samples services with OnBeforeInsert, round robin
// workers, real timers) over the fake ClickHouse client with random outcomes — as ndjson traces for
// spec/ingest/Trace_Batcher.tla.
//
// usage: c01trace -out trace.ndjson -meta meta.json -seed N -scenarios K -workers W -attempts A
package main

import (
	"bytes"
	"encoding/json"
	"flag"
	"fmt"
	"math/rand"
	"net/http"
	"net/http/httptest"
	"os"
	"regexp"
	"runtime"
	"sort"
	"strconv"
	"strings"
	"sync"
	"sync/atomic"
	"time"

	clconfig "github.com/metrico/cloki-config"
	"github.com/metrico/cloki-config/config"
	"github.com/metrico/qryn/writer/ch_wrapper"
	wconfig "github.com/metrico/qryn/writer/config"
	controllerv1 "github.com/metrico/qryn/writer/controller"
	"github.com/metrico/qryn/writer/model"
	"github.com/metrico/qryn/writer/plugin"
	"github.com/metrico/qryn/writer/service"
	"github.com/metrico/qryn/writer/service/impl"
	"verif/harness/fakech"
	"verif/harness/wworld"
)

type Event map[string]any

type recorder struct {
	mu     sync.Mutex
	seq    int64
	events []Event
	goid   sync.Map // goroutine id -> *wworld.Worker
	active atomic.Value // *fakech.World of the running scenario
}

func (r *recorder) emit(e Event) {
	// the sequence number is taken inside the caller's critical section (hook under svc.mtx)
	e["seq"] = atomic.AddInt64(&r.seq, 1)
	r.mu.Lock()
	r.events = append(r.events, e)
	r.mu.Unlock()
}

func goid() int64 {
	var buf [64]byte
	n := runtime.Stack(buf[:], false)
	f := strings.Fields(string(buf[:n]))
	id, _ := strconv.ParseInt(f[1], 10, 64)
	return id
}

var reReq = regexp.MustCompile(`row=([A-Za-z0-9]+)/([a-z]+)/([0-9]+);`)
var reLbl = regexp.MustCompile(`"req":"([A-Za-z0-9]+)"`)

func reqOf(req any) (string, int64) {
	switch d := req.(type) {
	case *model.TimeSamplesData:
		if len(d.MMessage) > 0 {
			if m := reReq.FindStringSubmatch(d.MMessage[0]); m != nil {
				return m[1], d.GetSize()
			}
		}
		return "?", d.GetSize()
	case *model.TimeSeriesData:
		if len(d.MLabels) > 0 {
			if m := reLbl.FindStringSubmatch(d.MLabels[0]); m != nil {
				return m[1], d.GetSize()
			}
		}
		return "?", d.GetSize()
	}
	return "?", 0
}

func (r *recorder) sink(w *wworld.Worker, e service.VerifEvent) {
	switch e.Ev {
	case service.VerifEvIterStart:
		r.goid.Store(goid(), w)
	case service.VerifEvAppend:
		rq, sz := reqOf(e.Req)
		r.emit(Event{"ev": "Append", "svc": w.Svc, "k": w.K, "r": rq, "n": e.N, "early": e.N == 0 || e.Err != nil,
			"nres": e.NResults, "size": e.Size, "reqsize": sz, "err": e.Err != nil})
	case service.VerifEvSwap:
		r.emit(Event{"ev": "Swap", "svc": w.Svc, "k": w.K, "n": len(e.Promises), "empty": len(e.Promises) == 0 && e.N == 0})
	case service.VerifEvRelease:
		r.emit(Event{"ev": "Release", "svc": w.Svc, "k": w.K, "n": len(e.Promises), "ok": e.Err == nil})
	case service.VerifEvConnFail:
		r.emit(Event{"ev": "ConnFail", "svc": w.Svc, "k": w.K})
	}
}

func blockRows(svc string, b *fakech.Block) []map[string]any {
	rows := []map[string]any{}
	if !b.Rectangular() {
		return rows
	}
	col := -1
	want := "string"
	if svc == "ts" {
		want = "labels"
	}
	for i, c := range b.Cols {
		if c == want {
			col = i
		}
	}
	for _, row := range b.Rows {
		s, _ := row[col].(string)
		if svc == "ts" {
			if m := reLbl.FindStringSubmatch(s); m != nil {
				rows = append(rows, map[string]any{"r": m[1], "s": "ts", "i": 1})
			} else {
				rows = append(rows, map[string]any{"r": "?", "s": "ts", "i": 0})
			}
			continue
		}
		if m := reReq.FindStringSubmatch(s); m != nil {
			i, _ := strconv.Atoi(m[3])
			rows = append(rows, map[string]any{"r": m[1], "s": m[2], "i": i})
		} else {
			rows = append(rows, map[string]any{"r": "?", "s": svc, "i": 0})
		}
	}
	return rows
}

var unanswered int64

type scenarioCfg struct {
	Workers, Attempts, Clients, ReqsPerClient int
	MaxQueue                                  int64
	IntervalMs                                float64
	PErr, PConnFail, PSlow                    float64
}

func runScenario(rec *recorder, sc scenarioCfg, rnd *rand.Rand, reqBase int) int {
	wworld.InitPools()
	world := fakech.NewWorld()
	var rmu sync.Mutex
	rf := func() float64 { rmu.Lock(); defer rmu.Unlock(); return rnd.Float64() }
	world.OnConnect = func(id int) error {
		if rf() < sc.PConnFail {
			return fmt.Errorf("dial tcp 127.0.0.1:9000: connect: connection refused")
		}
		return nil
	}
	world.OnDo = func(b *fakech.Block) error {
		x := rf()
		if x < sc.PSlow {
			time.Sleep(time.Duration(1+int(rf()*4)) * time.Millisecond)
		}
		if rf() < sc.PErr {
			// (no "dial tcp: lookup ... i/o timeout": the product's watchdog exits the process on that one by design)
			switch int(rf() * 3) {
			case 0:
				return fmt.Errorf("write tcp 10.0.0.5:43210->10.0.0.9:9000: write: connection reset by peer")
			case 1:
				return fmt.Errorf("json parse error: unexpected end of stream (reported by the server)")
			}
			return fmt.Errorf("code: 241, message: Memory limit (total) exceeded")
		}
		return nil
	}
	world.OnEvent = func(kind string, connID int, b *fakech.Block, seq int64) {
		if kind != "do_call" && kind != "do_ret" {
			return
		}
		if cur, _ := rec.active.Load().(*fakech.World); cur != world {
			return // worker of an already finished scenario
		}
		v, ok := rec.goid.Load(goid())
		if !ok {
			return // async twin or unregistered service
		}
		w := v.(*wworld.Worker)
		if kind == "do_call" {
			rec.emit(Event{"ev": "DoCall", "svc": w.Svc, "k": w.K, "rect": b.Rectangular(), "rows": blockRows(w.Svc, b), "nrows": b.NRows})
		} else {
			rec.emit(Event{"ev": "DoRet", "svc": w.Svc, "k": w.K, "ok": b.Err == nil})
		}
	}

	rec.active.Store(world)
	cfg := config.ClokiBaseSettingServer{}
	cfg.SYSTEM_SETTINGS.DBTimer = sc.IntervalMs / 1000
	cfg.SYSTEM_SETTINGS.DBBulk = sc.MaxQueue
	cfg.SYSTEM_SETTINGS.ChannelsSample = sc.Workers
	cfg.SYSTEM_SETTINGS.ChannelsTimeSeries = sc.Workers
	cfg.SYSTEM_SETTINGS.RetryAttempts = sc.Attempts
	cfg.SYSTEM_SETTINGS.RetryTimeoutS = 0
	wconfig.Cloki = &clconfig.ClokiConfig{Setting: &cfg}

	node := wworld.Node("n1")
	node.WriteTimeout = 600
	p := &plugin.QrynWriterPlugin{ServicesObject: plugin.ServicesObject{
		DatabaseNodeMap: []model.DataDatabasesMap{*node},
		Dbv3Map:         []ch_wrapper.IChClientFactory{world.Factory()},
	}}
	// production wiring: series/samples/metrics/spans/tags/profile services, OnBeforeInsert closures, registry, cache
	plugin.TsSvcs = make(service.InsertSvcMap)
	plugin.SplSvcs = make(service.InsertSvcMap)
	plugin.MtrSvcs = make(service.InsertSvcMap)
	plugin.TempoSamplesSvcs = make(service.InsertSvcMap)
	plugin.TempoTagsSvcs = make(service.InsertSvcMap)
	plugin.ProfileInsertSvcs = make(service.InsertSvcMap)
	plugin.MainNode = ""
	// hooks must be registered before the services start running: do it from the factory
	regd := map[string][]*wworld.Worker{}
	factory := &hookedFactory{inner: &impl.DevInsertServiceFactory{}, world: world, rec: rec, regd: regd}
	p.CreateStaticServiceRegistry(cfg, factory)
	controllerv1.Registry = plugin.ServiceRegistry
	controllerv1.FPCache = plugin.GoCache

	handler := controllerv1.PushStreamV2(controllerv1.NewMiddlewareConfig(controllerv1.WithOverallContextMiddleware))

	var wg sync.WaitGroup
	nreq := 0
	var nmu sync.Mutex
	var done []string
	for c := 0; c < sc.Clients; c++ {
		wg.Add(1)
		crnd := rand.New(rand.NewSource(rnd.Int63()))
		go func(c int) {
			defer wg.Done()
			for i := 0; i < sc.ReqsPerClient; i++ {
				nmu.Lock()
				nreq++
				rid := fmt.Sprintf("r%d", reqBase+nreq)
				lbl := rid
				if len(done) > 0 && crnd.Intn(5) == 0 {
					lbl = done[crnd.Intn(len(done))] // same stream as an answered request: no new series row expected
				}
				nmu.Unlock()
				n := 1 + crnd.Intn(3)
				var vals []string
				for j := 1; j <= n; j++ {
					vals = append(vals, fmt.Sprintf(`["%d","row=%s/spl/%d;"]`, 1700000000000000000+int64(j), rid, j))
				}
				body := fmt.Sprintf(`{"streams":[{"stream":{"req":"%s"},"values":[%s]}]}`, lbl, strings.Join(vals, ","))
				rec.emit(Event{"ev": "Parse", "r": rid, "spl": n, "lbl": lbl})
				req := httptest.NewRequest("POST", "/loki/api/v1/push", bytes.NewBufferString(body))
				req.Header.Set("Content-Type", "application/json")
				rw := httptest.NewRecorder()
				answered := make(chan struct{})
				go func() { handler(rw, req); close(answered) }()
				select {
				case <-answered:
				case <-time.After(15 * time.Second):
					// the database keeps answering (every Do returns) but this request got no answer
					rec.emit(Event{"ev": "Unanswered", "r": rid})
					atomic.AddInt64(&unanswered, 1)
					continue
				}
				class := "err"
				if rw.Code >= 200 && rw.Code < 300 {
					class = "2xx"
				}
				rec.emit(Event{"ev": "Reply", "r": rid, "class": class, "code": rw.Code})
				if class == "2xx" && lbl == rid {
					nmu.Lock()
					done = append(done, rid)
					nmu.Unlock()
				}
				if crnd.Intn(3) == 0 {
					time.Sleep(time.Duration(crnd.Intn(3)) * time.Millisecond)
				}
			}
		}(c)
	}
	wg.Wait()
	time.Sleep(time.Duration(3*sc.IntervalMs) * time.Millisecond)
	for _, m := range []service.InsertSvcMap{plugin.TsSvcs, plugin.SplSvcs, plugin.MtrSvcs, plugin.TempoSamplesSvcs, plugin.TempoTagsSvcs, plugin.ProfileInsertSvcs} {
		for _, s := range m {
			s.Stop()
		}
	}
	rec.active.Store((*fakech.World)(nil))
	for _, ws := range regd {
		wworld.Unregister(ws)
	}
	if c, ok := plugin.GoCache.(interface{ Stop() }); ok {
		c.Stop()
	}
	return nreq
}

// hookedFactory registers the verif hooks for the series and samples services as they are created.
type hookedFactory struct {
	inner *impl.DevInsertServiceFactory
	world *fakech.World
	rec   *recorder
	regd  map[string][]*wworld.Worker
}

func (f *hookedFactory) reg(name string, s service.IInsertServiceV2) service.IInsertServiceV2 {
	s.Init()
	f.regd[name] = wworld.Register(name, s, f.world, false, f.rec.sink)
	return s
}
func (f *hookedFactory) NewTimeSeriesInsertService(o model.InsertServiceOpts) service.IInsertServiceV2 {
	return f.reg("ts", f.inner.NewTimeSeriesInsertService(o))
}
func (f *hookedFactory) NewSamplesInsertService(o model.InsertServiceOpts) service.IInsertServiceV2 {
	return f.reg("spl", f.inner.NewSamplesInsertService(o))
}
func (f *hookedFactory) NewMetricsInsertService(o model.InsertServiceOpts) service.IInsertServiceV2 {
	return f.inner.NewMetricsInsertService(o)
}
func (f *hookedFactory) NewTempoSamplesInsertService(o model.InsertServiceOpts) service.IInsertServiceV2 {
	return f.inner.NewTempoSamplesInsertService(o)
}
func (f *hookedFactory) NewTempoTagInsertService(o model.InsertServiceOpts) service.IInsertServiceV2 {
	return f.inner.NewTempoTagInsertService(o)
}
func (f *hookedFactory) NewProfileSamplesInsertService(o model.InsertServiceOpts) service.IInsertServiceV2 {
	return f.inner.NewProfileSamplesInsertService(o)
}

func main() {
	out := flag.String("out", "trace.ndjson", "")
	meta := flag.String("meta", "", "")
	seed := flag.Int64("seed", 1, "")
	scenarios := flag.Int("scenarios", 5, "")
	workers := flag.Int("workers", 1, "")
	attempts := flag.Int("attempts", 2, "")
	flag.Parse()
	rnd := rand.New(rand.NewSource(*seed*7919 + int64(*workers)*31 + int64(*attempts)))
	rec := &recorder{}
	maxReq := 0
	total := 0
	for s := 0; s < *scenarios; s++ {
		sc := scenarioCfg{Workers: *workers, Attempts: *attempts, Clients: 1 + rnd.Intn(4), ReqsPerClient: 1 + rnd.Intn(3),
			MaxQueue: []int64{0, 60, 200}[rnd.Intn(3)], IntervalMs: []float64{3, 10, 25}[rnd.Intn(3)],
			PErr: []float64{0, 0.3, 0.6}[rnd.Intn(3)], PConnFail: []float64{0, 0.05}[rnd.Intn(2)], PSlow: 0.3}
		if s > 0 {
			rec.emit(Event{"ev": "Reset"})
		}
		n := runScenario(rec, sc, rnd, 0)
		total += n
		if n > maxReq {
			maxReq = n
		}
	}
	sort.Slice(rec.events, func(i, j int) bool { return rec.events[i]["seq"].(int64) < rec.events[j]["seq"].(int64) })
	f, err := os.Create(*out)
	if err != nil {
		fmt.Fprintln(os.Stderr, err)
		os.Exit(2)
	}
	enc := json.NewEncoder(f)
	for _, e := range rec.events {
		enc.Encode(e)
	}
	f.Close()
	if *meta != "" {
		b, _ := json.Marshal(map[string]any{"events": len(rec.events), "max_reqs": maxReq, "scenarios": *scenarios, "requests": total,
			"workers": *workers, "attempts": *attempts, "unanswered": atomic.LoadInt64(&unanswered)})
		os.WriteFile(*meta, b, 0644)
	}
	_ = http.StatusOK
}

package main

import (
	"bytes"
	"encoding/json"
	"fmt"
	"net/http/httptest"
	"net/url"
	"reflect"
	"regexp"
	"sort"
	"strconv"
	"strings"
	"sync"
	"sync/atomic"
	"time"
	"unsafe"

	"github.com/VictoriaMetrics/fastcache"
	"github.com/golang/snappy"
	pprof "github.com/google/pprof/profile"
	"github.com/metrico/qryn/reader/prof"
	"github.com/metrico/qryn/writer/plugin"
	"github.com/metrico/qryn/writer/utils/numbercache"
	"github.com/metrico/qryn/writer/utils/proto/prompb"
	"google.golang.org/protobuf/proto"
	"verif/harness/chsql"
	"verif/harness/e2e"
	"verif/harness/fakech"
)

// ---------------------------------------------------------------- abstract items and their concrete form
//
// An item is (signal, key, t): one log line / one metric sample / one span / one profile.
//   key  : the identity the index is built on (log stream / metric series / trace / profile series), 1..
//   t    : time slot; slot s lies on day s / SlotsPerDay, SlotHours hours apart inside a day
// Concrete form (everything a reader answer is decoded by carries the item's name "<sig>-k<key>-t<t>"):
//   logs     stream {x02="k<key>", __name__="x02m"}            line "item logs-k1-t0"
//   metrics  series {x02="k<key>", __name__="x02m"}            value 1000*key + t + 0.5
//   traces   trace id 0x02..<key>, span id ..<t+1>, tags {x02="k<key>", item="traces-k1-t0"}, name = item
//   profiles series app{x02="k<key>"}, cpu profile with ONE stack of weight 2^(t) (a merged flame graph total decodes the set)
// Logs and metrics of the same key deliberately carry the SAME label set: the series fingerprint does not depend on the
// signal (C04), so the (day, fingerprint) cache and the time_series table are shared between the two signals.

type Item struct {
	Sig string `json:"sig"`
	Key int    `json:"key"`
	T   int    `json:"t"`
}

func (i Item) Name() string { return fmt.Sprintf("%s-k%d-t%d", i.Sig, i.Key, i.T) }

const (
	day0     = int64(1699920000) // 2023-11-14T00:00:00Z
	SlotSec  = int64(3600)
	slotBase = int64(10 * 3600) // first slot of a day at 10:00 UTC
)

// SlotsPerDay is set from the model constants of the history / trace being replayed.
var SlotsPerDay = 2

func slotSec(t int) int64 {
	return day0 + int64(t/SlotsPerDay)*86400 + slotBase + int64(t%SlotsPerDay)*SlotSec
}

func traceHex(key int) string { return fmt.Sprintf("%030x%02x", 0x0f02, key) }
func spanHex(key, t int) string {
	return fmt.Sprintf("%012x%02x%02x", 0x0f02, key, t+1)
}

// ---------------------------------------------------------------- world

type X struct {
	W *e2e.World
	// fault plan: table -> number of INSERTs that still have to fail (consumed by the next matching blocks)
	mu      sync.Mutex
	failTbl map[string]bool // tables whose INSERTs fail while the plan is armed
	calls   int64           // Do calls seen
	log     []BlockLog      // blocks seen since the last drainLog
}

type BlockLog struct {
	Table string `json:"table"`
	Rows  int    `json:"rows"`
	OK    bool   `json:"ok"`
}

var reInsertTable = regexp.MustCompile(`(?is)^\s*INSERT INTO\s+([A-Za-z0-9_.` + "`" + `]+)`)

func tableOf(body string) string {
	m := reInsertTable.FindStringSubmatch(body)
	if m == nil {
		return "?"
	}
	n := strings.Trim(m[1], "`")
	if i := strings.LastIndex(n, "."); i >= 0 {
		n = n[i+1:]
	}
	return strings.TrimSuffix(strings.Trim(n, "`"), "_dist")
}

func newX() (*X, error) {
	x := &X{failTbl: map[string]bool{}}
	w, err := e2e.New(e2e.Options{IntervalMs: 1, Attempts: 1, OnDo: func(b *fakech.Block) error {
		normBlock(b)
		t := tableOf(b.Body)
		x.mu.Lock()
		fail := x.failTbl[t]
		x.log = append(x.log, BlockLog{Table: t, Rows: len(b.Rows), OK: !fail})
		x.mu.Unlock()
		atomic.AddInt64(&x.calls, 1)
		if fail {
			return fmt.Errorf("code: 241, scripted INSERT failure (%s)", t)
		}
		return nil
	}})
	if err != nil {
		return nil, err
	}
	x.W = w
	return x, nil
}

func (x *X) Close() { x.W.Close() }

func (x *X) setFaults(tables []string) {
	x.mu.Lock()
	x.failTbl = map[string]bool{}
	for _, t := range tables {
		x.failTbl[t] = true
	}
	x.mu.Unlock()
}

func (x *X) drainLog() []BlockLog {
	x.mu.Lock()
	defer x.mu.Unlock()
	l := x.log
	x.log = nil
	return l
}

func normBlock(b *fakech.Block) {
	for _, r := range b.Rows {
		for i, v := range r {
			r[i] = normVal(v)
		}
	}
}

func normVal(v any) any {
	if v == nil {
		return v
	}
	rv := reflect.ValueOf(v)
	switch rv.Kind() {
	case reflect.Struct:
		if rv.Type().PkgPath() != "github.com/metrico/qryn/writer/model" {
			return v
		}
		t := make(chsql.Tuple, rv.NumField())
		for i := 0; i < rv.NumField(); i++ {
			t[i] = normVal(rv.Field(i).Interface())
		}
		return t
	case reflect.Slice:
		et := rv.Type().Elem()
		if et.Kind() == reflect.Struct && et.PkgPath() == "github.com/metrico/qryn/writer/model" {
			out := make([]any, rv.Len())
			for i := 0; i < rv.Len(); i++ {
				out[i] = normVal(rv.Index(i).Interface())
			}
			return out
		}
	}
	return v
}

// resetCache empties the writer's (day, fingerprint) cache: what the 30-minute cleanup of numbercache does.
func resetCache() error {
	c, ok := plugin.GoCache.(*numbercache.Cache[uint64])
	if !ok {
		return fmt.Errorf("unexpected cache type %T", plugin.GoCache)
	}
	f := reflect.ValueOf(c).Elem().FieldByName("sets")
	if !f.IsValid() {
		return fmt.Errorf("numbercache.Cache has no field sets")
	}
	sets := *(**fastcache.Cache)(unsafe.Pointer(f.UnsafeAddr()))
	sets.Reset()
	return nil
}

// ---------------------------------------------------------------- push bodies

type pushReq struct {
	Path, CT string
	Body     []byte
}

func labelsJSON(key int) string { return fmt.Sprintf(`{"__name__":"x02m","x02":"k%d"}`, key) }

func pprofBytes(it Item) []byte {
	fn := &pprof.Function{ID: 1, Name: "main.work", SystemName: "main.work", Filename: "main.go"}
	fn2 := &pprof.Function{ID: 2, Name: "main.main", SystemName: "main.main", Filename: "main.go"}
	loc := &pprof.Location{ID: 1, Address: 0x1000, Line: []pprof.Line{{Function: fn, Line: 10}}}
	loc2 := &pprof.Location{ID: 2, Address: 0x2000, Line: []pprof.Line{{Function: fn2, Line: 20}}}
	p := &pprof.Profile{
		SampleType:    []*pprof.ValueType{{Type: "cpu", Unit: "nanoseconds"}},
		PeriodType:    &pprof.ValueType{Type: "cpu", Unit: "nanoseconds"},
		Period:        10000000,
		TimeNanos:     slotSec(it.T) * 1e9,
		DurationNanos: 1000000000,
		Function:      []*pprof.Function{fn, fn2},
		Location:      []*pprof.Location{loc, loc2},
		Sample:        []*pprof.Sample{{Location: []*pprof.Location{loc, loc2}, Value: []int64{profWeight(it)}}},
	}
	var b bytes.Buffer
	if err := p.Write(&b); err != nil {
		panic(err)
	}
	return b.Bytes()
}

// profWeight: a distinct power of two per (key, t) so that any merged total decodes to the set of profiles merged
// (as long as no profile is merged twice: a duplicate shows as a carry and is reported as such).
func profWeight(it Item) int64 { return int64(1) << uint(4*it.T) }

// requests of one push. Logs, metrics and traces: ONE request carrying all items. Profiles: the /ingest route takes one
// profile per request, so a push of n profile items is n requests (handled by the caller as n pushes of one item).
func pushRequest(sig string, items []Item) pushReq {
	switch sig {
	case "logs":
		byKey := map[int][]Item{}
		var keys []int
		for _, it := range items {
			if _, ok := byKey[it.Key]; !ok {
				keys = append(keys, it.Key)
			}
			byKey[it.Key] = append(byKey[it.Key], it)
		}
		var streams []string
		for _, k := range keys {
			var vals []string
			for _, it := range byKey[k] {
				vals = append(vals, fmt.Sprintf(`["%d","item %s"]`, slotSec(it.T)*1e9, it.Name()))
			}
			streams = append(streams, fmt.Sprintf(`{"stream":%s,"values":[%s]}`, labelsJSON(k), strings.Join(vals, ",")))
		}
		return pushReq{"/loki/api/v1/push", "application/json", []byte(`{"streams":[` + strings.Join(streams, ",") + `]}`)}
	case "metrics":
		byKey := map[int]*prompb.TimeSeries{}
		req := &prompb.WriteRequest{}
		for _, it := range items {
			ts, ok := byKey[it.Key]
			if !ok {
				ts = &prompb.TimeSeries{Labels: []*prompb.Label{{Name: "__name__", Value: "x02m"}, {Name: "x02", Value: fmt.Sprintf("k%d", it.Key)}}}
				byKey[it.Key] = ts
				req.Timeseries = append(req.Timeseries, ts)
			}
			ts.Samples = append(ts.Samples, &prompb.Sample{Value: metricValue(it), Timestamp: slotSec(it.T) * 1000})
		}
		raw, err := proto.Marshal(req)
		if err != nil {
			panic(err)
		}
		return pushReq{"/api/v1/prom/remote/write", "application/x-protobuf", snappy.Encode(nil, raw)}
	case "traces":
		var spans []string
		for _, it := range items {
			spans = append(spans, fmt.Sprintf(`{"traceId":"%s","id":"%s","timestamp":%d,"duration":2000,"name":"%s","localEndpoint":{"serviceName":"x02svc"},"tags":{"x02":"k%d","item":"%s"}}`,
				traceHex(it.Key), spanHex(it.Key, it.T), slotSec(it.T)*1e6, it.Name(), it.Key, it.Name()))
		}
		return pushReq{"/tempo/spans", "application/json", []byte("[" + strings.Join(spans, ",") + "]")}
	case "profiles":
		it := items[0]
		name := url.QueryEscape(fmt.Sprintf("x02app{x02=k%d}", it.Key))
		return pushReq{fmt.Sprintf("/ingest?name=%s&from=%d&until=%d", name, slotSec(it.T), slotSec(it.T)+1), "binary/octet-stream", pprofBytes(it)}
	}
	panic("unknown signal " + sig)
}

// itemAt: the item of signal sig whose key label is "k<key>" and whose timestamp (in units of 1/unit s) is a slot time.
func itemAt(sig, keyLabel, ts string, unit int64) (Item, bool) {
	if !reKey.MatchString(keyLabel) {
		return Item{}, false
	}
	k, _ := strconv.Atoi(keyLabel[1:])
	n, err := strconv.ParseInt(ts, 10, 64)
	if err != nil {
		return Item{}, false
	}
	for t := 0; t < 16; t++ {
		if slotSec(t)*unit == n {
			return Item{sig, k, t}, true
		}
	}
	return Item{}, false
}

func metricValue(it Item) float64 { return float64(1000*it.Key+it.T) + 0.5 }

// push sends the request and waits until every INSERT it caused has returned (the answer may be written before the
// slower services have finished: doParse returns at the first failed promise).
func (x *X) push(rq pushReq, wantBlocks int) (int, string, []BlockLog) {
	before := atomic.LoadInt64(&x.calls)
	code, body := x.W.Push("POST", rq.Path, rq.CT, rq.Body, nil)
	deadline := time.Now().Add(2 * time.Second)
	for atomic.LoadInt64(&x.calls)-before < int64(wantBlocks) && time.Now().Before(deadline) {
		time.Sleep(200 * time.Microsecond)
	}
	// let a straggler (a block we did not expect) show up
	x.W.Settle()
	return code, body, x.drainLog()
}

// ---------------------------------------------------------------- read endpoints

// Win: query window in slots [From, To] (inclusive slots); concrete [slotSec(From), slotSec(To)+1s)
type Win struct {
	From int `json:"from"`
	To   int `json:"to"`
}

type Answer struct {
	Code  int      `json:"code"`
	Items []string `json:"items"` // item names (item-grain endpoints) or "k<key>" (key-grain endpoints), sorted, de-duplicated
	Dups  int      `json:"dups"`  // how many returned entries were duplicates of another
	Raw   string   `json:"raw,omitempty"`
	Note  string   `json:"note,omitempty"`
}

func clip(s string) string {
	if len(s) > 600 {
		return s[:600] + "..."
	}
	return s
}

func setAnswer(code int, raw string, names []string) Answer {
	seen := map[string]bool{}
	var out []string
	dups := 0
	for _, n := range names {
		if seen[n] {
			dups++
			continue
		}
		seen[n] = true
		out = append(out, n)
	}
	sort.Strings(out)
	if out == nil {
		out = []string{}
	}
	return Answer{Code: code, Items: out, Dups: dups, Raw: clip(raw)}
}

var reItem = regexp.MustCompile(`(logs|metrics|traces|profiles)-k\d+-t\d+`)
var reKey = regexp.MustCompile(`^k\d+$`)

func (x *X) postJSON(path string, body any) (int, string) {
	b, _ := json.Marshal(body)
	req := httptest.NewRequest("POST", path, bytes.NewReader(b))
	req.Header.Set("Content-Type", "application/json")
	return x.W.Do(req)
}

const profType = "process_cpu:cpu:nanoseconds:cpu:nanoseconds"

// emptyScanArtefact: chbridge hands an empty ClickHouse array to database/sql as []interface{} which the reader's typed
// scan target refuses; clickhouse-go delivers a typed empty slice. Only an EMPTY result takes this path.
func emptyScanArtefact(code int, body string) bool {
	return code == 500 && strings.Contains(body, "unsupported Scan, storing driver.Value type []interface {}")
}

// weightNames decodes a sum of profile weights (16^t per profile) into the profiles summed; a profile counted n times
// yields its name n times (a duplicate), a residue that is no sum of weights yields a "?weight" entry.
func weightNames(key int, total int64) []string {
	var names []string
	for t := 0; t < 15; t++ {
		n := (total >> uint(4*t)) & 15
		for j := int64(0); j < n; j++ {
			names = append(names, Item{"profiles", key, t}.Name())
		}
	}
	if total < 0 {
		names = append(names, fmt.Sprintf("?weight:%d", total))
	}
	return names
}

// Endpoints: name -> (signal, grain)
type epInfo struct {
	Sig   string
	Grain string // item | key
}

var endpoints = map[string]epInfo{
	"loki_query_range":   {"logs", "item"},
	"loki_label_values":  {"logs", "key"},
	"loki_series":        {"logs", "key"},
	"prom_query_range":   {"metrics", "item"},
	"prom_series":        {"metrics", "key"},
	"prom_label_values":  {"metrics", "key"},
	"tempo_by_id":        {"traces", "item"},
	"tempo_search_tags":  {"traces", "key"},
	"tempo_traceql":      {"traces", "item"},
	"tempo_tag_values":   {"traces", "key"},
	"prof_select":        {"profiles", "item"},
	"prof_select_series": {"profiles", "item"},
	"prof_series":        {"profiles", "key"},
	"prof_label_values":  {"profiles", "key"},
	"prof_profile_types": {"profiles", "key"},
}

// query runs endpoint ep for key over window w and decodes the answer into item names / keys.
func (x *X) query(ep string, key int, w Win) Answer {
	// the window [slot(From) - 60 s, slot(To) + 60 s): every item of the slots From..To lies strictly inside, items of
	// other slots (>= 1 h away) strictly outside -- window EDGE semantics are the subject of C13, not of this check
	fromS, toS := slotSec(w.From)-60, slotSec(w.To)+60
	sel := fmt.Sprintf(`{x02="k%d"}`, key)
	switch ep {
	case "loki_query_range":
		v := url.Values{"query": {sel}, "start": {fmt.Sprint(fromS * 1e9)}, "end": {fmt.Sprint(toS * 1e9)}, "limit": {"1000"}}
		code, body := x.W.Get("/loki/api/v1/query_range?" + v.Encode())
		var doc struct {
			Data struct {
				Result []struct {
					Stream map[string]string `json:"stream"`
					Values [][]string        `json:"values"`
				} `json:"result"`
			} `json:"data"`
		}
		if code != 200 {
			return Answer{Code: code, Items: []string{}, Raw: clip(body)}
		}
		if err := json.Unmarshal([]byte(body), &doc); err != nil {
			return Answer{Code: code, Items: []string{}, Raw: clip(body), Note: "undecodable: " + err.Error()}
		}
		var names []string
		for _, r := range doc.Data.Result {
			for _, val := range r.Values {
				if len(val) >= 2 {
					if m := reItem.FindString(val[1]); m != "" {
						names = append(names, m)
					} else if it, ok := itemAt("metrics", r.Stream["x02"], val[0], 1e9); ok && val[1] == "" {
						names = append(names, it.Name()) // a metric sample (empty string column) returned as a log line
					} else {
						names = append(names, "?line:"+val[1])
					}
				}
			}
		}
		return setAnswer(code, body, names)
	case "loki_label_values", "prom_label_values":
		var code int
		var body string
		if ep == "loki_label_values" {
			v := url.Values{"start": {fmt.Sprint(fromS * 1e9)}, "end": {fmt.Sprint(toS * 1e9)}}
			code, body = x.W.Get("/loki/api/v1/label/x02/values?" + v.Encode())
		} else {
			v := url.Values{"start": {fmt.Sprint(fromS)}, "end": {fmt.Sprint(toS)}}
			code, body = x.W.Get("/api/v1/label/x02/values?" + v.Encode())
		}
		var doc struct {
			Data []string `json:"data"`
		}
		if code != 200 {
			return Answer{Code: code, Items: []string{}, Raw: clip(body)}
		}
		if err := json.Unmarshal([]byte(body), &doc); err != nil {
			return Answer{Code: code, Items: []string{}, Raw: clip(body), Note: "undecodable: " + err.Error()}
		}
		return setAnswer(code, body, doc.Data)
	case "loki_series", "prom_series":
		var code int
		var body string
		if ep == "loki_series" {
			v := url.Values{"match[]": {sel}, "start": {fmt.Sprint(fromS * 1e9)}, "end": {fmt.Sprint(toS * 1e9)}}
			code, body = x.W.Get("/loki/api/v1/series?" + v.Encode())
		} else {
			v := url.Values{"match[]": {"x02m" + sel}, "start": {fmt.Sprint(fromS)}, "end": {fmt.Sprint(toS)}}
			code, body = x.W.Get("/api/v1/series?" + v.Encode())
		}
		var doc struct {
			Data []map[string]string `json:"data"`
		}
		if code != 200 {
			return Answer{Code: code, Items: []string{}, Raw: clip(body)}
		}
		if err := json.Unmarshal([]byte(body), &doc); err != nil {
			return Answer{Code: code, Items: []string{}, Raw: clip(body), Note: "undecodable: " + err.Error()}
		}
		var names []string
		for _, s := range doc.Data {
			names = append(names, s["x02"])
		}
		return setAnswer(code, body, names)
	case "prom_query_range":
		// evaluation grid = the slots themselves (a sample is returned at the step of its own timestamp; the 5-minute
		// lookback cannot reach the neighbouring slot)
		v := url.Values{"query": {"x02m" + sel}, "start": {fmt.Sprint(slotSec(w.From))}, "end": {fmt.Sprint(slotSec(w.To))}, "step": {fmt.Sprint(SlotSec)}}
		code, body := x.W.Get("/api/v1/query_range?" + v.Encode())
		var doc struct {
			Data struct {
				Result []struct {
					Metric map[string]string `json:"metric"`
					Values [][]any           `json:"values"`
				} `json:"result"`
			} `json:"data"`
		}
		if code != 200 {
			return Answer{Code: code, Items: []string{}, Raw: clip(body)}
		}
		if err := json.Unmarshal([]byte(body), &doc); err != nil {
			return Answer{Code: code, Items: []string{}, Raw: clip(body), Note: "undecodable: " + err.Error()}
		}
		var names []string
		for _, r := range doc.Data.Result {
			for _, val := range r.Values {
				if len(val) < 2 {
					continue
				}
				f, err := strconv.ParseFloat(fmt.Sprint(val[1]), 64)
				if err != nil {
					names = append(names, "?value:"+fmt.Sprint(val[1]))
					continue
				}
				n := int(f)
				it := Item{"metrics", n / 1000, n % 1000}
				if lg, ok := itemAt("logs", r.Metric["x02"], fmt.Sprint(int64(val[0].(float64))), 1); ok && f == 0 {
					names = append(names, lg.Name()) // a log row (value column 0) returned as a metric sample
					continue
				}
				if metricValue(it) != f {
					names = append(names, "?value:"+fmt.Sprint(val[1]))
					continue
				}
				// the point must sit at the sample's own timestamp (no lookback in this grid: slots are >= 1 h apart)
				ts, _ := val[0].(float64)
				if int64(ts) != slotSec(it.T) {
					names = append(names, fmt.Sprintf("?point:%s@%d", it.Name(), int64(ts)))
					continue
				}
				names = append(names, it.Name())
			}
		}
		return setAnswer(code, body, names)
	case "tempo_by_id":
		code, body := x.W.Get(fmt.Sprintf("/api/traces/%s/json?start=%d&end=%d", traceHex(key), fromS, toS))
		if code == 404 {
			return Answer{Code: 200, Items: []string{}, Raw: clip(body), Note: ""}
		}
		if code != 200 {
			return Answer{Code: code, Items: []string{}, Raw: clip(body)}
		}
		var doc struct {
			ResourceSpans []struct {
				ILS []struct {
					Spans []struct {
						Name   string `json:"name"`
						SpanID string `json:"spanId"`
					} `json:"spans"`
				} `json:"instrumentationLibrarySpans"`
			} `json:"resourceSpans"`
		}
		if err := json.Unmarshal([]byte(body), &doc); err != nil {
			return Answer{Code: code, Items: []string{}, Raw: clip(body), Note: "undecodable: " + err.Error()}
		}
		var names []string
		for _, rs := range doc.ResourceSpans {
			for _, ils := range rs.ILS {
				for _, s := range ils.Spans {
					if m := reItem.FindString(s.Name); m != "" {
						names = append(names, m)
					} else {
						names = append(names, "?span:"+s.Name)
					}
				}
			}
		}
		return setAnswer(code, body, names)
	case "tempo_search_tags", "tempo_traceql":
		v := url.Values{"limit": {"100"}, "start": {fmt.Sprint(fromS)}, "end": {fmt.Sprint(toS)}}
		if ep == "tempo_search_tags" {
			v.Set("tags", fmt.Sprintf("x02=k%d", key))
		} else {
			v.Set("q", fmt.Sprintf(`{.x02="k%d"}`, key))
		}
		code, body := x.W.Get("/api/search?" + v.Encode())
		if code != 200 {
			return Answer{Code: code, Items: []string{}, Raw: clip(body)}
		}
		var doc struct {
			Traces []struct {
				TraceID  string `json:"traceID"`
				RootName string `json:"rootTraceName"`
				SpanSet  struct {
					Spans []struct {
						SpanID string `json:"spanID"`
					} `json:"spans"`
				} `json:"spanSet"`
				SpanSets []struct {
					Spans []struct {
						SpanID string `json:"spanID"`
					} `json:"spans"`
				} `json:"spanSets"`
			} `json:"traces"`
		}
		if err := json.Unmarshal([]byte(body), &doc); err != nil {
			return Answer{Code: code, Items: []string{}, Raw: clip(body), Note: "undecodable: " + err.Error()}
		}
		var names []string
		for _, tr := range doc.Traces {
			k := -1
			for kk := 0; kk < 16; kk++ {
				if strings.EqualFold(strings.TrimLeft(tr.TraceID, "0"), strings.TrimLeft(traceHex(kk), "0")) {
					k = kk
				}
			}
			if k < 0 {
				names = append(names, "?trace:"+tr.TraceID)
				continue
			}
			if ep == "tempo_search_tags" {
				names = append(names, fmt.Sprintf("k%d", k))
				continue
			}
			for _, s := range tr.SpanSet.Spans {
				t := -1
				for tt := 0; tt < 16; tt++ {
					if strings.EqualFold(strings.TrimLeft(s.SpanID, "0"), strings.TrimLeft(spanHex(k, tt), "0")) {
						t = tt
					}
				}
				if t < 0 {
					names = append(names, "?span:"+s.SpanID)
				} else {
					names = append(names, Item{"traces", k, t}.Name())
				}
			}
		}
		return setAnswer(code, body, names)
	case "tempo_tag_values":
		code, body := x.W.Get("/api/search/tag/x02/values")
		if code != 200 {
			return Answer{Code: code, Items: []string{}, Raw: clip(body)}
		}
		var doc struct {
			TagValues []string `json:"tagValues"`
		}
		if err := json.Unmarshal([]byte(body), &doc); err != nil {
			return Answer{Code: code, Items: []string{}, Raw: clip(body), Note: "undecodable: " + err.Error()}
		}
		names := doc.TagValues
		return setAnswer(code, body, names)
	case "prof_select":
		code, body := x.postJSON(prof.QuerierService_SelectMergeStacktraces_FullMethodName, map[string]any{
			"profile_typeID": profType, "label_selector": sel, "start": fromS * 1000, "end": toS * 1000})
		if emptyScanArtefact(code, body) {
			return Answer{Code: 200, Items: []string{}, Raw: clip(body), Note: "empty result (chbridge delivers an empty array untyped)"}
		}
		if code != 200 {
			return Answer{Code: code, Items: []string{}, Raw: clip(body)}
		}
		var doc struct {
			Flamegraph struct {
				Levels []struct {
					Values []string `json:"values"`
				} `json:"levels"`
			} `json:"flamegraph"`
		}
		if err := json.Unmarshal([]byte(body), &doc); err != nil {
			return Answer{Code: code, Items: []string{}, Raw: clip(body), Note: "undecodable: " + err.Error()}
		}
		// every profile is one stack whose leaf carries the profile's weight as self value: the sum of the self values of
		// the merged flame graph is the sum of the weights of the merged profiles
		total := int64(0)
		for _, l := range doc.Flamegraph.Levels {
			for i := 2; i < len(l.Values); i += 4 {
				n, err := strconv.ParseInt(l.Values[i], 10, 64)
				if err != nil {
					return Answer{Code: code, Items: []string{}, Raw: clip(body), Note: "undecodable self value"}
				}
				total += n
			}
		}
		return setAnswer(code, body, weightNames(key, total))
	case "prof_select_series":
		code, body := x.postJSON(prof.QuerierService_SelectSeries_FullMethodName, map[string]any{
			"profile_typeID": profType, "label_selector": sel, "group_by": []string{"x02"}, "step": float64(SlotSec), "start": fromS * 1000, "end": toS * 1000})
		if emptyScanArtefact(code, body) {
			return Answer{Code: 200, Items: []string{}, Raw: clip(body), Note: "empty result (chbridge delivers an empty array untyped)"}
		}
		if code != 200 {
			return Answer{Code: code, Items: []string{}, Raw: clip(body)}
		}
		var doc struct {
			Series []struct {
				Points []struct {
					Value any `json:"value"`
				} `json:"points"`
			} `json:"series"`
		}
		if err := json.Unmarshal([]byte(body), &doc); err != nil {
			return Answer{Code: code, Items: []string{}, Raw: clip(body), Note: "undecodable: " + err.Error()}
		}
		var names []string
		for _, sr := range doc.Series {
			for _, pt := range sr.Points {
				f, err := strconv.ParseFloat(strings.Trim(fmt.Sprint(pt.Value), `"`), 64)
				if err != nil {
					names = append(names, "?point:"+fmt.Sprint(pt.Value))
					continue
				}
				names = append(names, weightNames(key, int64(f))...)
			}
		}
		return setAnswer(code, body, names)
	case "prof_series":
		code, body := x.postJSON(prof.QuerierService_Series_FullMethodName, map[string]any{
			"matchers": []string{sel}, "label_names": []string{"x02"}, "start": fromS * 1000, "end": toS * 1000})
		if code != 200 {
			return Answer{Code: code, Items: []string{}, Raw: clip(body)}
		}
		var doc struct {
			LabelsSet []struct {
				Labels []struct {
					Name  string `json:"name"`
					Value string `json:"value"`
				} `json:"labels"`
			} `json:"labelsSet"`
		}
		if err := json.Unmarshal([]byte(body), &doc); err != nil {
			return Answer{Code: code, Items: []string{}, Raw: clip(body), Note: "undecodable: " + err.Error()}
		}
		var names []string
		for _, ls := range doc.LabelsSet {
			for _, l := range ls.Labels {
				if l.Name == "x02" {
					names = append(names, l.Value)
				}
			}
		}
		return setAnswer(code, body, names)
	case "prof_label_values":
		code, body := x.postJSON(prof.QuerierService_LabelValues_FullMethodName, map[string]any{"name": "x02", "start": fromS * 1000, "end": toS * 1000})
		if code != 200 {
			return Answer{Code: code, Items: []string{}, Raw: clip(body)}
		}
		var doc struct {
			Names []string `json:"names"`
		}
		if err := json.Unmarshal([]byte(body), &doc); err != nil {
			return Answer{Code: code, Items: []string{}, Raw: clip(body), Note: "undecodable: " + err.Error()}
		}
		return setAnswer(code, body, doc.Names)
	case "prof_profile_types":
		code, body := x.postJSON(prof.QuerierService_ProfileTypes_FullMethodName, map[string]any{"start": fromS * 1000, "end": toS * 1000})
		if code != 200 {
			return Answer{Code: code, Items: []string{}, Raw: clip(body)}
		}
		var doc struct {
			ProfileTypes []struct {
				ID string `json:"ID"`
			} `json:"profileTypes"`
		}
		if err := json.Unmarshal([]byte(body), &doc); err != nil {
			return Answer{Code: code, Items: []string{}, Raw: clip(body), Note: "undecodable: " + err.Error()}
		}
		var names []string
		for _, p := range doc.ProfileTypes {
			if p.ID == "" {
				continue // the placeholder the controller returns when no type exists
			}
			if p.ID == profType {
				names = append(names, "k0") // the model's marker for "the profile type is listed"
			} else {
				names = append(names, "?type:"+p.ID)
			}
		}
		return setAnswer(code, body, names)
	}
	return Answer{Code: -1, Items: []string{}, Note: "unknown endpoint " + ep}
}

package main

import (
	"encoding/json"
	"fmt"
	"os"
	"regexp"
	"sort"
	"strconv"
	"strings"
	"time"
)

// ---------------------------------------------------------------- replay of TLC histories / recording of workloads

type Step struct {
	Action string         `json:"action"`
	Args   []any          `json:"args"`
	State  map[string]any `json:"state,omitempty"`
}

type Model struct {
	SlotsPerDay int      `json:"slots_per_day"`
	Keys        []int    `json:"keys"`
	Slots       []int    `json:"slots"`
	Signals     []string `json:"signals"`
}

type Violation struct {
	Kind      string `json:"kind"` // property | conformance
	Signature string `json:"signature"`
	Msg       string `json:"msg"`
	History   int    `json:"history"`
	Steps     []Step `json:"steps"` // the history up to the step at which it was observed (actions and arguments only)
	Detail    any    `json:"detail,omitempty"`
	Count     int    `json:"count"`
}

type Stats struct {
	Histories   int            `json:"histories"`
	Distinct    int            `json:"distinct_histories"`
	Steps       map[string]int `json:"steps"`
	Pushes      map[string]int `json:"pushes_by_signal"`
	Faulty      int            `json:"pushes_with_failed_insert"`
	Bad         int            `json:"pushes_with_malformed_tail"`
	Lost        int            `json:"pushes_with_lost_answer"`
	Status      map[string]int `json:"status"`
	Queries     int            `json:"queries"`
	Sweeps      int            `json:"sweeps"`
	SweepQ      int            `json:"sweep_queries"`
	Compared    int            `json:"answers_compared"`
	NonEmpty    int            `json:"answers_nonempty"`
	Dups        int            `json:"duplicate_entries_returned"`
	AckedItems  int            `json:"acked_items_checked"`
	Unreadable  map[string]int `json:"acked_unreadable_by_cause"`
	EPs         map[string]int `json:"nonempty_answers_by_endpoint"`
	Artefacts   int            `json:"empty_scan_artefacts"`
	Unsupported []string       `json:"unsupported_sql,omitempty"`
}

func newStats() *Stats {
	return &Stats{Steps: map[string]int{}, Pushes: map[string]int{}, Status: map[string]int{}, Unreadable: map[string]int{}, EPs: map[string]int{}}
}

type runner struct {
	m     Model
	x     *X
	stats *Stats
	viols map[string]*Violation
	order []string
	infra []string

	// per history
	hist        int
	done        []Step
	acked       map[string]Item // items of requests answered 2xx (as the client saw it)
	ackedRetry  map[string]bool
	landedAny   map[string]bool // items carried by at least one successful INSERT (from the fault plan and the block log)
	pushedItems map[string]Item
	// record mode: some log / metric request was parsed since the last cache reset
	cacheMayBeSet bool
	// record mode: unreadable acknowledged items are not reported from here (no model state to attribute the cause;
	// the recorded answers are validated against the model by Trace_Qryn instead)
	noAcked bool
}

func (r *runner) bad(kind, sig, msg string, detail any) {
	if v, ok := r.viols[sig]; ok {
		v.Count++
		return
	}
	steps := make([]Step, len(r.done))
	for i, s := range r.done {
		steps[i] = Step{Action: s.Action, Args: s.Args}
	}
	r.viols[sig] = &Violation{Kind: kind, Signature: sig, Msg: msg, History: r.hist, Steps: steps, Detail: detail, Count: 1}
	r.order = append(r.order, sig)
}

func toInt(v any) int {
	switch n := v.(type) {
	case float64:
		return int(n)
	case int:
		return n
	case json.Number:
		i, _ := n.Int64()
		return int(i)
	}
	panic(fmt.Sprintf("not a number: %T %v", v, v))
}

func toItems(v any) []Item {
	var res []Item
	for _, e := range v.([]any) {
		m := e.(map[string]any)
		res = append(res, Item{Sig: m["sig"].(string), Key: toInt(m["key"]), T: toInt(m["t"])})
	}
	sort.Slice(res, func(i, j int) bool {
		if res[i].Key != res[j].Key {
			return res[i].Key < res[j].Key
		}
		return res[i].T < res[j].T
	})
	return res
}

func toStrings(v any) []string {
	var res []string
	for _, e := range v.([]any) {
		res = append(res, e.(string))
	}
	sort.Strings(res)
	return res
}

// name of an element of a model answer
func ansName(ep string, m map[string]any) string {
	t := toInt(m["t"])
	if t < 0 {
		return fmt.Sprintf("k%d", toInt(m["key"]))
	}
	return Item{m["sig"].(string), toInt(m["key"]), t}.Name()
}

func modelAnswer(ep string, v any) []string {
	res := []string{}
	if v == nil {
		return res
	}
	for _, e := range v.([]any) {
		res = append(res, ansName(ep, e.(map[string]any)))
	}
	sort.Strings(res)
	return res
}

func expectName(ep string, it Item) string {
	if endpoints[ep].Grain == "item" {
		return it.Name()
	}
	if ep == "prof_profile_types" {
		return "k0"
	}
	return fmt.Sprintf("k%d", it.Key)
}

func eqStrings(a, b []string) bool {
	if len(a) != len(b) {
		return false
	}
	for i := range a {
		if a[i] != b[i] {
			return false
		}
	}
	return true
}

func diff(a, b []string) (onlyA, onlyB []string) {
	inB := map[string]bool{}
	for _, s := range b {
		inB[s] = true
	}
	inA := map[string]bool{}
	for _, s := range a {
		inA[s] = true
		if !inB[s] {
			onlyA = append(onlyA, s)
		}
	}
	for _, s := range b {
		if !inA[s] {
			onlyB = append(onlyB, s)
		}
	}
	return
}

func (r *runner) hasSignal(s string) bool {
	for _, x := range r.m.Signals {
		if x == s {
			return true
		}
	}
	return false
}

func (r *runner) epList() []string {
	var eps []string
	for e, inf := range endpoints {
		if r.hasSignal(inf.Sig) {
			eps = append(eps, e)
		}
	}
	sort.Strings(eps)
	return eps
}

func (r *runner) windows() []Win {
	var ws []Win
	for _, a := range r.m.Slots {
		for _, b := range r.m.Slots {
			if a <= b {
				ws = append(ws, Win{a, b})
			}
		}
	}
	return ws
}

var keyIndependent = map[string]bool{"loki_label_values": true, "prom_label_values": true, "tempo_tag_values": true, "prof_label_values": true, "prof_profile_types": true}

// sweep asks every endpoint for every key and window.
func (r *runner) sweep() map[string]Answer {
	res := map[string]Answer{}
	r.stats.Sweeps++
	for _, ep := range r.epList() {
		for _, w := range r.windows() {
			var shared *Answer
			for _, k := range r.m.Keys {
				key := fmt.Sprintf("%s/%d/%d/%d", ep, k, w.From, w.To)
				if keyIndependent[ep] && shared != nil {
					res[key] = *shared
					continue
				}
				a := r.x.query(ep, k, w)
				r.stats.SweepQ++
				if strings.HasPrefix(a.Note, "empty result (chbridge") {
					r.stats.Artefacts++
				}
				res[key] = a
				shared = &a
			}
		}
	}
	return res
}

func in(list []string, s string) bool {
	for _, x := range list {
		if x == s {
			return true
		}
	}
	return false
}

var reItemName = regexp.MustCompile(`^(logs|metrics|traces|profiles)-k(\d+)-t(\d+)$`)

// check evaluates the properties on the REAL answers and compares them with the model's view (nil: no model).
func (r *runner) check(R map[string]Answer, view map[string]any, blame []any) {
	// ---- conformance with the model
	if view != nil {
		var keys []string
		for k := range R {
			keys = append(keys, k)
		}
		sort.Strings(keys)
		for _, k := range keys {
			a := R[k]
			ep := strings.SplitN(k, "/", 2)[0]
			want := modelAnswer(ep, view[k])
			if _, ok := view[k]; !ok {
				r.infra = append(r.infra, "the model's view has no entry "+k)
				continue
			}
			r.stats.Compared++
			if len(a.Items) > 0 {
				r.stats.NonEmpty++
				r.stats.EPs[ep]++
			}
			r.stats.Dups += a.Dups
			if a.Code != 200 {
				r.bad("conformance", fmt.Sprintf("conformance|%s|http-%d", ep, a.Code), fmt.Sprintf("%s answered %d: %s", k, a.Code, a.Raw), a)
				continue
			}
			if a.Note != "" && !strings.HasPrefix(a.Note, "empty result (chbridge") {
				r.bad("conformance", fmt.Sprintf("conformance|%s|undecodable", ep), fmt.Sprintf("%s: %s: %s", k, a.Note, a.Raw), a)
				continue
			}
			if !eqStrings(a.Items, want) {
				extra, missing := diff(a.Items, want)
				cls := "missing"
				if len(extra) > 0 {
					cls = "extra"
					for _, e := range extra {
						if strings.HasPrefix(e, "?") {
							cls = "foreign"
						}
					}
				}
				r.bad("conformance", fmt.Sprintf("conformance|%s|%s", ep, cls),
					fmt.Sprintf("%s (endpoint/key/from-slot/to-slot) returned %v, the model (Qryn.tla as coded) says %v: missing %v, not expected %v", k, a.Items, want, missing, extra),
					map[string]any{"query": k, "real": a, "model": want})
			}
		}
	}
	// ---- AckedReadable / RetryIdempotentEnough on the real answers
	blameOf := map[string]string{}
	for _, b := range blame {
		m := b.(map[string]any)
		blameOf[Item{m["sig"].(string), toInt(m["key"]), toInt(m["t"])}.Name()] = m["cause"].(string)
	}
	var names []string
	for n := range r.acked {
		names = append(names, n)
	}
	sort.Strings(names)
	for _, n := range names {
		if r.noAcked {
			break
		}
		it := r.acked[n]
		r.stats.AckedItems++
		var failing []string
		for _, ep := range r.epList() {
			if endpoints[ep].Sig != it.Sig {
				continue
			}
			for _, w := range r.windows() {
				if it.T < w.From || it.T > w.To {
					continue
				}
				k := fmt.Sprintf("%s/%d/%d/%d", ep, it.Key, w.From, w.To)
				a, ok := R[k]
				if !ok || a.Code != 200 {
					continue // reported as conformance problem
				}
				if !in(a.Items, expectName(ep, it)) {
					failing = append(failing, k)
				}
			}
		}
		if len(failing) == 0 {
			continue
		}
		cause, explained := blameOf[n]
		if !explained {
			cause = "unexplained"
		}
		parts := strings.SplitN(cause, "|", 2)
		prop := "AckedReadable"
		if r.ackedRetry[n] {
			prop = "RetryIdempotentEnough"
		}
		sig := fmt.Sprintf("%s|%s|%s", parts[0], prop, it.Sig)
		if len(parts) > 1 {
			sig += "|" + parts[1]
		}
		r.stats.Unreadable[sig]++
		eps := map[string]bool{}
		for _, f := range failing {
			eps[strings.SplitN(f, "/", 2)[0]] = true
		}
		var epl []string
		for e := range eps {
			epl = append(epl, e)
		}
		sort.Strings(epl)
		r.bad("property", sig, fmt.Sprintf("%s: item %s was pushed in a request answered 2xx but is not returned by %v (selector x02=\"k%d\", windows containing slot %d; %d endpoint/window combinations fail); cause according to Qryn.tla: %s",
			prop, n, epl, it.Key, it.T, len(failing), cause), map[string]any{"item": it, "failing_queries": failing, "example": R[failing[0]]})
	}
	// ---- SearchImpliesFetch, NoCrossSignal, fully refused items
	var keys []string
	for k := range R {
		keys = append(keys, k)
	}
	sort.Strings(keys)
	for _, k := range keys {
		a := R[k]
		f := strings.Split(k, "/")
		ep := f[0]
		for _, n := range a.Items {
			m := reItemName.FindStringSubmatch(n)
			if m == nil {
				continue
			}
			if m[1] != endpoints[ep].Sig {
				r.bad("property", fmt.Sprintf("NoCrossSignal|%s|returns-%s", ep, m[1]), fmt.Sprintf("NoCrossSignal: %s (an endpoint of signal %s) returned %s, an item pushed as %s", k, endpoints[ep].Sig, n, m[1]), a)
			}
			if !r.landedAny[n] {
				what := "was never pushed"
				if _, ok := r.pushedItems[n]; ok {
					what = "was only carried by requests none of whose INSERTs succeeded"
				}
				r.bad("property", fmt.Sprintf("RefusedNotHalfVisible|phantom|%s", ep), fmt.Sprintf("RefusedNotHalfVisible: %s returned %s which %s", k, n, what), a)
			}
		}
		if ep == "tempo_search_tags" || ep == "tempo_traceql" {
			byID, ok := R["tempo_by_id/"+strings.Join(f[1:], "/")]
			if ok && byID.Code == 200 && a.Code == 200 {
				for _, n := range a.Items {
					if ep == "tempo_search_tags" && len(byID.Items) == 0 {
						r.bad("property", "RefusedNotHalfVisible|search-lists-unfetchable-trace|"+ep, fmt.Sprintf("RefusedNotHalfVisible: %s lists trace %s whose fetch by id over the same window returns no span", k, n), map[string]any{"search": a, "by_id": byID})
					}
					if ep == "tempo_traceql" && !in(byID.Items, n) {
						r.bad("property", "RefusedNotHalfVisible|search-lists-unfetchable-trace|"+ep, fmt.Sprintf("RefusedNotHalfVisible: %s returns span %s which the fetch by id over the same window does not contain", k, n), map[string]any{"search": a, "by_id": byID})
					}
				}
			}
		}
	}
}

var alwaysTables = map[string][]string{"logs": {"samples_v3"}, "metrics": {"samples_v3"}, "traces": {"tempo_traces", "tempo_traces_attrs_gin"}, "profiles": {"profiles_input"}}

// doPush sends one request (for profiles: one per item) under the fault plan and returns the status class.
func (r *runner) doPush(sig string, items []Item, fail []string, bad bool) (string, []BlockLog, error) {
	r.x.setFaults(fail)
	defer r.x.setFaults(nil)
	groups := [][]Item{items}
	if sig == "profiles" {
		groups = nil
		for _, it := range items {
			groups = append(groups, []Item{it})
		}
	}
	status := "2xx"
	var logs []BlockLog
	for _, g := range groups {
		rq := pushRequest(sig, g)
		if bad {
			// a malformed stream AFTER the well-formed ones (the timestamp is not a number)
			rq.Body = []byte(string(rq.Body[:len(rq.Body)-2]) + `,{"stream":{"x02":"broken"},"values":[["not-a-number","x"]]}]}`)
		}
		before := len(r.x.W.CH.Snapshot())
		code, _ := r.x.W.Push("POST", rq.Path, rq.CT, rq.Body, nil)
		if code < 200 || code > 299 {
			status = "err"
		}
		// every INSERT the request caused must have returned before the next step (the answer is written at the first
		// failed insert while the other services may still be working)
		deadline := time.Now().Add(10 * time.Second)
		for {
			seen := map[string]bool{}
			snap := r.x.W.CH.Snapshot()
			for _, b := range snap[before:] {
				seen[tableOf(b.Body)] = true
			}
			ok := true
			if !bad {
				for _, t := range alwaysTables[sig] {
					if !seen[t] {
						ok = false
					}
				}
			}
			if ok {
				for _, b := range snap[before:] {
					logs = append(logs, BlockLog{Table: tableOf(b.Body), Rows: len(b.Rows), OK: b.Err == nil})
				}
				break
			}
			if time.Now().After(deadline) {
				return status, logs, fmt.Errorf("the INSERTs of a %s push did not all arrive within 10 s (saw %v)", sig, seen)
			}
			time.Sleep(200 * time.Microsecond)
		}
	}
	if len(r.x.W.StoreErr) > 0 {
		return status, logs, fmt.Errorf("store errors: %v", r.x.W.StoreErr)
	}
	return status, logs, nil
}

func (r *runner) beginHistory(h int) error {
	x, err := newX()
	if err != nil {
		return err
	}
	r.x = x
	r.hist = h
	r.done = nil
	r.acked = map[string]Item{}
	r.ackedRetry = map[string]bool{}
	r.landedAny = map[string]bool{}
	r.pushedItems = map[string]Item{}
	r.cacheMayBeSet = false
	return resetCache()
}

func (r *runner) endHistory() {
	if r.x != nil {
		if len(r.x.W.Bridge.Unsupported) > 0 {
			r.stats.Unsupported = append(r.stats.Unsupported, r.x.W.Bridge.Unsupported...)
			r.infra = append(r.infra, r.x.W.Bridge.Unsupported...)
		}
		r.x.Close()
		r.x = nil
	}
}

// applyPush performs a Push / Retry and does the client-side bookkeeping. Returns the status the client saw.
func (r *runner) applyPush(retry bool, sig string, items []Item, fail []string, bad, lost bool) (string, error) {
	status, logs, err := r.doPush(sig, items, fail, bad)
	if err != nil {
		return "", err
	}
	r.stats.Pushes[sig]++
	if len(fail) > 0 {
		r.stats.Faulty++
	}
	if bad {
		r.stats.Bad++
	}
	anyOK := false
	for _, l := range logs {
		if l.OK {
			anyOK = true
		}
	}
	for _, it := range items {
		r.pushedItems[it.Name()] = it
		if anyOK {
			r.landedAny[it.Name()] = true
		}
	}
	seen := status
	if lost {
		seen = "none"
		r.stats.Lost++
	}
	r.stats.Status[seen]++
	if seen == "2xx" {
		for _, it := range items {
			r.acked[it.Name()] = it
			if retry {
				r.ackedRetry[it.Name()] = true
			}
		}
	}
	return seen, nil
}

func history(in, out string) int {
	raw, err := os.ReadFile(in)
	if err != nil {
		fmt.Fprintln(os.Stderr, err)
		return 2
	}
	var input struct {
		Model
		Behaviours [][]Step `json:"behaviours"`
	}
	if err := json.Unmarshal(raw, &input); err != nil {
		fmt.Fprintln(os.Stderr, err)
		return 2
	}
	SlotsPerDay = input.SlotsPerDay
	r := &runner{m: input.Model, stats: newStats(), viols: map[string]*Violation{}}
	distinct := map[string]bool{}
	var sample []Step
	for hi, beh := range input.Behaviours {
		if err := r.beginHistory(hi); err != nil {
			r.infra = append(r.infra, err.Error())
			break
		}
		r.stats.Histories++
		var sigParts []string
		for si := 1; si < len(beh); si++ {
			st := beh[si]
			if st.Action == "Choose" {
				continue
			}
			r.done = append(r.done, st)
			r.stats.Steps[st.Action]++
			ab, _ := json.Marshal(st.Args)
			sigParts = append(sigParts, st.Action+string(ab))
			last, _ := st.State["last"].(map[string]any)
			abort := false
			switch st.Action {
			case "Push", "Retry":
				sig := st.Args[0].(string)
				items := toItems(st.Args[1])
				fail := toStrings(st.Args[2])
				bad, lost := false, false
				if st.Action == "Push" {
					bad, lost = st.Args[3].(bool), st.Args[4].(bool)
				}
				seen, err := r.applyPush(st.Action == "Retry", sig, items, fail, bad, lost)
				if err != nil {
					r.infra = append(r.infra, err.Error())
					abort = true
					break
				}
				if want, _ := last["status"].(string); want != seen {
					r.bad("conformance", fmt.Sprintf("conformance|status|%s|%s|model-%s|real-%s", st.Action, sig, want, seen),
						fmt.Sprintf("%s %v: the client saw %s, the model says %s", st.Action, st.Args, seen, want), nil)
					// the states have diverged: the properties are still evaluated on the real answers of this step
					// (without the model's view), then the history ends
					r.check(r.sweep(), nil, nil)
					abort = true
				}
			case "CacheClear":
				if err := resetCache(); err != nil {
					r.infra = append(r.infra, err.Error())
					abort = true
				}
			case "Rollover":
				// the writer keys its cache and its series rows by the SAMPLE's day, not by the wall clock: nothing to do
			case "Query":
				ep, k := st.Args[0].(string), toInt(st.Args[1])
				wv := st.Args[2].([]any)
				w := Win{toInt(wv[0]), toInt(wv[1])}
				a := r.x.query(ep, k, w)
				r.stats.Queries++
				key := fmt.Sprintf("%s/%d/%d/%d", ep, k, w.From, w.To)
				// (readability of the acknowledged items was evaluated on the full sweep after the previous step)
				r.noAcked = true
				r.check(map[string]Answer{key: a}, map[string]any{key: last["ans"]}, nil)
				r.noAcked = false
				continue
			default:
				r.infra = append(r.infra, "unknown action "+st.Action)
				abort = true
			}
			if abort {
				break
			}
			view, _ := st.State["view"].(map[string]any)
			blame, _ := st.State["blame"].([]any)
			if view == nil {
				r.infra = append(r.infra, "behaviour without exported view")
				break
			}
			r.check(r.sweep(), view, blame)
		}
		hs := strings.Join(sigParts, ";")
		if !distinct[hs] && len(sigParts) > 0 {
			distinct[hs] = true
		}
		if sample == nil && len(r.done) >= 3 {
			for _, s := range r.done {
				sample = append(sample, Step{Action: s.Action, Args: s.Args})
			}
		}
		r.endHistory()
		if len(r.infra) > 0 {
			break
		}
	}
	r.stats.Distinct = len(distinct)
	return r.finish(out, map[string]any{"sample": sample})
}

func (r *runner) finish(out string, extra map[string]any) int {
	var viols []*Violation
	for _, s := range r.order {
		viols = append(viols, r.viols[s])
	}
	res := map[string]any{"stats": r.stats, "violations": viols, "infra": r.infra}
	for k, v := range extra {
		res[k] = v
	}
	b, _ := json.MarshalIndent(res, "", " ")
	if err := os.WriteFile(out, b, 0644); err != nil {
		fmt.Fprintln(os.Stderr, err)
		return 2
	}
	if len(r.infra) > 0 {
		return 2
	}
	return 0
}

var _ = strconv.Itoa

package main

import (
	"encoding/json"
	"fmt"
	"math/rand"
	"os"
	"sort"
	"strings"
)

// record: free-running mixed workloads on the real writer / store / reader, chosen by a seeded generator (not by TLC),
// with larger bounds than the TLC-generated histories. Every step and a sample of the answers is written as an event
// for Trace_Qryn.tla; the property checks on the real answers run after every step as in the history replay.

type openReq struct {
	Sig   string
	Items []Item
}

func ansRecords(ep string, names []string) []map[string]any {
	res := []map[string]any{}
	for _, n := range names {
		if m := reItemName.FindStringSubmatch(n); m != nil {
			var k, t int
			fmt.Sscanf(m[2], "%d", &k)
			fmt.Sscanf(m[3], "%d", &t)
			res = append(res, map[string]any{"sig": m[1], "key": k, "t": t})
			continue
		}
		if reKey.MatchString(n) {
			var k int
			fmt.Sscanf(n[1:], "%d", &k)
			res = append(res, map[string]any{"sig": endpoints[ep].Sig, "key": k, "t": -1})
			continue
		}
		res = append(res, map[string]any{"sig": "?" + n, "key": 0, "t": -2})
	}
	return res
}

func itemRecords(items []Item) []map[string]any {
	res := []map[string]any{}
	for _, it := range items {
		res = append(res, map[string]any{"sig": it.Sig, "key": it.Key, "t": it.T})
	}
	return res
}

func record(out, trace string, seed int64, n int) int {
	m := Model{SlotsPerDay: 2, Keys: []int{1, 2}, Slots: []int{0, 1, 2, 3}, Signals: []string{"logs", "metrics", "traces", "profiles"}}
	SlotsPerDay = m.SlotsPerDay
	rnd := rand.New(rand.NewSource(seed))
	r := &runner{m: m, stats: newStats(), viols: map[string]*Violation{}, noAcked: true}
	tf, err := os.Create(trace)
	if err != nil {
		fmt.Fprintln(os.Stderr, err)
		return 2
	}
	defer tf.Close()
	enc := json.NewEncoder(tf)
	events := 0
	emit := func(e map[string]any) {
		enc.Encode(e)
		events++
	}
	tables := map[string][]string{"logs": {"time_series", "samples_v3"}, "metrics": {"time_series", "samples_v3"},
		"traces": {"tempo_traces", "tempo_traces_attrs_gin"}, "profiles": {"profiles_input"}}
	randFail := func(sig string) []string {
		fail := []string{}
		if rnd.Intn(100) < 35 {
			for _, t := range tables[sig] {
				if rnd.Intn(2) == 0 {
					fail = append(fail, t)
				}
			}
		}
		sort.Strings(fail)
		return fail
	}
	var sample []Step
	for h := 0; h < n; h++ {
		if err := r.beginHistory(h); err != nil {
			r.infra = append(r.infra, err.Error())
			break
		}
		r.stats.Histories++
		emit(map[string]any{"ev": "reset"})
		today := 0
		maxDay := m.Slots[len(m.Slots)-1] / m.SlotsPerDay
		var open []openReq
		steps := 8 + rnd.Intn(7)
		for s := 0; s < steps; s++ {
			p := rnd.Intn(100)
			var st Step
			switch {
			case p < 50: // push
				sig := m.Signals[rnd.Intn(len(m.Signals))]
				var pool []Item
				for _, k := range m.Keys {
					for _, t := range m.Slots {
						if t/m.SlotsPerDay <= today {
							pool = append(pool, Item{sig, k, t})
						}
					}
				}
				rnd.Shuffle(len(pool), func(i, j int) { pool[i], pool[j] = pool[j], pool[i] })
				cnt := 1
				if sig != "profiles" && rnd.Intn(2) == 0 {
					cnt = 2
				}
				items := append([]Item{}, pool[:cnt]...)
				sort.Slice(items, func(i, j int) bool {
					if items[i].Key != items[j].Key {
						return items[i].Key < items[j].Key
					}
					return items[i].T < items[j].T
				})
				fail := randFail(sig)
				bad := sig == "logs" && len(fail) == 0 && rnd.Intn(100) < 20
				lost := !bad && rnd.Intn(100) < 12
				seen, err := r.applyPush(false, sig, items, fail, bad, lost)
				if err != nil {
					r.infra = append(r.infra, err.Error())
					break
				}
				if seen != "2xx" {
					dup := false
					for _, o := range open {
						if o.Sig == sig && fmt.Sprint(o.Items) == fmt.Sprint(items) {
							dup = true
						}
					}
					if !dup {
						open = append(open, openReq{sig, items})
					}
				}
				st = Step{Action: "Push", Args: []any{sig, items, fail, bad, lost, seen}}
				emit(map[string]any{"ev": "push", "sig": sig, "items": itemRecords(items), "fail": fail, "bad": bad, "lost": lost, "status": seen})
			case p < 65 && len(open) > 0: // retry
				i := rnd.Intn(len(open))
				o := open[i]
				fail := randFail(o.Sig)
				seen, err := r.applyPush(true, o.Sig, o.Items, fail, false, false)
				if err != nil {
					r.infra = append(r.infra, err.Error())
					break
				}
				if seen == "2xx" {
					open = append(open[:i], open[i+1:]...)
				}
				st = Step{Action: "Retry", Args: []any{o.Sig, o.Items, fail, seen}}
				emit(map[string]any{"ev": "retry", "sig": o.Sig, "items": itemRecords(o.Items), "fail": fail, "status": seen})
			case p < 73:
				// the model's CacheClear needs a non-empty cache: only after some log / metric push was parsed
				if r.stats.Pushes["logs"]+r.stats.Pushes["metrics"] == 0 || !r.cacheMayBeSet {
					continue
				}
				if err := resetCache(); err != nil {
					r.infra = append(r.infra, err.Error())
					break
				}
				r.cacheMayBeSet = false
				st = Step{Action: "CacheClear"}
				emit(map[string]any{"ev": "clear"})
			case p < 80 && today < maxDay:
				today++
				st = Step{Action: "Rollover"}
				emit(map[string]any{"ev": "rollover"})
			default:
				continue
			}
			if len(r.infra) > 0 {
				break
			}
			if st.Action == "Push" || st.Action == "Retry" {
				if sg := st.Args[0].(string); sg == "logs" || sg == "metrics" {
					r.cacheMayBeSet = true
				}
			}
			r.done = append(r.done, st)
			r.stats.Steps[st.Action]++
			R := r.sweep()
			r.check(R, nil, nil)
			var keys []string
			for k := range R {
				keys = append(keys, k)
			}
			sort.Strings(keys)
			for _, k := range keys {
				a := R[k]
				f := strings.Split(k, "/")
				if keyIndependent[f[0]] && f[1] != fmt.Sprint(m.Keys[0]) {
					continue
				}
				if rnd.Intn(100) >= 30 && len(a.Items) == 0 {
					continue
				}
				if rnd.Intn(100) >= 60 {
					continue
				}
				if a.Code != 200 {
					r.bad("conformance", fmt.Sprintf("conformance|%s|http-%d", f[0], a.Code), fmt.Sprintf("%s answered %d: %s", k, a.Code, a.Raw), a)
					continue
				}
				var key, from, to int
				fmt.Sscanf(f[1], "%d", &key)
				fmt.Sscanf(f[2], "%d", &from)
				fmt.Sscanf(f[3], "%d", &to)
				r.stats.Queries++
				if len(a.Items) > 0 {
					r.stats.NonEmpty++
					r.stats.EPs[f[0]]++
				}
				emit(map[string]any{"ev": "query", "ep": f[0], "key": key, "from": from, "to": to, "ans": ansRecords(f[0], a.Items)})
			}
		}
		if sample == nil && len(r.done) >= 3 {
			sample = append(sample, r.done...)
		}
		r.endHistory()
		if len(r.infra) > 0 {
			break
		}
	}
	r.stats.Distinct = r.stats.Histories
	return r.finish(out, map[string]any{"events": events, "sample": sample, "model": m})
}

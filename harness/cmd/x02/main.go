// x02 binds spec/Qryn.tla (end-to-end composition of qryn for logs, metrics, traces, profiles) to the real code.
//
//	x02 probe [-v]
//	    push one request per signal, ask every endpoint, print the decoded answers (-v: raw answers and the SQL each
//	    endpoint sends: the source of the table-grain read rules in Qryn.tla)
//	x02 history -in h.json -out r.json
//	    replay TLC-generated histories (pushes with a per-table fault plan, malformed tails, lost answers, retries, cache
//	    resets, queries) on the e2e world; after every step ask every endpoint x key x window, compare with the model's
//	    exported view, and evaluate AckedReadable / RetryIdempotentEnough / RefusedNotHalfVisible / NoCrossSignal on the
//	    REAL answers
//	x02 record -out r.json -trace t.ndjson -seed N -n K
//	    K free-running mixed workloads (seeded generator, larger bounds), recorded as events for Trace_Qryn.tla
package main

import (
	"flag"
	"fmt"
	"os"
	"sort"
)

func probe() int {
	x, err := newX()
	if err != nil {
		fmt.Println(err)
		return 2
	}
	defer x.Close()
	for _, sig := range []string{"logs", "metrics", "traces", "profiles"} {
		items := []Item{{sig, 1, 0}, {sig, 1, 2}, {sig, 2, 1}}
		if sig == "profiles" {
			for _, it := range items {
				code, body, log := x.push(pushRequest(sig, []Item{it}), 1)
				fmt.Printf("PUSH %s %v -> %d %.100q blocks %v\n", sig, it, code, body, log)
			}
			continue
		}
		code, body, log := x.push(pushRequest(sig, items), 2)
		fmt.Printf("PUSH %s -> %d %.100q blocks %v\n", sig, code, body, log)
	}
	fmt.Println("store counts", x.W.Store.Counts, "errs", x.W.StoreErr)
	var eps []string
	for e := range endpoints {
		eps = append(eps, e)
	}
	sort.Strings(eps)
	x.W.Bridge.Drain()
	for _, e := range eps {
		for _, w := range []Win{{0, 0}, {0, 3}, {2, 2}, {1, 1}} {
			a := x.query(e, 1, w)
			fmt.Printf("QUERY %-20s key=1 win=%v -> %d %v dups=%d %s\n", e, w, a.Code, a.Items, a.Dups, a.Note)
			if len(os.Args) > 2 && os.Args[2] == "-v" {
				fmt.Printf("   raw: %s\n", a.Raw)
				for _, ex := range x.W.Bridge.Drain() {
					fmt.Printf("   sql: %s  (rows %d err %v)\n", ex.SQL, ex.Rows, ex.Err)
				}
			}
		}
	}
	fmt.Println("unsupported:", x.W.Bridge.Unsupported)
	return 0
}

func main() {
	if len(os.Args) < 2 {
		os.Exit(2)
	}
	cmd := os.Args[1]
	fs := flag.NewFlagSet(cmd, flag.ExitOnError)
	in := fs.String("in", "", "")
	out := fs.String("out", "", "")
	seed := fs.Int64("seed", 1, "")
	n := fs.Int("n", 20, "")
	trace := fs.String("trace", "", "")
	fs.Parse(os.Args[2:])
	switch cmd {
	case "history":
		os.Exit(history(*in, *out))
	case "record":
		os.Exit(record(*out, *trace, *seed, *n))
	case "probe":
		os.Exit(probe())
	}
	os.Exit(2)
}

package main

import (
	"bytes"
	"context"
	"fmt"

	wmodel "github.com/metrico/qryn/writer/model"
	"github.com/metrico/qryn/writer/utils/unmarshal"
)

func probe3() int {
	it := Item{"profiles", 1, 1}
	ctx := context.WithValue(context.Background(), "from", "1700000000")
	ctx = context.WithValue(ctx, "until", "1700000010")
	ctx = context.WithValue(ctx, "name", "app.cpu{foo=bar}")
	for r := range unmarshal.UnmarshalBinaryStreamProfileProtoV2(ctx, bytes.NewReader(pprofBytes(it)), nil) {
		if r.Error != nil {
			fmt.Println("ERR", r.Error)
			continue
		}
		if d, ok := r.ProfileRequest.(*wmodel.ProfileData); ok && d != nil {
			fmt.Printf("PARSED TREE %+v\n", d.Tree)
		}
	}
	return 0
}

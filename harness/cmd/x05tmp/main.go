package main

import (
	"bytes"
	"encoding/json"
	"fmt"
	"net/http/httptest"
	"net/url"
	"os"

	pprof "github.com/google/pprof/profile"
	"verif/harness/e2e"
)

func mk(types [][2]string, stack []string, vals []int64) *pprof.Profile {
	p := &pprof.Profile{PeriodType: &pprof.ValueType{Type: "cpu", Unit: "nanoseconds"}, Period: 1}
	for _, t := range types {
		p.SampleType = append(p.SampleType, &pprof.ValueType{Type: t[0], Unit: t[1]})
	}
	s := &pprof.Sample{Value: vals}
	for i, f := range stack {
		fn := &pprof.Function{ID: uint64(i + 1), Name: f}
		p.Function = append(p.Function, fn)
		l := &pprof.Location{ID: uint64(i + 1), Line: []pprof.Line{{Function: fn}}}
		p.Location = append(p.Location, l)
		s.Location = append(s.Location, l)
	}
	p.Sample = append(p.Sample, s)
	return p
}

func main() {
	w, err := e2e.New(e2e.Options{IntervalMs: 1})
	if err != nil {
		panic(err)
	}
	defer w.Close()
	dn, _ := os.OpenFile(os.DevNull, os.O_WRONLY, 0)
	so := os.Stdout
	os.Stdout = dn
	push := func(name string, from int64, p *pprof.Profile) {
		var b bytes.Buffer
		p.Write(&b)
		q := url.Values{"name": {name}, "from": {fmt.Sprint(from)}, "until": {fmt.Sprint(from + 10)}}
		c, r := w.Push("POST", "/ingest?"+q.Encode(), "binary/octet-stream", b.Bytes(), nil)
		fmt.Fprintln(so, "push", name, c, r)
	}
	one := [][2]string{{"cpu", "nanoseconds"}}
	push("app{a=1,b=1}", 1700000005, mk(one, []string{"f"}, []int64{1}))
	push("app{a=2,b=1}", 1700000006, mk(one, []string{"f"}, []int64{2}))
	push("app{a=3}", 1700000006, mk(one, []string{"f"}, []int64{2}))
	w.Settle()
	post := func(path string, body any) {
		b, _ := json.Marshal(body)
		req := httptest.NewRequest("POST", "/querier.v1.QuerierService/"+path, bytes.NewReader(b))
		req.Header.Set("Content-Type", "application/json")
		w.Bridge.Drain()
		c, r := w.Do(req)
		fmt.Fprintln(so, "==", path, string(b), "->", c, r)
		for _, e := range w.Bridge.Drain() {
			fmt.Fprintln(so, "   SQL:", e.SQL, "ERR:", e.Err)
		}
	}
	S, E := int64(1699999000000), int64(1700001000000)
	post("Series", map[string]any{"start": S, "end": E, "matchers": []string{`{a="1"}`, `{b="1"}`}})
	post("Series", map[string]any{"start": S, "end": E, "matchers": []string{`{a="1"}`, `{b="1"}`}, "label_names": []string{"b"}})
	post("LabelNames", map[string]any{"start": S, "end": E, "matchers": []string{`{a="1"}`, `{a="3"}`}})
	post("LabelValues", map[string]any{"start": S, "end": E, "name": "a", "matchers": []string{`{a="1"}`, `{a="3"}`}})
	post("SelectSeries", map[string]any{"start": "1699999000000", "end": "1700001000000", "profileTypeID": "process_cpu:cpu:nanoseconds:cpu:nanoseconds", "labelSelector": "{}", "step": 15})
	post("SelectSeries", map[string]any{"start": S, "end": E, "profileTypeID": "process_cpu:cpu:nanoseconds:cpu:nanoseconds", "labelSelector": "{}", "step": 15})
}

// Command sqlcorpus drives the REAL qryn reader planners/services (under /repo)
// against a recording fake database and prints, one JSON object per line, every
// SQL statement they emit:
//
//	{"lang":..., "query":..., "params":..., "sql":...}
//
// Usage: sqlcorpus [-o file]   (default: stdout)
package main

import (
	"bufio"
	"context"
	"database/sql/driver"
	"encoding/json"
	"flag"
	"fmt"
	"os"
	"strings"
	"time"

	clconfig "github.com/metrico/cloki-config"
	"github.com/metrico/qryn/reader/config"
	"github.com/metrico/qryn/reader/logql/logql_parser"
	"github.com/metrico/qryn/reader/logql/logql_transpiler_v2"
	lshared "github.com/metrico/qryn/reader/logql/logql_transpiler_v2/shared"
	"github.com/metrico/qryn/reader/model"
	v1 "github.com/metrico/qryn/reader/prof/types/v1"
	"github.com/metrico/qryn/reader/service"
	traceql_parser "github.com/metrico/qryn/reader/traceql/parser"
	"github.com/metrico/qryn/reader/traceql/transpiler/clickhouse_transpiler"
	"github.com/metrico/qryn/reader/utils/dbVersion"
	sqlsel "github.com/metrico/qryn/reader/utils/sql_select"
	"github.com/metrico/qryn/reader/utils/tables"
	"github.com/prometheus/prometheus/model/labels"
	"github.com/prometheus/prometheus/storage"
)

type entry struct {
	Lang   string         `json:"lang"`
	Query  string         `json:"query"`
	Params map[string]any `json:"params"`
	SQL    string         `json:"sql"`
}

var (
	out  *bufio.Writer
	seen = map[string]bool{}
	nOut int
)

func emit(lang, query string, params map[string]any, sql string) {
	key := sql
	if seen[key] {
		return
	}
	seen[key] = true
	b, err := json.Marshal(entry{lang, query, params, sql})
	if err != nil {
		panic(err)
	}
	out.Write(b)
	out.WriteByte('\n')
	nOut++
}

// env is one backend configuration (single node / cluster, with or without v5).
type env struct {
	name    string
	cluster bool
	db      *fakeDB
	reg     *fakeRegistry
}

func newEnv(name string, cluster bool, tempoV2 bool) *env {
	f := newFakeDB(name)
	if tempoV2 {
		// the settings table announces the "tempo_v2" (and "v5") schema updates
		f.showTable = []string{"metrics_15s", "samples_v3", "time_series"}
		f.settings = [][]driver.Value{{"tempo_v2", "0"}, {"v5", "0"}, {"v3_1", "0"}}
	}
	cl := ""
	if cluster {
		cl = "test_cluster"
	}
	return &env{name: name, cluster: cluster, db: f, reg: newRegistry(f, cl)}
}

func (e *env) flush(lang, query string, params map[string]any) {
	// goroutines spawned by the services finish quickly on empty rows
	time.Sleep(2 * time.Millisecond)
	for _, r := range e.db.drain() {
		s := strings.TrimSpace(strings.ToUpper(r.SQL))
		if strings.HasPrefix(s, "SHOW TABLES") {
			emit("meta", "SHOW TABLES", map[string]any{"env": e.name}, r.SQL)
			continue
		}
		p := map[string]any{"env": e.name, "cluster": e.cluster}
		for k, v := range params {
			p[k] = v
		}
		if len(r.Args) > 0 {
			p["args"] = fmt.Sprint(r.Args...)
		}
		emit(lang, query, p, r.SQL)
	}
}

func safely(what string, f func()) {
	defer func() {
		if r := recover(); r != nil {
			fmt.Fprintf(os.Stderr, "PANIC in %s: %v\n", what, r)
		}
	}()
	f()
}

const (
	fromS = int64(1700000000) // 2023-11-14T22:13:20Z
	toS   = fromS + 3600
)

func main() {
	outFile := flag.String("o", "", "output file (default stdout)")
	flag.Parse()
	w := os.Stdout
	if *outFile != "" {
		f, err := os.Create(*outFile)
		if err != nil {
			panic(err)
		}
		defer f.Close()
		w = f
	}
	out = bufio.NewWriter(w)
	defer out.Flush()

	// silence the chatty fmt.Printf/println debugging of the planners
	devnull, _ := os.OpenFile(os.DevNull, os.O_WRONLY, 0)
	realStdout := os.Stdout
	os.Stdout = devnull
	defer func() { os.Stdout = realStdout }()

	config.Cloki = &clconfig.ClokiConfig{}
	func() {
		defer func() { recover() }()
		config.Cloki.Setting.LOG_SETTINGS.Stdout = true
		config.Cloki.Setting.LOG_SETTINGS.Level = "error"
	}()

	envs := []*env{
		newEnv("single", false, false),
		newEnv("single_tempo_v2", false, true),
		newEnv("cluster", true, false),
		newEnv("cluster_tempo_v2", true, true),
	}
	for _, e := range envs {
		genLogQL(e)
		genLabels(e)
		genTraceQL(e)
		genTempo(e)
		genProm(e)
		genProf(e)
	}
	fmt.Fprintf(os.Stderr, "sqlcorpus: %d statements\n", nOut)
}

// ---------------------------------------------------------------------------
// LogQL
// ---------------------------------------------------------------------------

var logqlQueries = []string{
	// stream selectors
	`{a="b"}`,
	`{a!="b"}`,
	`{a=~"b.*"}`,
	`{a!~"b.*"}`,
	`{a="b", c="d"}`,
	`{a="b", c!="d"}`,
	`{a="b", c=~"d|e", f!~"g.+"}`,
	`{a="b", c!="d", e!="f"}`,
	`{a="it's \\ \"q\""}`,
	"{a=`b\\d+`}",
	`{a=~"b\\d+"}`,
	`{a="b", c="d", e="f", g="h", i="j", k="l", m="n", o="p"}`,
	`{a="b", c="d", e="f", g="h", i="j", k="l", m="n", o="p", q="r"}`,
	// line filters
	`{a="b"} |= "x"`,
	`{a="b"} != "x"`,
	`{a="b"} |~ "x[0-9]+$"`,
	`{a="b"} !~ "x[0-9]+$"`,
	`{a="b"} |~ "plain"`,
	`{a="b"} !~ "plain"`,
	`{a="b"} |= "x" != "y" |~ "z.*"`,
	`{a="b"} |= "100%_done\\"`,
	`{a="b"} |= "it's"`,
	`{a="b"} |= ""`,
	`{a="b"} |= "x'"`,
	`{a="b"} |= "'"`,
	`{a="b"} |= "tab\there"`,
	`{a="b"} |~ "a|b"`,
	`{a="b"} !~ "a|b"`,
	`{a="b"} |~ "(?i)plain"`,
	`{a="b"} !~ "(?i)plain"`,
	`{a="b"} |~ "a.b"`,
	`{a="b"} |~ "100%"`,
	// label filters
	`{a="b"} | c="d"`,
	`{a="b"} | c!="d"`,
	`{a="b"} | c=~"d.*"`,
	`{a="b"} | c!~"d.*"`,
	`{a="b"} | c > 1`,
	`{a="b"} | c >= 1.5`,
	`{a="b"} | c < 1`,
	`{a="b"} | c <= 1`,
	`{a="b"} | c == 1`,
	`{a="b"} | c != 1`,
	`{a="b"} | c="d" and e="f"`,
	`{a="b"} | c="d" or e="f"`,
	`{a="b"} | freq > 1 and (freq="4" or freq==2 or freq > 0.5)`,
	`{a="b"} | (c="d" or e="f") and g!="h"`,
	`{a="b"} |= "x" | c="d"`,
	// parsers
	`{a="b"} | json`,
	`{a="b"} | json | c="d"`,
	`{a="b"} | json | c > 1`,
	`{a="b"} | json x="y"`,
	`{a="b"} | json x="y.z"`,
	`{a="b"} | json x="y.z", w="v[0]"`,
	`{a="b"} | json x="y" | x="1"`,
	`{a="b"} | json x="y" | x >= 598`,
	`{a="b"} | json x="y" | x >= 598 or x < 2 and x > 0`,
	`{a="b"} | json x="y" | a="b"`,
	`{a="b"} | json | json x="y"`,
	`{a="b"} | logfmt`,
	`{a="b"} | logfmt | c="d"`,
	`{a="b"} | regexp "^(?P<x>[^0-9]+)[0-9]+$"`,
	`{a="b"} | regexp "^(?<e>[^0-9]+)[0-9]+$"`,
	`{a="b"} | regexp "^[^0-9]+([0-9]+(?<e>[0-9]))$"`,
	`{a="b"} | regexp "(?P<x>\\d+) (?P<y>\\w+)" | x="1"`,
	`{a="b"} | regexp "(?P<x>\\d+)" | x > 1`,
	// drop
	`{a="b"} | drop a`,
	`{a="b"} | drop a, c`,
	`{a="b"} | drop a="v"`,
	`{a="b"} | drop a, c="v"`,
	`{a="b"} | json x="y" | drop x`,
	`{a="b"} | json x="y" | drop a, x="1"`,
	`{a="b"} | json | drop a, b, __C__, d="e"`,
	// formats
	`{a="b"} | line_format "{{.a}} - {{._entry}}"`,
	`{a="b"} | line_format "{ \"str\":\"{{._entry}}\", \"a\": {{.a}} }"`,
	`{a="b"} | line_format "it's {{.a}} {0} {{.c}}"`,
	`{a="b"} | label_format c=a`,
	`{a="b"} | label_format c="{{.a}}x"`,
	`{a="b"} | json x="y" | label_format z=x`,
	`{a="b"} | json x="y" | line_format "{{.x}}"`,
	// unwrap only is not valid on its own; metric queries:
	`rate({a="b"}[1m])`,
	`rate({a="b"}[5m])`,
	`rate({a="b"}[15s])`,
	`rate({a="b"}[1s])`,
	`rate({a="b", c=~"d.*"}[1m])`,
	`count_over_time({a="b"}[1m])`,
	`count_over_time({a="b"}[1h])`,
	`bytes_rate({a="b"}[1m])`,
	`bytes_over_time({a="b"}[1m])`,
	`absent_over_time({a="b"}[1m])`,
	`rate({a="b"} |= "x" [1m])`,
	`rate({a="b"} |~ "2[0-9]$" [1s])`,
	`count_over_time({a="b"} != "x" [30s])`,
	`bytes_rate({a="b"} |= "x" [1m])`,
	`bytes_over_time({a="b"} |~ "x.*" [1m])`,
	`rate({a="b"} | c="d" [1m])`,
	`rate({a="b"} | json x="y" [1m])`,
	`rate({a="b"} | json x="y" | x="1" [1m])`,
	`rate({a="b"} | json [1m])`,
	`rate({a="b"} | logfmt [1m])`,
	`rate({a="b"} | regexp "(?P<x>\\d+)" [1m])`,
	`rate({a="b"} | line_format "12345" [1s])`,
	`rate({a="b"} | drop c [1m])`,
	`rate({a="b"}[1m]) > 1`,
	`rate({a="b"}[1m]) >= 1`,
	`rate({a="b"}[1m]) < 1`,
	`rate({a="b"}[1m]) <= 1`,
	`rate({a="b"}[1m]) == 2`,
	`rate({a="b"}[1m]) != 2`,
	`count_over_time({a="b"} |= "x" [1m]) > 1`,
	// aggregation operators
	`sum(rate({a="b"}[1m]))`,
	`sum(rate({a="b"}[1m])) by (a)`,
	`sum by (a) (rate({a="b"}[1m]))`,
	`sum(rate({a="b"}[1m])) without (a)`,
	`sum without (a) (rate({a="b"}[1m]))`,
	`sum by (a, c) (rate({a="b"}[1m]))`,
	`min(rate({a="b"}[1m])) by (a)`,
	`max(rate({a="b"}[1m])) by (a)`,
	`avg(rate({a="b"}[1m])) by (a)`,
	`count(rate({a="b"}[1m])) by (a)`,
	`sum(count_over_time({a="b"} |= "x" [1m])) by (a)`,
	`sum(count_over_time({a="b"} |= "x" [1m])) without (c)`,
	`avg by (a) (bytes_rate({a="b"} |= "x" [1m]))`,
	`sum(rate({a="b"} | json x="y" [5s])) by (a, x)`,
	`sum(rate({a="b"} | json [5s])) by (a)`,
	`sum(rate({a="b"}[1m])) by (a) > 4`,
	`sum(rate({a="b"} |= "x" [1m])) by (a) > 1`,
	`max(rate({a="b"} | c="d" [1m])) by (c) <= 10`,
	// unwrap
	`sum_over_time({a="b"} | unwrap c [1m])`,
	`sum_over_time({a="b"} | unwrap c [1m]) by (a)`,
	`sum_over_time({a="b"} | unwrap c [1m]) without (a)`,
	`avg_over_time({a="b"} | unwrap c [1m])`,
	`min_over_time({a="b"} | unwrap c [1m])`,
	`max_over_time({a="b"} | unwrap c [1m])`,
	`first_over_time({a="b"} | unwrap c [1m])`,
	`last_over_time({a="b"} | unwrap c [1m])`,
	`stddev_over_time({a="b"} | unwrap c [1m])`,
	`stdvar_over_time({a="b"} | unwrap c [1m])`,
	`rate({a="b"} | unwrap c [1m])`,
	`quantile_over_time(0.5, {a="b"} | unwrap c [1m])`,
	`quantile_over_time(0.99, {a="b"} | unwrap c [1m]) by (a)`,
	`quantile_over_time(0.5, {a="b"} | json x="y" | unwrap x [1m]) by (a)`,
	`sum_over_time({a="b"} | json x="y" | unwrap x [1m])`,
	`sum_over_time({a="b"} | json x="y" | unwrap x [1m]) by (a, x)`,
	`sum_over_time({a="b"} | json x="y" | z="1" | unwrap x [3s]) by (a, z)`,
	`avg_over_time({a="b"} | json x="y" | unwrap x [1m]) by (a)`,
	`max_over_time({a="b"} | regexp "(?P<x>\\d+)" | unwrap x [1m]) by (a)`,
	`first_over_time({a="b", c="0.5"} | regexp "^[^0-9]+(?<e>[0-9]+)$" | unwrap e [1s]) by (a)`,
	`last_over_time({a="b"} | json x="y" | unwrap x [1m]) by (a)`,
	`stddev_over_time({a="b"} | json x="y" | unwrap x [1m]) by (a)`,
	`stdvar_over_time({a="b"} | json x="y" | unwrap x [1m]) by (a)`,
	`min_over_time({a="b"} | json x="y" | unwrap x [1m]) without (a)`,
	`sum_over_time({a="b"} | json | unwrap x [1m]) by (a)`,
	`sum_over_time({a="b"} | logfmt | unwrap x [1m]) by (a)`,
	`sum(sum_over_time({a="b"} | unwrap c [10s]) by (a, c)) by (a)`,
	`sum(sum_over_time({a="b"} | json x="y" | unwrap x [10s]) by (a, x)) by (a) > 100`,
	`sum(sum_over_time({a="b"} | json | unwrap x [10s]) by (a, x)) by (a) > 100`,
	`sum_over_time({a="b"} | unwrap c [1m]) > 1`,
	`rate({a="b"} | line_format "{{.c}}" | unwrap _entry [1s])`,
	`rate({a="b"} | line_format "{ \"f\": {{.c}} }" | json | unwrap f [1s]) by (a, f)`,
	`sum_over_time({a="b"} | line_format "{ \"f\": {{.c}} }" | json f="f" | unwrap f [1s]) by (a, f)`,
	// topk / bottomk
	`topk(1, rate({a="b"}[1m]))`,
	`topk(3, sum(rate({a="b"}[1m])) by (a))`,
	`bottomk(2, rate({a="b"}[1m]))`,
	`bottomk(2, sum(count_over_time({a="b"} |= "x" [1m])) by (a))`,
	`topk(2, sum_over_time({a="b"} | unwrap c [1m]) by (a))`,
	`topk(2, quantile_over_time(0.5, {a="b"} | unwrap c [1m]) by (a))`,
	`topk(1, rate({a="b"} |= "x" [1m])) > 1`,
	`topk(1, sum(rate({a="b"} | json x="y" [1m])) by (x))`,
}

type rangeCfg struct {
	stepMs  int64
	limit   int64
	forward bool
	durS    int64
}

func genLogQL(e *env) {
	sd := &model.ServiceData{Session: e.reg}
	qr := service.NewQueryRangeService(sd)
	ctx := context.Background()
	cfgs := []rangeCfg{
		{stepMs: 5000, limit: 100, forward: false, durS: 3600},
		{stepMs: 60000, limit: 10, forward: true, durS: 3600},
		{stepMs: 1000, limit: 0, forward: false, durS: 300},
		{stepMs: 120000, limit: 2000, forward: true, durS: 86400 * 2},
	}
	for qi, q := range logqlQueries {
		for ci, c := range cfgs {
			if ci >= 2 && qi%7 != 0 && !strings.HasPrefix(q, "rate({a=\"b\"}[") {
				continue // the last two configs only for a sample of the queries
			}
			params := map[string]any{"fromNs": fromS * 1e9, "toNs": (fromS + c.durS) * 1e9,
				"stepMs": c.stepMs, "limit": c.limit, "forward": c.forward, "api": "query_range"}
			safely("logql "+q, func() {
				ch, err := qr.QueryRange(ctx, q, fromS*1e9, (fromS+c.durS)*1e9, c.stepMs, c.limit, c.forward)
				if err != nil {
					fmt.Fprintf(os.Stderr, "logql %q: %v\n", q, err)
				} else {
					for range ch {
					}
				}
			})
			e.flush("logql", q, params)
		}
		// instant
		if qi%5 == 0 {
			safely("logql instant "+q, func() {
				ch, err := qr.QueryInstant(ctx, q, toS*1e9, 15000, 100)
				if err == nil {
					for range ch {
					}
				}
			})
			e.flush("logql", q, map[string]any{"timeNs": toS * 1e9, "stepMs": 15000, "limit": 100, "api": "query_instant"})
		}
	}
	// With cached fingerprints: the planners switch to IN (list) when ctx has cache? covered by UseCache flag below.
	for _, q := range []string{`{a="b"}`, `{a="b", c=~"d.*"} |= "x"`} {
		safely("logql direct "+q, func() {
			script, err := logql_parser.Parse(q)
			if err != nil {
				return
			}
			for _, fin := range []bool{true, false} {
				_ = fin
				chain, err := logql_transpiler_v2.Plan(script)
				if err != nil || len(chain) == 0 {
					return
				}
			}
			fp, err := logql_transpiler_v2.PlanFingerprints(script)
			if err != nil {
				return
			}
			pctx := e.plannerCtx()
			sel, err := fp.Process(pctx)
			if err != nil {
				return
			}
			s, err := sel.String(pctx.CHSqlCtx, e.opts()...)
			if err == nil {
				emit("logql", q, map[string]any{"env": e.name, "cluster": e.cluster, "api": "PlanFingerprints"}, s)
			}
		})
	}
}

func (e *env) opts() []int {
	if e.cluster {
		return []int{sqlsel.STRING_OPT_INLINE_WITH}
	}
	return nil
}

func (e *env) plannerCtx() *lshared.PlannerContext {
	ver, _ := dbVersion.GetVersionInfo(context.Background(), e.cluster, e.db)
	e.db.drain()
	return tables.PopulateTableNames(&lshared.PlannerContext{
		IsCluster:   e.cluster,
		From:        time.Unix(fromS, 0),
		To:          time.Unix(toS, 0),
		Limit:       100,
		Ctx:         context.Background(),
		CHDb:        e.db,
		CHFinalize:  true,
		Step:        5 * time.Second,
		CHSqlCtx:    &sqlsel.Ctx{Params: map[string]sqlsel.SQLObject{}, Result: map[string]sqlsel.SQLObject{}},
		VersionInfo: ver,
	}, e.reg.m)
}

// ---------------------------------------------------------------------------
// labels / values / series
// ---------------------------------------------------------------------------

func genLabels(e *env) {
	ql := service.NewQueryLabelsService(&model.ServiceData{Session: e.reg})
	ctx := context.Background()
	drainS := func(ch chan string, err error) {
		if err != nil {
			fmt.Fprintf(os.Stderr, "labels: %v\n", err)
			return
		}
		for range ch {
		}
	}
	for _, tp := range []uint16{1, 2, 0} {
		p := map[string]any{"startMs": fromS * 1000, "endMs": toS * 1000, "type": tp}
		safely("Labels", func() { drainS(ql.Labels(ctx, fromS*1000, toS*1000, tp)) })
		e.flush("labels", "labels", p)
		for _, m := range [][]string{nil, {`{a="b"}`}, {`{a="b"}`, `{c=~"d.*", e!="f"}`}, {`{a!~"b"}`}} {
			for _, label := range []string{"job", "it's"} {
				pp := map[string]any{"label": label, "match": m, "type": tp}
				safely("Values", func() { drainS(ql.Values(ctx, label, m, fromS*1000, toS*1000, tp)) })
				e.flush("label_values", label, pp)
			}
		}
		for _, m := range [][]string{{`{a="b"}`}, {`{a="b"}`, `{c=~"d.*", e!="f"}`}, {`{a!="b", c!~"x"}`}, {`metric_name{a="b"}`}} {
			pp := map[string]any{"match": m, "type": tp}
			safely("Series", func() { drainS(ql.Series(ctx, m, fromS*1000, toS*1000, tp)) })
			e.flush("series", strings.Join(m, " ; "), pp)
		}
	}
	for _, m := range [][]string{{`up{a="b"}`}, {`up`, `{job=~"x.*"}`}} {
		safely("PromValues", func() { drainS(ql.PromValues(ctx, "job", m, fromS*1000, toS*1000, 2)) })
		e.flush("prom_label_values", "job", map[string]any{"match": m})
	}
	safely("kv complexity", func() {
		req := ql.GetEstimateKVComplexityRequest(ctx, e.reg.m)
		s, err := req.String(sqlsel.DefaultCtx())
		if err == nil {
			emit("labels", "estimateKVComplexity", map[string]any{"env": e.name, "cluster": e.cluster}, s)
		}
	})
}

// ---------------------------------------------------------------------------
// TraceQL
// ---------------------------------------------------------------------------

var traceqlQueries = []string{
	`{.a="b"}`,
	`{.a!="b"}`,
	`{.a=~"b.*"}`,
	`{.a!~"b.*"}`,
	`{.n>10}`,
	`{.n>=10}`,
	`{.n<10}`,
	`{.n<=10.5}`,
	`{.n=10}`,
	`{.n!=10}`,
	`{.n>-3}`,
	`{span.a="b"}`,
	`{resource.a="b"}`,
	`{resource.service.name="svc"}`,
	`{name="op"}`,
	`{name=~"op.*"}`,
	`{name!="op"}`,
	`{name!~"op.*"}`,
	`{duration>1s}`,
	`{duration>=100ms}`,
	`{duration<2m}`,
	`{duration<=1h}`,
	`{duration=5us}`,
	`{duration!=5ns}`,
	`{duration>1.5s}`,
	`{.a="b" && .c="d"}`,
	`{.a="b" || .c="d"}`,
	`{.a="b" && .n>10}`,
	`{.a="b" && (.c="d" || .e="f")}`,
	`{(.a="b" || .c="d") && .e="f"}`,
	`{(.a="b" && .c="d") || (.e="f" && .g!="h")}`,
	`{.a="b" && name="op" && duration>1s}`,
	`{name="op" && duration>1s}`,
	`{name="op" || duration>1s}`,
	`{.a="b" || duration>1s}`,
	`{.a=~"adm" && .f > 10}`,
	"{.a=`b\\d`}",
	`{.a="it's"}`,
	`{.a="b"} | count() > 1`,
	`{.a="b"} | count() >= 2`,
	`{.a="b"} | count() = 2`,
	`{.a="b"} | count() != 2`,
	`{.a="b"} | count() < 5`,
	`{.a="b"} | avg(duration) > 1s`,
	`{.a="b"} | max(duration) <= 100ms`,
	`{.a="b"} | min(duration) > 1ms`,
	`{.a="b"} | sum(duration) > 1m`,
	`{.a="b"} | max(.x) > 3`,
	`{.a="b"} | min(.x) < 3`,
	`{.a="b"} | avg(.x) >= 3.5`,
	`{.a="b"} | sum(.x) != 3`,
	`{.a="b" && .n>10} | count() > 2`,
	`{name="op"} | count() > 1`,
	`{duration>1s} | avg(duration) > 1s`,
	`{.a="b"} && {.c="d"}`,
	`{.a="b"} || {.c="d"}`,
	`{.a="b"} && {.c="d"} && {.e="f"}`,
	`{.a="b"} || {.c="d"} || {.e="f"}`,
	`{.a="b"} && {.c="d"} || {.e="f"}`,
	`{.a="b"} || {.c="d"} && {.e="f"}`,
	`{.a="b" && .n>10} | count() > 2 || {.a=~"bo" && .n < 10}`,
	`{.a="b"} | count() > 1 && {name="op"} | avg(duration) > 1s`,
	`{name="op"} && {duration>1s}`,
}

func genTraceQL(e *env) {
	ts := service.NewTempoService(model.ServiceData{Session: e.reg}).(*service.TempoService)
	ctx := context.Background()
	from, to := time.Unix(fromS, 0), time.Unix(toS, 0)
	for _, q := range traceqlQueries {
		for _, limit := range []int{20, 0} {
			safely("traceql "+q, func() {
				ch, err := ts.SearchTraceQL(ctx, q, limit, from, to)
				if err != nil {
					fmt.Fprintf(os.Stderr, "traceql %q: %v\n", q, err)
					return
				}
				for range ch {
				}
			})
			e.flush("traceql", q, map[string]any{"limit": limit, "from": fromS, "to": toS, "api": "search"})
		}
		safely("traceql tagsv2 "+q, func() {
			ch, err := ts.TagsV2(ctx, q, from, to, 100)
			if err != nil {
				fmt.Fprintf(os.Stderr, "traceql tags %q: %v\n", q, err)
				return
			}
			for range ch {
			}
		})
		e.flush("traceql", q, map[string]any{"limit": 100, "from": fromS, "to": toS, "api": "tags_v2"})
		for _, key := range []string{".a", "span.a", "resource.a", "name", "a"} {
			safely("traceql valuesv2 "+q, func() {
				ch, err := ts.ValuesV2(ctx, key, q, from, to, 100)
				if err != nil {
					fmt.Fprintf(os.Stderr, "traceql values %q %q: %v\n", key, q, err)
					return
				}
				for range ch {
				}
			})
			e.flush("traceql", q, map[string]any{"limit": 100, "from": fromS, "to": toS, "api": "values_v2", "key": key})
		}
		// the "complex" path (random filter + cached trace ids) is only taken at run
		// time when the complexity estimate is large; drive the planner directly.
		safely("traceql complex "+q, func() {
			script, err := traceql_parser.Parse(q)
			if err != nil {
				return
			}
			plan, err := clickhouse_transpiler.Plan(script)
			if err != nil {
				return
			}
			pctx := e.plannerCtx()
			pctx.Limit = 20
			pctx.RandomFilter = lshared.RandomFilter{Max: 3, I: 1}
			pctx.CachedTraceIds = []string{"0123456789abcdef0123456789abcdef", "ffffffffffffffffffffffffffffffff"}
			sel, err := plan.Process(pctx)
			if err != nil {
				fmt.Fprintf(os.Stderr, "traceql complex %q: %v\n", q, err)
				return
			}
			s, err := sel.String(sqlsel.DefaultCtx())
			if err == nil {
				emit("traceql", q, map[string]any{"env": e.name, "cluster": e.cluster, "limit": 20, "api": "search_complex",
					"randomFilter": "1/3", "cachedTraceIds": 2}, s)
			}
		})
	}
	// no query
	safely("tagsv2 empty", func() {
		ch, err := ts.TagsV2(ctx, "", from, to, 100)
		if err == nil {
			for range ch {
			}
		}
	})
	e.flush("traceql", "", map[string]any{"api": "tags_v2"})
	safely("valuesv2 empty", func() {
		ch, err := ts.ValuesV2(ctx, "span.a", "", from, to, 100)
		if err == nil {
			for range ch {
			}
		}
	})
	e.flush("traceql", "", map[string]any{"api": "values_v2", "key": "span.a"})
	// planners that the Complex*V2 processors use
	safely("all tags/values", func() {
		pctx := e.plannerCtx()
		sel, err := (&clickhouse_transpiler.AllTagsRequestPlanner{}).Process(pctx)
		if err == nil {
			if s, err := sel.String(sqlsel.DefaultCtx()); err == nil {
				emit("traceql", "", map[string]any{"env": e.name, "api": "all_tags"}, s)
			}
		}
		for _, k := range []string{"a", "span.a", "resource.a", ".a", "name"} {
			sel, err = (&clickhouse_transpiler.AllValuesRequestPlanner{Key: k}).Process(pctx)
			if err == nil {
				if s, err := sel.String(sqlsel.DefaultCtx()); err == nil {
					emit("traceql", "", map[string]any{"env": e.name, "api": "all_values", "key": k}, s)
				}
			}
		}
	})
}

// ---------------------------------------------------------------------------
// Tempo (tags search, trace by id)
// ---------------------------------------------------------------------------

func genTempo(e *env) {
	ts := service.NewTempoService(model.ServiceData{Session: e.reg}).(*service.TempoService)
	ctx := context.Background()
	safely("tempo query", func() {
		for _, se := range [][2]int64{{0, 0}, {fromS * 1e9, toS * 1e9}, {fromS * 1e9, 0}} {
			ch, err := ts.Query(ctx, se[0], se[1], []byte("0123456789abcdef0123456789abcdef"), false)
			if err == nil {
				for range ch {
				}
			}
			e.flush("tempo", "trace_by_id", map[string]any{"startNS": se[0], "endNS": se[1], "traceId": "0123456789abcdef0123456789abcdef"})
		}
	})
	safely("tempo tags", func() {
		ch, err := ts.Tags(ctx)
		if err == nil {
			for range ch {
			}
		}
		e.flush("tempo", "tags", nil)
	})
	for _, tag := range []string{"service.name", "span.http.method", ".x", "resource.service.name", "it's"} {
		safely("tempo values", func() {
			ch, err := ts.Values(ctx, tag)
			if err == nil {
				for range ch {
				}
			}
			e.flush("tempo", "tag_values", map[string]any{"tag": tag})
		})
	}
	searches := []struct {
		tags         string
		minD, maxD   int64
		limit        int
		fromNS, toNS int64
	}{
		{"", 0, 0, 20, fromS * 1e9, toS * 1e9},
		{"", 1e9, 5e9, 20, fromS * 1e9, toS * 1e9},
		{"", 0, 0, 0, 0, 0},
		{`service.name=svc`, 0, 0, 20, fromS * 1e9, toS * 1e9},
		{`service.name="svc x"`, 0, 0, 20, fromS * 1e9, toS * 1e9},
		{`service.name=svc http.method=GET`, 0, 0, 20, fromS * 1e9, toS * 1e9},
		{`service.name=svc http.method!=GET status=~"5.." x!~"y"`, 1e6, 9e9, 10, fromS * 1e9, toS * 1e9},
		{`name=op`, 0, 0, 0, 0, 0},
		{`name=op`, 0, 0, 0, fromS * 1e9, 0},
		{`name="it's"`, 0, 0, 5, 0, toS * 1e9},
	}
	for _, s := range searches {
		safely("tempo search", func() {
			ch, err := ts.Search(ctx, s.tags, s.minD, s.maxD, s.limit, s.fromNS, s.toNS)
			if err != nil {
				fmt.Fprintf(os.Stderr, "tempo search %q: %v\n", s.tags, err)
			} else {
				for range ch {
				}
			}
			e.flush("tempo", s.tags, map[string]any{"api": "search", "minDurationNS": s.minD, "maxDurationNS": s.maxD,
				"limit": s.limit, "fromNS": s.fromNS, "toNS": s.toNS})
		})
	}
}

// ---------------------------------------------------------------------------
// PromQL remote-read style Select
// ---------------------------------------------------------------------------

func genProm(e *env) {
	ctx := context.Background()
	q := (&service.CLokiQueriable{ServiceData: model.ServiceData{Session: e.reg}}).SetOidAndDB(ctx)
	// one canned sample row makes Select go on to fetch the labels
	e.db.canned = func(s string) ([]string, [][]driver.Value) {
		if strings.Contains(s, "samples") || strings.Contains(s, "metrics_15s") {
			if strings.Contains(s, "JSONExtractKeysAndValues") {
				return nil, nil
			}
			return []string{"fingerprint", "value", "timestamp_ms"}, [][]driver.Value{{int64(12345), float64(1), int64(fromS * 1000)}}
		}
		return nil, nil
	}
	defer func() { e.db.canned = nil }()
	mk := func(t labels.MatchType, n, v string) *labels.Matcher { return labels.MustNewMatcher(t, n, v) }
	matcherSets := [][]*labels.Matcher{
		{mk(labels.MatchEqual, "__name__", "up")},
		{mk(labels.MatchEqual, "__name__", "up"), mk(labels.MatchNotEqual, "job", "x")},
		{mk(labels.MatchEqual, "__name__", "up"), mk(labels.MatchRegexp, "job", "x.*"), mk(labels.MatchNotRegexp, "inst", "y.+")},
		{mk(labels.MatchRegexp, "__name__", "http_.*")},
		{mk(labels.MatchEqual, "job", "it's")},
	}
	start := fromS * 1000 // not a multiple of 15000? 1700000000000 % 15000 = 5000 -> raw
	alignedStart := (fromS / 15) * 15 * 1000
	hintsList := []*storage.SelectHints{
		{Start: start, End: toS * 1000, Step: 15000, Func: ""},
		{Start: start, End: toS * 1000, Step: 0, Func: ""},
		{Start: start, End: toS * 1000, Step: 60000, Func: "rate", Range: 300000},
		{Start: start, End: toS * 1000, Step: 60000, Func: "rate", Range: 30000},
		{Start: start, End: toS * 1000, Step: 60000, Func: "abs"},
		{Start: start, End: toS * 1000, Step: 5000, Func: "sum", Grouping: []string{"job"}, By: true},
		{Start: alignedStart, End: toS * 1000, Step: 15000, Func: ""},
		{Start: alignedStart, End: toS * 1000, Step: 60000, Func: "rate", Range: 300000},
		{Start: alignedStart, End: toS * 1000, Step: 60000, Func: "rate", Range: 30000},
		{Start: alignedStart, End: toS * 1000, Step: 60000, Func: "irate", Range: 300000},
		{Start: alignedStart, End: toS * 1000, Step: 60000, Func: "sum_over_time", Range: 300000},
		{Start: alignedStart, End: toS * 1000, Step: 60000, Func: "count_over_time", Range: 300000},
		{Start: alignedStart, End: toS * 1000, Step: 60000, Func: "avg_over_time", Range: 300000},
		{Start: alignedStart, End: toS * 1000, Step: 60000, Func: "min_over_time", Range: 300000},
		{Start: alignedStart, End: toS * 1000, Step: 60000, Func: "max_over_time", Range: 300000},
		{Start: alignedStart, End: toS * 1000, Step: 60000, Func: "last_over_time", Range: 300000},
		{Start: alignedStart, End: toS * 1000, Step: 60000, Func: "present_over_time", Range: 300000},
		{Start: alignedStart, End: toS * 1000, Step: 60000, Func: "absent_over_time", Range: 300000},
		{Start: alignedStart, End: toS * 1000, Step: 60000, Func: "quantile_over_time", Range: 300000},
		{Start: alignedStart, End: toS * 1000, Step: 60000, Func: "stddev_over_time", Range: 300000},
		{Start: alignedStart, End: toS * 1000, Step: 60000, Func: "abs"},
		{Start: alignedStart, End: toS * 1000, Step: 60000, Func: "sum", Grouping: []string{"job"}, By: true},
		{Start: alignedStart, End: toS * 1000, Step: 60000, Func: "min", Grouping: []string{"job"}, By: false},
		{Start: alignedStart, End: toS * 1000, Step: 60000, Func: "max"},
		{Start: alignedStart, End: toS * 1000, Step: 60000, Func: "avg"},
		{Start: alignedStart, End: toS * 1000, Step: 60000, Func: "group"},
		{Start: alignedStart, End: toS * 1000, Step: 60000, Func: "delta", Range: 120000},
		{Start: alignedStart, End: toS * 1000, Step: 60000, Func: "histogram_quantile"},
		{Start: alignedStart, End: toS * 1000, Step: 300000, Func: "rate", Range: 60000},
	}
	for mi, ms := range matcherSets {
		for hi, h := range hintsList {
			if mi > 0 && hi%4 != 0 {
				continue
			}
			var strs []string
			for _, m := range ms {
				strs = append(strs, m.String())
			}
			qs := "{" + strings.Join(strs, ",") + "}"
			safely("prom "+qs, func() {
				querier, err := q.Querier(ctx, h.Start, h.End)
				if err != nil {
					return
				}
				set := querier.Select(false, h, ms...)
				if set.Err() != nil {
					fmt.Fprintf(os.Stderr, "prom %s %+v: %v\n", qs, h, set.Err())
				}
			})
			e.flush("promql", qs, map[string]any{"start": h.Start, "end": h.End, "step": h.Step, "func": h.Func,
				"range": h.Range, "grouping": h.Grouping, "by": h.By})
		}
	}
}

// ---------------------------------------------------------------------------
// Pyroscope / profiles
// ---------------------------------------------------------------------------

func genProf(e *env) {
	ps := &service.ProfService{DataSession: e.reg}
	ctx := context.Background()
	from, to := time.Unix(fromS, 0), time.Unix(toS, 0)
	typeID := "process_cpu:cpu:nanoseconds:cpu:nanoseconds"
	scripts := []string{
		`{}`,
		`{service_name="svc"}`,
		`{service_name!="svc"}`,
		`{service_name=~"svc.*"}`,
		`{service_name!~"svc.*"}`,
		`{service_name="svc", pod=~"p-.*"}`,
		`{service_name="svc", pod!="p", region!~"eu.*"}`,
		"{service_name=`it's`}",
	}
	safely("ProfileTypes", func() { ps.ProfileTypes(ctx, from, to) })
	e.flush("prof", "ProfileTypes", map[string]any{"from": fromS, "to": toS})
	safely("ProfileStats", func() { ps.ProfileStats(ctx) })
	e.flush("prof", "ProfileStats", nil)

	multi := [][]string{nil, {scripts[1]}, {scripts[1], scripts[3]}, {scripts[5], scripts[6], scripts[4]}, {scripts[0]}}
	for _, m := range multi {
		safely("LabelNames", func() { ps.LabelNames(ctx, m, from, to) })
		e.flush("prof", strings.Join(m, " ; "), map[string]any{"api": "LabelNames"})
		for _, l := range []string{"service_name", "it's"} {
			safely("LabelValues", func() { ps.LabelValues(ctx, m, l, from, to) })
			e.flush("prof", strings.Join(m, " ; "), map[string]any{"api": "LabelValues", "label": l})
		}
		for _, lbls := range [][]string{nil, {"service_name", "pod"}} {
			safely("TimeSeries", func() { ps.TimeSeries(ctx, m, lbls, from, to) })
			e.flush("prof", strings.Join(m, " ; "), map[string]any{"api": "Series", "labels": lbls})
		}
	}
	for _, s := range scripts {
		safely("MergeStackTraces", func() { ps.MergeStackTraces(ctx, s, typeID, from, to) })
		e.flush("prof", s, map[string]any{"api": "SelectMergeStacktraces", "typeId": typeID})
		safely("MergeProfiles", func() { ps.MergeProfiles(ctx, s, typeID, from, to) })
		e.flush("prof", s, map[string]any{"api": "SelectMergeProfile", "typeId": typeID})
		safely("AnalyzeQuery", func() { ps.AnalyzeQuery(ctx, s, from, to) })
		e.flush("prof", s, map[string]any{"api": "AnalyzeQuery"})
		for _, gb := range [][]string{nil, {"pod"}, {"pod", "region"}} {
			for _, agg := range []v1.TimeSeriesAggregationType{
				v1.TimeSeriesAggregationType_TIME_SERIES_AGGREGATION_TYPE_SUM,
				v1.TimeSeriesAggregationType_TIME_SERIES_AGGREGATION_TYPE_AVERAGE} {
				for _, step := range []int64{15, 60} {
					safely("SelectSeries", func() { ps.SelectSeries(ctx, s, typeID, gb, agg, step, from, to) })
					e.flush("prof", s, map[string]any{"api": "SelectSeries", "typeId": typeID, "groupBy": gb, "agg": int(agg), "step": step})
				}
			}
		}
	}
	safely("RenderDiff", func() {
		ps.RenderDiff(ctx, typeID+`{service_name="svc"}`, typeID+`{service_name="svc2"}`, from, from.Add(time.Minute), to, to)
	})
	e.flush("prof", `{service_name="svc"} vs {service_name="svc2"}`, map[string]any{"api": "RenderDiff"})
}

package main

import (
	"context"
	"database/sql"
	"database/sql/driver"
	"fmt"
	"io"
	"strings"
	"sync"

	clconfig "github.com/metrico/cloki-config/config"
	"github.com/metrico/qryn/reader/model"
)

// ---------------------------------------------------------------------------
// A fake database/sql driver. Every query is recorded; the result set is empty
// unless a canned answer is registered for it (see fakeDB.canned).
// ---------------------------------------------------------------------------

type recorded struct {
	SQL  string
	Args []any
}

type fakeDB struct {
	name      string
	db        *sql.DB
	mtx       sync.Mutex
	log       []recorded
	canned    func(q string) (cols []string, rows [][]driver.Value)
	showTable []string         // answer for SHOW TABLES
	settings  [][]driver.Value // answer (rows of _name,_value) for the dbVersion settings query
}

var (
	registry    = map[string]*fakeDB{}
	registryMtx sync.Mutex
)

type fakeDriver struct{}

func (fakeDriver) Open(name string) (driver.Conn, error) {
	registryMtx.Lock()
	defer registryMtx.Unlock()
	f := registry[name]
	if f == nil {
		return nil, fmt.Errorf("no fake db %q", name)
	}
	return &fakeConn{f}, nil
}

type fakeConn struct{ f *fakeDB }

func (c *fakeConn) Prepare(query string) (driver.Stmt, error) { return &fakeStmt{c.f, query}, nil }
func (c *fakeConn) Close() error                              { return nil }
func (c *fakeConn) Begin() (driver.Tx, error)                 { return nil, fmt.Errorf("no tx") }

type fakeStmt struct {
	f *fakeDB
	q string
}

func (s *fakeStmt) Close() error  { return nil }
func (s *fakeStmt) NumInput() int { return -1 }
func (s *fakeStmt) Exec(args []driver.Value) (driver.Result, error) {
	return driver.RowsAffected(0), nil
}
func (s *fakeStmt) Query(args []driver.Value) (driver.Rows, error) {
	if strings.HasPrefix(strings.TrimSpace(strings.ToUpper(s.q)), "SHOW TABLES") {
		r := &fakeRows{cols: []string{"name"}}
		for _, t := range s.f.showTable {
			r.rows = append(r.rows, []driver.Value{t})
		}
		return r, nil
	}
	if strings.Contains(s.q, "argMax(name, inserted_at)") && s.f.settings != nil {
		return &fakeRows{cols: []string{"_name", "_value"}, rows: s.f.settings}, nil
	}
	if s.f.canned != nil {
		cols, rows := s.f.canned(s.q)
		if cols != nil {
			return &fakeRows{cols: cols, rows: rows}, nil
		}
	}
	return &fakeRows{cols: []string{"c"}}, nil
}

type fakeRows struct {
	cols []string
	rows [][]driver.Value
	i    int
}

func (r *fakeRows) Columns() []string { return r.cols }
func (r *fakeRows) Close() error      { return nil }
func (r *fakeRows) Next(dest []driver.Value) error {
	if r.i >= len(r.rows) {
		return io.EOF
	}
	copy(dest, r.rows[r.i])
	r.i++
	return nil
}

func init() { sql.Register("fakech", fakeDriver{}) }

func newFakeDB(name string) *fakeDB {
	f := &fakeDB{name: name}
	registryMtx.Lock()
	registry[name] = f
	registryMtx.Unlock()
	db, err := sql.Open("fakech", name)
	if err != nil {
		panic(err)
	}
	f.db = db
	return f
}

// ---- model.ISqlxDB ----

func (f *fakeDB) GetName() string { return f.name }
func (f *fakeDB) QueryCtx(ctx context.Context, query string, args ...any) (*sql.Rows, error) {
	f.mtx.Lock()
	f.log = append(f.log, recorded{query, args})
	f.mtx.Unlock()
	return f.db.QueryContext(ctx, query, args...)
}
func (f *fakeDB) ExecCtx(ctx context.Context, query string, args ...any) error {
	f.mtx.Lock()
	f.log = append(f.log, recorded{query, args})
	f.mtx.Unlock()
	return nil
}
func (f *fakeDB) Conn(ctx context.Context) (*sql.Conn, error) { return f.db.Conn(ctx) }
func (f *fakeDB) Begin() (*sql.Tx, error)                     { return nil, fmt.Errorf("no tx") }
func (f *fakeDB) Close()                                      {}

func (f *fakeDB) drain() []recorded {
	f.mtx.Lock()
	defer f.mtx.Unlock()
	r := f.log
	f.log = nil
	return r
}

// ---- model.IDBRegistry ----

type fakeRegistry struct {
	m *model.DataDatabasesMap
}

func (r *fakeRegistry) GetDB(ctx context.Context) (*model.DataDatabasesMap, error) { return r.m, nil }
func (r *fakeRegistry) Run()                                                       {}
func (r *fakeRegistry) Stop()                                                      {}
func (r *fakeRegistry) Ping() error                                                { return nil }

func newRegistry(f *fakeDB, cluster string) *fakeRegistry {
	return &fakeRegistry{m: &model.DataDatabasesMap{
		Config:  &clconfig.ClokiBaseDataBase{Name: "qryn", ClusterName: cluster},
		Session: f,
	}}
}

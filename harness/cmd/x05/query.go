package main

import (
	"bytes"
	"encoding/json"
	"errors"
	"fmt"
	"math/rand"
	"net/http/httptest"
	"runtime/debug"
	"sort"
	"strconv"
	"strings"
	"time"

	pprof "github.com/google/pprof/profile"
	"github.com/metrico/qryn/reader/prof"
	v1 "github.com/metrico/qryn/reader/prof/types/v1"
	"google.golang.org/protobuf/encoding/protojson"
	"google.golang.org/protobuf/proto"
	"verif/harness/chsql"
)

const base = "/querier.v1.QuerierService/"

// which quirk produces which error kind of the as-coded prediction
var quirkOfErr = map[string]string{"sql": "avg_sql", "panic_lineless": "merge_lineless", "panic_emptystack": "merge_emptystack",
	"incompatible": "merge_incompatible"}

// outcome of one request on one route
type outcome struct {
	Route  string      `json:"route"`
	Status int         `json:"status"`
	Err    string      `json:"error_kind,omitempty"` // "" = 200 and decoded
	Canon  interface{} `json:"answer,omitempty"`     // normalised answer
	Units  string      `json:"units,omitempty"`      // SelectMergeProfile: "ok" | "wrong"
	Shape  string      `json:"shape,omitempty"`      // defects of the answer's form that the normal form hides
	Raw    string      `json:"raw,omitempty"`
	sqls   []string
}

func clip(s string, n int) string {
	if len(s) > n {
		return s[:n] + "..."
	}
	return s
}

func canon(v interface{}) string {
	b, _ := json.Marshal(v)
	return string(b)
}

// ---------- normal forms (shared by the specification's answers and the observed ones) ----------

type nSeries struct {
	Labels [][2]string `json:"labels"`
	Points [][2]string `json:"points"` // [timestamp ms, value]
	N      int         `json:"n"`
	key    string
}

func fmtVal(v float64) string { return strconv.FormatFloat(v, 'g', 12, 64) }

func sortPairs(p [][2]string) {
	sort.Slice(p, func(i, j int) bool {
		if p[i][0] != p[j][0] {
			return p[i][0] < p[j][0]
		}
		return p[i][1] < p[j][1]
	})
}

func bagSeries(in []nSeries) []nSeries {
	m := map[string]*nSeries{}
	var keys []string
	for i := range in {
		s := in[i]
		sortPairs(s.Labels)
		sort.Slice(s.Points, func(a, b int) bool {
			x, _ := strconv.ParseInt(s.Points[a][0], 10, 64)
			y, _ := strconv.ParseInt(s.Points[b][0], 10, 64)
			if x != y {
				return x < y
			}
			return s.Points[a][1] < s.Points[b][1]
		})
		if s.Labels == nil {
			s.Labels = [][2]string{}
		}
		if s.Points == nil {
			s.Points = [][2]string{}
		}
		k := canon(s.Labels) + canon(s.Points)
		if e, ok := m[k]; ok {
			e.N += s.N
			continue
		}
		s.key = k
		m[k] = &s
		keys = append(keys, k)
	}
	sort.Strings(keys)
	out := []nSeries{}
	for _, k := range keys {
		out = append(out, *m[k])
	}
	return out
}

type nSample struct {
	Stack []string `json:"stack"`
	Unit  bool     `json:"unit_label"`
	Vals  []int64  `json:"vals"`
}
type nMerge struct {
	Cols    [][2]string `json:"cols"`
	Samples []nSample   `json:"samples"`
}

func sortSamples(s []nSample) {
	sort.Slice(s, func(i, j int) bool {
		a, b := strings.Join(s[i].Stack, "\x01"), strings.Join(s[j].Stack, "\x01")
		if a != b {
			return a < b
		}
		if len(s[i].Stack) != len(s[j].Stack) { // [] and [""]
			return len(s[i].Stack) < len(s[j].Stack)
		}
		return !s[i].Unit && s[j].Unit
	})
}

type nCount struct {
	V interface{} `json:"v"`
	N int         `json:"n"`
}

// bagOf collapses equal values (by canonical JSON) and sorts them.
func bagOf(vals []interface{}, ns []int) []nCount {
	m := map[string]*nCount{}
	var keys []string
	for i, v := range vals {
		k := canon(v)
		n := 1
		if ns != nil {
			n = ns[i]
		}
		if e, ok := m[k]; ok {
			e.N += n
			continue
		}
		m[k] = &nCount{V: v, N: n}
		keys = append(keys, k)
	}
	sort.Strings(keys)
	out := []nCount{}
	for _, k := range keys {
		out = append(out, *m[k])
	}
	return out
}

// ---------- the specification's answers, concretised ----------

type specAnswer struct {
	Err   []string
	Canon interface{}
	Units string // SelectMergeProfile: "ok" | "any"
}

func (x *world) specAnswer(c *Conc, cs *Case, raw json.RawMessage) (*specAnswer, error) {
	a := &specAnswer{}
	switch cs.Req.Ep {
	case "SelectSeries":
		var s SeriesAns
		if err := json.Unmarshal(raw, &s); err != nil {
			return nil, err
		}
		a.Err = s.Err
		var in []nSeries
		for _, e := range s.Series {
			n := nSeries{N: e.N}
			for _, l := range e.S.Labels {
				n.Labels = append(n.Labels, [2]string{c.s(l[0]), c.sv(l[0], l[1])})
			}
			for _, p := range e.S.Points {
				n.Points = append(n.Points, [2]string{fmt.Sprint(c.tickMs(p.T)), fmtVal(float64(p.Num) / float64(p.Den))})
			}
			in = append(in, n)
		}
		a.Canon = bagSeries(in)
	case "SelectMergeProfile":
		var m MergeAns
		if err := json.Unmarshal(raw, &m); err != nil {
			return nil, err
		}
		a.Err, a.Units = m.Err, m.Units
		n := nMerge{Cols: [][2]string{}, Samples: []nSample{}}
		for _, col := range m.Cols {
			n.Cols = append(n.Cols, [2]string{c.s(col[0]), c.s(col[1])})
		}
		for _, s := range m.Samples {
			ns := nSample{Stack: []string{}, Unit: s.Unit, Vals: s.Vals}
			for _, f := range s.Stack {
				ns.Stack = append(ns.Stack, c.s(f))
			}
			n.Samples = append(n.Samples, ns)
		}
		sortSamples(n.Samples)
		a.Canon = n
	case "ProfileTypes":
		var t TypesAns
		if err := json.Unmarshal(raw, &t); err != nil {
			return nil, err
		}
		var vals []interface{}
		for _, ty := range t.Types {
			f := []string{c.s(ty.Name), c.s(ty.St), c.s(ty.Su), c.s(ty.Pt), c.s(ty.Pu)}
			vals = append(vals, append([]string{strings.Join(f, ":")}, f...))
		}
		a.Canon = bagOf(vals, nil)
	case "LabelNames", "LabelValues":
		var n NamesAns
		if err := json.Unmarshal(raw, &n); err != nil {
			return nil, err
		}
		var vals []interface{}
		for _, s := range n.Names {
			vals = append(vals, c.s(s))
		}
		a.Canon = bagOf(vals, nil)
	case "Series":
		var s SetsAns
		if err := json.Unmarshal(raw, &s); err != nil {
			return nil, err
		}
		var vals []interface{}
		var ns []int
		for _, e := range s.Sets {
			ls := [][2]string{}
			for _, l := range e.S {
				ls = append(ls, [2]string{c.s(l[0]), c.sv(l[0], l[1])})
			}
			sortPairs(ls)
			vals = append(vals, ls)
			ns = append(ns, e.N)
		}
		a.Canon = bagOf(vals, ns)
	case "AnalyzeQuery":
		var an AnalyzeAns
		if err := json.Unmarshal(raw, &an); err != nil {
			return nil, err
		}
		total := 0
		for _, i := range an.Profiles {
			total += c.sizes[i-1]
		}
		a.Canon = map[string]int{"total_bytes_in_time_range": total, "total_queried_series": an.Series}
	case "GetProfileStats":
		var st StatsAns
		if err := json.Unmarshal(raw, &st); err != nil {
			return nil, err
		}
		o, n := int64(0), int64(0)
		if st.Ingested {
			o, n = c.tickNs(st.Oldest)/1000000, c.tickNs(st.Newest)/1000000
		}
		a.Canon = map[string]interface{}{"data_ingested": st.Ingested, "oldest_profile_time_ms": o, "newest_profile_time_ms": n}
	default:
		return nil, fmt.Errorf("unknown endpoint %q", cs.Req.Ep)
	}
	return a, nil
}

// ---------- requests ----------

func selector(rng *rand.Rand, c *Conc, sel []string) string {
	if len(sel) == 0 {
		return "{}"
	}
	v := c.s(sel[1])
	q := strconv.Quote(v)
	if !strings.Contains(v, "`") && v != "" && rng.Intn(2) == 0 {
		q = "`" + v + "`"
	}
	sp := []string{"", " "}[rng.Intn(2)]
	return "{" + sp + c.s(sel[0]) + sp + "=" + sp + q + sp + "}"
}

func typeID(c *Conc, t TypeID) string {
	return strings.Join([]string{c.s(t.Name), c.s(t.St), c.s(t.Su), c.s(t.Pt), c.s(t.Pu)}, ":")
}

func concList(c *Conc, l []string) []string {
	out := []string{}
	for _, s := range l {
		out = append(out, c.s(s))
	}
	return out
}

// buildRequest returns the method, the request message and an empty response message.
func (x *world) buildRequest(rng *rand.Rand, c *Conc, cs *Case) (string, proto.Message, proto.Message) {
	r := cs.Req
	start, end := c.tickMs(r.S), c.tickMs(r.E)
	// endpoints the specification asks without a window: the part of the day all cases live in
	dayS, dayE := (day0+35000)*1000, (day0+58000)*1000
	var matchers []string
	for _, m := range r.Sels {
		matchers = append(matchers, selector(rng, c, m))
	}
	if len(r.Sels) == 0 && rng.Intn(2) == 0 {
		matchers = []string{"{}"} // a matcher without selectors is no matcher
	}
	switch r.Ep {
	case "SelectSeries":
		q := &prof.SelectSeriesRequest{ProfileTypeID: typeID(c, r.T), LabelSelector: selector(rng, c, r.Sel), Start: start, End: end,
			GroupBy: concList(c, r.Gb), Step: float64(c.StepSec)}
		if len(q.GroupBy) == 0 {
			q.GroupBy = nil
		}
		if r.Agg == "avg" {
			a := v1.TimeSeriesAggregationType_TIME_SERIES_AGGREGATION_TYPE_AVERAGE
			q.Aggregation = &a
		} else if rng.Intn(2) == 0 {
			a := v1.TimeSeriesAggregationType_TIME_SERIES_AGGREGATION_TYPE_SUM
			q.Aggregation = &a
		}
		return "SelectSeries", q, &prof.SelectSeriesResponse{}
	case "SelectMergeProfile":
		return "SelectMergeProfile", &prof.SelectMergeProfileRequest{ProfileTypeID: typeID(c, r.T), LabelSelector: selector(rng, c, r.Sel),
			Start: start, End: end}, &prof.Profile{}
	case "ProfileTypes":
		return "ProfileTypes", &prof.ProfileTypesRequest{Start: dayS, End: dayE}, &prof.ProfileTypesResponse{}
	case "LabelNames":
		return "LabelNames", &v1.LabelNamesRequest{Matchers: matchers, Start: dayS, End: dayE}, &v1.LabelNamesResponse{}
	case "LabelValues":
		return "LabelValues", &v1.LabelValuesRequest{Name: c.s(r.Name), Matchers: matchers, Start: dayS, End: dayE}, &v1.LabelValuesResponse{}
	case "Series":
		ln := concList(c, r.Ln)
		if len(ln) == 0 {
			ln = nil
		}
		return "Series", &prof.SeriesRequest{Matchers: matchers, LabelNames: ln, Start: dayS, End: dayE}, &prof.SeriesResponse{}
	case "AnalyzeQuery":
		return "AnalyzeQuery", &prof.AnalyzeQueryRequest{Start: start, End: end, Query: selector(rng, c, r.Sel)}, &prof.AnalyzeQueryResponse{}
	case "GetProfileStats":
		return "GetProfileStats", &v1.GetProfileStatsRequest{}, &v1.GetProfileStatsResponse{}
	}
	return "", nil, nil
}

// send runs the request on one route and normalises the answer.
func (x *world) send(c *Conc, ep, route string, reqMsg, respMsg proto.Message) *outcome {
	o := &outcome{Route: route}
	var body []byte
	var ct string
	var err error
	if route == "json" {
		body, err = json.Marshal(reqMsg) // the dialect the controller parses: encoding/json over the generated struct tags
		ct = "application/json"
	} else {
		body, err = proto.Marshal(reqMsg)
		ct = "application/proto"
	}
	if err != nil {
		o.Err = "driver: cannot marshal the request: " + err.Error()
		return o
	}
	req := httptest.NewRequest("POST", base+ep, bytes.NewReader(body))
	req.Header.Set("Content-Type", ct)
	x.w.Bridge.Drain()
	nUnsupported := len(x.w.Bridge.Unsupported)
	var resp string
	func() {
		defer func() {
			if e := recover(); e != nil {
				st := string(debug.Stack())
				o.Status = -1
				switch {
				case strings.Contains(st, "service.hashLines"):
					o.Err = "panic_lineless"
				case strings.Contains(st, "service.hashLocations"):
					o.Err = "panic_emptystack"
				default:
					o.Err = "panic_other"
				}
				o.Raw = clip(fmt.Sprint(e), 300)
			}
		}()
		o.Status, resp = x.w.Do(req)
	}()
	sqlErr := false
	for _, e := range x.w.Bridge.Drain() {
		o.sqls = append(o.sqls, clip(strings.TrimSpace(e.SQL), 4000))
		if e.Err != nil && !errors.Is(e.Err, chsql.ErrUnsupported) {
			sqlErr = true
		}
	}
	if len(x.w.Bridge.Unsupported) > nUnsupported {
		x.res.infra("chsql cannot run a statement of %s: %s", ep, clip(x.w.Bridge.Unsupported[len(x.w.Bridge.Unsupported)-1], 600))
		o.Err = "infra_unsupported"
		return o
	}
	if o.Status == -1 {
		return o
	}
	if o.Status != 200 {
		o.Raw = clip(resp, 400)
		switch {
		case strings.Contains(resp, "incompatible sample types") || strings.Contains(resp, "incompatible period types"):
			o.Err = "incompatible"
		case sqlErr:
			o.Err = "sql"
		default:
			o.Err = fmt.Sprintf("http_%d", o.Status)
		}
		return o
	}
	if route == "json" {
		err = protojson.Unmarshal([]byte(resp), respMsg)
	} else {
		err = proto.Unmarshal([]byte(resp), respMsg)
	}
	if err != nil {
		o.Err = "undecodable_body"
		o.Raw = clip(err.Error()+": "+resp, 400)
		return o
	}
	x.normalise(c, ep, respMsg, o)
	if o.Err != "" || x.verbose {
		o.Raw = clip(resp, 1500)
	}
	return o
}

func (x *world) normalise(c *Conc, ep string, respMsg proto.Message, o *outcome) {
	switch m := respMsg.(type) {
	case *prof.SelectSeriesResponse:
		var in []nSeries
		for _, s := range m.Series {
			n := nSeries{N: 1}
			for _, l := range s.Labels {
				n.Labels = append(n.Labels, [2]string{l.Name, l.Value})
			}
			last := int64(-1 << 62)
			for _, p := range s.Points {
				if p.Timestamp <= last {
					o.Shape = "points_not_ascending"
				}
				last = p.Timestamp
				n.Points = append(n.Points, [2]string{fmt.Sprint(p.Timestamp), fmtVal(p.Value)})
			}
			if len(s.Points) == 0 {
				o.Shape = "series_without_points"
			}
			in = append(in, n)
		}
		o.Canon = bagSeries(in)
	case *prof.Profile:
		n := nMerge{Cols: [][2]string{}, Samples: []nSample{}}
		o.Units = "ok"
		b, err := proto.Marshal(m)
		if err != nil {
			o.Err = "undecodable_pprof"
			o.Raw = err.Error()
			return
		}
		if len(m.Sample) == 0 && len(m.SampleType) == 0 {
			o.Canon = n
			return
		}
		p, err := pprof.ParseData(b)
		if err != nil {
			o.Err = "undecodable_pprof"
			o.Raw = clip(err.Error(), 300)
			return
		}
		if err := p.CheckValid(); err != nil {
			o.Err = "undecodable_pprof"
			o.Raw = clip("CheckValid: "+err.Error(), 300)
			return
		}
		for _, st := range p.SampleType {
			n.Cols = append(n.Cols, [2]string{st.Type, st.Unit})
		}
		agg := map[string]*nSample{}
		var keys []string
		for _, s := range p.Sample {
			ns := nSample{Stack: []string{}, Vals: append([]int64(nil), s.Value...)}
			for _, l := range s.Location {
				if len(l.Line) == 0 || l.Line[0].Function == nil {
					ns.Stack = append(ns.Stack, noLine)
				} else {
					ns.Stack = append(ns.Stack, l.Line[0].Function.Name)
				}
			}
			if len(s.NumLabel) > 0 {
				ns.Unit = true
				u := s.NumUnit[c.UnitKey]
				if len(s.NumLabel[c.UnitKey]) != 1 || s.NumLabel[c.UnitKey][0] != 64 || len(u) != 1 || u[0] != c.UnitStr {
					o.Units = "wrong"
				}
			}
			k := fmt.Sprint(len(ns.Stack), "|") + strings.Join(ns.Stack, "\x01") + fmt.Sprint("|", ns.Unit) // a stack of one function named "" is not the empty stack
			if e, ok := agg[k]; ok {
				for i := range e.Vals {
					if i < len(ns.Vals) {
						e.Vals[i] += ns.Vals[i]
					}
				}
				continue
			}
			agg[k] = &ns
			keys = append(keys, k)
		}
		for _, k := range keys {
			n.Samples = append(n.Samples, *agg[k])
		}
		sortSamples(n.Samples)
		o.Canon = n
	case *prof.ProfileTypesResponse:
		var vals []interface{}
		for _, t := range m.ProfileTypes {
			if t.ID == "" && t.Name == "" && t.SampleType == "" && t.SampleUnit == "" && t.PeriodType == "" && t.PeriodUnit == "" {
				x.res.Classes["profile_types_placeholder_entry"]++ // the controller's filler for "no type"
				continue
			}
			vals = append(vals, []string{t.ID, t.Name, t.SampleType, t.SampleUnit, t.PeriodType, t.PeriodUnit})
		}
		o.Canon = bagOf(vals, nil)
	case *v1.LabelNamesResponse:
		var vals []interface{}
		if !(len(m.Names) == 1 && m.Names[0] == "") { // the controller's filler for "no name"
			for _, s := range m.Names {
				vals = append(vals, s)
			}
		} else {
			x.res.Classes["label_names_placeholder_entry"]++
		}
		o.Canon = bagOf(vals, nil)
	case *v1.LabelValuesResponse:
		var vals []interface{}
		for _, s := range m.Names {
			vals = append(vals, s)
		}
		o.Canon = bagOf(vals, nil)
	case *prof.SeriesResponse:
		var vals []interface{}
		for _, ls := range m.LabelsSet {
			p := [][2]string{}
			for _, l := range ls.Labels {
				p = append(p, [2]string{l.Name, l.Value})
			}
			sortPairs(p)
			vals = append(vals, p)
		}
		o.Canon = bagOf(vals, nil)
	case *prof.AnalyzeQueryResponse:
		tb, ts := 0, 0
		if m.QueryImpact != nil {
			tb, ts = int(m.QueryImpact.TotalBytesInTimeRange), int(m.QueryImpact.TotalQueriedSeries)
		}
		o.Canon = map[string]int{"total_bytes_in_time_range": tb, "total_queried_series": ts}
	case *v1.GetProfileStatsResponse:
		o.Canon = map[string]interface{}{"data_ingested": m.DataIngested, "oldest_profile_time_ms": m.OldestProfileTime, "newest_profile_time_ms": m.NewestProfileTime}
	default:
		o.Err = "driver: unknown response type"
	}
}

// ---------- one database ----------

func (x *world) runDB(group []*Case, seed int64) {
	c0 := group[0]
	dbj, _ := json.Marshal(c0.DB)
	rng := rand.New(rand.NewSource(seed ^ int64(hash64(c0.Cfg+string(dbj)))))
	c := concretise(rng, c0.Step)
	c.sizes = make([]int, len(c0.DB))
	if err := x.truncate(); err != nil {
		x.res.infra("truncate: %v", err)
		return
	}
	for _, i := range rng.Perm(len(c0.DB)) {
		if err := x.push(rng, c, i+1, &c0.DB[i]); err != nil {
			var rf *refused
			if errors.As(err, &rf) { // behaviour of the real route, not of the harness
				x.res.report(Mismatch{Signature: "ingest|refused", Kind: "unexplained", Endpoint: "/ingest", Cfg: c0.Cfg,
					Msg: "a well-formed profile is refused: " + rf.msg, Abstract: map[string]interface{}{"cfg": c0.Cfg, "db": c0.DB, "profile": i + 1},
					Case: c0, Concrete: c, Observed: rf.msg})
				x.res.Skipped += len(group)
				return
			}
			x.res.infra("push: %v", err)
			return
		}
	}
	for try := 0; ; try++ {
		n, err := x.count("profiles")
		if err != nil {
			x.res.infra("count: %v", err)
			return
		}
		if n == len(c0.DB) {
			break
		}
		if try > 200 || n > len(c0.DB) {
			x.res.infra("the store holds %d profiles after %d accepted pushes (%v)", n, len(c0.DB), x.w.StoreErr)
			return
		}
		time.Sleep(time.Millisecond)
	}
	if len(x.w.StoreErr) > 0 {
		x.res.infra("store: %s", x.w.StoreErr[0])
		return
	}
	x.res.Databases++
	x.res.Classes[fmt.Sprintf("db_of_%d_profiles", len(c0.DB))]++
	for _, cs := range group {
		x.runCase(rng, c, cs)
	}
}

// dialectProbe (once per process, not a verdict): the same request written as canonical proto3 JSON (camelCase names, int64 as
// strings), which is what a Connect client with the JSON codec sends; the controller parses application/json with encoding/json.
func (x *world) dialectProbe(ep string, reqMsg proto.Message) {
	body, err := protojson.Marshal(reqMsg)
	if err != nil {
		return
	}
	req := httptest.NewRequest("POST", base+ep, bytes.NewReader(body))
	req.Header.Set("Content-Type", "application/json")
	status, resp := -1, ""
	func() {
		defer func() { recover() }()
		status, resp = x.w.Do(req)
	}()
	x.w.Bridge.Drain()
	x.res.Aux["canonical_protojson_request"] = map[string]interface{}{"endpoint": ep, "body": string(body), "status": status, "answer": clip(resp, 300)}
	// error path: the database fails the statement of LabelNames / LabelValues
	probe := map[string]interface{}{}
	for _, e := range []struct {
		ep  string
		msg proto.Message
	}{{"LabelNames", &v1.LabelNamesRequest{Start: (day0 + 35000) * 1000, End: (day0 + 58000) * 1000}},
		{"LabelValues", &v1.LabelValuesRequest{Name: "service_name", Start: (day0 + 35000) * 1000, End: (day0 + 58000) * 1000}}} {
		b, _ := json.Marshal(e.msg)
		rq := httptest.NewRequest("POST", base+e.ep, bytes.NewReader(b))
		rq.Header.Set("Content-Type", "application/json")
		x.failNext = true
		st, body := -1, ""
		func() {
			defer func() { recover() }()
			st, body = x.w.Do(rq)
		}()
		x.failNext = false
		x.w.Bridge.Drain()
		probe[e.ep] = map[string]interface{}{"status": st, "answer": clip(body, 200)}
	}
	x.res.Aux["database_error_during_the_statement"] = probe
}

func (x *world) runCase(rng *rand.Rand, c *Conc, cs *Case) {
	ep, reqMsg, respMsg := x.buildRequest(rng, c, cs)
	if reqMsg == nil {
		x.res.infra("unknown endpoint %q", cs.Req.Ep)
		return
	}
	if !x.probed && ep == "SelectSeries" && len(cs.DB) > 0 {
		x.probed = true
		x.dialectProbe(ep, reqMsg)
	}
	def, err := x.specAnswer(c, cs, cs.Def)
	if err != nil {
		x.res.infra("cannot read the definition's answer: %v", err)
		return
	}
	coded, err := x.specAnswer(c, cs, cs.Coded)
	if err != nil {
		x.res.infra("cannot read the as-coded answer: %v", err)
		return
	}
	x.nreq++
	route := []string{"json", "proto"}[rng.Intn(2)]
	o := x.send(c, ep, route, reqMsg, respMsg)
	x.res.Requests[ep+"/"+route]++
	if o.Err == "infra_unsupported" || strings.HasPrefix(o.Err, "driver:") {
		if strings.HasPrefix(o.Err, "driver:") {
			x.res.infra("%s", o.Err)
		}
		return
	}
	x.classes(cs, def)
	if ss, ok := o.Canon.([]nSeries); ok && ep == "SelectSeries" {
		start := c.tickMs(cs.Req.S)
		for _, e := range ss {
			for _, p := range e.Points {
				if ts, _ := strconv.ParseInt(p[0], 10, 64); ts < start {
					x.res.Classes["select_series_point_stamped_before_start"]++
				}
			}
		}
	}
	// the quirks TLC finds firing in this case: in the mechanism as coded, or in the mechanism with every quirk
	wouldFire := append([]string{}, cs.Fired...)
	for _, q := range cs.MutFired {
		seen := false
		for _, f := range wouldFire {
			seen = seen || f == q
		}
		if !seen {
			wouldFire = append(wouldFire, q)
		}
	}
	for _, q := range wouldFire {
		x.res.FiredCases[q]++
	}
	reqView := map[string]interface{}{"endpoint": ep, "route": route, "message": json.RawMessage(mustJSON(reqMsg))}
	abstract := map[string]interface{}{"cfg": cs.Cfg, "db": cs.DB, "req": cs.Req, "fired": cs.Fired}
	mk := func(sig, kind, quirk, msg string) Mismatch {
		return Mismatch{Signature: sig, Kind: kind, Quirk: quirk, Endpoint: ep, Cfg: cs.Cfg, Msg: msg, Abstract: abstract, Case: cs, Concrete: c,
			Request: reqView, Expected: def, Predicted: coded, Observed: o, SQL: o.sqls}
	}
	// the other route must answer the same
	if x.both > 0 && x.nreq%x.both == 0 {
		other := "proto"
		if route == "proto" {
			other = "json"
		}
		o2 := x.send(c, ep, other, reqMsg, respMsg.ProtoReflect().New().Interface())
		x.res.Requests[ep+"/"+other]++
		x.res.BothRoutes++
		if o2.Err != "infra_unsupported" && (o.Err != o2.Err || canon(o.Canon) != canon(o2.Canon) || o.Units != o2.Units) {
			m := mk("routes_disagree|"+ep, "unexplained", "", fmt.Sprintf("%s: the json and the protobuf route answer differently", ep))
			m.Predicted = o2
			x.res.report(m)
		}
	}
	sameAs := func(a *specAnswer) bool {
		if len(a.Err) > 0 {
			for _, e := range a.Err {
				if e == o.Err {
					return true
				}
			}
			return false
		}
		if o.Err != "" || canon(o.Canon) != canon(a.Canon) {
			return false
		}
		if ep == "SelectMergeProfile" && a.Units == "ok" && o.Units != "ok" {
			return false
		}
		return true
	}
	if o.Shape != "" {
		x.res.report(mk("shape|"+ep+"|"+o.Shape, "unexplained", "", fmt.Sprintf("%s: %s", ep, o.Shape)))
	}
	if sameAs(def) {
		x.res.Agree++
		for _, q := range wouldFire {
			x.res.FiredSilent[q]++
		}
		if x.res.Sample == nil && len(cs.DB) > 1 && ep == "SelectSeries" && len(canon(def.Canon)) > 40 {
			x.res.Sample = map[string]interface{}{"abstract": abstract, "concrete": c, "request": reqView, "expected_by_definition": def, "observed": o}
		}
		return
	}
	// explained: the observed answer is the prediction pred, in which the quirks fired fire
	explained := func(pred *specAnswer, fired []string, kind string) bool {
		if len(fired) == 0 || !sameAs(pred) {
			return false
		}
		qs := fired
		if o.Err != "" {
			q, ok := quirkOfErr[o.Err]
			if !ok {
				return false
			}
			qs = []string{q}
		}
		isFired := map[string]bool{}
		for _, q := range fired {
			isFired[q] = true
		}
		for _, q := range qs {
			if !isFired[q] {
				return false
			}
		}
		what := "the code as written"
		if kind == "repaired_quirk" {
			what = "the code with a quirk it is believed not to have any more"
		}
		for _, q := range qs {
			x.res.FiredObserved[q]++
			m := mk(ep+"|"+q, kind, q, fmt.Sprintf("%s answers what %s predicts (quirk %s of ProfSeries.tla), not what the definition demands", ep, what, q))
			m.Predicted = pred
			x.res.report(m)
		}
		return true
	}
	optional := func(raw []json.RawMessage, dflt *specAnswer) (*specAnswer, bool) {
		if len(raw) == 0 {
			return dflt, true
		}
		a, err := x.specAnswer(c, cs, raw[0])
		if err != nil {
			x.res.infra("cannot read an optional answer of the case: %v", err)
			return nil, false
		}
		return a, true
	}
	if explained(coded, cs.Fired, "quirk") {
		return
	}
	// an error quirk that the code no longer has: the answer the remaining quirks predict
	coded2, ok := optional(cs.Coded2, coded)
	if !ok {
		return
	}
	if o.Err == "" && len(coded.Err) > 0 && explained(coded2, cs.Fired2, "quirk") {
		return
	}
	// a quirk the code is believed not to have any more (MC_ProfSeries!Repaired): the mechanism with every quirk
	mut, ok := optional(cs.Mut, coded)
	if !ok {
		return
	}
	if len(cs.Mut) > 0 && explained(mut, cs.MutFired, "repaired_quirk") {
		return
	}
	mut2, ok := optional(cs.Mut2, mut)
	if !ok {
		return
	}
	if len(cs.Mut2) > 0 && o.Err == "" && explained(mut2, cs.MutFired2, "repaired_quirk") {
		return
	}
	kind := "answer"
	if o.Err != "" {
		kind = "error:" + o.Err
	}
	x.res.report(mk("unexplained|"+ep+"|"+kind, "unexplained", "", fmt.Sprintf("%s: the answer is neither the definition's nor the as-coded prediction", ep)))
}

func mustJSON(m proto.Message) []byte {
	b, err := json.Marshal(m)
	if err != nil {
		return []byte(`"?"`)
	}
	return b
}

// classes counts what the replayed cases exercise (vacuity control).
func (x *world) classes(cs *Case, def *specAnswer) {
	cl := x.res.Classes
	r := cs.Req
	cl["ep_"+r.Ep]++
	switch r.Ep {
	case "SelectSeries":
		if len(r.Gb) > 0 {
			cl["select_series_group_by"]++
		} else {
			cl["select_series_no_group_by"]++
		}
		if r.Agg == "avg" {
			cl["select_series_average"]++
		}
		if s, ok := def.Canon.([]nSeries); ok {
			if len(s) > 1 {
				cl["select_series_several_series_expected"]++
			}
			for _, e := range s {
				if len(e.Points) > 1 {
					cl["select_series_several_buckets_in_a_series"]++
				}
				if len(e.Labels) == 0 {
					cl["select_series_group_without_labels"]++
				}
			}
			if len(s) == 0 {
				cl["select_series_empty_expected"]++
			}
		}
		for _, p := range cs.DB {
			rr := p.T % cs.Step
			if p.T < r.S || p.T > r.E {
				cl["profile_outside_window"]++
				if p.T == r.S-1 || p.T == r.E+1 {
					cl["profile_one_instant_outside_window_bound"]++
				}
			} else if p.T == r.S || p.T == r.E {
				cl["profile_exactly_on_window_bound"]++
			}
			if rr == 0 {
				cl["profile_exactly_on_bucket_start"]++
			}
			if rr == cs.Step-1 {
				cl["profile_1ns_before_bucket_end"]++
			}
		}
	case "SelectMergeProfile":
		if m, ok := def.Canon.(nMerge); ok {
			if len(m.Cols) > 1 {
				cl["merge_profile_two_sample_types"]++
			}
			if len(m.Samples) > 1 {
				cl["merge_profile_several_stacks"]++
			}
			if len(m.Samples) == 0 {
				cl["merge_profile_empty_expected"]++
			}
			for _, s := range m.Samples {
				if s.Unit {
					cl["merge_profile_sample_with_unit_label"]++
				}
			}
		}
		if len(cs.DB) > 1 {
			cl["merge_profile_several_profiles_in_db"]++
		}
	case "Series":
		if len(r.Ln) > 0 {
			cl["series_with_label_names"]++
		}
		if len(r.Sels) > 0 {
			cl["series_with_matcher"]++
		}
		if len(r.Sels) > 1 {
			cl["series_with_two_matchers"]++
		}
	case "LabelNames", "LabelValues":
		if len(r.Sels) > 1 {
			cl["label_names_or_values_with_two_matchers"]++
		}
	}
	if len(r.Sel) > 0 || len(r.Sels) > 0 {
		cl["request_with_equality_selector"]++
	}
	if len(cs.Fired) > 0 || len(cs.MutFired) > 0 {
		cl["cases_where_a_quirk_fires"]++
	}
}

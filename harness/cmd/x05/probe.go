package main

import (
	"bytes"
	"encoding/json"
	"fmt"
	"mime/multipart"
	"net/http/httptest"
	"net/url"
	"os"

	pprof "github.com/google/pprof/profile"
	"verif/harness/e2e"
	"verif/harness/fakech"
)

func mkProf(types [][2]string, period [2]string, stacks [][]string, vals [][]int64) *pprof.Profile {
	p := &pprof.Profile{PeriodType: &pprof.ValueType{Type: period[0], Unit: period[1]}, Period: 10000000, TimeNanos: 1700000000000000000, DurationNanos: 1e9}
	for _, t := range types {
		p.SampleType = append(p.SampleType, &pprof.ValueType{Type: t[0], Unit: t[1]})
	}
	fns := map[string]*pprof.Function{}
	locs := map[string]*pprof.Location{}
	for i, st := range stacks {
		s := &pprof.Sample{Value: vals[i]}
		for _, f := range st {
			if fns[f] == nil {
				fns[f] = &pprof.Function{ID: uint64(len(fns) + 1), Name: f, SystemName: f, Filename: "x.go"}
				p.Function = append(p.Function, fns[f])
				locs[f] = &pprof.Location{ID: uint64(len(locs) + 1), Address: uint64(0x1000 + len(locs)), Line: []pprof.Line{{Function: fns[f], Line: 1}}}
				p.Location = append(p.Location, locs[f])
			}
			s.Location = append(s.Location, locs[f])
		}
		p.Sample = append(p.Sample, s)
	}
	return p
}

func probe() {
	w, err := e2e.New(e2e.Options{IntervalMs: 1, OnDo: func(b *fakech.Block) error { normBlock(b); return nil }})
	if err != nil {
		panic(err)
	}
	defer w.Close()
	push := func(name string, from, until int64, p *pprof.Profile, multi bool) {
		q := url.Values{"name": {name}, "from": {fmt.Sprint(from)}, "until": {fmt.Sprint(until)}, "sampleRate": {"100"}, "spyName": {"gospy"}}
		var body bytes.Buffer
		ct := "binary/octet-stream"
		if multi {
			var gz bytes.Buffer
			p.Write(&gz)
			mw := multipart.NewWriter(&body)
			fw, _ := mw.CreateFormFile("profile", "profile.pprof")
			fw.Write(gz.Bytes())
			mw.Close()
			ct = mw.FormDataContentType()
		} else {
			p.Write(&body)
		}
		code, resp := w.Push("POST", "/ingest?"+q.Encode(), ct, body.Bytes(), nil)
		fmt.Println("PUSH", name, from, code, resp)
	}
	t0 := int64(1700000000)
	cpu := [][2]string{{"samples", "count"}, {"cpu", "nanoseconds"}}
	push("app{env=prod,pod=a}", t0+5, t0+15, mkProf(cpu, [2]string{"cpu", "nanoseconds"}, [][]string{{"leaf", "main"}, {"main"}}, [][]int64{{1, 10}, {2, 20}}), false)
	push("app{env=prod,pod=b}", t0+20, t0+30, mkProf(cpu, [2]string{"cpu", "nanoseconds"}, [][]string{{"leaf", "main"}}, [][]int64{{3, 30}}), true)
	push("app{env=prod,pod=a}", t0+35, t0+45, mkProf(cpu, [2]string{"cpu", "nanoseconds"}, [][]string{{"other", "main"}}, [][]int64{{4, 40}}), false)
	w.Settle()
	w.Settle()
	fmt.Println("COUNTS", w.Store.Counts, w.StoreErr)
	post := func(path string, body any) {
		b, _ := json.Marshal(body)
		req := httptest.NewRequest("POST", path, bytes.NewReader(b))
		req.Header.Set("Content-Type", "application/json")
		w.Bridge.Drain()
		code, resp := func() (c int, r string) {
			defer func() {
				if e := recover(); e != nil {
					c, r = -1, fmt.Sprint("PANIC: ", e)
				}
			}()
			return w.Do(req)
		}()
		fmt.Println("\n==", path, string(b))
		for _, s := range w.Bridge.Drain() {
			fmt.Printf("  SQL: %s\n  ERR: %v\n", s.SQL, s.Err)
		}
		if len(resp) > 3000 {
			resp = resp[:3000]
		}
		fmt.Println("  ->", code, resp, w.Bridge.Unsupported)
	}
	pt := "process_cpu:cpu:nanoseconds:cpu:nanoseconds"
	S, E := (t0-100)*1000, (t0+100)*1000
	base := "/querier.v1.QuerierService/"
	post(base+"ProfileTypes", map[string]any{"start": S, "end": E})
	post(base+"LabelNames", map[string]any{"start": S, "end": E})
	post(base+"LabelNames", map[string]any{"start": S, "end": E, "matchers": []string{`{pod="a"}`}})
	post(base+"LabelValues", map[string]any{"start": S, "end": E, "name": "pod"})
	post(base+"LabelValues", map[string]any{"start": S, "end": E, "name": "__name__"})
	post(base+"Series", map[string]any{"start": S, "end": E})
	post(base+"Series", map[string]any{"start": S, "end": E, "matchers": []string{`{pod="a"}`}, "label_names": []string{"pod", "__name__"}})
	post(base+"SelectSeries", map[string]any{"start": S, "end": E, "profile_typeID": pt, "label_selector": `{}`, "step": 15})
	post(base+"SelectSeries", map[string]any{"start": S, "end": E, "profile_typeID": pt, "label_selector": `{env="prod"}`, "step": 15, "group_by": []string{"env"}})
	post(base+"SelectSeries", map[string]any{"start": S, "end": E, "profile_typeID": pt, "label_selector": `{env="prod"}`, "step": 15, "group_by": []string{"pod"}, "aggregation": 1})
	post(base+"SelectSeries", map[string]any{"start": S, "end": E, "profile_typeID": "process_cpu:samples:count:cpu:nanoseconds", "label_selector": `{env="prod"}`, "step": 15, "group_by": []string{"nope"}})
	post(base+"SelectMergeProfile", map[string]any{"start": S, "end": E, "profile_typeID": pt, "label_selector": `{env="prod"}`})
	post(base+"GetProfileStats", map[string]any{})
	post(base+"AnalyzeQuery", map[string]any{"start": S, "end": E, "query": `{env="prod"}`})
	_ = os.Stdout
}

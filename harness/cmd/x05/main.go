// x05 replays the cases enumerated by spec/query/MC_ProfSeries.tla into the REAL Pyroscope pipeline of qryn:
//
//	abstract database (1..3 profiles: service, tag sequence, sample type list, period type, tick, bag of samples)
//	  --concretise (hostile strings, real nanosecond instants on both sides of step and window edges)-->
//	  github.com/google/pprof/profile.Profile  --Write-->  POST /ingest?name=svc{k=v,..}&from=..&until=..  (multipart + gzip,
//	  binary/octet-stream raw or gzip) on the REAL writer router of e2e.World  -->  fake ClickHouse client  -->  store
//	  (chsql with the REAL DDL and materialized views of ctrl/qryn/sql/profiles.sql)
//	abstract request  --concretise-->  POST /querier.v1.QuerierService/<Method> (application/json in the dialect the
//	  controller parses, or protobuf) on the REAL reader router  -->  answer decoded (protojson / proto; the merged pprof
//	  with github.com/google/pprof/profile)  -->  compared with the DEFINITION's answer computed by TLC.
//
// An answer equal to the definition passes.  An answer that differs from it but equals the as-coded prediction of the
// specification is a mismatch attributed to the quirks TLC found firing in that case; anything else is an unexplained
// mismatch.  A statement chsql cannot run is reported as infrastructure, never as a mismatch.
//
//	x05 run -cases cases.ndjson -out result.json -seed S [-both N]
package main

import (
	"bufio"
	"encoding/json"
	"flag"
	"fmt"
	"hash/fnv"
	"os"
	"reflect"
	"sort"

	"verif/harness/chsql"
	"verif/harness/fakech"
)

// ---------- case format (ToJson of MC_ProfSeries!CaseRec) ----------

type Smp struct {
	Stack []string `json:"stack"` // leaf first
	Unit  bool     `json:"unit"`
}
type Prof struct {
	Svc  string      `json:"svc"`
	Tags [][2]string `json:"tags"`
	TL   [][2]string `json:"tl"`
	Per  [3]string   `json:"per"`
	Bag  []Smp       `json:"bag"`
	T    int         `json:"t"`
}
type TypeID struct {
	Name string `json:"name"`
	St   string `json:"st"`
	Su   string `json:"su"`
	Pt   string `json:"pt"`
	Pu   string `json:"pu"`
}
type Req struct {
	Ep   string     `json:"ep"`
	T    TypeID     `json:"T"`
	Sel  []string   `json:"sel"`
	Gb   []string   `json:"gb"`
	Agg  string     `json:"agg"`
	S    int        `json:"s"`
	E    int        `json:"e"`
	Name string     `json:"name"`
	Ln   []string   `json:"ln"`
	Sels [][]string `json:"sels"` // LabelNames / LabelValues / Series: the list of matchers (an empty matcher is {})
}
type Case struct {
	Cfg   string          `json:"cfg"`
	DB    []Prof          `json:"db"`
	Step  int             `json:"step"`
	Req   Req             `json:"req"`
	Def   json.RawMessage `json:"def"`
	Coded json.RawMessage `json:"coded"`
	Fired []string        `json:"fired"`
	// when the as-coded answer is an error: the answer / firing quirks of the mechanism without the error quirks
	// (the optional answers are lists of 0 or 1 answer; none = the same as the answer before: coded2 as coded, mut as
	// coded, mut2 as mut)
	Coded2 []json.RawMessage `json:"coded2"`
	Fired2 []string          `json:"fired2"`
	// the mechanism with EVERY quirk of the specification, those the code no longer has (MC_ProfSeries!Repaired) included:
	// where a repaired quirk would fire and what a code base that has it again answers; mut2 / mutfired2 without the
	// error quirks when mut is an error
	Mut       []json.RawMessage `json:"mut"`
	MutFired  []string          `json:"mutfired"`
	Mut2      []json.RawMessage `json:"mut2"`
	MutFired2 []string          `json:"mutfired2"`
}

// answers of the specification
type Point struct {
	T   int   `json:"t"`
	Num int64 `json:"num"`
	Den int64 `json:"den"`
}
type SeriesAns struct {
	Err    []string `json:"err"`
	Series []struct {
		S struct {
			Labels [][2]string `json:"labels"`
			Points []Point     `json:"points"`
		} `json:"s"`
		N int `json:"n"`
	} `json:"series"`
}
type MergeAns struct {
	Err     []string    `json:"err"`
	Cols    [][2]string `json:"cols"`
	Units   string      `json:"units"`
	Samples []struct {
		Stack []string `json:"stack"`
		Unit  bool     `json:"unit"`
		Vals  []int64  `json:"vals"`
	} `json:"samples"`
}
type TypesAns struct {
	Types []TypeID `json:"types"`
}
type NamesAns struct {
	Names []string `json:"names"`
}
type SetsAns struct {
	Sets []struct {
		S [][2]string `json:"s"`
		N int         `json:"n"`
	} `json:"sets"`
}
type AnalyzeAns struct {
	Profiles []int `json:"profiles"`
	Series   int   `json:"series"`
}
type StatsAns struct {
	Ingested bool `json:"ingested"`
	Oldest   int  `json:"oldest"`
	Newest   int  `json:"newest"`
}

// ---------- result format ----------

type Mismatch struct {
	Signature string      `json:"signature"`
	Kind      string      `json:"kind"` // "quirk" (equals the as-coded prediction) | "repaired_quirk" (equals the prediction with a quirk the code is believed not to have any more) | "unexplained"
	Quirk     string      `json:"quirk,omitempty"`
	Endpoint  string      `json:"endpoint"`
	Cfg       string      `json:"cfg"`
	Msg       string      `json:"msg"`
	Abstract  interface{} `json:"abstract"`
	Case      *Case       `json:"case"` // the exported TLC case: `x05 run -cases` on a file holding this line replays it
	Concrete  interface{} `json:"concrete"`
	Request   interface{} `json:"request"`
	Expected  interface{} `json:"expected"`
	Predicted interface{} `json:"predicted_as_coded,omitempty"`
	Observed  interface{} `json:"observed"`
	SQL       []string    `json:"sql,omitempty"`
}

type Result struct {
	Cases          int                    `json:"cases"`
	Databases      int                    `json:"databases"`
	Pushes         map[string]int         `json:"pushes"`
	Requests       map[string]int         `json:"requests"` // endpoint/route -> count
	NonTrivial     int                    `json:"distinct_nontrivial"`
	Agree          int                    `json:"answers_equal_definition"`
	Classes        map[string]int         `json:"classes"`
	FiredCases     map[string]int         `json:"fired_cases"`    // quirk -> exported cases in which TLC found it firing (as coded, or with every quirk)
	FiredObserved  map[string]int         `json:"fired_observed"` // quirk -> of those, the real code showed the as-coded answer
	FiredSilent    map[string]int         `json:"fired_silent"`   // quirk -> of those, the real code answered the definition
	MismatchCounts map[string]int         `json:"mismatch_counts"`
	Mismatches     []Mismatch             `json:"mismatches"`
	Infra          []string               `json:"infra"`
	Sample         interface{}            `json:"sample"`
	BothRoutes     int                    `json:"requests_on_both_routes"`
	Skipped        int                    `json:"cases_skipped_after_a_refused_push"`
	Aux            map[string]interface{} `json:"aux"`
}

func newResult() *Result {
	return &Result{Pushes: map[string]int{}, Requests: map[string]int{}, Classes: map[string]int{}, FiredCases: map[string]int{},
		FiredObserved: map[string]int{}, FiredSilent: map[string]int{}, MismatchCounts: map[string]int{}, Aux: map[string]interface{}{}}
}

func size(v interface{}) int {
	b, _ := json.Marshal(v)
	return len(b)
}

// report keeps, per signature, the two smallest witnesses.
func (r *Result) report(m Mismatch) {
	r.MismatchCounts[m.Signature]++
	n, worst, worstSize := 0, -1, -1
	for i := range r.Mismatches {
		if r.Mismatches[i].Signature == m.Signature {
			n++
			if sz := size(r.Mismatches[i].Abstract); sz > worstSize {
				worst, worstSize = i, sz
			}
		}
	}
	if n < 2 {
		r.Mismatches = append(r.Mismatches, m)
	} else if size(m.Abstract) < worstSize {
		r.Mismatches[worst] = m
	}
}

func (r *Result) infra(format string, a ...interface{}) {
	if len(r.Infra) < 20 {
		r.Infra = append(r.Infra, fmt.Sprintf(format, a...))
	}
}

// ---------- fake ClickHouse block normalisation (writer model structs -> chsql tuples) ----------

func normBlock(b *fakech.Block) {
	for _, r := range b.Rows {
		for i, v := range r {
			r[i] = normVal(v)
		}
	}
}

func normVal(v any) any {
	if v == nil {
		return v
	}
	rv := reflect.ValueOf(v)
	switch rv.Kind() {
	case reflect.Struct:
		if rv.Type().PkgPath() != "github.com/metrico/qryn/writer/model" {
			return v
		}
		t := make(chsql.Tuple, rv.NumField())
		for i := 0; i < rv.NumField(); i++ {
			t[i] = normVal(rv.Field(i).Interface())
		}
		return t
	case reflect.Slice:
		et := rv.Type().Elem()
		if et.Kind() == reflect.Struct && et.PkgPath() == "github.com/metrico/qryn/writer/model" {
			out := make([]any, rv.Len())
			for i := 0; i < rv.Len(); i++ {
				out[i] = normVal(rv.Index(i).Interface())
			}
			return out
		}
	}
	return v
}

func hash64(s string) uint64 {
	h := fnv.New64a()
	h.Write([]byte(s))
	return h.Sum64()
}

func main() {
	if len(os.Args) < 2 || os.Args[1] != "run" {
		fmt.Fprintln(os.Stderr, "usage: x05 run -cases cases.ndjson -out result.json -seed S")
		os.Exit(2)
	}
	fs := flag.NewFlagSet("run", flag.ExitOnError)
	casesPath := fs.String("cases", "", "ndjson of MC_ProfSeries!CaseRec (sorted: the cases of one database are adjacent)")
	outPath := fs.String("out", "", "result json")
	seed := fs.Int64("seed", 1, "seed")
	both := fs.Int("both", 5, "every n-th request is sent on both routes (json and protobuf) and the answers compared")
	verbose := fs.Bool("v", false, "print every request")
	fs.Parse(os.Args[2:])
	if !*verbose { // the reader prints every SQL text on stdout
		if dn, err := os.OpenFile(os.DevNull, os.O_WRONLY, 0); err == nil {
			os.Stdout = dn
		}
	}

	f, err := os.Open(*casesPath)
	if err != nil {
		fmt.Fprintln(os.Stderr, err)
		os.Exit(2)
	}
	defer f.Close()
	res := newResult()
	x, err := newWorld(res)
	if err != nil {
		fmt.Fprintln(os.Stderr, "world:", err)
		os.Exit(2)
	}
	defer x.close()
	x.both, x.verbose = *both, *verbose

	sc := bufio.NewScanner(f)
	sc.Buffer(make([]byte, 1<<20), 1<<28)
	var group []*Case
	var groupKey string
	flush := func() {
		if len(group) > 0 {
			x.runDB(group, *seed)
			group = nil
		}
	}
	distinct := map[uint64]bool{}
	for sc.Scan() {
		line := sc.Bytes()
		if len(line) == 0 {
			continue
		}
		c := &Case{}
		if err := json.Unmarshal(line, c); err != nil {
			fmt.Fprintln(os.Stderr, "bad case line:", err)
			os.Exit(2)
		}
		dbj, _ := json.Marshal(c.DB)
		k := c.Cfg + "|" + string(dbj)
		if k != groupKey {
			flush()
			groupKey = k
		}
		group = append(group, c)
		res.Cases++
		if len(c.DB) > 0 {
			rq, _ := json.Marshal(c.Req)
			distinct[hash64(k+string(rq))] = true
		}
	}
	flush()
	if err := sc.Err(); err != nil {
		fmt.Fprintln(os.Stderr, "reading cases:", err)
		os.Exit(2)
	}
	res.NonTrivial = len(distinct)
	sort.Slice(res.Mismatches, func(i, j int) bool { return res.Mismatches[i].Signature < res.Mismatches[j].Signature })
	out, _ := json.MarshalIndent(res, "", " ")
	if err := os.WriteFile(*outPath, out, 0o644); err != nil {
		fmt.Fprintln(os.Stderr, err)
		os.Exit(2)
	}
}

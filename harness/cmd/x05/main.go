package main

import (
	"os"
	"reflect"

	"verif/harness/chsql"
	"verif/harness/fakech"
)

func normBlock(b *fakech.Block) {
	for _, r := range b.Rows {
		for i, v := range r {
			r[i] = normVal(v)
		}
	}
}

func normVal(v any) any {
	if v == nil {
		return v
	}
	rv := reflect.ValueOf(v)
	switch rv.Kind() {
	case reflect.Struct:
		if rv.Type().PkgPath() != "github.com/metrico/qryn/writer/model" {
			return v
		}
		t := make(chsql.Tuple, rv.NumField())
		for i := 0; i < rv.NumField(); i++ {
			t[i] = normVal(rv.Field(i).Interface())
		}
		return t
	case reflect.Slice:
		et := rv.Type().Elem()
		if et.Kind() == reflect.Struct && et.PkgPath() == "github.com/metrico/qryn/writer/model" {
			out := make([]any, rv.Len())
			for i := 0; i < rv.Len(); i++ {
				out[i] = normVal(rv.Index(i).Interface())
			}
			return out
		}
	}
	return v
}

func main() {
	if len(os.Args) > 1 && os.Args[1] == "probe" {
		probe()
	}
}

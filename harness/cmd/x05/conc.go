package main

import (
	"bytes"
	"context"
	"database/sql/driver"
	"fmt"
	"math/rand"
	"mime/multipart"
	"net/url"
	"strings"

	pprof "github.com/google/pprof/profile"
	"verif/harness/e2e"
	"verif/harness/fakech"
	"verif/harness/fakesql"
)

// ---------- pools (hostile where the route's syntax allows it) ----------

// service names: everything before the first '{' of the name parameter
var svcPool = []string{"my-app", "svc.with.dots", "ünïcode svc", "a b", "app:prod", "weird'svc\"q", "x"}

// the label a selector names: the selector grammar wants an identifier
var selNamePool = []string{"a", "env", "_under", "Pod9"}

// labels only ever passed as plain strings (group_by, label_names, LabelValues.name); /ingest splits on '=' and ','
var otherNamePool = []string{"b", "pod-name", "k8s.io/x", "ünï", "with space", "c", "q\"uote", "__dunder__"}
var absentNamePool = []string{"zz", "no.such", "näme"}
var valuePool = []string{"1", "v\"q", "back\\slash", "日本", "with space", "semi;colon", "x:y", "'single'", "`tick`", "%25", "a|b", "2"}

// sample types / units: ':' would make "type:unit" ambiguous, a backtick is eaten by populateTypeId's quoting
var stPool = []string{"cpu", "samples", "alloc_space", "inuse objects", "ünï", "x.y-z"}
var suPool = []string{"nanoseconds", "count", "bytes", "côde", "per second", "u'q"}

// period types and the profile name the writer derives from them (golangPprof.go: Parse)
var periodPool = [][2]string{{"cpu", "process_cpu"}, {"wall", "wall"}, {"mutex", "mutex"}, {"contentions", "mutex"}, {"goroutine", "goroutines"},
	{"objects", "memory"}, {"space", "memory"}, {"alloc", "memory"}, {"inuse", "memory"}, {"block", "block"}, {"ünï tÿpe", ""}, {"custom", ""}}
var puPool = []string{"nanoseconds", "bytes", "côunt", "1/s"}

const noLine = "\x00NOLINE" // the atom "nl" is realised as a location WITHOUT line info

var fnPool = []string{"main.work", "", "runtime.mcall", "日本語.関数✓", "a:b c\t\"q\"\\", "total", "n/a",
	"github.com/x/y.(*T).Method-fm", " leading and trailing ", "{}[]()<>,;='`"}
var unitKeyPool = []string{"bytes", "bÿtes", "size class"}
var stepPool = []int64{1, 2, 15, 60, 3600}

const day0 = int64(1699920000) // 2023-11-14T00:00:00Z; every case lives between 10:00 and 16:00 of that day

// Conc is the concretisation of one abstract database.
type Conc struct {
	M           map[string]string `json:"atoms"`
	StepSec     int64             `json:"step_seconds"`
	B0          int64             `json:"bucket0_start_s"`
	MidNs       int64             `json:"interior_instant_offset_ns"`
	Step        int               `json:"ticks_per_bucket"`
	UnitKey     string            `json:"num_label_key"`
	UnitStr     string            `json:"num_label_unit"`
	WithMapping bool              `json:"locations_have_a_mapping"`
	SplitUnit   bool              `json:"unit_samples_of_later_profiles_carry_a_string_label"`
	Pushes      []interface{}     `json:"pushes"`
	sizes       []int             // stored payload length per profile (1-based index - 1)
}

func pick(rng *rand.Rand, pool []string, n int) []string {
	p := rng.Perm(len(pool))
	out := make([]string, n)
	for i := range out {
		out[i] = pool[p[i]]
	}
	return out
}

func concretise(rng *rand.Rand, step int) *Conc {
	c := &Conc{M: map[string]string{}, Step: step}
	sv := pick(rng, svcPool, 2)
	c.M["s1"], c.M["s2"] = sv[0], sv[1]
	c.M["a"] = selNamePool[rng.Intn(len(selNamePool))]
	on := pick(rng, otherNamePool, 2)
	c.M["b"], c.M["c"] = on[0], on[1]
	an := pick(rng, absentNamePool, 2)
	c.M["z"], c.M["zz"] = an[0], an[1]
	vs := pick(rng, valuePool, 2)
	c.M["1"], c.M["2"] = vs[0], vs[1]
	st := pick(rng, stPool, 2)
	c.M["x"], c.M["y"] = st[0], st[1]
	su := pick(rng, suPool, 2)
	c.M["u"], c.M["v"] = su[0], su[1]
	pp := rng.Perm(len(periodPool))
	c.M["p1"], c.M["N1"] = periodPool[pp[0]][0], periodPool[pp[0]][1]
	c.M["p2"], c.M["N2"] = periodPool[pp[1]][0], periodPool[pp[1]][1]
	c.M["q1"] = puPool[rng.Intn(len(puPool))]
	fn := pick(rng, fnPool, 2)
	c.M["f"], c.M["g"] = fn[0], fn[1]
	c.M["nl"] = noLine
	c.UnitKey = unitKeyPool[rng.Intn(len(unitKeyPool))]
	c.UnitStr = unitKeyPool[rng.Intn(len(unitKeyPool))]
	c.WithMapping = rng.Intn(2) == 0
	c.SplitUnit = rng.Intn(2) == 0
	c.StepSec = stepPool[rng.Intn(len(stepPool))]
	start := day0 + 36000
	c.B0 = (start + c.StepSec - 1) / c.StepSec * c.StepSec
	// an interior instant that is a whole number of milliseconds: 1 ms .. step - 1 ms
	c.MidNs = (1 + rng.Int63n(c.StepSec*1000-1)) * 1000000
	return c
}

// s maps an abstract atom to its concrete string (literals such as service_name or __name__ map to themselves).
func (c *Conc) s(atom string) string {
	if v, ok := c.M[atom]; ok {
		return v
	}
	return atom
}

// sv maps a label VALUE: the value of __profile_type__ is a ':'-joined list of atoms.
func (c *Conc) sv(name, val string) string {
	if name == "__profile_type__" {
		parts := strings.Split(val, ":")
		for i := range parts {
			parts[i] = c.s(parts[i])
		}
		return strings.Join(parts, ":")
	}
	return c.s(val)
}

func (c *Conc) tickNs(t int) int64 {
	k, r := int64(t/c.Step), t%c.Step
	base := (c.B0 + k*c.StepSec) * 1000000000
	switch r {
	case 0:
		return base
	case 1:
		return base + c.MidNs
	case 2:
		return base + c.MidNs + 1
	}
	return base + c.StepSec*1000000000 - 1
}

// tickMs is defined for ticks 0 and 1 of a bucket only (window bounds and bucket labels).
func (c *Conc) tickMs(t int) int64 { return c.tickNs(t) / 1000000 }

func val(i, j, k int) int64 {
	v := int64(k)
	for n := 0; n < 2*(i-1)+(j-1); n++ {
		v *= 10
	}
	return v
}

// buildPprof turns the i-th abstract profile into a pprof profile.  A function atom has two VARIANTS (two pprof Functions
// with the same Name but different file / start line, two Locations with different address / line); what a variant looks
// like depends on the atom only, so the same variant met in two profiles of a database is the same location to the
// reader's merge (its samples collapse into one), while the other variant stays a sample of its own with the same stack
// of function names.  Ids and the order of samples / functions / locations are random.  A sample flagged unit carries
// a numeric label with a unit; with c.SplitUnit, from the second profile on, it also carries a string label, so that the
// string tables of the profiles of one database list the unit string at different indices.
func buildPprof(rng *rand.Rand, c *Conc, i int, p *Prof) *pprof.Profile {
	out := &pprof.Profile{
		PeriodType:    &pprof.ValueType{Type: c.s(p.Per[1]), Unit: c.s(p.Per[2])},
		Period:        10000000,
		TimeNanos:     c.tickNs(p.T),
		DurationNanos: 10000000000,
	}
	for _, t := range p.TL {
		out.SampleType = append(out.SampleType, &pprof.ValueType{Type: c.s(t[0]), Unit: c.s(t[1])})
	}
	var mapping *pprof.Mapping
	if c.WithMapping {
		mapping = &pprof.Mapping{ID: uint64(rng.Intn(3) + 1), Start: 0x1000, Limit: 0x9000, File: "/bin/app", BuildID: "abc"}
		out.Mapping = append(out.Mapping, mapping)
	}
	fnID := uint64(rng.Intn(5) + 1)
	locID := uint64(rng.Intn(5) + 1)
	funcs := map[string]*pprof.Function{}
	locs := map[string]*pprof.Location{}
	loc := func(atom string) *pprof.Location {
		variant := rng.Intn(2)
		k := fmt.Sprintf("%s/%d", atom, variant)
		if l := locs[k]; l != nil {
			return l
		}
		h := hash64(k)
		l := &pprof.Location{ID: locID, Address: 0x1000 + (h%2048)*16, Mapping: mapping}
		locID += uint64(rng.Intn(3) + 1)
		if c.s(atom) != noLine {
			f := funcs[k]
			if f == nil {
				f = &pprof.Function{ID: fnID, Name: c.s(atom), SystemName: "sys_" + k, Filename: "/src/" + k + ".go", StartLine: int64(h % 97)}
				fnID += uint64(rng.Intn(3) + 1)
				funcs[k] = f
				out.Function = append(out.Function, f)
			}
			l.Line = []pprof.Line{{Function: f, Line: int64(h % 991)}}
		}
		locs[k] = l
		out.Location = append(out.Location, l)
		return l
	}
	for k, s := range p.Bag {
		smp := &pprof.Sample{}
		for j := range p.TL {
			smp.Value = append(smp.Value, val(i, j+1, k+1))
		}
		for _, atom := range s.Stack {
			smp.Location = append(smp.Location, loc(atom))
		}
		if s.Unit {
			smp.NumLabel = map[string][]int64{c.UnitKey: {64}}
			smp.NumUnit = map[string][]string{c.UnitKey: {c.UnitStr}}
			if i > 1 && c.SplitUnit {
				smp.Label = map[string][]string{fmt.Sprintf("thr%d", i): {fmt.Sprintf("t-%d", i)}}
			}
		} else if hash64(strings.Join(s.Stack, "/"))%3 == 0 {
			smp.Label = map[string][]string{"thread": {"main"}}
		}
		out.Sample = append(out.Sample, smp)
	}
	rng.Shuffle(len(out.Sample), func(a, b int) { out.Sample[a], out.Sample[b] = out.Sample[b], out.Sample[a] })
	rng.Shuffle(len(out.Function), func(a, b int) { out.Function[a], out.Function[b] = out.Function[b], out.Function[a] })
	rng.Shuffle(len(out.Location), func(a, b int) { out.Location[a], out.Location[b] = out.Location[b], out.Location[a] })
	return out
}

// ---------- the world ----------

type world struct {
	w       *e2e.World
	res     *Result
	both    int
	verbose bool
	nreq    int
	probed  bool
	// the next statement fails (error-path probe, not a verdict)
	failNext bool
}

var profTables = []string{"profiles", "profiles_series", "profiles_series_gin", "profiles_series_keys"}

func newWorld(res *Result) (*world, error) {
	w, err := e2e.New(e2e.Options{IntervalMs: 1, Attempts: 1, OnDo: func(b *fakech.Block) error { normBlock(b); return nil }})
	if err != nil {
		return nil, err
	}
	// chbridge hands an EMPTY ClickHouse array to database/sql as []interface{}; clickhouse-go delivers the typed empty
	// slice of the column (Array(Tuple(String, String)) -> [][]interface{}), which is what the reader's scan targets expect
	inner := w.SQL.Handler
	x := &world{w: w, res: res}
	w.SQL.Handler = func(ctx context.Context, q string, args []driver.NamedValue) (*fakesql.Answer, error) {
		if x.failNext {
			x.failNext = false
			return nil, fmt.Errorf("code: 241, scripted database error")
		}
		a, err := inner(ctx, q, args)
		if err != nil || a == nil {
			return a, err
		}
		for ci, col := range a.Cols {
			if col != "labels" && col != "tags" {
				continue
			}
			for _, r := range a.Rows {
				if e, ok := r[ci].([]interface{}); ok && len(e) == 0 {
					r[ci] = [][]interface{}{}
				}
			}
		}
		return a, nil
	}
	return x, nil
}

func (x *world) close() { x.w.Close() }

func (x *world) truncate() error {
	for _, t := range profTables {
		if err := x.w.Store.DB.Truncate(t); err != nil {
			return err
		}
	}
	return nil
}

func (x *world) count(table string) (int, error) {
	r, err := x.w.Store.DB.Query("SELECT count() FROM " + table)
	if err != nil {
		return 0, err
	}
	if len(r.Rows) != 1 || len(r.Rows[0]) != 1 {
		return 0, fmt.Errorf("count(%s): unexpected result", table)
	}
	switch n := r.Rows[0][0].(type) {
	case uint64:
		return int(n), nil
	case int64:
		return int(n), nil
	}
	return 0, fmt.Errorf("count(%s): unexpected type %T", table, r.Rows[0][0])
}

// fromParam renders an instant the way pyroscope clients do (seconds) or with more digits: ns() of the writer scales any of
// them to nanoseconds by multiplying with 10 until the value has 19 digits.
func fromParam(rng *rand.Rand, ns int64) (int64, string) {
	forms := []struct {
		div  int64
		name string
	}{{1, "ns"}, {1000, "us"}, {1000000, "ms"}, {1000000000, "s"}}
	ok := forms[:1]
	for _, f := range forms[1:] {
		if ns%f.div == 0 {
			ok = append(ok, f)
		}
	}
	f := ok[rng.Intn(len(ok))]
	return f.div, f.name
}

// refused: the real route did not accept a well-formed profile
type refused struct{ msg string }

func (r *refused) Error() string { return r.msg }

// push sends the i-th profile (1-based) through the real /ingest route and returns the length of the payload the writer stores.
func (x *world) push(rng *rand.Rand, c *Conc, i int, p *Prof) error {
	pp := buildPprof(rng, c, i, p)
	name := c.s(p.Svc)
	if len(p.Tags) > 0 || rng.Intn(2) == 0 {
		var kv []string
		for _, t := range p.Tags {
			kv = append(kv, c.s(t[0])+"="+c.s(t[1]))
		}
		name += "{" + strings.Join(kv, ",") + "}"
	}
	ns := c.tickNs(p.T)
	div, form := fromParam(rng, ns)
	from, until := fmt.Sprint(ns/div), fmt.Sprint((ns+10000000000)/div)
	q := url.Values{"name": {name}, "from": {from}, "until": {until}}
	// parameters pyroscope clients send and the route ignores
	if rng.Intn(2) == 0 {
		q.Set("sampleRate", fmt.Sprint(1+rng.Intn(1000)))
		q.Set("spyName", []string{"gospy", "ebpfspy", "javaspy"}[rng.Intn(3)])
	}
	if rng.Intn(3) == 0 {
		q.Set("units", []string{"samples", "bytes", "objects"}[rng.Intn(3)])
		q.Set("aggregationType", []string{"sum", "average"}[rng.Intn(2)])
	}
	var body bytes.Buffer
	var ct, route string
	switch rng.Intn(3) {
	case 0:
		route = "multipart"
		var gz bytes.Buffer
		if err := pp.Write(&gz); err != nil {
			return fmt.Errorf("pprof write: %w", err)
		}
		mw := multipart.NewWriter(&body)
		fw, _ := mw.CreateFormFile("profile", "profile.pprof")
		fw.Write(gz.Bytes())
		mw.Close()
		ct = mw.FormDataContentType()
	case 1:
		route = "binary_raw"
		ct = "binary/octet-stream"
		if err := pp.WriteUncompressed(&body); err != nil {
			return fmt.Errorf("pprof write: %w", err)
		}
	default:
		route = "binary_gzip"
		ct = "binary/octet-stream"
		if err := pp.Write(&body); err != nil {
			return fmt.Errorf("pprof write: %w", err)
		}
	}
	// what the writer stores: the parsed profile written uncompressed
	var raw bytes.Buffer
	if err := pp.WriteUncompressed(&raw); err != nil {
		return fmt.Errorf("pprof write: %w", err)
	}
	re, err := pprof.ParseData(raw.Bytes())
	if err != nil {
		return fmt.Errorf("driver built an unparsable pprof: %w", err)
	}
	var stored bytes.Buffer
	if err := re.WriteUncompressed(&stored); err != nil {
		return fmt.Errorf("pprof write: %w", err)
	}
	c.sizes[i-1] = stored.Len()
	code, resp := x.w.Push("POST", "/ingest?"+q.Encode(), ct, body.Bytes(), nil)
	x.res.Pushes[route]++
	x.res.Pushes["from_in_"+form]++
	c.Pushes = append(c.Pushes, map[string]interface{}{"profile": i, "route": route, "name": name, "from": from, "until": until, "status": code})
	if code != 200 {
		return &refused{fmt.Sprintf("/ingest (%s, name=%q from=%s) answered %d %s", route, name, from, code, clip(resp, 300))}
	}
	return nil
}

package main

// replay: steps TLC-generated behaviours of MC_WriterLifecycleReplay through the real service objects and
// compares, after every step, what can be observed of the real state with the model state.

import (
	"encoding/json"
	"fmt"
	"math/rand"
	"os"
	"sort"
	"strconv"
	"strings"
	"sync"
	"time"

	"github.com/metrico/qryn/writer/service"
	"github.com/metrico/qryn/writer/utils/helpers"
	"github.com/metrico/qryn/writer/utils/promise"
	"verif/harness/fakech"
	"verif/harness/wworld"
)

const waitT = 5 * time.Second

type RState struct {
	Inited    map[string]bool              `json:"inited"`
	MMRunning map[string]bool              `json:"mmRunning"`
	RRRunning map[string]bool              `json:"rrRunning"`
	Wrun      map[string]bool              `json:"wrun"`
	Cancelled map[string]bool              `json:"cancelled"`
	Loop      map[string]string            `json:"loop"`
	Wst       map[string]string            `json:"wst"`
	Flush     map[string]bool              `json:"flush"`
	Results   map[string][][]any           `json:"results"`
	Portion   map[string][][]any           `json:"portion"`
	Rst       map[string]string            `json:"rst"`
	Lnode     map[string]string            `json:"lnode"`
	Lmode     map[string]string            `json:"lmode"`
	Lpc       map[string]string            `json:"lpc"`
	Lw        map[string]int               `json:"lw"`
	Gs        map[string]map[string]string `json:"gs"`
}

type RStep struct {
	Action string `json:"action"`
	Args   []any  `json:"args"`
	State  RState `json:"state"`
}

type RConsts struct {
	Nodes       []string `json:"Nodes"`
	AsyncNodes  []string `json:"AsyncNodes"`
	Kinds       []string `json:"Kinds"`
	ParallelNum int      `json:"ParallelNum"`
	RG          int      `json:"RG"`
}

type RInput struct {
	Consts     RConsts   `json:"consts"`
	Behaviours [][]RStep `json:"behaviours"`
}

type RViolation struct {
	Behaviour int    `json:"behaviour"`
	Step      int    `json:"step"`
	Action    string `json:"action"`
	Kind      string `json:"kind"`
	Sig       string `json:"sig"`
	Msg       string `json:"msg"`
}

type ROutput struct {
	Behaviours   int               `json:"behaviours"`
	Steps        int               `json:"steps"`
	Actions      map[string]int    `json:"actions"`
	Blocks       int               `json:"blocks"`
	Branches     map[string]int    `json:"selection_branches"`
	Bodies       map[string]string `json:"insert_body_by_mode"`
	AsyncAckWait int               `json:"async_promises_seen_pending_while_do_blocked"`
	Orphans      int               `json:"orphaned_promises_observed"`
	Completed    []int             `json:"completed_behaviours"`
	Violations   []RViolation      `json:"violations"`
	Infra        []string          `json:"infra"`
}

func keyOf(v any) string {
	switch x := v.(type) {
	case []any:
		parts := make([]string, len(x))
		for i, e := range x {
			parts[i] = keyOf(e)
		}
		return strings.Join(parts, "/")
	case float64:
		return strconv.Itoa(int(x))
	case string:
		return x
	}
	return fmt.Sprint(v)
}

type fail struct{ kind, sig, msg string }

type rrun struct {
	in      *RInput
	bi      int
	rnd     *rand.Rand
	w       *World
	waiters map[string]*wworld.Waiter // leg "r/kind"
	proms   map[string]*promise.Promise[uint32]
	blocks  map[string]*fakech.Block // worker key -> block inside Do
	atGate  map[string]bool
	out     *ROutput
	mu      *sync.Mutex
}

func (r *rrun) setup() {
	c := r.in.Consts
	async := map[string]bool{}
	for _, n := range c.AsyncNodes {
		async[n] = true
	}
	r.w = NewWorld(c.Nodes, async, c.Kinds, c.ParallelNum, time.Hour, true, 30)
	r.waiters = map[string]*wworld.Waiter{}
	r.proms = map[string]*promise.Promise[uint32]{}
	r.blocks = map[string]*fakech.Block{}
	r.atGate = map[string]bool{}
}

func promState(wt *wworld.Waiter) string {
	st := wt.State()
	if st == "err" && wt.Err != nil && wt.Err.Error() == "service stopped" {
		return "stopped"
	}
	return st
}

func promWait(wt *wworld.Waiter, d time.Duration) string {
	wt.Wait(d)
	return promState(wt)
}

func (r *rrun) count(m map[string]int, k string) {
	r.mu.Lock()
	m[k]++
	r.mu.Unlock()
}

func (r *rrun) step(pre *RState, s *RStep) *fail {
	post := &s.State
	w := r.w
	switch s.Action {
	case "InitG", "InitAgainG":
		sv := w.Svcs[keyOf(s.Args[0])]
		var before []*service.InsertServiceV2
		if s.Action == "InitAgainG" {
			before = append(poolWorkers(sv.MM.SyncService), poolWorkers(sv.MM.AsyncService)...)
		}
		w.Init(sv)
		if s.Action == "InitAgainG" {
			after := append(poolWorkers(sv.MM.SyncService), poolWorkers(sv.MM.AsyncService)...)
			if len(before) != len(after) {
				return &fail{"conformance", "init-again", fmt.Sprintf("a second Init() changed the number of workers from %d to %d", len(before), len(after))}
			}
			for i := range before {
				if before[i] != after[i] {
					return &fail{"conformance", "init-again", "a second Init() replaced a worker object"}
				}
			}
		}
	case "RunG":
		sv := w.Svcs[keyOf(s.Args[0])]
		if err := w.Run(sv, waitT); err != nil {
			return &fail{"conformance", "run", err.Error()}
		}
	case "RunAgainG":
		sv := w.Svcs[keyOf(s.Args[0])]
		if err := w.Run(sv, waitT); err != nil {
			return &fail{"conformance", "run-again", err.Error()}
		}
	case "StopG":
		w.Svcs[keyOf(s.Args[0])].I.Stop()
	case "PlanFlushG":
		w.Svcs[keyOf(s.Args[0])].I.PlanFlush()
	case "TimerFireG":
		w.Workers[keyOf(s.Args[0])].Ptr.PlanFlush()
	case "ForceG":
		w.Workers[keyOf(s.Args[0])].ForceState(stateNum(s.Args[1].(string)))
	case "RequestG":
		rq := keyOf(s.Args[0])
		d := s.Args[1].(string)
		h := s.Args[2].(string)
		nd := s.Args[3].(map[string]any)
		u := s.Args[4].(map[string]any)
		for _, k := range r.in.Consts.Kinds {
			leg := rq + "/" + k
			wantNode := nd[k].(string)
			if post.Rst[rq] == "rejected" {
				// the demanded behaviour for an unknown DSN: the lookup fails
				svc, err := w.lookup(k, d)
				if err == nil {
					return &fail{"conformance", "route-unknown-dsn", fmt.Sprintf("X-CH-DSN %q names no node, the registry returned node %q instead of an error", d, svc.GetNodeName())}
				}
				continue
			}
			w.regSrc.setIntn(w.regIndex(k, wantNode))
			calls0 := w.regSrc.calls
			svc, err := w.lookup(k, d)
			if err != nil || svc == nil {
				return &fail{"conformance", "route", fmt.Sprintf("registry lookup (%s, dsn %q) failed: %v", k, d, err)}
			}
			drew := w.regSrc.calls != calls0
			if got := svc.GetNodeName(); got != post.Lnode[leg] {
				return &fail{"conformance", "route-node", fmt.Sprintf("dsn %q (draw -> %s): the registry resolved node %q, the model says %q (random draw used: %v)", d, wantNode, got, post.Lnode[leg], drew)}
			}
			sv := w.Svcs[post.Lnode[leg]+"/"+k]
			if svc != sv.I {
				return &fail{"conformance", "route-node", "registry returned a service object that is not the node's"}
			}
			// script the draw of BOTH pools (the code chooses the pool)
			uu := int(u[k].(float64))
			top := r.rnd.Intn(2) == 0
			sv.src["sync"].setFloat(uu, r.in.Consts.RG, top)
			sv.src["async"].setFloat(uu, r.in.Consts.RG, top)
			// which branch of the selection does the model take
			poolKey := post.Lnode[leg] + "/" + k + "/" + post.Lmode[leg]
			ins, idl := 0, 0
			for i := 1; i <= w.W; i++ {
				switch pre.Wst[fmt.Sprintf("%s/%d", poolKey, i)] {
				case "INSERTING":
					ins++
				case "IDLE":
					idl++
				}
			}
			br := "any"
			if ins > 0 {
				br = "inserting"
			} else if idl > 0 {
				br = "idle"
			}
			r.count(r.out.Branches, fmt.Sprintf("%s(%d of %d)", br, map[string]int{"inserting": ins, "idle": idl, "any": w.W}[br], w.W))
			p, pan := safeRequest(svc, mkReq(rq, k, 1+r.rnd.Intn(2)), modeNum(h))
			if pan != "" {
				return &fail{"conformance", "request-panic|" + br, fmt.Sprintf("Request of push %s (dsn %q, mode %q, draw %d/%d, worker states %v) panicked: %s", leg, d, h, uu, r.in.Consts.RG, poolStates(pre, poolKey, w.W), pan)}
			}
			r.proms[leg] = p
			r.waiters[leg] = wworld.Watch(p)
			wantW := fmt.Sprintf("%s/%d", poolKey, post.Lw[leg])
			// every Append event produced by this call
			var got []string
			for key, wk := range w.Workers {
				for {
					select {
					case e := <-wk.Events:
						if e.Ev != service.VerifEvAppend {
							return &fail{"conformance", "request-event", fmt.Sprintf("unexpected hook event %d on %s during Request", e.Ev, key)}
						}
						got = append(got, key)
						if key == wantW && e.NResults != len(post.Results[key]) {
							return &fail{"conformance", "request-queue", fmt.Sprintf("after Request(%s) %d promises wait on the open batch of %s, the model says %d", leg, e.NResults, key, len(post.Results[key]))}
						}
						continue
					default:
					}
					break
				}
			}
			switch post.Lpc[leg] {
			case "pending":
				if len(got) != 1 || got[0] != wantW {
					detail := "selection"
					if len(got) == 1 {
						a, b := strings.Split(got[0], "/"), strings.Split(wantW, "/")
						if a[0] != b[0] {
							detail = "node"
						} else if a[2] != b[2] {
							detail = "pool"
						} else {
							detail = "worker|" + br
						}
					}
					return &fail{"conformance", "request-lands|" + detail, fmt.Sprintf("push %s (dsn %q, mode %q, draw %d/%d, worker states %v) was appended to %v; the model says exactly %s", leg, d, h, uu, r.in.Consts.RG, poolStates(pre, poolKey, w.W), got, wantW)}
				}
			case "stopped":
				if len(got) != 0 {
					return &fail{"conformance", "request-stopped", fmt.Sprintf("push %s was appended to %v although the chosen worker %s has stopped", leg, got, wantW)}
				}
			}
		}
	case "WakeG":
		key := keyOf(s.Args[0])
		wk := w.Workers[key]
		select {
		case <-wk.Arrived:
			r.atGate[key] = true
		case <-time.After(waitT):
			return &fail{"conformance", "wake", fmt.Sprintf("worker %s did not start a flush iteration although its insert context is done", key)}
		}
	case "ExitG":
		key := keyOf(s.Args[0])
		wk := w.Workers[key]
		t0 := time.Now()
		for wk.Running() {
			if time.Since(t0) > waitT {
				return &fail{"conformance", "exit", fmt.Sprintf("worker %s is still running %v after Stop()", key, waitT)}
			}
			time.Sleep(100 * time.Microsecond)
		}
	case "SwapG":
		key := keyOf(s.Args[0])
		wk := w.Workers[key]
		if !r.atGate[key] {
			return &fail{"infra", "", "SwapG but worker not at gate " + key}
		}
		r.atGate[key] = false
		wk.Release <- struct{}{}
		e, ok := wk.WaitEvent(waitT)
		if !ok || e.Ev != service.VerifEvSwap {
			return &fail{"conformance", "swap", fmt.Sprintf("expected Swap event on %s, got %v", key, e.Ev)}
		}
		if len(e.Promises) != len(post.Portion[key]) {
			return &fail{"conformance", "swap", fmt.Sprintf("swap on %s took %d promises, the model says %d", key, len(e.Promises), len(post.Portion[key]))}
		}
		if len(post.Portion[key]) > 0 {
			select {
			case b := <-wk.DoArr:
				r.blocks[key] = b
				var want []string
				for _, l := range post.Portion[key] {
					want = append(want, keyOf(l[0]))
				}
				got := blockReqs(b)
				sort.Strings(want)
				sort.Strings(got)
				if strings.Join(want, ",") != strings.Join(got, ",") {
					return &fail{"conformance", "block", fmt.Sprintf("INSERT of %s carries rows of pushes %v, the promises swapped out with it stand for %v", key, got, want)}
				}
				if b.ConnID == 0 || w.CH[wk.Node].Snapshot() == nil && false {
					return &fail{"infra", "", "block without connection"}
				}
				r.mu.Lock()
				r.out.Blocks++
				if old, ok := r.out.Bodies[wk.Mode]; ok && old != b.Body {
					r.out.Bodies[wk.Mode+"(other)"] = b.Body
				} else {
					r.out.Bodies[wk.Mode] = b.Body
				}
				r.mu.Unlock()
				if wk.Mode == "async" {
					// what an acknowledgement means in async mode: nothing is acknowledged before Do returns
					for _, l := range post.Portion[key] {
						if wt := r.waiters[keyOf(l)]; wt != nil && wt.State() == "pending" {
							r.mu.Lock()
							r.out.AsyncAckWait++
							r.mu.Unlock()
						}
					}
				}
			case <-time.After(waitT):
				return &fail{"conformance", "do", "worker did not call Do after a non-empty swap: " + key}
			}
		}
	case "DoReturnG":
		key := keyOf(s.Args[0])
		ok := s.Args[1].(bool)
		wk := w.Workers[key]
		var scripted error
		if !ok && !(pre.Cancelled[key] && r.rnd.Intn(2) == 0) {
			scripted = fmt.Errorf("code: 241, message: memory limit exceeded (scripted INSERT failure)")
		}
		wk.DoRel <- scripted
		e, got := wk.WaitEvent(waitT)
		if !got || e.Ev != service.VerifEvRelease {
			return &fail{"conformance", "release", fmt.Sprintf("expected Release event on %s, got %v", key, e.Ev)}
		}
		if (e.Err == nil) != ok {
			return &fail{"conformance", "release-outcome", fmt.Sprintf("INSERT on %s: model outcome ok=%v (context cancelled: %v) but the promises were released with err=%v", key, ok, pre.Cancelled[key], e.Err)}
		}
		if len(e.Promises) != len(pre.Portion[key]) {
			return &fail{"conformance", "release", fmt.Sprintf("INSERT on %s carried %d promises, %d were released", key, len(pre.Portion[key]), len(e.Promises))}
		}
		t0 := time.Now()
		for wk.State() != "IDLE" {
			if time.Since(t0) > waitT {
				return &fail{"conformance", "set-idle", "worker state did not return to IDLE after the INSERT: " + key}
			}
			time.Sleep(50 * time.Microsecond)
		}
	default:
		return &fail{"infra", "", "unknown action " + s.Action}
	}
	return r.compare(post, false)
}

// safeRequest calls svc.Request and reports a panic (e.g. an index out of range in the selection) instead of dying.
func safeRequest(svc service.IInsertServiceV2, req helpers.SizeGetter, mode int) (p *promise.Promise[uint32], pan string) {
	defer func() {
		if r := recover(); r != nil {
			pan = fmt.Sprint(r)
		}
	}()
	return svc.Request(req, mode), ""
}

func poolStates(st *RState, poolKey string, n int) []string {
	var out []string
	for i := 1; i <= n; i++ {
		out = append(out, st.Wst[fmt.Sprintf("%s/%d", poolKey, i)])
	}
	return out
}

// compare checks everything observable of the real objects against the model state.
func (r *rrun) compare(st *RState, final bool) *fail {
	w := r.w
	// a cancelled worker in the select leaves on its own: until the model has taken its Exit step, the real
	// worker may or may not have left yet
	exitPending := func(key string) bool { return st.Loop[key] == "select" && st.Cancelled[key] }
	svcExitPending := map[string]bool{}
	for key, wk := range w.Workers {
		if exitPending(key) {
			svcExitPending[wk.Node+"/"+wk.Kind] = true
		}
	}
	for svk, sv := range w.Svcs {
		if (sv.MM.SyncService != nil) != st.Inited[svk] {
			return &fail{"conformance", "inited", fmt.Sprintf("service %s initialised=%v, the model says %v", svk, sv.MM.SyncService != nil, st.Inited[svk])}
		}
		if !st.Inited[svk] {
			continue
		}
		if got := privBool(sv.MM, "running"); got != st.MMRunning[svk] {
			return &fail{"conformance", "mm-running", fmt.Sprintf("Multimodal %s running=%v, the model says %v", svk, got, st.MMRunning[svk])}
		}
		for _, m := range []string{"sync", "async"} {
			if got := privBool(pool(sv.MM, m), "running"); got != st.RRRunning[svk+"/"+m] {
				return &fail{"conformance", "rr-running", fmt.Sprintf("RoundRobin %s/%s running=%v, the model says %v", svk, m, got, st.RRRunning[svk+"/"+m])}
			}
		}
		for _, m := range []string{"default", "sync", "async"} {
			if got := stateName(sv.I.GetState(modeNum(m))); got != st.Gs[svk][m] {
				return &fail{"conformance", "getstate|" + m, fmt.Sprintf("GetState(%s) of %s (async node: %v) = %s, the model says %s (sync pool %v, async pool %v)", m, svk, w.Async[sv.Node], got, st.Gs[svk][m],
					poolStates(st, svk+"/sync", w.W), poolStates(st, svk+"/async", w.W))}
			}
		}
		// one Run goroutine set per service: Run() has not returned unless every worker exited
		allExited := true
		for key, wk := range w.Workers {
			if wk.Node+"/"+wk.Kind == svk && st.Loop[key] != "exited" {
				allExited = false
			}
		}
		if st.MMRunning[svk] && !svcExitPending[svk] {
			returned := false
			select {
			case <-sv.runRet:
				returned = true
			default:
			}
			if allExited && !returned {
				select {
				case <-sv.runRet:
					returned = true
				case <-time.After(waitT):
				}
				if !returned {
					return &fail{"conformance", "run-return", fmt.Sprintf("every worker of %s has stopped but Run() did not return", svk)}
				}
			}
			if !allExited && returned {
				return &fail{"conformance", "run-return", fmt.Sprintf("Run() of %s returned although workers are still running in the model", svk)}
			}
		}
	}
	for key, wk := range w.Workers {
		if got := wk.Running(); got != st.Wrun[key] && !exitPending(key) {
			return &fail{"conformance", "worker-running", fmt.Sprintf("worker %s running=%v, the model says %v (loop %s)", key, got, st.Wrun[key], st.Loop[key])}
		}
		if got := wk.NResults(); got != len(st.Results[key]) && !exitPending(key) {
			return &fail{"conformance", "worker-queue", fmt.Sprintf("worker %s has %d promises in its open batch, the model says %d", key, got, len(st.Results[key]))}
		}
		if got := wk.State(); got != st.Wst[key] {
			return &fail{"conformance", "worker-state", fmt.Sprintf("worker %s state %s, the model says %s", key, got, st.Wst[key])}
		}
		// a worker whose model loop is in the select with no flush due must not start an iteration
		if st.Loop[key] == "select" && !st.Flush[key] && !r.atGate[key] {
			select {
			case <-wk.Arrived:
				return &fail{"conformance", "spurious-iteration", fmt.Sprintf("worker %s started a flush iteration although no flush is due", key)}
			default:
			}
		}
	}
	for leg, pc := range st.Lpc {
		wt := r.waiters[leg]
		if wt == nil {
			continue
		}
		switch pc {
		case "ok", "err", "stopped":
			if got := promWait(wt, waitT); got != pc {
				return &fail{"conformance", "promise|" + pc + "|" + got, fmt.Sprintf("promise of %s is %q, the model says %q", leg, got, pc)}
			}
		case "pending":
			if final {
				time.Sleep(0)
			}
			wkey := fmt.Sprintf("%s/%s/%s/%d", st.Lnode[leg], strings.Split(leg, "/")[1], st.Lmode[leg], st.Lw[leg])
			if got := promState(wt); got != "pending" && !(exitPending(wkey) && got == "stopped") {
				return &fail{"conformance", "promise|pending|" + got, fmt.Sprintf("promise of %s completed (%s) while the model holds it pending (worker %s/%s/%s/%d, loop %s)", leg, got,
					st.Lnode[leg], strings.Split(leg, "/")[1], st.Lmode[leg], st.Lw[leg], st.Loop[fmt.Sprintf("%s/%s/%s/%d", st.Lnode[leg], strings.Split(leg, "/")[1], st.Lmode[leg], st.Lw[leg])])}
			}
		}
	}
	return nil
}

func (r *rrun) replay(beh []RStep) *RViolation {
	r.setup()
	defer r.w.Close()
	for i := 1; i < len(beh); i++ {
		f := r.step(&beh[i-1].State, &beh[i])
		if f != nil {
			if f.kind == "infra" {
				r.mu.Lock()
				r.out.Infra = append(r.out.Infra, f.msg)
				r.mu.Unlock()
				return nil
			}
			return &RViolation{Behaviour: r.bi, Step: i, Action: beh[i].Action, Kind: f.kind, Sig: f.sig, Msg: f.msg}
		}
		r.mu.Lock()
		r.out.Steps++
		r.out.Actions[beh[i].Action]++
		r.mu.Unlock()
	}
	// settle: what the model holds pending must still be pending after a grace period; a promise that is
	// pending in a worker whose Run goroutine has returned is an orphan (nobody will ever complete it)
	time.Sleep(30 * time.Millisecond)
	last := &beh[len(beh)-1].State
	if f := r.compare(last, true); f != nil {
		return &RViolation{Behaviour: r.bi, Step: len(beh) - 1, Action: "final", Kind: f.kind, Sig: f.sig, Msg: f.msg}
	}
	for leg, pc := range last.Lpc {
		if pc != "pending" || r.waiters[leg] == nil {
			continue
		}
		key := fmt.Sprintf("%s/%s/%s/%d", last.Lnode[leg], strings.Split(leg, "/")[1], last.Lmode[leg], last.Lw[leg])
		if last.Loop[key] == "exited" && !r.w.Workers[key].Running() && promState(r.waiters[leg]) == "pending" {
			r.mu.Lock()
			r.out.Orphans++
			r.mu.Unlock()
		}
	}
	r.mu.Lock()
	r.out.Completed = append(r.out.Completed, r.bi)
	r.mu.Unlock()
	return nil
}

func (wk *Worker) WaitEvent(d time.Duration) (service.VerifEvent, bool) {
	select {
	case e := <-wk.Events:
		return e, true
	case <-time.After(d):
		return service.VerifEvent{}, false
	}
}

func cmdReplay(inPath, outPath string, seed int64, par int) int {
	raw, err := os.ReadFile(inPath)
	if err != nil {
		fmt.Fprintln(os.Stderr, err)
		return 2
	}
	var in RInput
	if err := json.Unmarshal(raw, &in); err != nil {
		fmt.Fprintln(os.Stderr, "bad input:", err)
		return 2
	}
	out := &ROutput{Actions: map[string]int{}, Branches: map[string]int{}, Bodies: map[string]string{}}
	var mu sync.Mutex
	sem := make(chan struct{}, par)
	var wg sync.WaitGroup
	for bi, beh := range in.Behaviours {
		wg.Add(1)
		sem <- struct{}{}
		go func(bi int, beh []RStep) {
			defer wg.Done()
			defer func() { <-sem }()
			r := &rrun{in: &in, bi: bi, rnd: rand.New(rand.NewSource(seed*1000003 + int64(bi))), out: out, mu: &mu}
			v := r.replay(beh)
			mu.Lock()
			out.Behaviours++
			if v != nil {
				out.Violations = append(out.Violations, *v)
			}
			mu.Unlock()
		}(bi, beh)
	}
	wg.Wait()
	sort.Ints(out.Completed)
	b, _ := json.MarshalIndent(out, "", " ")
	if outPath != "" {
		os.WriteFile(outPath, b, 0644)
	} else {
		fmt.Println(string(b))
	}
	if len(out.Infra) > 0 {
		return 2
	}
	if len(out.Violations) > 0 {
		return 1
	}
	return 0
}

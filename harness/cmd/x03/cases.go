package main

// cases: the data-shaped rules of WriterLifecycle (registry lookup by X-CH-DSN, mode -> pool, watchdog.Check
// verdict) are exported by TLC as cases (MC_WriterLifecycleCases) under two quirk sets: "q" (what the code is
// believed to do) and "i" (what the properties demand).  Every case is run on the REAL code:
//   - service layer, in process:  registry.Get*Service(dsn) + IInsertServiceV2.Request(req, mode)
//   - HTTP layer, child process:  POST /loki/api/v1/push through the production wiring
//     (QrynWriterPlugin.CreateStaticServiceRegistry + RegisterRoutes) with X-CH-DSN / X-Async-Insert
//   - watchdog.Check, child process (watchdog.Init starts the goroutine that calls os.Exit)
// and the observed outcome is reported; tools/props/x03.py classifies it against both expectations.

import (
	"bufio"
	"bytes"
	"encoding/json"
	"fmt"
	"io"
	"math/rand"
	"net/http/httptest"
	"os"
	"os/exec"
	"sort"
	"strings"
	"sync"
	"time"

	"github.com/gorilla/mux"
	clconfig "github.com/metrico/cloki-config"
	"github.com/metrico/cloki-config/config"
	"github.com/metrico/qryn/writer/ch_wrapper"
	wconfig "github.com/metrico/qryn/writer/config"
	controllerv1 "github.com/metrico/qryn/writer/controller"
	"github.com/metrico/qryn/writer/model"
	"github.com/metrico/qryn/writer/plugin"
	"github.com/metrico/qryn/writer/service"
	"github.com/metrico/qryn/writer/service/impl"
	"github.com/metrico/qryn/writer/watchdog"
	"verif/harness/fakech"
	"verif/harness/wworld"
)

type Outcome struct {
	St   string            `json:"st"`
	Node map[string]string `json:"node"`
	Pool map[string]string `json:"pool"`
}

type RouteCase struct {
	ID int               `json:"id"`
	D  string            `json:"d"`
	H  string            `json:"h"`
	Nd map[string]string `json:"nd"`
	// Alt scripts the draws of every lookup AFTER the first one of a push (the middleware must not draw again: it
	// names the node the first lookup resolved to); chosen different from Nd so that a second draw shows
	Alt map[string]string `json:"alt"`
}

// the order in which withTSAndSampleService looks the services of a push up
func lookupOrder(kinds []string) []string {
	out := []string{}
	for _, first := range []string{"spl"} {
		for _, k := range kinds {
			if k == first {
				out = append(out, k)
			}
		}
	}
	for _, k := range kinds {
		if k != "spl" {
			out = append(out, k)
		}
	}
	return out
}

type WdCase struct {
	ID    int        `json:"id"`
	Stale [][]string `json:"stale"`
}

type ClampCase struct {
	P int `json:"p"`
}

type ClampObs struct {
	P       int    `json:"p"`
	Workers []int  `json:"workers"` // per pool (sync, async) of a service built by the constructor
	Landed  bool   `json:"landed"`
	Note    string `json:"note,omitempty"`
}

type CasesIn struct {
	Clamp      []ClampCase `json:"clamp"`
	Nodes      []string    `json:"Nodes"`
	AsyncNodes []string    `json:"AsyncNodes"`
	Kinds      []string    `json:"Kinds"`
	WdKinds    []string    `json:"WdKinds"`
	Route      []RouteCase `json:"route"`
	Wd         []WdCase    `json:"wd"`
}

type RouteObs struct {
	ID    int     `json:"id"`
	Layer string  `json:"layer"`
	Obs   Outcome `json:"obs"`
	Note  string  `json:"note,omitempty"`
	// what every queued part of the push was appended to: worker keys
	Landed []string `json:"landed"`
	Code   int      `json:"code,omitempty"`
}

type WdObs struct {
	ID       int      `json:"id"`
	Verdicts []bool   `json:"verdicts"` // distinct verdicts of repeated Check() calls (Go map order varies)
	Calls    int      `json:"calls"`
	Errors   []string `json:"errors"`
	Picked   string   `json:"stale_workers"`
}

type CasesOut struct {
	Clamp  []ClampObs `json:"clamp"`
	ZeroW  string     `json:"zero_workers_direct"` // InsertServiceV2Multimodal{SvcNum: 0} built without the constructor
	Route  []RouteObs `json:"route"`
	Wd     []WdObs    `json:"wd"`
	Infra  []string   `json:"infra"`
	Panics []string   `json:"panics"` // a child process died of a Go panic in the code under test
}

func asyncMap(l []string) map[string]bool {
	m := map[string]bool{}
	for _, n := range l {
		m[n] = true
	}
	return m
}

// ---- service layer, in process
func svcCase(in *CasesIn, c RouteCase, rnd *rand.Rand) RouteObs {
	w := NewWorld(in.Nodes, asyncMap(in.AsyncNodes), in.Kinds, 1+rnd.Intn(2), time.Hour, true, 30)
	defer w.Close()
	for _, s := range w.Svcs {
		w.Init(s)
	}
	obs := RouteObs{ID: c.ID, Layer: "svc", Obs: Outcome{St: "routed", Node: map[string]string{}, Pool: map[string]string{}}}
	// like the middleware: the first service is looked up with the DSN, the others with the name of its node
	dsn := c.D
	for i, k := range lookupOrder(in.Kinds) {
		if i == 0 {
			w.regSrc.setIntn(w.regIndex(k, c.Nd[k]))
		} else {
			w.regSrc.setIntn(w.regIndex(k, c.Alt[k]))
		}
		svc, err := w.lookup(k, dsn)
		if i == 0 && err == nil && svc != nil {
			dsn = svc.GetNodeName()
		}
		if err != nil || svc == nil {
			obs.Obs.St = "rejected"
			obs.Obs.Node[k], obs.Obs.Pool[k] = "none", "none"
			continue
		}
		obs.Obs.Node[k] = svc.GetNodeName()
		sv := w.Svcs[svc.GetNodeName()+"/"+k]
		if sv == nil || sv.I != svc {
			obs.Note = "registry returned a foreign service object"
			continue
		}
		u := rnd.Intn(4)
		sv.src["sync"].setFloat(u, 4, true)
		sv.src["async"].setFloat(u, 4, true)
		if _, pan := safeRequest(svc, mkReq(fmt.Sprintf("c%d", c.ID), k, 1), modeNum(c.H)); pan != "" {
			obs.Note = "Request panicked: " + pan
		}
		for key, wk := range w.Workers {
			select {
			case e := <-wk.Events:
				if e.Ev == service.VerifEvAppend {
					obs.Landed = append(obs.Landed, key)
					if wk.Kind == k {
						obs.Obs.Pool[k] = wk.Mode
						if wk.Node != obs.Obs.Node[k] {
							obs.Note = "appended to a worker of node " + wk.Node
							obs.Obs.Node[k] = wk.Node
						}
					}
				}
			default:
			}
		}
	}
	if obs.Obs.St == "rejected" {
		for _, k := range in.Kinds {
			obs.Obs.Node[k], obs.Obs.Pool[k] = "none", "none"
		}
	}
	sort.Strings(obs.Landed)
	return obs
}

// clampCase: the constructor with ParallelNum = p; how many workers does a pool get, and does a push land
func clampCase(c ClampCase) ClampObs {
	w := NewWorld([]string{"n1"}, map[string]bool{}, []string{"spl"}, c.P, time.Hour, true, 30)
	defer w.Close()
	s := w.Svcs["n1/spl"]
	obs := ClampObs{P: c.P}
	func() {
		defer func() {
			if r := recover(); r != nil {
				obs.Note = fmt.Sprint("panic: ", r)
			}
		}()
		w.Init(s)
		obs.Workers = []int{len(poolWorkers(s.MM.SyncService)), len(poolWorkers(s.MM.AsyncService))}
		for _, m := range []string{"sync", "async"} {
			s.src[m].setFloat(3, 4, true)
		}
		p := s.I.Request(mkReq("z", "spl", 1), service.INSERT_MODE_SYNC)
		for _, wk := range w.Workers {
			select {
			case e := <-wk.Events:
				obs.Landed = obs.Landed || (e.Ev == service.VerifEvAppend && e.Promise == p)
			default:
			}
		}
	}()
	return obs
}

// zeroWorkersDirect: the exported struct built WITHOUT the constructor with SvcNum = 0 (outside the envelope of the
// spec: reported as an observation, never as a verdict)
func zeroWorkersDirect() (res string) {
	defer func() {
		if r := recover(); r != nil {
			res = fmt.Sprint("panic: ", r)
		}
	}()
	wworld.InitPools()
	base := impl.NewSamplesInsertService(model.InsertServiceOpts{Session: fakech.NewWorld().Factory(), Node: node("n1", false, 30), Interval: time.Hour,
		ParallelNum: 1}).(*service.InsertServiceV2Multimodal)
	mm := &service.InsertServiceV2Multimodal{V3Session: base.V3Session, DatabaseNode: base.DatabaseNode, PushInterval: time.Hour, InsertRequest: base.InsertRequest,
		AcquireColumns: base.AcquireColumns, ProcessRequest: base.ProcessRequest, SvcNum: 0, ServiceType: "samples"}
	mm.Init()
	st := mm.GetState(service.INSERT_MODE_SYNC)
	mm.Request(mkReq("z", "spl", 1), service.INSERT_MODE_SYNC)
	return fmt.Sprintf("no panic (GetState = %s)", stateName(st))
}

// ---- child plumbing: one JSON document on stdin, one marked JSON line on stdout
const marker = "@@X03@@"

func runChild(cmd string, input any, timeout time.Duration, env ...string) ([]byte, int, string, error) {
	c := exec.Command(os.Args[0], cmd)
	c.Env = append(os.Environ(), env...)
	raw, _ := json.Marshal(input)
	c.Stdin = bytes.NewReader(raw)
	var so, se bytes.Buffer
	c.Stdout = &so
	c.Stderr = &se
	if err := c.Start(); err != nil {
		return nil, -1, "", err
	}
	done := make(chan error, 1)
	go func() { done <- c.Wait() }()
	select {
	case <-done:
	case <-time.After(timeout):
		c.Process.Kill()
		<-done
		return nil, -1, se.String(), fmt.Errorf("child %s timed out after %v", cmd, timeout)
	}
	code := c.ProcessState.ExitCode()
	var line []byte
	sc := bufio.NewScanner(bytes.NewReader(so.Bytes()))
	sc.Buffer(make([]byte, 1<<20), 64<<20)
	for sc.Scan() {
		if strings.HasPrefix(sc.Text(), marker) {
			line = []byte(strings.TrimPrefix(sc.Text(), marker))
		}
	}
	return line, code, so.String() + se.String(), nil
}

func childOut(v any) {
	b, _ := json.Marshal(v)
	fmt.Fprintf(os.Stdout, "\n%s%s\n", marker, b)
}

// ---- HTTP layer: production wiring in a child process
type httpWorld struct {
	router *mux.Router
	regSrc *seqSrc
	mu     sync.Mutex
	landed map[string][]string // push id -> worker keys
	pools  map[*service.InsertServiceV2][4]string
}

// seqSrc scripts a SEQUENCE of rand.Intn results (one per registry lookup of a push)
type seqSrc struct {
	mu  sync.Mutex
	seq []int64
}

func (s *seqSrc) Int63() int64 {
	s.mu.Lock()
	defer s.mu.Unlock()
	if len(s.seq) == 0 {
		return 0
	}
	v := s.seq[0]
	s.seq = s.seq[1:]
	return v
}
func (s *seqSrc) Seed(int64) {}

func newHTTPWorld(in *CasesIn, parallel int) (*httpWorld, error) {
	wworld.InitPools()
	hw := &httpWorld{landed: map[string][]string{}, pools: map[*service.InsertServiceV2][4]string{}}
	cfg := config.ClokiBaseSettingServer{}
	cfg.SYSTEM_SETTINGS.DBTimer = 0.002
	cfg.SYSTEM_SETTINGS.ChannelsSample = parallel
	cfg.SYSTEM_SETTINGS.ChannelsTimeSeries = parallel
	cfg.SYSTEM_SETTINGS.RetryAttempts = 1
	cfg.SYSTEM_SETTINGS.RetryTimeoutS = 0
	cfg.HTTP_SETTINGS.InputBufferMB = 200
	cfg.FingerPrintType = 1
	cfg.SYSTEM_SETTINGS.MetricsMaxSamples = 5000000
	cc := &clconfig.ClokiConfig{Setting: &cfg}
	wconfig.Cloki = cc
	async := asyncMap(in.AsyncNodes)
	p := &plugin.QrynWriterPlugin{}
	for _, n := range in.Nodes {
		nd := node(n, async[n], 600)
		p.ServicesObject.DatabaseNodeMap = append(p.ServicesObject.DatabaseNodeMap, *nd)
		p.ServicesObject.Dbv3Map = append(p.ServicesObject.Dbv3Map, ch_wrapper.IChClientFactory(fakech.NewWorld().Factory()))
	}
	plugin.TsSvcs = make(service.InsertSvcMap)
	plugin.SplSvcs = make(service.InsertSvcMap)
	plugin.MtrSvcs = make(service.InsertSvcMap)
	plugin.TempoSamplesSvcs = make(service.InsertSvcMap)
	plugin.TempoTagsSvcs = make(service.InsertSvcMap)
	plugin.ProfileInsertSvcs = make(service.InsertSvcMap)
	plugin.MainNode = ""
	p.CreateStaticServiceRegistry(cfg, &impl.DevInsertServiceFactory{})
	controllerv1.Registry = plugin.ServiceRegistry
	controllerv1.FPCache = plugin.GoCache
	hw.router = mux.NewRouter()
	p.RegisterRoutes(cfg, controllerv1.NewMiddlewareConfig(controllerv1.WithExtraMiddlewareDefault...),
		controllerv1.NewMiddlewareConfig(controllerv1.WithExtraMiddlewareTempo...), hw.router)
	hw.regSrc = &seqSrc{}
	setRand(plugin.ServiceRegistry, hw.regSrc)
	for kind, m := range map[string]service.InsertSvcMap{"ts": plugin.TsSvcs, "spl": plugin.SplSvcs} {
		for n, s := range m {
			mm, ok := s.(*service.InsertServiceV2Multimodal)
			if !ok {
				return nil, fmt.Errorf("service %s/%s is a %T", n, kind, s)
			}
			for _, mode := range []string{"sync", "async"} {
				for i, ptr := range poolWorkers(pool(mm, mode)) {
					hw.pools[ptr] = [4]string{n, kind, mode, fmt.Sprint(i + 1)}
				}
			}
		}
	}
	service.VerifTrace = func(e service.VerifEvent) {
		if e.Ev != service.VerifEvAppend || e.N == 0 {
			return
		}
		pk, ok := hw.pools[e.Svc]
		if !ok {
			return
		}
		id := ""
		switch d := e.Req.(type) {
		case *model.TimeSamplesData:
			if len(d.MMessage) > 0 {
				id = d.MMessage[0]
			}
		case *model.TimeSeriesData:
			if len(d.MLabels) > 0 {
				id = d.MLabels[0]
			}
		}
		if i := strings.Index(id, "push="); i >= 0 {
			id = id[i+5:]
			if j := strings.IndexAny(id, ";\""); j >= 0 {
				id = id[:j]
			}
		}
		hw.mu.Lock()
		hw.landed[id] = append(hw.landed[id], strings.Join(pk[:], "/"))
		hw.mu.Unlock()
	}
	return hw, nil
}

func regOrder(kindField string) []string {
	f := privField(plugin.ServiceRegistry, kindField)
	var out []string
	for i := 0; i < f.Len(); i++ {
		out = append(out, f.Index(i).Interface().(service.IInsertServiceV2).GetNodeName())
	}
	return out
}

func idxOf(l []string, s string) int64 {
	for i, x := range l {
		if x == s {
			return int64(i)
		}
	}
	return 0
}

func childHTTP() int {
	var in CasesIn
	raw, _ := io.ReadAll(os.Stdin)
	if err := json.Unmarshal(raw, &in); err != nil {
		fmt.Fprintln(os.Stderr, "bad input", err)
		return 2
	}
	hw, err := newHTTPWorld(&in, 2)
	if err != nil {
		fmt.Fprintln(os.Stderr, err)
		return 2
	}
	out := CasesOut{}
	for _, c := range in.Route {
		id := fmt.Sprintf("h%d", c.ID)
		// the middleware looks up samples, series, profiles - in this order; only the first lookup of a push without
		// a usable DSN may draw (c.Nd); draws of the later lookups, if the code makes any, give c.Alt
		hw.regSrc.mu.Lock()
		hw.regSrc.seq = []int64{idxOf(regOrder("SamplesSvcs"), c.Nd["spl"]) << 32, idxOf(regOrder("TimeSeriesSvcs"), c.Alt["ts"]) << 32,
			idxOf(regOrder("ProfileInsertSvc"), c.Alt["ts"]) << 32}
		hw.regSrc.mu.Unlock()
		body := fmt.Sprintf(`{"streams":[{"stream":{"case":"push=%s;"},"values":[["1700000000000000000","push=%s; line"]]}]}`, id, id)
		req := httptest.NewRequest("POST", "/loki/api/v1/push", strings.NewReader(body))
		req.Header.Set("Content-Type", "application/json")
		if c.D != "" {
			req.Header.Set("X-CH-DSN", c.D)
		}
		if c.H != "" {
			req.Header.Set("X-Async-Insert", c.H)
		}
		rw := httptest.NewRecorder()
		done := make(chan struct{})
		go func() {
			defer func() {
				if r := recover(); r != nil {
					rw.Code = 599
				}
				close(done)
			}()
			hw.router.ServeHTTP(rw, req)
		}()
		obs := RouteObs{ID: c.ID, Layer: "http", Obs: Outcome{St: "routed", Node: map[string]string{}, Pool: map[string]string{}}}
		select {
		case <-done:
		case <-time.After(10 * time.Second):
			out.Infra = append(out.Infra, fmt.Sprintf("push of case %d got no answer", c.ID))
			childOut(out)
			return 0
		}
		obs.Code = rw.Code
		hw.mu.Lock()
		obs.Landed = append([]string{}, hw.landed[id]...)
		hw.mu.Unlock()
		sort.Strings(obs.Landed)
		if rw.Code >= 400 && len(obs.Landed) == 0 {
			obs.Obs.St = "rejected"
			for _, k := range in.Kinds {
				obs.Obs.Node[k], obs.Obs.Pool[k] = "none", "none"
			}
		} else {
			for _, l := range obs.Landed {
				p := strings.Split(l, "/")
				if old, ok := obs.Obs.Node[p[1]]; ok && (old != p[0] || obs.Obs.Pool[p[1]] != p[2]) {
					obs.Note = "one kind of the push landed in two places"
				}
				obs.Obs.Node[p[1]], obs.Obs.Pool[p[1]] = p[0], p[2]
			}
			for _, k := range in.Kinds {
				if _, ok := obs.Obs.Node[k]; !ok {
					obs.Note = "no " + k + " rows were queued (HTTP " + fmt.Sprint(rw.Code) + ")"
					obs.Obs.Node[k], obs.Obs.Pool[k] = "none", "none"
				}
			}
		}
		out.Route = append(out.Route, obs)
	}
	childOut(out)
	return 0
}

// ---- watchdog.Check cases, child process (lives well below the 5 s of the watchdog ticker)
func childWdCheck() int {
	var in CasesIn
	raw, _ := io.ReadAll(os.Stdin)
	if err := json.Unmarshal(raw, &in); err != nil {
		return 2
	}
	seed := int64(1)
	fmt.Sscan(os.Getenv("X03_SEED"), &seed)
	rnd := rand.New(rand.NewSource(seed))
	wts := map[string]uint32{}
	for i, n := range in.Nodes {
		wts[n] = uint32(1 + 2*i)
	}
	wworld.InitPools()
	maps := map[string]service.InsertSvcMap{}
	var ordered []service.InsertSvcMap
	type wrec struct {
		key string
		ptr *service.InsertServiceV2
		thr time.Duration
	}
	workers := map[string][]wrec{} // node/kind -> workers
	for _, k := range in.WdKinds {
		maps[k] = service.InsertSvcMap{}
		for _, n := range in.Nodes {
			opts := model.InsertServiceOpts{Session: fakech.NewWorld().Factory(), Node: node(n, false, wts[n]), Interval: time.Hour, ParallelNum: 2}
			var s service.IInsertServiceV2
			if k == "ts" {
				s = impl.NewTimeSeriesInsertService(opts)
			} else {
				s = impl.NewSamplesInsertService(opts)
			}
			s.Init() // not Run: lastRequest of every worker stays under the control of the case
			maps[k][n] = s
			mm := s.(*service.InsertServiceV2Multimodal)
			for _, mode := range []string{"sync", "async"} {
				for i, ptr := range poolWorkers(pool(mm, mode)) {
					workers[n+"/"+k] = append(workers[n+"/"+k], wrec{fmt.Sprintf("%s/%s/%s/%d", n, k, mode, i+1), ptr,
						time.Duration(2*wts[n]+5) * time.Second})
				}
			}
		}
		ordered = append(ordered, maps[k])
	}
	t0 := time.Now()
	watchdog.Init(ordered)
	out := CasesOut{}
	setLast := func(ptr *service.InsertServiceV2, t time.Time) {
		f := privField(ptr, "lastRequest")
		*(*time.Time)(unsafePtr(f)) = t
	}
	for _, c := range in.Wd {
		if time.Since(t0) > 3500*time.Millisecond {
			out.Infra = append(out.Infra, "watchdog check cases took too long")
			break
		}
		stale := map[string]bool{}
		for _, sv := range c.Stale {
			stale[sv[0]+"/"+sv[1]] = true
		}
		now := time.Now()
		var picked []string
		for svk, ws := range workers {
			// fresh workers: just refreshed, or just inside the window
			for _, w := range ws {
				age := time.Duration(0)
				if rnd.Intn(2) == 0 {
					age = w.thr - 1500*time.Millisecond
				}
				setLast(w.ptr, now.Add(-age))
			}
			if stale[svk] {
				// a service is stale when at least one of its workers is
				n := 1 + rnd.Intn(len(ws))
				for _, i := range rnd.Perm(len(ws))[:n] {
					age := ws[i].thr + 50*time.Millisecond
					if rnd.Intn(2) == 0 {
						age = ws[i].thr + 100*time.Second
					}
					setLast(ws[i].ptr, now.Add(-age))
					picked = append(picked, ws[i].key)
				}
			}
		}
		obs := WdObs{ID: c.ID}
		seen := map[bool]bool{}
		errs := map[string]bool{}
		for i := 0; i < 60; i++ {
			err := watchdog.Check()
			seen[err != nil] = true
			if err != nil {
				errs[err.Error()] = true
			}
			obs.Calls++
		}
		for v := range seen {
			obs.Verdicts = append(obs.Verdicts, v)
		}
		sort.Slice(obs.Verdicts, func(i, j int) bool { return !obs.Verdicts[i] && obs.Verdicts[j] })
		for e := range errs {
			obs.Errors = append(obs.Errors, e)
		}
		sort.Strings(picked)
		obs.Picked = strings.Join(picked, ",")
		out.Wd = append(out.Wd, obs)
	}
	// leave every worker fresh: the ticker must find nothing
	for _, ws := range workers {
		for _, w := range ws {
			setLast(w.ptr, time.Now())
		}
	}
	childOut(out)
	return 0
}

func cmdCases(inPath, outPath string, seed int64) int {
	raw, err := os.ReadFile(inPath)
	if err != nil {
		fmt.Fprintln(os.Stderr, err)
		return 2
	}
	var in CasesIn
	if err := json.Unmarshal(raw, &in); err != nil {
		fmt.Fprintln(os.Stderr, "bad input:", err)
		return 2
	}
	out := CasesOut{}
	rnd := rand.New(rand.NewSource(seed))
	for _, c := range in.Route {
		out.Route = append(out.Route, svcCase(&in, c, rnd))
	}
	for _, c := range in.Clamp {
		out.Clamp = append(out.Clamp, clampCase(c))
	}
	out.ZeroW = zeroWorkersDirect()
	var wg sync.WaitGroup
	var mu sync.Mutex
	wg.Add(2)
	go func() {
		defer wg.Done()
		line, code, logs, err := runChild("child-http", in, 60*time.Second)
		mu.Lock()
		defer mu.Unlock()
		var co CasesOut
		if err == nil && code == 2 && strings.Contains(logs, "panic:") && strings.Contains(logs, "github.com/metrico/qryn/") {
			out.Panics = append(out.Panics, "HTTP push through the production wiring: "+panicLine(logs))
			return
		}
		if err != nil || code != 0 || json.Unmarshal(line, &co) != nil {
			out.Infra = append(out.Infra, fmt.Sprintf("child-http failed (code %d, %v): %s", code, err, tail(logs, 1500)))
			return
		}
		out.Route = append(out.Route, co.Route...)
		out.Infra = append(out.Infra, co.Infra...)
	}()
	go func() {
		defer wg.Done()
		line, code, logs, err := runChild("child-wdcheck", in, 30*time.Second, fmt.Sprintf("X03_SEED=%d", seed))
		mu.Lock()
		defer mu.Unlock()
		var co CasesOut
		if err != nil || code != 0 || json.Unmarshal(line, &co) != nil {
			out.Infra = append(out.Infra, fmt.Sprintf("child-wdcheck failed (code %d, %v): %s", code, err, tail(logs, 1500)))
			return
		}
		out.Wd = co.Wd
		out.Infra = append(out.Infra, co.Infra...)
	}()
	wg.Wait()
	b, _ := json.MarshalIndent(out, "", " ")
	os.WriteFile(outPath, b, 0644)
	if len(out.Infra) > 0 {
		return 2
	}
	return 0
}

func panicLine(logs string) string {
	i := strings.Index(logs, "panic:")
	msg := logs[i:]
	if j := strings.Index(msg, "\n"); j > 0 {
		msg = msg[:j]
	}
	fn := ""
	for _, ln := range strings.Split(logs[i:], "\n") {
		if strings.HasPrefix(ln, "github.com/metrico/qryn/") {
			fn = ln
			for _, cut := range []string{"(0x", "({", "(...", "()"} {
				if k := strings.Index(fn, cut); k > 0 {
					fn = fn[:k]
				}
			}
			break
		}
	}
	return msg + " in " + fn
}

func tail(s string, n int) string {
	if len(s) > n {
		return s[len(s)-n:]
	}
	return s
}

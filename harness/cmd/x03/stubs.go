package main

func cmdWd(in, out string, seed int64, par int) int { return 2 }
func childWdLive() int                              { return 2 }

package main

// The service world of X03: REAL registry.staticServiceRegistry over REAL InsertServiceV2Multimodal services
// (impl.NewSamplesInsertService / NewTimeSeriesInsertService) over one fake ClickHouse client factory per node.
// The verif hooks of InsertServiceV2 (writer/service/verif_trace_on.go) are routed per worker pointer; the
// private random sources of the registry and of every round-robin pool are replaced by scripted sources so
// that "random choice" is the nondeterminism the TLA+ schedule resolves.

import (
	"fmt"
	"math/rand"
	"reflect"
	"runtime"
	"strconv"
	"strings"
	"sync"
	"sync/atomic"
	"time"
	"unsafe"

	"github.com/metrico/qryn/writer/model"
	"github.com/metrico/qryn/writer/service"
	"github.com/metrico/qryn/writer/service/impl"
	"github.com/metrico/qryn/writer/service/registry"
	"github.com/metrico/qryn/writer/utils/helpers"
	"verif/harness/fakech"
	"verif/harness/wworld"
)

const rowSize = 10

// scriptSrc is a math/rand Source whose next values are scripted.
type scriptSrc struct {
	v     int64
	calls int64
}

func (s *scriptSrc) Int63() int64    { atomic.AddInt64(&s.calls, 1); return atomic.LoadInt64(&s.v) }
func (s *scriptSrc) Seed(seed int64) {}

// setFloat scripts rand.Float64() = u/rg (rg a power of two). math/rand computes float64(Int63()) / (1<<63)
// (and draws again when that is 1).
func (s *scriptSrc) setFloat(u, rg int, top bool) {
	v := int64(u) * (int64(1) << 62 / int64(rg) * 2)
	if top && u == rg-1 {
		v = int64(^uint64(0)>>1) - 1023 // 2^63 - 1024: the largest value whose quotient is below 1
	}
	atomic.StoreInt64(&s.v, v)
}

// setIntn scripts rand.Intn(n) = i (i < n)
func (s *scriptSrc) setIntn(i int) { atomic.StoreInt64(&s.v, int64(i)<<32) }

// Worker is one InsertServiceV2 with its gates.
type Worker struct {
	Key     string // node/kind/mode/i
	Node    string
	Kind    string
	Mode    string
	I       int
	Ptr     *service.InsertServiceV2
	Gated   bool
	Arrived chan struct{}
	Release chan struct{}
	Events  chan service.VerifEvent
	DoArr   chan *fakech.Block
	DoRel   chan error
	Quit    chan struct{}
	world   *World
}

var workerByPtr sync.Map // *service.InsertServiceV2 -> *Worker
var workerByGoid sync.Map // goroutine id -> *Worker
var hookOnce sync.Once

func goid() int64 {
	var buf [64]byte
	n := runtime.Stack(buf[:], false)
	f := strings.Fields(string(buf[:n]))
	id, _ := strconv.ParseInt(f[1], 10, 64)
	return id
}

func installHook() {
	hookOnce.Do(func() {
		service.VerifTrace = func(e service.VerifEvent) {
			v, ok := workerByPtr.Load(e.Svc)
			if !ok {
				return
			}
			w := v.(*Worker)
			if e.Ev == service.VerifEvIterStart {
				workerByGoid.Store(goid(), w)
			}
			if w.world.Sink != nil {
				w.world.Sink(w, e)
				return
			}
			if e.Ev == service.VerifEvIterStart {
				if !w.Gated {
					return
				}
				select {
				case <-w.Quit:
					return
				default:
				}
				select {
				case w.Arrived <- struct{}{}:
				case <-w.Quit:
					return
				}
				select {
				case <-w.Release:
				case <-w.Quit:
				}
				return
			}
			select {
			case w.Events <- e:
			default:
				panic("x03: event channel overflow")
			}
		}
	})
}

// Svc is one InsertServiceV2Multimodal of a node.
type Svc struct {
	Node, Kind string
	MM         *service.InsertServiceV2Multimodal
	I          service.IInsertServiceV2
	CH         *fakech.World
	src        map[string]*scriptSrc // per pool mode
	registered bool
	runRet     chan struct{} // closed when Run() returned
	runCalls   int32
}

type World struct {
	Nodes   []string
	Async   map[string]bool
	Kinds   []string
	W       int
	Gated   bool
	Free    bool // keep the real math/rand sources (free-running traces)
	Sink    func(w *Worker, e service.VerifEvent)
	OnDo    func(w *Worker, b *fakech.Block) error // un-gated worlds
	Svcs    map[string]*Svc    // node/kind
	Workers map[string]*Worker // node/kind/mode/i
	Reg     registry.IServiceRegistry
	regSrc  *scriptSrc
	CH      map[string]*fakech.World
	quit    chan struct{}
	mu      sync.Mutex
}

func privField(obj any, name string) reflect.Value {
	v := reflect.ValueOf(obj)
	for v.Kind() == reflect.Ptr || v.Kind() == reflect.Interface {
		v = v.Elem()
	}
	f := v.FieldByName(name)
	if !f.IsValid() {
		panic("x03: no field " + name + " in " + v.Type().String())
	}
	return f
}

func setRand(obj any, src rand.Source) {
	f := privField(obj, "rand")
	p := (**rand.Rand)(unsafe.Pointer(f.UnsafeAddr()))
	*p = rand.New(src)
}

func node(name string, async bool, wt uint32) *model.DataDatabasesMap {
	n := wworld.Node(name)
	n.AsyncInsert = async
	n.WriteTimeout = wt
	return n
}

// NewWorld builds the services (not initialised) and the registry.
func NewWorld(nodes []string, async map[string]bool, kinds []string, parallel int, interval time.Duration, gated bool, wt uint32) *World {
	return newWorld(nodes, async, kinds, parallel, interval, gated, wt, false)
}

func newWorld(nodes []string, async map[string]bool, kinds []string, parallel int, interval time.Duration, gated bool, wt uint32, free bool) *World {
	wworld.InitPools()
	installHook()
	w := &World{Nodes: nodes, Async: async, Kinds: kinds, W: parallel, Gated: gated, Free: free, Svcs: map[string]*Svc{}, Workers: map[string]*Worker{},
		CH: map[string]*fakech.World{}, quit: make(chan struct{})}
	if w.W <= 0 {
		w.W = 1
	}
	maps := map[string]map[string]service.IInsertServiceV2{"ts": {}, "spl": {}}
	for _, n := range nodes {
		ch := fakech.NewWorld()
		w.CH[n] = ch
		ch.OnDo = func(b *fakech.Block) error {
			v, ok := workerByGoid.Load(goid())
			if !ok {
				return fmt.Errorf("x03: Do from an unknown goroutine")
			}
			wk := v.(*Worker)
			if !wk.Gated {
				if w.OnDo != nil {
					return w.OnDo(wk, b)
				}
				return nil
			}
			select {
			case wk.DoArr <- b:
			case <-wk.Quit:
				return fmt.Errorf("shutdown")
			}
			select {
			case e := <-wk.DoRel:
				return e
			case <-wk.Quit:
				return fmt.Errorf("shutdown")
			}
		}
		for _, k := range kinds {
			opts := model.InsertServiceOpts{Session: ch.Factory(), Node: node(n, async[n], wt), Interval: interval,
				ParallelNum: parallel, AsyncInsert: async[n]}
			var s service.IInsertServiceV2
			switch k {
			case "ts":
				s = impl.NewTimeSeriesInsertService(opts)
			case "spl":
				s = impl.NewSamplesInsertService(opts)
			default:
				panic("kind " + k)
			}
			mm := s.(*service.InsertServiceV2Multimodal)
			w.Svcs[n+"/"+k] = &Svc{Node: n, Kind: k, MM: mm, I: s, CH: ch, src: map[string]*scriptSrc{}, runRet: make(chan struct{})}
			maps[k][n] = s
		}
	}
	empty := map[string]service.IInsertServiceV2{}
	w.Reg = registry.NewStaticServiceRegistry(maps["ts"], maps["spl"], empty, empty, empty, empty)
	w.regSrc = &scriptSrc{}
	if !free {
		setRand(w.Reg, w.regSrc)
	}
	return w
}

// regIndex returns the index of node n in the registry's slice for kind k.
func (w *World) regIndex(k, n string) int {
	name := map[string]string{"ts": "TimeSeriesSvcs", "spl": "SamplesSvcs"}[k]
	f := privField(w.Reg, name)
	for i := 0; i < f.Len(); i++ {
		if f.Index(i).Interface().(service.IInsertServiceV2).GetNodeName() == n {
			return i
		}
	}
	return -1
}

func (w *World) lookup(k, dsn string) (service.IInsertServiceV2, error) {
	if k == "ts" {
		return w.Reg.GetTimeSeriesService(dsn)
	}
	return w.Reg.GetSamplesService(dsn)
}

func pool(mm *service.InsertServiceV2Multimodal, mode string) *service.InsertServiceV2RoundRobin {
	if mode == "async" {
		return mm.AsyncService
	}
	return mm.SyncService
}

func poolWorkers(rr *service.InsertServiceV2RoundRobin) []*service.InsertServiceV2 {
	f := privField(rr, "services")
	return *(*[]*service.InsertServiceV2)(unsafe.Pointer(f.UnsafeAddr()))
}

// register creates the Worker records of an initialised service (idempotent) and scripts its pools' random sources.
func (w *World) register(s *Svc) {
	if s.registered {
		return
	}
	for _, m := range []string{"sync", "async"} {
		rr := pool(s.MM, m)
		src := &scriptSrc{}
		s.src[m] = src
		if !w.Free {
			setRand(rr, src)
		}
		for i, p := range poolWorkers(rr) {
			wk := &Worker{Key: fmt.Sprintf("%s/%s/%s/%d", s.Node, s.Kind, m, i+1), Node: s.Node, Kind: s.Kind, Mode: m, I: i + 1, Ptr: p,
				Gated: w.Gated, Arrived: make(chan struct{}), Release: make(chan struct{}), Events: make(chan service.VerifEvent, 4096),
				DoArr: make(chan *fakech.Block), DoRel: make(chan error), Quit: w.quit, world: w}
			workerByPtr.Store(p, wk)
			w.mu.Lock()
			w.Workers[wk.Key] = wk
			w.mu.Unlock()
		}
	}
	s.registered = true
}

func (w *World) Init(s *Svc) {
	s.I.Init()
	w.register(s)
}

// Run starts `go svc.Run()`; returns when both pools report running (every worker goroutine exists).
func (w *World) Run(s *Svc, d time.Duration) error {
	n := atomic.AddInt32(&s.runCalls, 1)
	ret := make(chan struct{})
	go func() {
		s.I.Run()
		close(ret)
		if n == 1 {
			close(s.runRet)
		}
	}()
	if n > 1 {
		// a second Run must return at once
		select {
		case <-ret:
			return nil
		case <-time.After(d):
			return fmt.Errorf("a second Run() of %s/%s did not return", s.Node, s.Kind)
		}
	}
	t0 := time.Now()
	for {
		if s.MM.SyncService != nil && s.MM.AsyncService != nil && privBool(s.MM.SyncService, "running") && privBool(s.MM.AsyncService, "running") &&
			privBool(s.MM, "running") {
			break
		}
		if time.Since(t0) > d {
			return fmt.Errorf("Run() of %s/%s did not start its pools", s.Node, s.Kind)
		}
		time.Sleep(50 * time.Microsecond)
	}
	w.register(s)
	return nil
}

func privBool(obj any, name string) bool { return privField(obj, name).Bool() }
func privLen(obj any, name string) int   { return privField(obj, name).Len() }

func (wk *Worker) Running() bool    { return privBool(wk.Ptr, "running") }
func (wk *Worker) NResults() int    { return privLen(wk.Ptr, "results") }
func (wk *Worker) State() string    { return stateName(wk.Ptr.GetState(0)) }
func (wk *Worker) ForceState(st int) {
	f := privField(wk.Ptr, "state")
	atomic.StoreInt32((*int32)(unsafe.Pointer(f.UnsafeAddr())), int32(st))
}
func (wk *Worker) SetLastRequest(t time.Time) {
	f := privField(wk.Ptr, "lastRequest")
	*(*time.Time)(unsafe.Pointer(f.UnsafeAddr())) = t
}

func stateName(s int) string {
	switch s {
	case service.INSERT_STATE_IDLE:
		return "IDLE"
	case service.INSERT_STATE_INSERTING:
		return "INSERTING"
	case service.INSERT_STATE_CLOSING:
		return "CLOSING"
	}
	return fmt.Sprintf("state%d", s)
}

func stateNum(s string) int {
	switch s {
	case "INSERTING":
		return service.INSERT_STATE_INSERTING
	case "CLOSING":
		return service.INSERT_STATE_CLOSING
	}
	return service.INSERT_STATE_IDLE
}

func modeNum(h string) int {
	switch h {
	case "0", "sync":
		return service.INSERT_MODE_SYNC
	case "1", "async":
		return service.INSERT_MODE_ASYNC
	}
	return service.INSERT_MODE_DEFAULT
}

func (w *World) Close() {
	close(w.quit)
	for _, s := range w.Svcs {
		if s.MM.SyncService != nil {
			s.I.Stop()
		}
	}
	for _, wk := range w.Workers {
		workerByPtr.Delete(wk.Ptr)
	}
}

// mkReq builds a request of n rows whose every row names the push (and its kind).
func mkReq(r, kind string, n int) helpers.SizeGetter {
	switch kind {
	case "spl":
		d := &model.TimeSamplesData{Size: n * rowSize}
		for i := 1; i <= n; i++ {
			id := fmt.Sprintf("row=%s/%s/%d;", r, kind, i)
			d.MFingerprint = append(d.MFingerprint, uint64(1000+i))
			d.MTimestampNS = append(d.MTimestampNS, int64(1700000000000000000+i))
			d.MMessage = append(d.MMessage, id)
			d.MValue = append(d.MValue, float64(i))
			d.MType = append(d.MType, 1)
			d.MTTLDays = append(d.MTTLDays, 0)
		}
		return d
	case "ts":
		d := &model.TimeSeriesData{Size: n * rowSize}
		for i := 1; i <= n; i++ {
			id := fmt.Sprintf("row=%s/%s/%d;", r, kind, i)
			d.MDate = append(d.MDate, time.Unix(1700000000, 0).UTC().Truncate(24*time.Hour))
			d.MLabels = append(d.MLabels, `{"id":"`+id+`"}`)
			d.MFingerprint = append(d.MFingerprint, uint64(i))
			d.MType = append(d.MType, 1)
			d.MTTLDays = append(d.MTTLDays, 0)
		}
		return d
	}
	panic("kind " + kind)
}

// blockReqs returns the distinct push ids found in the rows of a decoded block, in order of first appearance.
func blockReqs(b *fakech.Block) []string {
	var out []string
	seen := map[string]bool{}
	for _, row := range b.Rows {
		for _, c := range row {
			s, ok := c.(string)
			if !ok {
				if bs, ok2 := c.([]byte); ok2 {
					s = string(bs)
				} else {
					continue
				}
			}
			i := strings.Index(s, "row=")
			if i < 0 {
				continue
			}
			id := s[i+4:]
			if j := strings.Index(id, "/"); j > 0 {
				id = id[:j]
			}
			if !seen[id] {
				seen[id] = true
				out = append(out, id)
			}
		}
	}
	return out
}

func unsafePtr(f reflect.Value) unsafe.Pointer { return unsafe.Pointer(f.UnsafeAddr()) }

package main

// trace: records free-running executions of the real registry + insert services as ndjson for
// spec/ingest/Trace_WriterLifecycle.tla.  Nothing is gated or scripted: real timers (push interval a few ms),
// real math/rand in the registry and the round-robin pools, several requester goroutines, random INSERT
// latencies and failures, PlanFlush, Init/Run repeated, Stop at a random moment.

import (
	"encoding/json"
	"fmt"
	"math/rand"
	"os"
	"sort"
	"sync"
	"sync/atomic"
	"time"

	"github.com/metrico/qryn/writer/service"
	"github.com/metrico/qryn/writer/utils/helpers"
	"verif/harness/fakech"
)

type Event map[string]any

type recorder struct {
	mu     sync.Mutex
	seq    int64
	events []Event
}

func (r *recorder) emit(e Event) {
	e["seq"] = atomic.AddInt64(&r.seq, 1)
	r.mu.Lock()
	r.events = append(r.events, e)
	r.mu.Unlock()
}

func wkey(w *Worker) []any { return []any{w.Node, w.Kind, w.Mode, w.I} }

type TraceMeta struct {
	Scenarios int            `json:"scenarios"`
	Events    int            `json:"events"`
	Requests  int            `json:"requests"`
	MaxReqs   int            `json:"max_reqs"`
	Orphans   int            `json:"orphans"`
	Stopped   int            `json:"stopped"`
	Kinds     map[string]int `json:"event_kinds"`
	Orphaned  []Event        `json:"orphan_events"`
	Bounds    [][2]int       `json:"scenario_bounds"` // [first line, last line] (1-based) of every scenario
}

func cmdTrace(outPath, metaPath string, seed int64, nscen int) int {
	rec := &recorder{}
	meta := TraceMeta{Kinds: map[string]int{}}
	nodes := []string{"n1", "n2"}
	async := map[string]bool{"n2": true}
	dsns := []string{"n1", "n2", ""}
	hdrs := []string{"", "0", "1"}
	for sc := 0; sc < nscen; sc++ {
		rnd := rand.New(rand.NewSource(seed*7919 + int64(sc)))
		first := len(rec.events) + 1
		rec.emit(Event{"ev": "Reset"})
		w := newWorld(nodes, async, []string{"spl"}, 2, time.Duration(2+rnd.Intn(4))*time.Millisecond, false, 30, true)
		reqOf := sync.Map{} // request object -> id
		w.Sink = func(wk *Worker, e service.VerifEvent) {
			switch e.Ev {
			case service.VerifEvIterStart:
				rec.emit(Event{"ev": "Iter", "w": wkey(wk)})
			case service.VerifEvAppend:
				id, _ := reqOf.Load(e.Req)
				rec.emit(Event{"ev": "Append", "r": id, "k": wk.Kind, "w": wkey(wk), "nres": e.NResults})
			case service.VerifEvSwap:
				rec.emit(Event{"ev": "Swap", "w": wkey(wk), "n": len(e.Promises)})
			case service.VerifEvRelease:
				rec.emit(Event{"ev": "Release", "w": wkey(wk), "n": len(e.Promises), "ok": e.Err == nil})
			}
		}
		failP := rnd.Intn(25)
		var dmu sync.Mutex
		drnd := rand.New(rand.NewSource(seed*31 + int64(sc)))
		w.OnDo = func(wk *Worker, b *fakech.Block) error {
			rec.emit(Event{"ev": "DoCall", "w": wkey(wk), "reqs": blockReqs(b)})
			dmu.Lock()
			d := time.Duration(drnd.Intn(4000)) * time.Microsecond
			fail := drnd.Intn(100) < failP
			dmu.Unlock()
			time.Sleep(d)
			if fail {
				return fmt.Errorf("code: 241 (scripted INSERT failure)")
			}
			return nil
		}
		sv := func(n string) *Svc { return w.Svcs[n+"/spl"] }
		svk := func(n string) []any { return []any{n, "spl"} }
		for _, n := range nodes {
			w.Init(sv(n))
			rec.emit(Event{"ev": "Init", "sv": svk(n)})
		}
		if rnd.Intn(2) == 0 {
			n := nodes[rnd.Intn(2)]
			w.Init(sv(n))
			rec.emit(Event{"ev": "InitAgain", "sv": svk(n)})
		}
		for _, n := range nodes {
			rec.emit(Event{"ev": "RunCall", "sv": svk(n)})
			if err := w.Run(sv(n), waitT); err != nil {
				fmt.Fprintln(os.Stderr, err)
				return 2
			}
		}
		nreq := 4 + rnd.Intn(5)
		if nreq > meta.MaxReqs {
			meta.MaxReqs = nreq
		}
		var wg sync.WaitGroup
		var pend sync.Map // leg id -> *pw
		type pw struct {
			done int32
			node string
		}
		stopAt := time.Duration(1+rnd.Intn(12)) * time.Millisecond
		stopNodes := []string{nodes[rnd.Intn(2)]}
		if rnd.Intn(3) == 0 {
			stopNodes = nodes
		}
		if rnd.Intn(5) == 0 {
			stopNodes = nil
		}
		next := int32(0)
		t0 := time.Now()
		for g := 0; g < 3; g++ {
			wg.Add(1)
			grnd := rand.New(rand.NewSource(seed*131 + int64(sc*10+g)))
			go func() {
				defer wg.Done()
				for {
					i := int(atomic.AddInt32(&next, 1))
					if i > nreq {
						return
					}
					id := fmt.Sprintf("r%d", i)
					d, h := dsns[grnd.Intn(3)], hdrs[grnd.Intn(3)]
					svc, err := w.Reg.GetSamplesService(d)
					if err != nil {
						continue
					}
					var req helpers.SizeGetter = mkReq(id, "spl", 1+grnd.Intn(2))
					reqOf.Store(req, id)
					rec.emit(Event{"ev": "Route", "r": id, "d": d, "h": h, "node": map[string]string{"spl": svc.GetNodeName()}})
					p, pan := safeRequest(svc, req, modeNum(h))
					if pan != "" {
						rec.emit(Event{"ev": "Panic", "r": id, "k": "spl", "what": pan})
						continue
					}
					x := &pw{node: svc.GetNodeName()}
					pend.Store(id, x)
					wg.Add(1)
					go func() {
						defer wg.Done()
						_, err := p.Get()
						out := "ok"
						if err != nil {
							out = "err"
							if err.Error() == "service stopped" {
								out = "stopped"
							}
						}
						rec.emit(Event{"ev": "Done", "r": id, "k": "spl", "out": out})
						atomic.StoreInt32(&x.done, 1)
					}()
					time.Sleep(time.Duration(grnd.Intn(3000)) * time.Microsecond)
				}
			}()
		}
		// the environment: PlanFlush, Init/Run again, Stop
		stopped := false
		for time.Since(t0) < 40*time.Millisecond {
			time.Sleep(time.Duration(200+rnd.Intn(1500)) * time.Microsecond)
			switch rnd.Intn(6) {
			case 0:
				n := nodes[rnd.Intn(2)]
				rec.emit(Event{"ev": "PlanFlush", "sv": svk(n)})
				sv(n).I.PlanFlush()
			case 1:
				if rnd.Intn(3) == 0 {
					n := nodes[rnd.Intn(2)]
					w.Init(sv(n))
					rec.emit(Event{"ev": "InitAgain", "sv": svk(n)})
				}
			case 2:
				if rnd.Intn(3) == 0 {
					n := nodes[rnd.Intn(2)]
					if err := w.Run(sv(n), waitT); err != nil {
						fmt.Fprintln(os.Stderr, err)
						return 2
					}
					rec.emit(Event{"ev": "RunAgain", "sv": svk(n)})
				}
			}
			if !stopped && time.Since(t0) >= stopAt {
				stopped = true
				for _, n := range stopNodes {
					rec.emit(Event{"ev": "StopCall", "sv": svk(n)})
					sv(n).I.Stop()
					rec.emit(Event{"ev": "StopRet", "sv": svk(n)})
				}
			}
		}
		// the requesters have issued everything (their promises may be pending)
		issued := make(chan struct{})
		go func() {
			for atomic.LoadInt32(&next) <= int32(nreq) {
				time.Sleep(200 * time.Microsecond)
			}
			close(issued)
		}()
		select {
		case <-issued:
		case <-time.After(waitT):
			fmt.Fprintln(os.Stderr, "requesters stuck")
			return 2
		}
		time.Sleep(5 * time.Millisecond)
		// stop the rest so that every scenario ends with all workers gone
		for _, n := range nodes {
			if !stopped || !contains(stopNodes, n) {
				rec.emit(Event{"ev": "StopCall", "sv": svk(n)})
				sv(n).I.Stop()
				rec.emit(Event{"ev": "StopRet", "sv": svk(n)})
			}
		}
		stuck := false
		for _, n := range nodes {
			select {
			case <-sv(n).runRet:
				rec.emit(Event{"ev": "RunRet", "sv": svk(n)})
			case <-time.After(3 * time.Second):
				// not a behaviour of the model: every worker is cancelled, Run() must return.  The recording ends here.
				w.Sink = func(wk *Worker, e service.VerifEvent) {}
				// keep a short tail after the last StopRet (a prefix of a behaviour is a behaviour), then the verdict line
				rec.mu.Lock()
				lastStop := 0
				for i, e := range rec.events {
					if e["ev"] == "StopRet" {
						lastStop = i
					}
				}
				if len(rec.events) > lastStop+60 {
					rec.events = rec.events[:lastStop+60]
				}
				rec.mu.Unlock()
				rec.emit(Event{"ev": "RunStuck", "sv": svk(n)})
				stuck = true
			}
			if stuck {
				break
			}
		}
		if stuck {
			meta.Scenarios++
			meta.Requests += nreq
			meta.Bounds = append(meta.Bounds, [2]int{first, len(rec.events)})
			w.Close()
			break
		}
		time.Sleep(20 * time.Millisecond)
		// whatever is pending now will be pending for ever: the goroutines that could complete it are gone
		var ids []string
		pend.Range(func(k, v any) bool {
			if atomic.LoadInt32(&v.(*pw).done) == 0 {
				ids = append(ids, k.(string))
			}
			return true
		})
		sort.Strings(ids)
		for _, id := range ids {
			e := Event{"ev": "Orphan", "r": id, "k": "spl"}
			rec.emit(e)
			meta.Orphans++
			meta.Orphaned = append(meta.Orphaned, Event{"scenario": sc, "r": id})
		}
		meta.Requests += nreq
		meta.Scenarios++
		meta.Bounds = append(meta.Bounds, [2]int{first, len(rec.events)})
		w.Sink = func(wk *Worker, e service.VerifEvent) {}
		w.Close()
	}
	rec.mu.Lock()
	evs := rec.events
	rec.mu.Unlock()
	sort.SliceStable(evs, func(i, j int) bool { return evs[i]["seq"].(int64) < evs[j]["seq"].(int64) })
	f, err := os.Create(outPath)
	if err != nil {
		fmt.Fprintln(os.Stderr, err)
		return 2
	}
	for _, e := range evs {
		meta.Kinds[e["ev"].(string)]++
		if e["ev"] == "Done" && e["out"] == "stopped" {
			meta.Stopped++
		}
		b, _ := json.Marshal(e)
		f.Write(append(b, '\n'))
	}
	f.Close()
	meta.Events = len(evs)
	b, _ := json.MarshalIndent(meta, "", " ")
	os.WriteFile(metaPath, b, 0644)
	return 0
}

func contains(l []string, s string) bool {
	for _, x := range l {
		if x == s {
			return true
		}
	}
	return false
}

package main

// wd: real-time watchdog scenarios.  watchdog.Init starts a goroutine that calls os.Exit(1), so every scenario
// runs in a CHILD process: real InsertServiceV2Multimodal services (series + samples of one node, write timeout
// 1 s => a worker is "in a deadlock" after 2*1+5 = 7 s without a refreshed lastRequest) running over the fake
// ClickHouse client whose connect / ping / INSERT outcomes follow the Down/Up schedule TLC generated
// (MC_WriterLifecycleWD, LiveSpec), and the real watchdog.Init over them (period 5 s, not configurable).
// The parent compares whether and when the child terminated with the model's verdict.

import (
	"encoding/json"
	"fmt"
	"io"
	"os"
	"strings"
	"sync"
	"sync/atomic"
	"time"

	"github.com/metrico/qryn/writer/model"
	"github.com/metrico/qryn/writer/service"
	"github.com/metrico/qryn/writer/service/impl"
	"github.com/metrico/qryn/writer/utils/logger"
	"github.com/metrico/qryn/writer/watchdog"
	"verif/harness/fakech"
	"verif/harness/wworld"
)

type WdEvent struct {
	T  float64 `json:"t"` // seconds after watchdog.Init
	Ev string  `json:"ev"`
}

type WdPlan struct {
	ID       int       `json:"id"`
	WT       uint32    `json:"wt"`
	Events   []WdEvent `json:"events"`
	Flavour  string    `json:"flavour"` // idle | load | slow
	Duration float64   `json:"duration"`
	// model verdict
	ExitTick int `json:"exit_tick"` // -1: the process must survive the scenario
}

type WdResult struct {
	ID        int     `json:"id"`
	Exited    bool    `json:"exited"`
	ExitCode  int     `json:"exit_code"`
	ExitAt    float64 `json:"exit_at"` // seconds after watchdog.Init
	WD001     bool    `json:"wd001_logged"`
	Inserts   int64   `json:"inserts_ok"`
	InsertErr int64   `json:"inserts_failed"`
	Pings     int64   `json:"pings"`
	Note      string  `json:"note,omitempty"`
}

type wdProgress struct {
	Start   int64 `json:"start"` // unix nanos of watchdog.Init
	Inserts int64 `json:"inserts"`
	Failed  int64 `json:"failed"`
	Pings   int64 `json:"pings"`
}

func childWdLive() int {
	var plan WdPlan
	raw, _ := io.ReadAll(os.Stdin)
	if err := json.Unmarshal(raw, &plan); err != nil {
		return 2
	}
	wworld.InitPools()
	logger.Logger.SetOutput(os.Stdout) // the parent looks for the WD001 line
	var up int32 = 1
	var inserts, failed, pings int64
	mk := func(kind string) service.IInsertServiceV2 {
		ch := fakech.NewWorld()
		ch.OnConnect = func(id int) error {
			if atomic.LoadInt32(&up) == 0 {
				return fmt.Errorf("dial tcp 10.0.0.1:9000: connect: connection refused")
			}
			return nil
		}
		ch.OnPing = func(id int) error {
			atomic.AddInt64(&pings, 1)
			if atomic.LoadInt32(&up) == 0 {
				return fmt.Errorf("read: connection reset by peer")
			}
			return nil
		}
		ch.OnDo = func(b *fakech.Block) error {
			if plan.Flavour == "slow" {
				time.Sleep(3 * time.Second)
			}
			if atomic.LoadInt32(&up) == 0 {
				atomic.AddInt64(&failed, 1)
				return fmt.Errorf("write: broken pipe")
			}
			atomic.AddInt64(&inserts, 1)
			return nil
		}
		opts := model.InsertServiceOpts{Session: ch.Factory(), Node: node("n1", false, plan.WT), Interval: 100 * time.Millisecond, ParallelNum: 2}
		var s service.IInsertServiceV2
		if kind == "ts" {
			s = impl.NewTimeSeriesInsertService(opts)
		} else {
			s = impl.NewSamplesInsertService(opts)
		}
		s.Init()
		go s.Run()
		return s
	}
	ts, spl := mk("ts"), mk("spl")
	// let every worker connect once (a worker without a client never pings)
	time.Sleep(400 * time.Millisecond)
	watchdog.Init([]service.InsertSvcMap{{"n1": ts}, {"n1": spl}})
	t0 := time.Now()
	report := func() {
		b, _ := json.Marshal(wdProgress{Start: t0.UnixNano(), Inserts: atomic.LoadInt64(&inserts), Failed: atomic.LoadInt64(&failed), Pings: atomic.LoadInt64(&pings)})
		fmt.Fprintf(os.Stdout, "\n%s%s\n", marker, b)
	}
	report()
	go func() {
		for range time.Tick(250 * time.Millisecond) {
			report()
		}
	}()
	if plan.Flavour != "idle" {
		go func() {
			i := 0
			for range time.Tick(300 * time.Millisecond) {
				i++
				if _, pan := safeRequest(spl, mkReq(fmt.Sprintf("w%d", i), "spl", 1), service.INSERT_MODE_SYNC); pan != "" {
					fmt.Fprintf(os.Stdout, "\nX03-PANIC %s\n", pan)
					os.Exit(7)
				}
				safeRequest(ts, mkReq(fmt.Sprintf("w%d", i), "ts", 1), service.INSERT_MODE_SYNC)
			}
		}()
	}
	for _, e := range plan.Events {
		d := time.Duration(e.T*float64(time.Second)) - time.Since(t0)
		if d > 0 {
			time.Sleep(d)
		}
		if e.Ev == "down" {
			atomic.StoreInt32(&up, 0)
		} else {
			atomic.StoreInt32(&up, 1)
		}
	}
	d := time.Duration(plan.Duration*float64(time.Second)) - time.Since(t0)
	if d > 0 {
		time.Sleep(d)
	}
	report()
	return 0
}

func runWdPlan(p WdPlan) (WdResult, string) {
	res := WdResult{ID: p.ID}
	t0 := time.Now()
	_, code, logs, err := runChild("child-wdlive", p, time.Duration((p.Duration+8)*float64(time.Second)))
	if err != nil {
		return res, fmt.Sprintf("scenario %d: %v: %s", p.ID, err, tail(logs, 800))
	}
	end := time.Now()
	// the last progress line of the child
	var pr wdProgress
	found := false
	for _, ln := range strings.Split(logs, "\n") {
		if strings.HasPrefix(ln, marker) {
			var x wdProgress
			if json.Unmarshal([]byte(strings.TrimPrefix(ln, marker)), &x) == nil && x.Start != 0 {
				pr = x
				found = true
			}
		}
	}
	if !found {
		return res, fmt.Sprintf("scenario %d: the child reported nothing (code %d, ran %v): %s", p.ID, code, end.Sub(t0), tail(logs, 800))
	}
	if code == 7 || (code == 2 && strings.Contains(logs, "panic:") && strings.Contains(logs, "github.com/metrico/qryn/")) {
		res.Note = "panic in the code under test"
		if i := strings.Index(logs, "X03-PANIC "); i >= 0 {
			res.Note += ": " + strings.SplitN(logs[i+10:], "\n", 2)[0]
		} else {
			res.Note += ": " + panicLine(logs)
		}
		res.ExitCode = code
		return res, ""
	}
	res.ExitCode = code
	res.Exited = code != 0
	res.WD001 = strings.Contains(logs, "[WD001]")
	res.Inserts, res.InsertErr, res.Pings = pr.Inserts, pr.Failed, pr.Pings
	if res.Exited {
		res.ExitAt = float64(end.UnixNano()-pr.Start) / 1e9
		if code != 1 || !res.WD001 {
			return res, fmt.Sprintf("scenario %d: the child died with code %d without the watchdog's message: %s", p.ID, code, tail(logs, 1200))
		}
	}
	return res, ""
}

func cmdWd(inPath, outPath string, seed int64, par int) int {
	raw, err := os.ReadFile(inPath)
	if err != nil {
		fmt.Fprintln(os.Stderr, err)
		return 2
	}
	var plans []WdPlan
	if err := json.Unmarshal(raw, &plans); err != nil {
		fmt.Fprintln(os.Stderr, "bad input:", err)
		return 2
	}
	type outT struct {
		Results []WdResult `json:"results"`
		Infra   []string   `json:"infra"`
	}
	out := outT{Results: make([]WdResult, len(plans))}
	var wg sync.WaitGroup
	var mu sync.Mutex
	sem := make(chan struct{}, par)
	for i, p := range plans {
		wg.Add(1)
		sem <- struct{}{}
		go func(i int, p WdPlan) {
			defer wg.Done()
			defer func() { <-sem }()
			r, infra := runWdPlan(p)
			mu.Lock()
			out.Results[i] = r
			if infra != "" {
				out.Infra = append(out.Infra, infra)
			}
			mu.Unlock()
		}(i, p)
	}
	wg.Wait()
	b, _ := json.MarshalIndent(out, "", " ")
	os.WriteFile(outPath, b, 0644)
	if len(out.Infra) > 0 {
		return 2
	}
	return 0
}

// x03 binds spec/ingest/WriterLifecycle.tla (the writer's service layer: registry, multimodal / round-robin
// insert services, Init/Run/Stop, watchdog) to the REAL code.
//
//	x03 replay  -in behaviours.json -out result.json [-seed N] [-par 16]   schedule replay (MC_WriterLifecycleReplay)
//	x03 cases   -in cases.json -out result.json [-seed N]                  routing / mode / watchdog-check cases
//	x03 trace   -out trace.ndjson -meta meta.json [-seed N] [-scenarios K] free-running recorded traces
//	x03 wd      -in plan.json -out result.json                             real-time watchdog scenarios (child processes)
//	x03 child-* ...                                                        child process entry points
package main

import (
	"flag"
	"fmt"
	"os"
)

func main() {
	if len(os.Args) < 2 {
		fmt.Fprintln(os.Stderr, "usage: x03 replay|cases|trace|wd ...")
		os.Exit(2)
	}
	cmd := os.Args[1]
	fs := flag.NewFlagSet(cmd, flag.ExitOnError)
	in := fs.String("in", "", "input json")
	out := fs.String("out", "", "output json")
	meta := fs.String("meta", "", "meta json (trace)")
	seed := fs.Int64("seed", 1, "seed")
	par := fs.Int("par", 16, "parallelism")
	scen := fs.Int("scenarios", 10, "scenarios (trace)")
	fs.Parse(os.Args[2:])
	switch cmd {
	case "replay":
		os.Exit(cmdReplay(*in, *out, *seed, *par))
	case "cases":
		os.Exit(cmdCases(*in, *out, *seed))
	case "trace":
		os.Exit(cmdTrace(*out, *meta, *seed, *scen))
	case "wd":
		os.Exit(cmdWd(*in, *out, *seed, *par))
	case "child-http":
		os.Exit(childHTTP())
	case "child-wdcheck":
		os.Exit(childWdCheck())
	case "child-wdlive":
		os.Exit(childWdLive())
	}
	fmt.Fprintln(os.Stderr, "unknown command", cmd)
	os.Exit(2)
}

// Command x06 binds spec/query/LabelIndex.tla (X06: the CONTENT of the label / series endpoints of the Loki and Prometheus
// read APIs) to the real code.
//
//	x06 run -cases <ndjson> -out <json> -seed <n>
//	    every line is one TLC-generated case (MC_LabelIndex!CaseRec): an abstract database of stored series, one request,
//	    the definition's answer, the answer of the mechanism as coded, the quirks that fire.  The cases of one database
//	    are adjacent.  Per database: the series are concretised (hostile label names / values from seeded pools), pushed
//	    through the REAL writer routes of e2e.World (Loki push JSON / protobuf for log and "both" series, Prometheus remote
//	    write for metric series; the real materialized view derives the time_series_gin rows), then every request of the
//	    database is sent to the REAL reader routes and the answer compared as a bag with the definition.
//	x06 big -out <json> -seed <n>
//	    more than 10000 values / series of one selector (the LIMIT of the statements), plus side observations
//	x06 probe
//	    prints what the routes answer for a hand-written database (exploration)
package main

import (
	"bufio"
	"encoding/json"
	"flag"
	"fmt"
	"hash/fnv"
	"io"
	"math/rand"
	"os"
	"sort"
	"strings"
)

type Matcher struct {
	Name string `json:"name"`
	Op   string `json:"op"`
	Pat  string `json:"pat"`
}

type Selector struct {
	Bare string    `json:"bare"`
	Ms   []Matcher `json:"ms"`
}

type Req struct {
	Api  string     `json:"api"`
	Ep   string     `json:"ep"`
	From int        `json:"from"`
	To   int        `json:"to"`
	Name string     `json:"name"`
	Sels []Selector `json:"sels"`
	Post bool       `json:"post"`
}

type Ans struct {
	Err   bool              `json:"err"`
	Set   []json.RawMessage `json:"set"`
	Dups  []json.RawMessage `json:"dups"`
	Trunc bool              `json:"trunc"`
}

type Series struct {
	L    int               `json:"l"`
	Ls   map[string]string `json:"ls"`
	Tp   int               `json:"tp"`
	Days []int             `json:"days"`
	Flip int               `json:"flip"`
}

type Case struct {
	Cfg       string   `json:"cfg"`
	Db        []Series `json:"db"`
	Req       Req      `json:"req"`
	Colon     []string `json:"colon"`
	Ctrl      []string `json:"ctrl"`
	Def       Ans      `json:"def"`
	Coded     Ans      `json:"coded"`
	Fired     []string `json:"fired"`
	Coded2    []Ans    `json:"coded2"`
	Fired2    []string `json:"fired2"`
	Mut       []Ans    `json:"mut"`
	Mutfired  []string `json:"mutfired"`
	Mut2      []Ans    `json:"mut2"`
	Mutfired2 []string `json:"mutfired2"`
	AbsentOps []string `json:"absent_ops"`
}

// Canon: an answer in comparable form
type Canon struct {
	Err  bool     `json:"err"`
	Set  []string `json:"set"`  // distinct items, sorted
	Dups []string `json:"dups"` // items that came more than once, sorted
}

func (c Canon) key() string {
	b, _ := json.Marshal(c)
	return string(b)
}

type Mismatch struct {
	Signature string   `json:"signature"`
	Msg       string   `json:"msg"`
	Abstract  *Case    `json:"abstract"`
	Concrete  any      `json:"concrete_database"`
	Request   any      `json:"request"`
	Expected  Canon    `json:"expected"`
	Predicted Canon    `json:"as_coded"`
	Observed  Canon    `json:"observed"`
	Status    int      `json:"status"`
	Raw       string   `json:"raw"`
	SQL       []string `json:"sql,omitempty"`
}

type Result struct {
	Cases             int               `json:"cases"`
	Databases         int               `json:"databases"`
	Nontrivial        int               `json:"distinct_nontrivial"`
	EqualDef          int               `json:"answers_equal_definition"`
	Pushes            map[string]int    `json:"pushes"`
	Requests          map[string]int    `json:"requests"`
	Classes           map[string]int    `json:"classes"`
	FiredCases        map[string]int    `json:"fired_cases"`
	FiredObserved     map[string]int    `json:"fired_observed"`
	FiredSilent       map[string]int    `json:"fired_silent"`
	MismatchCounts    map[string]int    `json:"mismatch_counts"`
	Mismatches        []Mismatch        `json:"mismatches"`
	Infra             []string          `json:"infra"`
	Sample            any               `json:"sample"`
	Aux               map[string]any    `json:"aux,omitempty"`
	seenPerSig        map[string]int
	distinctNontrivial map[string]bool
}

func newResult() *Result {
	return &Result{Pushes: map[string]int{}, Requests: map[string]int{}, Classes: map[string]int{}, FiredCases: map[string]int{},
		FiredObserved: map[string]int{}, FiredSilent: map[string]int{}, MismatchCounts: map[string]int{}, seenPerSig: map[string]int{},
		distinctNontrivial: map[string]bool{}}
}

func (r *Result) infra(f string, a ...any) {
	if len(r.Infra) < 20 {
		r.Infra = append(r.Infra, fmt.Sprintf(f, a...))
	}
}

func hash64(s string) int64 {
	h := fnv.New64a()
	h.Write([]byte(s))
	return int64(h.Sum64() >> 1)
}

func main() {
	if len(os.Args) < 2 {
		fmt.Fprintln(os.Stderr, "usage: x06 run|big|probe ...")
		os.Exit(2)
	}
	switch os.Args[1] {
	case "probe":
		probe()
	case "run":
		fs := flag.NewFlagSet("run", flag.ExitOnError)
		cases := fs.String("cases", "", "ndjson of cases")
		out := fs.String("out", "", "result json")
		seed := fs.Int64("seed", 1, "seed")
		fs.Parse(os.Args[2:])
		os.Exit(runCases(*cases, *out, *seed))
	case "big":
		fs := flag.NewFlagSet("big", flag.ExitOnError)
		out := fs.String("out", "", "result json")
		seed := fs.Int64("seed", 1, "seed")
		fs.Parse(os.Args[2:])
		os.Exit(runBig(*out, *seed))
	default:
		os.Exit(2)
	}
}

func writeResult(path string, res *Result) int {
	b, err := json.Marshal(res)
	if err != nil {
		fmt.Fprintln(os.Stderr, "marshal:", err)
		return 3
	}
	if err := os.WriteFile(path, b, 0o644); err != nil {
		fmt.Fprintln(os.Stderr, err)
		return 3
	}
	return 0
}

func runCases(casesPath, outPath string, seed int64) int {
	f, err := os.Open(casesPath)
	if err != nil {
		fmt.Fprintln(os.Stderr, err)
		return 3
	}
	defer f.Close()
	// the reader prints every SQL text on stdout
	devnull, _ := os.OpenFile(os.DevNull, os.O_WRONLY, 0)
	os.Stdout = devnull
	res := newResult()
	x, err := newWorld()
	if err != nil {
		fmt.Fprintln(os.Stderr, "world:", err)
		return 3
	}
	defer x.close()
	rd := bufio.NewReaderSize(f, 1<<20)
	var group []*Case
	var groupKey string
	flush := func() {
		if len(group) > 0 {
			x.runDatabase(res, group, seed)
		}
		group = nil
	}
	for {
		line, err := rd.ReadString('\n')
		if strings.TrimSpace(line) != "" {
			c := &Case{}
			if e := json.Unmarshal([]byte(line), c); e != nil {
				res.infra("cannot parse case: %v: %.200s", e, line)
			} else {
				dbk, _ := json.Marshal(c.Db)
				k := c.Cfg + "|" + string(dbk)
				if k != groupKey {
					flush()
					groupKey = k
				}
				group = append(group, c)
			}
		}
		if err == io.EOF {
			break
		}
		if err != nil {
			res.infra("read: %v", err)
			break
		}
	}
	flush()
	res.Nontrivial = len(res.distinctNontrivial)
	return writeResult(outPath, res)
}

// ---- shared helpers

func sortedCopy(s []string) []string {
	o := append([]string{}, s...)
	sort.Strings(o)
	return o
}

func contains(l []string, s string) bool {
	for _, x := range l {
		if x == s {
			return true
		}
	}
	return false
}

func rng(seed int64, salt string) *rand.Rand {
	return rand.New(rand.NewSource(seed*1000003 + hash64(salt)))
}

func clip(s string, n int) string {
	if len(s) <= n {
		return s
	}
	return s[:n] + fmt.Sprintf("...(%d bytes)", len(s))
}

package main

import (
	"encoding/json"
	"fmt"
	"math/rand"
	"regexp"
	"strings"
)

// Concretisation of the abstract atoms of a database.
//   label name atoms  a, b -> a pair of concrete names (pushed form, stored form: the writer replaces every character
//                             outside [a-zA-Z0-9_] and a leading digit by "_"); n -> __name__; z -> a name nobody has
//   value atoms       x, xy -> a pair of concrete values, x a proper prefix of xy (pushed form, stored form: the writer
//                             cuts values longer than 100 bytes to 100 bytes + "..."); "" -> ""

type namePair struct{ pushA, storA, pushB, storB string }

var long200a = "n" + strings.Repeat("a1_", 66)
var long200b = "n" + strings.Repeat("a1_", 66) + "b"

var namePools = map[string][]namePair{
	"plain":   {{"app", "app", "env", "env"}, {"job", "job", "instance", "instance"}, {"le", "le", "quantile", "quantile"}},
	"sqlcols": {{"key", "key", "val", "val"}, {"fingerprint", "fingerprint", "type", "type"}, {"date", "date", "labels", "labels"}, {"name", "name", "string", "string"}},
	"case":    {{"Env", "Env", "env", "env"}, {"A_b", "A_b", "a_b", "a_b"}},
	"prefix":  {{"app", "app", "app_x", "app_x"}, {"aa", "aa", "a", "a"}, {"__name", "__name", "__name___", "__name___"}},
	"sanitized": {{"sérvice", "s_rvice", "host-name", "host_name"}, {"1st", "_st", "k8s.pod/name", "k8s_pod_name"},
		{"sp ace", "sp_ace", "q\"uote'", "q_uote_"}, {"日本", "__", "emoji😀x", "emoji_x"}},
	"long": {{long200a, long200a, long200b, long200b}},
}
var nameClasses = []string{"plain", "sqlcols", "case", "prefix", "sanitized", "long"}

// names nobody has (label values request)
var zNames = []string{"nobody", "no body", "nö\"b'ody", "a.b*c", "__name", "type", "%27)", "z" + strings.Repeat("z", 300)}

type valPair struct{ pushX, pushXY string }

var valPools = map[string][]valPair{
	"ident":     {{"up", "up_total"}, {"http_requests", "http_requests_total"}, {"_m", "_m9"}},
	"plain":     {{"v1", "v1z"}, {"prod", "production"}},
	"unicode":   {{"vé日本", "vé日本ü😀"}, {"Ωmega", "Ωmega–∞"}},
	"quotes":    {{`q"uo'te`, `q"uo'te"` + "`"}, {`"`, `""`}},
	"backslash": {{`b\sl\\`, `b\sl\\` + `\`}, {`\`, `\n`}},
	"regex":     {{`a.b*c(d)[e]|f+?^$`, `a.b*c(d)[e]|f+?^${2}`}, {`.*`, `.*.+`}, {`(`, `()`}},
	"jsonish":   {{`{"k":"v"}`, `{"k":"v"},[1]`}},
	"sqlish":    {{`'); DROP TABLE x;--`, `'); DROP TABLE x;--%_`}, {`'`, `''`}, {`%`, `%_`}},
	"space":     {{" lead", " lead trail "}, {"\t", "\t\t"}},
	"long100":   {{strings.Repeat("L", 60), strings.Repeat("L", 100)}},
	"overlong":  {{strings.Repeat("O", 90), strings.Repeat("O", 150)}, {strings.Repeat("ab", 50), strings.Repeat("ab", 50) + "c"}},
	"colon":     {{"job", "job:rate5m"}, {"a", "a:b:c"}, {"_x", "_x:"}},
	"ctrl":      {{"c1", "c1\x1b[0m"}, {"bel", "bel\a"}, {"vt", "vt\v"}, {"del", "del\x7f"}},
}
var valClasses = []string{"plain", "unicode", "quotes", "backslash", "regex", "jsonish", "sqlish", "space", "long100", "overlong"}

// storedValue: the writer's documented normalisation of a label value
func storedValue(v string) string {
	if len(v) > 100 {
		return v[:100] + "..."
	}
	return v
}

var metricNameRe = regexp.MustCompile(`^[a-zA-Z_:][a-zA-Z0-9_:]*$`)

type conc struct {
	NameClass string            `json:"name_class"`
	ValClass  string            `json:"value_class"`
	Pushed    map[string]string `json:"pushed_names"` // atom -> pushed name
	Stored    map[string]string `json:"stored_names"` // atom -> stored name
	ValPush   map[string]string `json:"pushed_values"`
	ValStore  map[string]string `json:"stored_values"`
	ZName     string            `json:"name_nobody_has"`
	Order     []string          `json:"key_order"` // atoms in the order of the label document of day 1
	LokiProto bool              `json:"loki_protobuf"`
}

func concretise(r *rand.Rand, c *Case) *conc {
	k := &conc{Pushed: map[string]string{}, Stored: map[string]string{}, ValPush: map[string]string{}, ValStore: map[string]string{}}
	k.LokiProto = r.Intn(4) == 0
	k.NameClass = nameClasses[r.Intn(len(nameClasses))]
	if k.LokiProto && k.NameClass == "sanitized" {
		k.NameClass = "plain" // the label string of the protobuf push takes identifiers only
	}
	np := namePools[k.NameClass][r.Intn(len(namePools[k.NameClass]))]
	if r.Intn(2) == 0 {
		np = namePair{np.pushB, np.storB, np.pushA, np.storA}
	}
	k.Pushed["a"], k.Stored["a"], k.Pushed["b"], k.Stored["b"] = np.pushA, np.storA, np.pushB, np.storB
	k.Pushed["n"], k.Stored["n"] = "__name__", "__name__"
	for {
		// a name nobody has: none of the stored names of this database
		k.ZName = zNames[r.Intn(len(zNames))]
		if k.ZName != k.Stored["a"] && k.ZName != k.Stored["b"] && k.ZName != "__name__" {
			break
		}
	}
	switch {
	case len(c.Colon) > 0:
		k.ValClass = "colon"
	case len(c.Ctrl) > 0:
		k.ValClass = "ctrl"
	case r.Intn(5) < 2:
		k.ValClass = "ident"
	default:
		k.ValClass = valClasses[r.Intn(len(valClasses))]
	}
	vp := valPools[k.ValClass][r.Intn(len(valPools[k.ValClass]))]
	k.ValPush["x"], k.ValPush["xy"], k.ValPush[""] = vp.pushX, vp.pushXY, ""
	for a, v := range k.ValPush {
		k.ValStore[a] = storedValue(v)
	}
	k.Order = []string{"a", "b", "n"}
	r.Shuffle(3, func(i, j int) { k.Order[i], k.Order[j] = k.Order[j], k.Order[i] })
	return k
}

// the label document keys of a series in document order (atoms)
func (k *conc) keys(s *Series, rev bool) []string {
	var o []string
	for _, a := range k.Order {
		if v, ok := s.Ls[a]; ok && v != "#" {
			o = append(o, a)
		}
	}
	if rev {
		for i, j := 0, len(o)-1; i < j; i, j = i+1, j-1 {
			o[i], o[j] = o[j], o[i]
		}
	}
	return o
}

// the stored label set of a series
func (k *conc) storedLabels(s *Series) map[string]string {
	m := map[string]string{}
	for a, v := range s.Ls {
		if v != "#" {
			m[k.Stored[a]] = k.ValStore[v]
		}
	}
	return m
}

func canonLabels(m map[string]string) string {
	b, _ := json.Marshal(m) // keys sorted
	return string(b)
}

// expected answer in comparable form
func (k *conc) canon(c *Case, a Ans) (Canon, error) {
	out := Canon{Err: a.Err, Set: []string{}, Dups: []string{}}
	if a.Trunc {
		return out, fmt.Errorf("a truncated answer cannot be concretised")
	}
	conv := func(raw json.RawMessage) (string, error) {
		switch c.Req.Ep {
		case "labels":
			var s string
			if err := json.Unmarshal(raw, &s); err != nil {
				return "", err
			}
			st, ok := k.Stored[s]
			if !ok {
				return "", fmt.Errorf("unknown name atom %q", s)
			}
			return st, nil
		case "values":
			var s string
			if err := json.Unmarshal(raw, &s); err != nil {
				return "", err
			}
			st, ok := k.ValStore[s]
			if !ok {
				return "", fmt.Errorf("unknown value atom %q", s)
			}
			return st, nil
		default:
			var l int
			if err := json.Unmarshal(raw, &l); err != nil {
				return "", err
			}
			for i := range c.Db {
				if c.Db[i].L == l {
					return canonLabels(k.storedLabels(&c.Db[i])), nil
				}
			}
			return "", fmt.Errorf("label set %d is not in the database", l)
		}
	}
	for _, raw := range a.Set {
		s, err := conv(raw)
		if err != nil {
			return out, err
		}
		out.Set = append(out.Set, s)
	}
	for _, raw := range a.Dups {
		s, err := conv(raw)
		if err != nil {
			return out, err
		}
		out.Dups = append(out.Dups, s)
	}
	out.Set, out.Dups = sortedCopy(out.Set), sortedCopy(out.Dups)
	return out, nil
}

// ---- selectors

// quote: a string literal that PromQL (Go syntax), LogQL as qryn reads it (JSON syntax) and Loki (Go syntax) all decode to s
func quote(s string) string {
	var b strings.Builder
	b.WriteByte('"')
	for _, r := range s {
		switch {
		case r == '"':
			b.WriteString(`\"`)
		case r == '\\':
			b.WriteString(`\\`)
		case r < 0x20 || r == 0x7f:
			fmt.Fprintf(&b, `\u%04x`, r)
		default:
			b.WriteRune(r)
		}
	}
	b.WriteByte('"')
	return b.String()
}

func (k *conc) pattern(m Matcher) string {
	switch m.Op {
	case "=", "!=":
		return k.ValStore[m.Pat]
	}
	switch m.Pat {
	case "x", "xy":
		return regexp.QuoteMeta(k.ValStore[m.Pat])
	}
	return m.Pat // .* .+
}

func (k *conc) matcher(m Matcher) string {
	return k.Stored[m.Name] + m.Op + quote(k.pattern(m))
}

// selector text for one match[] entry
func (k *conc) selector(r *rand.Rand, api string, sel Selector) (string, string) {
	var ms []string
	for _, m := range sel.Ms {
		ms = append(ms, k.matcher(m))
	}
	form := "braces"
	head := ""
	if sel.Bare != "" {
		name := k.ValStore[sel.Bare]
		if metricNameRe.MatchString(name) {
			head, form = name, "bare"
		} else {
			// the bare syntax cannot express this name: the equivalent matcher
			ms = append(ms, `__name__=`+quote(name))
			form = "bare-as-matcher"
		}
	}
	r.Shuffle(len(ms), func(i, j int) { ms[i], ms[j] = ms[j], ms[i] })
	sep := ","
	if r.Intn(3) == 0 {
		sep = ", "
	}
	if head != "" && len(ms) == 0 {
		if r.Intn(3) == 0 {
			return head + "{}", form
		}
		return head, form
	}
	return head + "{" + strings.Join(ms, sep) + "}", form
}

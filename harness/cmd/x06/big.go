package main

import (
	"encoding/json"
	"fmt"
	"net/url"
	"os"
	"strings"
	"time"

	"github.com/golang/snappy"
	"github.com/metrico/qryn/writer/utils/proto/prompb"
	"google.golang.org/protobuf/proto"
)

// runBig: the LIMIT of the values / series statements.  N > 10000 series that differ in one label are pushed through the
// real routes; the definition's answer has N items.  LabelIndex.tla: quirk "limit" (TLC shows with Limit = 1 that the
// mechanism answers a truncated result where the definition has more than Limit items; the real LIMIT is 10000).
func runBig(outPath string, seed int64) int {
	devnull, _ := os.OpenFile(os.DevNull, os.O_WRONLY, 0)
	os.Stdout = devnull
	res := newResult()
	x, err := newWorld()
	if err != nil {
		fmt.Fprintln(os.Stderr, "world:", err)
		return 3
	}
	defer x.close()
	r := rng(seed, "big")
	n := 10001 + r.Intn(200)
	res.Aux = map[string]any{"series_pushed_per_signal": n}
	if err := x.reset(); err != nil {
		res.infra("reset: %v", err)
		return writeResult(outPath, res)
	}
	// metric series
	const chunk = 2500
	for off := 0; off < n; off += chunk {
		rw := &prompb.WriteRequest{}
		for i := off; i < n && i < off+chunk; i++ {
			rw.Timeseries = append(rw.Timeseries, &prompb.TimeSeries{
				Labels:  []*prompb.Label{{Name: "__name__", Value: "x06_big"}, {Name: "idx", Value: fmt.Sprintf("i%05d", i)}},
				Samples: []*prompb.Sample{{Value: 1, Timestamp: dayNoon(1) * 1000}}})
		}
		raw, _ := proto.Marshal(rw)
		code, body := x.W.Push("POST", "/api/v1/prom/remote/write", "application/x-protobuf", snappy.Encode(nil, raw), nil)
		res.Pushes["remote_write"]++
		if code/100 != 2 {
			res.infra("remote write refused: %d %s", code, clip(body, 300))
			return writeResult(outPath, res)
		}
	}
	// log streams
	for off := 0; off < n; off += chunk {
		var streams []string
		for i := off; i < n && i < off+chunk; i++ {
			streams = append(streams, fmt.Sprintf(`{"stream":{"app":"x06_big","idx":"i%05d"},"values":[["%d","l"]]}`, i, dayNoon(1)*1e9))
		}
		code, body := x.W.Push("POST", "/loki/api/v1/push", "application/json", []byte(`{"streams":[`+strings.Join(streams, ",")+`]}`), nil)
		res.Pushes["loki_json"]++
		if code/100 != 2 {
			res.infra("loki push refused: %d %s", code, clip(body, 300))
			return writeResult(outPath, res)
		}
	}
	for deadline := time.Now().Add(10 * time.Second); ; time.Sleep(5 * time.Millisecond) {
		cnt, err := x.count("time_series")
		if err == nil && cnt == 2*n {
			break
		}
		if err != nil || cnt > 2*n || time.Now().After(deadline) {
			res.infra("time_series has %d rows, %d pushed (%v, store errors %v)", cnt, 2*n, err, x.W.StoreErr)
			return writeResult(outPath, res)
		}
	}
	type probe struct {
		api, ep, path string
		q          url.Values
	}
	lw := func() url.Values {
		s, e := window("loki", r, 1, 1)
		return url.Values{"start": {s}, "end": {e}}
	}
	pw := func() url.Values {
		s, e := window("prom", r, 1, 1)
		return url.Values{"start": {s}, "end": {e}}
	}
	with := func(q url.Values, k, v string) url.Values { q.Set(k, v); return q }
	probes := []probe{
		{"prom", "values", "/api/v1/label/idx/values", pw()},
		{"prom", "values", "/api/v1/label/idx/values", with(pw(), "match[]", "x06_big")},
		{"prom", "series", "/api/v1/series", with(pw(), "match[]", "x06_big")},
		{"loki", "values", "/loki/api/v1/label/idx/values", lw()},
		{"loki", "series", "/loki/api/v1/series", with(lw(), "match[]", `{app="x06_big"}`)},
	}
	for _, p := range probes {
		code, body := x.W.Get(p.path + "?" + p.q.Encode())
		obs, kind := observe(p.ep, code, body)
		res.Cases++
		res.Requests[p.api+"/"+p.ep+"/get"]++
		res.Classes["big_"+p.api+"_"+p.ep]++
		res.FiredCases["limit"]++
		sql := x.sqlOfLastRequest()
		distinct := len(obs.Set)
		wellFormed := kind == "" && !obs.Err && len(obs.Dups) == 0
		if wellFormed {
			for _, it := range obs.Set {
				ok := false
				if p.ep == "series" {
					m := map[string]string{}
					json.Unmarshal([]byte(it), &m)
					ok = strings.HasPrefix(m["idx"], "i") && len(m) == 2
				} else {
					ok = strings.HasPrefix(it, "i") && len(it) == 6
				}
				if !ok {
					wellFormed = false
				}
			}
		}
		switch {
		case wellFormed && distinct == n:
			res.EqualDef++
			res.FiredSilent["limit"]++
		case wellFormed && distinct == 10000:
			res.FiredObserved["limit"]++
			sig := "as-coded|limit|" + p.api + "|" + p.ep
			res.MismatchCounts[sig]++
			if res.seenPerSig[sig] == 0 {
				res.seenPerSig[sig]++
				res.Mismatches = append(res.Mismatches, Mismatch{Signature: sig,
					Msg:      fmt.Sprintf("GET %s: %d items stored for the request, exactly 10000 returned with status success (LIMIT 10000 of the statement; nothing tells the client that the answer is incomplete)", p.path, n),
					Concrete: fmt.Sprintf("%d series {__name__=x06_big | app=x06_big, idx=i00000..} per signal, one sample / line each on day 1", n),
					Request:  sent{Method: "GET", Path: p.path, Params: p.q}, Expected: Canon{Set: []string{fmt.Sprintf("<%d items>", n)}, Dups: []string{}},
					Predicted: Canon{Set: []string{"<10000 items>"}, Dups: []string{}}, Observed: Canon{Set: []string{fmt.Sprintf("<%d items>", distinct)}, Dups: []string{}},
					Status: code, Raw: clip(body, 200), SQL: sql})
			}
		default:
			sig := "unexplained|" + p.api + "|" + p.ep + "|big"
			res.MismatchCounts[sig]++
			res.Mismatches = append(res.Mismatches, Mismatch{Signature: sig, Msg: fmt.Sprintf("GET %s: %d items stored, %d distinct returned (status %d, %s)", p.path, n, distinct, code, kind),
				Request: sent{Method: "GET", Path: p.path, Params: p.q}, Status: code, Raw: clip(body, 300), SQL: sql})
		}
	}
	// ---- side observations (not part of the verdict)
	if err := x.reset(); err == nil {
		body := fmt.Sprintf(`{"streams":[{"stream":{"app":"a1","env":"prod"},"values":[["%d","l"]]},{"stream":{"app":"a2","env":"dev"},"values":[["%d","l"]]}]}`, dayNoon(1)*1e9, dayNoon(1)*1e9)
		x.W.Push("POST", "/loki/api/v1/push", "application/json", []byte(body), nil)
		rw := &prompb.WriteRequest{Timeseries: []*prompb.TimeSeries{{Labels: []*prompb.Label{{Name: "__name__", Value: "up"}, {Name: "job", Value: "j"}},
			Samples: []*prompb.Sample{{Value: 1, Timestamp: dayNoon(1) * 1000}}}}}
		raw, _ := proto.Marshal(rw)
		x.W.Push("POST", "/api/v1/prom/remote/write", "application/x-protobuf", snappy.Encode(nil, raw), nil)
		obsv := func(path string, q url.Values) string {
			code, body := x.W.Get(path + "?" + q.Encode())
			return fmt.Sprintf("%d %s", code, clip(body, 200))
		}
		res.Aux["loki label values with the stream selector in `query` (the parameter Loki documents; qryn reads match[]); {env=\"prod\"} should leave a1"] =
			obsv("/loki/api/v1/label/app/values", with(lw(), "query", `{env="prod"}`))
		res.Aux["prometheus /api/v1/series without match[] (Prometheus answers 400)"] = obsv("/api/v1/series", pw())
		res.Aux["prometheus /api/v1/labels with start/end as float seconds (a format Prometheus accepts)"] =
			obsv("/api/v1/labels", url.Values{"start": {fmt.Sprintf("%d.5", dayNoon(1)-3600)}, "end": {fmt.Sprintf("%d.5", dayNoon(1)+3600)}})
		res.Aux["prometheus label values with a selector that matches the empty string only ({job=\"\"}; Prometheus answers 400)"] =
			obsv("/api/v1/label/job/values", with(pw(), "match[]", `{job=""}`))
		x.W.Bridge.Drain()
	}
	return writeResult(outPath, res)
}

package main

import (
	"encoding/json"
	"fmt"
	"sort"
	"strings"
)

func sigOf(q string, rq *Req) string {
	if q == "label_absent" {
		// the root cause C07 / C08 / C17 carry as known finding (selector:label-absent-from-stream, select|prom|missing|<op>)
		return "label-absent|" + rq.Api + "|" + rq.Ep
	}
	return "as-coded|" + q + "|" + rq.Api + "|" + rq.Ep
}

func diffKind(exp, obs Canon) string {
	if obs.Err != exp.Err {
		if obs.Err {
			return "error"
		}
		return "answered"
	}
	es, os_ := map[string]bool{}, map[string]bool{}
	for _, s := range exp.Set {
		es[s] = true
	}
	for _, s := range obs.Set {
		os_[s] = true
	}
	missing, extra := 0, 0
	for s := range es {
		if !os_[s] {
			missing++
		}
	}
	for s := range os_ {
		if !es[s] {
			extra++
		}
	}
	var k []string
	if missing > 0 {
		k = append(k, "missing")
	}
	if extra > 0 {
		k = append(k, "extra")
	}
	if len(k) == 0 && strings.Join(exp.Dups, "\x00") != strings.Join(obs.Dups, "\x00") {
		k = append(k, "duplicates")
	}
	if len(k) == 0 {
		k = append(k, "other")
	}
	return strings.Join(k, "+")
}

func (x *world) sqlOfLastRequest() []string {
	var out []string
	for _, e := range x.W.Bridge.Drain() {
		s := clip(e.SQL, 1500)
		if e.Err != nil {
			s = "ERROR " + e.Err.Error() + " :: " + s
		}
		out = append(out, s)
	}
	return out
}

func (x *world) runDatabase(res *Result, group []*Case, seed int64) {
	c0 := group[0]
	dbk, _ := json.Marshal(c0.Db)
	r := rng(seed, c0.Cfg+string(dbk))
	k := concretise(r, c0)
	res.Databases++
	if err := x.reset(); err != nil {
		res.infra("reset: %v", err)
		res.Cases += len(group)
		return
	}
	plans, err := x.push(res, k, c0.Db)
	concrete := map[string]any{"concretisation": k, "label_documents_pushed": plans}
	if err != nil {
		res.infra("push of %s: %v", string(dbk), err)
		res.Cases += len(group)
		return
	}
	// classes of the database
	res.Classes[fmt.Sprintf("db_of_%d_series", len(c0.Db))]++
	res.Classes["names_"+k.NameClass]++
	res.Classes["values_"+k.ValClass]++
	carried := map[string]bool{}
	byLs := map[int]map[int]bool{}
	for i := range c0.Db {
		s := &c0.Db[i]
		res.Classes[fmt.Sprintf("series_of_type_%d", s.Tp)]++
		if s.Flip == 1 {
			res.Classes["series_with_two_key_orders"]++
		}
		if len(s.Days) == 2 {
			res.Classes["series_on_both_days"]++
		}
		var ck []string
		for a, v := range s.Ls {
			if v == "" {
				res.Classes["series_with_empty_valued_label"]++
			}
			if v != "#" {
				ck = append(ck, a)
				if a == "n" {
					res.Classes["series_with___name__"]++
				}
			}
		}
		sort.Strings(ck)
		carried[strings.Join(ck, ",")] = true
		if byLs[s.L] == nil {
			byLs[s.L] = map[int]bool{}
		}
		byLs[s.L][s.Tp] = true
	}
	if len(carried) > 1 {
		res.Classes["db_with_a_label_on_some_series_only"]++
	}
	for _, tps := range byLs {
		if len(tps) > 1 {
			res.Classes["db_with_one_label_set_under_two_types"]++
		}
	}
	x.W.Bridge.Drain()
	for _, c := range group {
		res.Cases++
		x.runCase(res, r.Int63(), k, concrete, c)
	}
	if len(x.W.Bridge.Unsupported) > 0 {
		res.infra("chsql cannot run: %.400s", x.W.Bridge.Unsupported[0])
		x.W.Bridge.Unsupported = nil
	}
}

func (x *world) runCase(res *Result, sub int64, k *conc, concrete any, c *Case) {
	rq := &c.Req
	r := rng(sub, "case")
	exp, err := k.canon(c, c.Def)
	if err != nil {
		res.infra("definition's answer: %v", err)
		return
	}
	coded, err := k.canon(c, c.Coded)
	if err != nil {
		res.infra("as-coded answer: %v", err)
		return
	}
	st, code, body := x.send(r, k, rq)
	obs, kind := observe(rq.Ep, code, body)
	method := strings.ToLower(st.Method)
	res.Requests[rq.Api+"/"+rq.Ep+"/"+method]++
	// classes of the request
	res.Classes["ep_"+rq.Api+"_"+rq.Ep]++
	res.Classes[fmt.Sprintf("window_%d_%d", rq.From, rq.To)]++
	res.Classes[fmt.Sprintf("request_with_%d_selectors", len(rq.Sels))]++
	for i, sel := range rq.Sels {
		if len(sel.Ms) > 1 {
			res.Classes["selector_with_two_matchers"]++
		}
		for _, m := range sel.Ms {
			res.Classes["matcher_"+m.Op]++
		}
		if i < len(st.Forms) {
			res.Classes["selector_form_"+st.Forms[i]]++
		}
	}
	if len(exp.Set) > 1 {
		res.Classes["expected_answer_with_several_items"]++
	}
	if len(exp.Set) > 0 || len(c.Fired) > 0 {
		res.distinctNontrivial[exp.key()+"|"+st.Path+"|"+st.Params.Encode()] = true
	}
	predicted := map[string]bool{}
	for _, q := range c.Fired {
		predicted[q] = true
	}
	for _, q := range c.Mutfired {
		predicted[q] = true
	}
	for _, q := range c.Fired2 {
		predicted[q] = true
	}
	for _, q := range c.Mutfired2 {
		predicted[q] = true
	}
	for q := range predicted {
		res.FiredCases[q]++
	}
	if len(predicted) > 0 {
		res.Classes["cases_where_a_quirk_fires"]++
	}
	if res.Sample == nil && len(exp.Set) > 0 && len(rq.Sels) > 0 {
		res.Sample = map[string]any{"abstract": c, "concrete_database": concrete, "request": st, "status": code, "answer": clip(body, 600), "expected": exp}
	}
	if kind == "" && obs.key() == exp.key() {
		res.EqualDef++
		for q := range predicted {
			res.FiredSilent[q]++
		}
		x.W.Bridge.Drain()
		return
	}
	report := func(sig, msg string, pred Canon) {
		res.MismatchCounts[sig]++
		mm := Mismatch{Signature: sig, Msg: msg, Abstract: c, Concrete: concrete, Request: st, Expected: exp,
			Predicted: pred, Observed: obs, Status: code, Raw: clip(body, 1200)}
		if res.seenPerSig[sig] >= 2 {
			// keep two examples per signature; one in which the definition expects something is worth more than one in which it expects nothing
			if len(exp.Set) == 0 {
				return
			}
			for i := range res.Mismatches {
				if res.Mismatches[i].Signature == sig && len(res.Mismatches[i].Expected.Set) == 0 {
					mm.SQL = x.sqlOfLastRequest()
					res.Mismatches[i] = mm
					return
				}
			}
			return
		}
		res.seenPerSig[sig]++
		mm.SQL = x.sqlOfLastRequest()
		res.Mismatches = append(res.Mismatches, mm)
	}
	try := func(a []Ans, fired []string) bool {
		if len(a) == 0 {
			return false
		}
		p, err := k.canon(c, a[0])
		if err != nil || kind != "" || p.key() != obs.key() || len(fired) == 0 {
			return false
		}
		for _, q := range fired {
			res.FiredObserved[q]++
			report(sigOf(q, rq), fmt.Sprintf("%s %s answers as the mechanism with the quirk %q predicts, not what the definition says (%s)", st.Method, st.Path, q, diffKind(exp, obs)), p)
		}
		return true
	}
	switch {
	case try([]Ans{c.Coded}, c.Fired):
	case try(c.Coded2, c.Fired2):
	case try(c.Mut, c.Mutfired):
	case try(c.Mut2, c.Mutfired2):
	default:
		dk := diffKind(exp, obs)
		if kind != "" {
			dk = kind
		}
		report("unexplained|"+rq.Api+"|"+rq.Ep+"|"+dk, fmt.Sprintf("%s %s: the answer is neither the definition's nor the as-coded mechanism's (%s)", st.Method, st.Path, dk), coded)
	}
	x.W.Bridge.Drain()
}

package main

import (
	"fmt"
	"net/http/httptest"
	"net/url"
	"os"
	"strings"

	"github.com/golang/snappy"
	"github.com/metrico/qryn/writer/utils/proto/prompb"
	"google.golang.org/protobuf/proto"
	"verif/harness/e2e"
)

func probe() {
	w, err := e2e.New(e2e.Options{IntervalMs: 1})
	if err != nil {
		panic(err)
	}
	defer w.Close()
	d1 := int64(1699920000 + 12*3600)
	d2 := d1 + 86400
	body := fmt.Sprintf(`{"streams":[{"stream":{"app":"a1","env":"prod"},"values":[["%d","l1"]]},{"stream":{"env":"prod","app":"a1"},"values":[["%d","l1"]]},{"stream":{"app":"a2","e":""},"values":[["%d","l2"],["%d","l3"]]},{"stream":{"both":"b"},"values":[["%d","l2",1.5]]}]}`,
		d1*1e9, d2*1e9, d1*1e9, d2*1e9, d1*1e9)
	code, resp := w.Push("POST", "/loki/api/v1/push", "application/json", []byte(body), nil)
	fmt.Fprintln(os.Stderr, "push", code, resp, w.StoreErr)
	req := &prompb.WriteRequest{Timeseries: []*prompb.TimeSeries{
		{Labels: []*prompb.Label{{Name: "__name__", Value: "up"}, {Name: "job", Value: "j1"}}, Samples: []*prompb.Sample{{Value: 1, Timestamp: d1 * 1000}}},
		{Labels: []*prompb.Label{{Name: "__name__", Value: "job:rate5m"}, {Name: "job", Value: "j2"}, {Name: "app", Value: "a1"}}, Samples: []*prompb.Sample{{Value: 1, Timestamp: d1 * 1000}}},
	}}
	raw, _ := proto.Marshal(req)
	code, resp = w.Push("POST", "/api/v1/prom/remote/write", "application/x-protobuf", snappy.Encode(nil, raw), nil)
	fmt.Fprintln(os.Stderr, "rw", code, resp, w.StoreErr)
	w.Settle()
	fmt.Fprintln(os.Stderr, w.Store.Counts)
	res, err := w.Store.DB.Query("SELECT date, fingerprint, type, labels FROM time_series ORDER BY date, fingerprint")
	fmt.Fprintln(os.Stderr, res, err)
	res, err = w.Store.DB.Query("SELECT date, key, val, fingerprint, type FROM time_series_gin ORDER BY date, fingerprint")
	fmt.Fprintln(os.Stderr, res, err)
	w.Bridge.Drain()
	get := func(path string, q url.Values) {
		code, resp := w.Get(path + "?" + q.Encode())
		fmt.Fprintln(os.Stderr, "GET", path, q, "->", code, resp)
		for _, e := range w.Bridge.Drain() {
			fmt.Fprintln(os.Stderr, "   SQL:", e.Err, e.SQL)
		}
	}
	post := func(path string, q url.Values) {
		r := httptest.NewRequest("POST", path, strings.NewReader(q.Encode()))
		r.Header.Set("Content-Type", "application/x-www-form-urlencoded")
		code, resp := w.Do(r)
		fmt.Fprintln(os.Stderr, "POST", path, q, "->", code, resp)
		for _, e := range w.Bridge.Drain() {
			fmt.Fprintln(os.Stderr, "   SQL:", e.Err, e.SQL)
		}
	}
	lw := url.Values{"start": {fmt.Sprint((d1 - 3600) * 1e9)}, "end": {fmt.Sprint((d2 + 3600) * 1e9)}}
	pw := url.Values{"start": {fmt.Sprint(d1 - 3600)}, "end": {fmt.Sprint(d2 + 3600)}}
	with := func(b url.Values, k string, v ...string) url.Values {
		o := url.Values{}
		for kk, vv := range b {
			o[kk] = vv
		}
		o[k] = v
		return o
	}
	get("/loki/api/v1/labels", lw)
	get("/loki/api/v1/label", lw)
	post("/loki/api/v1/labels", lw)
	get("/loki/api/v1/label/app/values", lw)
	get("/loki/api/v1/label/e/values", lw)
	get("/loki/api/v1/label/app/values", with(lw, "match[]", `{env="prod"}`))
	get("/loki/api/v1/label/app/values", with(lw, "match[]", `{env="prod"}`, `{e=""}`))
	post("/loki/api/v1/label/app/values", with(lw, "match[]", `{env="prod"}`))
	get("/loki/api/v1/series", with(lw, "match[]", `{env="prod"}`))
	get("/loki/api/v1/series", with(lw, "match[]", `{app=~"a.*"}`, `{both="b"}`))
	post("/loki/api/v1/series", with(lw, "match[]", `{env="prod"}`))
	get("/loki/api/v1/series", lw)
	get("/api/v1/labels", pw)
	get("/api/v1/labels", with(pw, "match[]", `up`))
	post("/api/v1/labels", pw)
	post("/api/v1/labels", with(pw, "match[]", `up`))
	get("/api/v1/label/job/values", pw)
	get("/api/v1/label/__name__/values", pw)
	get("/api/v1/label/job/values", with(pw, "match[]", `up`))
	get("/api/v1/label/job/values", with(pw, "match[]", `job:rate5m`))
	get("/api/v1/label/job/values", with(pw, "match[]", `{app="a1"}`, `up{job=~"j.*"}`))
	get("/api/v1/series", with(pw, "match[]", `up`))
	get("/api/v1/series", with(pw, "match[]", `up{}`))
	get("/api/v1/series", with(pw, "match[]", `job:rate5m`))
	get("/api/v1/series", with(pw, "match[]", `{__name__="job:rate5m"}`))
	get("/api/v1/series", with(pw, "match[]", `up{job="j1"}`, `{app="a1"}`))
	get("/api/v1/series", with(pw, "match[]", `{both="b"}`))
	post("/api/v1/series", with(pw, "match[]", `up`))
	get("/api/v1/series", pw)
	fmt.Fprintln(os.Stderr, "unsupported:", w.Bridge.Unsupported)
}

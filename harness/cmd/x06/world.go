package main

import (
	"encoding/json"
	"fmt"
	"math/rand"
	"net/http/httptest"
	"net/url"
	"os"
	"reflect"
	"sort"
	"strconv"
	"strings"
	"time"
	"unsafe"

	"github.com/VictoriaMetrics/fastcache"
	"github.com/golang/snappy"
	"github.com/metrico/qryn/writer/plugin"
	"github.com/metrico/qryn/writer/utils/numbercache"
	"github.com/metrico/qryn/writer/utils/proto/logproto"
	"github.com/metrico/qryn/writer/utils/proto/prompb"
	"google.golang.org/protobuf/proto"
	"verif/harness/e2e"
)

const day0 = int64(1699920000) // 2023-11-14T00:00:00Z = day 1

func dayNoon(d int) int64 { return day0 + int64(d-1)*86400 + 12*3600 }

type world struct {
	W *e2e.World
}

func newWorld() (*world, error) {
	// X06_CLUSTER=<name>: the reader believes it talks to a cluster (the statements name the *_dist tables)
	w, err := e2e.New(e2e.Options{IntervalMs: 1, Cluster: os.Getenv("X06_CLUSTER")})
	if err != nil {
		return nil, err
	}
	return &world{W: w}, nil
}

func (x *world) close() { x.W.Close() }

// resetCache empties the writer's (day, fingerprint, type) cache: what the 30-minute cleanup of numbercache does.
func resetCache() error {
	c, ok := plugin.GoCache.(*numbercache.Cache[uint64])
	if !ok {
		return fmt.Errorf("unexpected cache type %T", plugin.GoCache)
	}
	f := reflect.ValueOf(c).Elem().FieldByName("sets")
	if !f.IsValid() {
		return fmt.Errorf("numbercache.Cache has no field sets")
	}
	sets := *(**fastcache.Cache)(unsafe.Pointer(f.UnsafeAddr()))
	sets.Reset()
	return nil
}

func (x *world) reset() error {
	for _, t := range []string{"time_series", "time_series_gin", "samples_v3", "metrics_15s"} {
		if err := x.W.Store.DB.Truncate(t); err != nil {
			return err
		}
	}
	x.W.Bridge.Drain()
	x.W.Bridge.Unsupported = nil
	x.W.SQL.Drain()
	x.W.StoreErr = nil
	return resetCache()
}

func (x *world) count(table string) (int, error) {
	res, err := x.W.Store.DB.Query("SELECT count() FROM " + table)
	if err != nil {
		return 0, err
	}
	if len(res.Rows) != 1 || len(res.Rows[0]) != 1 {
		return 0, fmt.Errorf("count(%s): unexpected shape", table)
	}
	n, err := strconv.Atoi(fmt.Sprint(res.Rows[0][0]))
	return n, err
}

// ---- pushes

func jsonObject(keys, vals []string) string {
	var b strings.Builder
	b.WriteByte('{')
	for i := range keys {
		if i > 0 {
			b.WriteByte(',')
		}
		kk, _ := json.Marshal(keys[i])
		vv, _ := json.Marshal(vals[i])
		b.Write(kk)
		b.WriteByte(':')
		b.Write(vv)
	}
	b.WriteByte('}')
	return b.String()
}

type docPlan struct {
	Series int      `json:"series"`
	Days   []int    `json:"days"`
	Keys   []string `json:"pushed_keys"`
	Vals   []string `json:"pushed_values"`
	Via    string   `json:"via"`
}

// push stores the database through the real writer routes; returns the label documents pushed
func (x *world) push(res *Result, k *conc, db []Series) ([]docPlan, error) {
	var plans []docPlan
	for i := range db {
		s := &db[i]
		groups := [][]int{s.Days}
		revs := []bool{false}
		if s.Flip == 1 && len(s.Days) == 2 {
			groups = [][]int{{s.Days[0]}, {s.Days[1]}}
			revs = []bool{false, true}
		}
		for g := range groups {
			p := docPlan{Series: i, Days: groups[g]}
			for _, a := range k.keys(s, revs[g]) {
				p.Keys = append(p.Keys, k.Pushed[a])
				p.Vals = append(p.Vals, k.ValPush[s.Ls[a]])
			}
			plans = append(plans, p)
		}
	}
	var streams []string
	pb := &logproto.PushRequest{}
	rw := &prompb.WriteRequest{}
	for pi := range plans {
		p := &plans[pi]
		s := &db[p.Series]
		switch {
		case s.Tp == 2:
			p.Via = "remote_write"
			ts := &prompb.TimeSeries{}
			for j := range p.Keys {
				ts.Labels = append(ts.Labels, &prompb.Label{Name: p.Keys[j], Value: p.Vals[j]})
			}
			for _, d := range p.Days {
				ts.Samples = append(ts.Samples, &prompb.Sample{Value: float64(p.Series + 1), Timestamp: (dayNoon(d) + int64(p.Series)) * 1000})
			}
			rw.Timeseries = append(rw.Timeseries, ts)
		case s.Tp == 1 && k.LokiProto:
			p.Via = "loki_protobuf"
			var lp []string
			for j := range p.Keys {
				lp = append(lp, p.Keys[j]+"="+strconv.Quote(p.Vals[j]))
			}
			st := &logproto.StreamAdapter{Labels: "{" + strings.Join(lp, ", ") + "}"}
			for _, d := range p.Days {
				st.Entries = append(st.Entries, &logproto.EntryAdapter{Timestamp: &logproto.Timestamp{Seconds: dayNoon(d) + int64(p.Series)}, Line: fmt.Sprintf("line s%d d%d", p.Series, d)})
			}
			pb.Streams = append(pb.Streams, st)
		default:
			p.Via = "loki_json"
			var vals []string
			for _, d := range p.Days {
				if s.Tp == 0 {
					// a log line AND a number: the entry belongs to both signals (type 0)
					vals = append(vals, fmt.Sprintf(`["%d","line s%d d%d",%d.5]`, (dayNoon(d)+int64(p.Series))*1e9, p.Series, d, p.Series))
				} else {
					vals = append(vals, fmt.Sprintf(`["%d","line s%d d%d"]`, (dayNoon(d)+int64(p.Series))*1e9, p.Series, d))
				}
			}
			streams = append(streams, fmt.Sprintf(`{"stream":%s,"values":[%s]}`, jsonObject(p.Keys, p.Vals), strings.Join(vals, ",")))
		}
	}
	if len(streams) > 0 {
		code, body := x.W.Push("POST", "/loki/api/v1/push", "application/json", []byte(`{"streams":[`+strings.Join(streams, ",")+`]}`), nil)
		res.Pushes["loki_json"]++
		if code/100 != 2 {
			return plans, fmt.Errorf("loki json push refused: %d %s", code, clip(body, 300))
		}
	}
	if len(pb.Streams) > 0 {
		raw, err := proto.Marshal(pb)
		if err != nil {
			return plans, err
		}
		code, body := x.W.Push("POST", "/loki/api/v1/push", "application/x-protobuf", snappy.Encode(nil, raw), nil)
		res.Pushes["loki_protobuf"]++
		if code/100 != 2 {
			return plans, fmt.Errorf("loki protobuf push refused: %d %s", code, clip(body, 300))
		}
	}
	if len(rw.Timeseries) > 0 {
		raw, err := proto.Marshal(rw)
		if err != nil {
			return plans, err
		}
		code, body := x.W.Push("POST", "/api/v1/prom/remote/write", "application/x-protobuf", snappy.Encode(nil, raw), nil)
		res.Pushes["remote_write"]++
		if code/100 != 2 {
			return plans, fmt.Errorf("remote write refused: %d %s", code, clip(body, 300))
		}
	}
	// every (series, day) has its time_series row (the INSERTs are awaited by the routes; stragglers get 5 s).  Fewer rows
	// than pushed is behaviour of the real writer: the requests are asked all the same and speak for themselves.
	want := 0
	for i := range db {
		want += len(db[i].Days)
	}
	wait := 5 * time.Second
	if res.Classes["db_with_fewer_time_series_rows_than_pushed"] > 0 {
		wait = 500 * time.Millisecond
	}
	deadline := time.Now().Add(wait)
	for {
		n, err := x.count("time_series")
		if err != nil {
			return plans, err
		}
		if n == want {
			break
		}
		if n > want {
			return plans, fmt.Errorf("time_series has %d rows, the database needs %d (store errors: %v)", n, want, x.W.StoreErr)
		}
		if time.Now().After(deadline) {
			res.Classes["db_with_fewer_time_series_rows_than_pushed"]++
			break
		}
		time.Sleep(time.Millisecond)
	}
	if len(x.W.StoreErr) > 0 {
		return plans, fmt.Errorf("store errors: %v", x.W.StoreErr)
	}
	return plans, nil
}

// ---- requests

type sent struct {
	Method string     `json:"method"`
	Path   string     `json:"path"`
	Params url.Values `json:"params"`
	Forms  []string   `json:"selector_forms,omitempty"`
}

func window(api string, r *rand.Rand, from, to int) (string, string) {
	s, e := dayNoon(from)-2*3600, dayNoon(to)+2*3600
	if api == "loki" {
		return strconv.FormatInt(s*1e9, 10), strconv.FormatInt(e*1e9, 10)
	}
	return strconv.FormatInt(s, 10), strconv.FormatInt(e, 10)
}

func (x *world) send(r *rand.Rand, k *conc, rq *Req) (sent, int, string) {
	q := url.Values{}
	st := sent{Method: "GET"}
	start, end := window(rq.Api, r, rq.From, rq.To)
	q.Set("start", start)
	q.Set("end", end)
	if rq.Api == "prom" && rq.Ep != "values" && r.Intn(3) == 0 {
		// /api/v1/labels and /api/v1/series also take RFC 3339
		s, _ := strconv.ParseInt(start, 10, 64)
		e, _ := strconv.ParseInt(end, 10, 64)
		q.Set("start", time.Unix(s, 0).UTC().Format(time.RFC3339))
		q.Set("end", time.Unix(e, 0).UTC().Format(time.RFC3339))
	}
	for _, sel := range rq.Sels {
		txt, form := k.selector(r, rq.Api, sel)
		q.Add("match[]", txt)
		st.Forms = append(st.Forms, form)
	}
	name := ""
	if rq.Ep == "values" {
		if rq.Name == "z" {
			name = k.ZName
		} else {
			name = k.Stored[rq.Name]
		}
	}
	switch rq.Api + "/" + rq.Ep {
	case "loki/labels":
		st.Path = "/loki/api/v1/labels"
		if r.Intn(3) == 0 {
			st.Path = "/loki/api/v1/label"
		}
	case "loki/values":
		st.Path = "/loki/api/v1/label/" + url.PathEscape(name) + "/values"
	case "loki/series":
		st.Path = "/loki/api/v1/series"
	case "prom/labels":
		st.Path = "/api/v1/labels"
	case "prom/values":
		st.Path = "/api/v1/label/" + url.PathEscape(name) + "/values"
	case "prom/series":
		st.Path = "/api/v1/series"
	}
	st.Params = q
	if rq.Post {
		st.Method = "POST"
		hr := httptest.NewRequest("POST", st.Path, strings.NewReader(q.Encode()))
		hr.Header.Set("Content-Type", "application/x-www-form-urlencoded")
		code, body := x.W.Do(hr)
		return st, code, body
	}
	code, body := x.W.Get(st.Path + "?" + q.Encode())
	return st, code, body
}

// observe: the answer in comparable form; kind != "" when the body is not what the API promises
func observe(ep string, code int, body string) (Canon, string) {
	out := Canon{Set: []string{}, Dups: []string{}}
	if code != 200 {
		out.Err = true
		return out, ""
	}
	var doc struct {
		Status string            `json:"status"`
		Data   []json.RawMessage `json:"data"`
	}
	if err := json.Unmarshal([]byte(body), &doc); err != nil {
		out.Err = true
		return out, "malformed"
	}
	if doc.Status != "success" {
		out.Err = true
		return out, ""
	}
	seen := map[string]int{}
	for _, raw := range doc.Data {
		var item string
		if ep == "series" {
			m := map[string]string{}
			if err := json.Unmarshal(raw, &m); err != nil {
				out.Err = true
				return out, "malformed"
			}
			item = canonLabels(m)
		} else {
			if err := json.Unmarshal(raw, &item); err != nil {
				out.Err = true
				return out, "malformed"
			}
		}
		seen[item]++
	}
	for it, n := range seen {
		out.Set = append(out.Set, it)
		if n > 1 {
			out.Dups = append(out.Dups, it)
		}
	}
	sort.Strings(out.Set)
	sort.Strings(out.Dups)
	return out, ""
}

// c06 binds spec/ingest/Spans.tla to the real span path of qryn: every case exported by TLC (abstract request body, what
// the property statement demands per span, what the transcribed mechanism stores and reads back) is concretised into a
// real OTLP protobuf / Zipkin JSON (array or newline-delimited) body with hostile strings and real ids / epoch times,
// pushed through the REAL writer routes (/v1/traces, /tempo/spans, /api/v2/spans, /tempo/api/push -> the exported
// parsers -> the real tempo insert services -> store with the real DDL), read back through the REAL reader route
// /api/traces/{id} (JSON and protobuf), and the stored rows and the read-back spans are compared with the spec.
//
//	c06 run   -cases f.ndjson -out result.json -seed N [-workers K]   parent: splits the cases over child processes
//	c06 child -cases chunk.ndjson -out chunk.out -seed N              one World; a crash of the process is an observation
package main

import (
	"bufio"
	"bytes"
	"encoding/hex"
	"encoding/json"
	"flag"
	"fmt"
	"hash/fnv"
	"math"
	"math/rand"
	"net/http/httptest"
	"os"
	"os/exec"
	"sort"
	"strconv"
	"strings"
	"sync"
	"unicode/utf8"

	commonpb "go.opentelemetry.io/proto/otlp/common/v1"
	respb "go.opentelemetry.io/proto/otlp/resource/v1"
	tracepb "go.opentelemetry.io/proto/otlp/trace/v1"
	"google.golang.org/protobuf/proto"
	"verif/harness/e2e"
)

// ---------------------------------------------------------------------------------------------------------------
// the exported case (see MC_Spans!CaseRec)

type AV struct {
	T  string `json:"t"`
	A  string `json:"a"`
	E  []AV   `json:"e"`
	KV []KV   `json:"kv"`
}
type KV struct {
	K string `json:"k"`
	V AV     `json:"v"`
}
type TV struct {
	R string `json:"r"`
	A string `json:"a"`
}
type Tag struct {
	K   []string `json:"k"`
	V   TV       `json:"v"`
	Tid []string `json:"tid"`
	Sid []string `json:"sid"`
	Ts  int64    `json:"ts"`
	Dur int64    `json:"dur"`
}
type ZTag struct{ K, V string }
type ZSpan struct {
	Tid, Sid, Parent    []string
	Ts, Dur             int64
	Name, Local, Remote string
	Tags                []ZTag
	Order               []string
	Big                 int
}
type OSpan struct {
	Tid, Sid, Parent []string
	Start, End       int64
	Name             string
	Attrs            []KV
	Big              int
}
type Group struct {
	Rattrs []KV
	Scopes [][]OSpan
}
type Body struct {
	Proto, Framing, TsKind string
	Spell                  string // Zipkin: "padded" | "stripped" | "any" (the sampler decides) - how the ids are spelled on the wire
	Spans                  []ZSpan
	Groups                 []Group
}
type DefSpan struct {
	Tid, Sid, Parent  []string
	Name              string
	Ts, Dur           int64
	Svc               string
	SvcKnown          bool
	Required, Derived []Tag
	Attrs             []KV
}
type Row struct {
	Tid, Sid, Parent []string
	Name             string
	Ts, Dur          int64
	Svc              string
	Ptype            int
	Payload          int
}
type RSpan struct {
	Ok               bool
	Tid, Sid, Parent []string
	Name             string
	Start, End       int64
	Attrs            []KV
}
type RTrace struct {
	Tid   []string
	Spans []RSpan
}
type Mech struct {
	Rows      []Row
	Tags      []Tag
	Read      []RTrace
	Responses int
}
type Case struct {
	ID    string     `json:"id"`
	Cfg   string     `json:"cfg"`
	Body  Body       `json:"body"`
	N     int        `json:"n"`
	Def   []DefSpan  `json:"def"`
	Mech  Mech       `json:"mech"`
	Flags []string   `json:"flags"`
	Odd   [][]string `json:"odd"` // per Zipkin span: the id fields the spec says are written with an odd number of hex digits
}

// ---------------------------------------------------------------------------------------------------------------
// concretisation: abstract atoms -> hostile concrete values, seeded per case

var strPool = []string{
	`plain`, `he said "hi"`, `back\slash\\`, "tab\there", "new\nline", `üñîçødé`, `日本語のテキスト`, `emoji 😀🚀`, `'single' quotes`,
	`{"json":true,"a":[1,2]}`, `<b>&amp;</b>`, `null`, `%s %d %v`, ` leading and trailing `, "sep arator", `a,b;c|d`, `$(rm -rf) ` + "`x`",
	`0`, `true`, `1e3`, `ＦＵＬＬ`, "é́", `A literal`, `трасса`, "bell\u0007ctl\u001f", `x' OR '1'='1`, "\U0001F600\U0001F9D1‍\U0001F680",
}
var keyPool = []string{`k`, `http.method`, `db.statement`, `k"q`, `ключ`, `with space`, `x-y_z`, `a/b`, `k:v`, `键`, `q'k`, `back\k`, `π`}
var intPool = []int64{0, 1, -1, 42, 200, math.MaxInt64, math.MinInt64, 1700000000000, -9007199254740993, 65536}
var dblPool = []float64{1.5, -0.25, 3, 0, 123456.789, 1e-9, 2.5e15, -1e21, 0.1, 1.0 / 3.0, math.MaxFloat64, 5e-324}

type conc struct {
	rng      *rand.Rand
	salt     uint64
	tblocks  map[string]string // trace id block (16 hex digits)
	sblocks  map[string]string // span / parent id block (8 hex digits)
	strs     map[string]string
	baseUS   int64
	scale    int64
	strip0   bool                // strip leading zeros of short zipkin ids
	written  []map[string]string // per Zipkin span built: the id texts as written on the wire
	spell    string              // the spelling the case prescribes ("padded" / "stripped"), "" or "any": strip0 decides for short ids
	upperHex bool
	escUni   bool // \uXXXX-escape every non-ASCII rune in Zipkin JSON
	spaces   bool // insignificant white space in the Zipkin array framing
	route    int
}

func hash64(s string) uint64 { h := fnv.New64a(); h.Write([]byte(s)); return h.Sum64() }

func newConc(seed int64, id string) *conc {
	c := &conc{salt: hash64(id) ^ uint64(seed)*0x9E3779B97F4A7C15, tblocks: map[string]string{}, sblocks: map[string]string{}, strs: map[string]string{}}
	c.rng = rand.New(rand.NewSource(int64(c.salt)))
	c.baseUS = 1_600_000_000_000_000 + c.rng.Int63n(200_000_000_000_000)
	c.scale = []int64{1, 3, 1000, 999983, 60_000_000}[c.rng.Intn(5)]
	c.strip0 = c.rng.Intn(2) == 0
	c.upperHex = c.rng.Intn(8) == 0
	c.escUni = c.rng.Intn(3) == 0
	c.spaces = c.rng.Intn(3) == 0
	c.route = c.rng.Intn(3)
	return c
}

func (c *conc) block(m map[string]string, tok string, n int) string {
	if tok == "0" {
		return strings.Repeat("0", n)
	}
	if tok == "f" {
		return strings.Repeat("f", n)
	}
	if v, ok := m[tok]; ok {
		return v
	}
	r := rand.New(rand.NewSource(int64(c.salt ^ hash64(tok)*31 ^ uint64(n))))
	const hx = "0123456789abcdef"
	b := make([]byte, n)
	// a low block (Spans.tla LowBlocks): leading zero digits, an odd number (1, 3, .. n-1) of significant digits
	lead := 0
	if strings.HasPrefix(tok, "l") {
		lead = n - 1 - 2*r.Intn(n/2)
	}
	for {
		for i := range b {
			b[i] = hx[r.Intn(16)]
			if i < lead {
				b[i] = '0'
			}
		}
		if b[lead] == '0' || strings.Count(string(b), "f") == n {
			continue
		}
		dup := false
		for _, o := range m {
			if o == string(b) {
				dup = true
			}
		}
		if !dup {
			break
		}
	}
	m[tok] = string(b)
	return string(b)
}

// hexID: the hexadecimal text of an abstract id (as many blocks as the id has)
func (c *conc) hexID(id []string, trace bool) string {
	var sb strings.Builder
	for _, t := range id {
		if trace {
			sb.WriteString(c.block(c.tblocks, t, 16))
		} else {
			sb.WriteString(c.block(c.sblocks, t, 8))
		}
	}
	return sb.String()
}

// bytesID: the binary id of a full-width abstract id
func (c *conc) bytesID(id []string, trace bool) []byte {
	if len(id) == 0 {
		return nil
	}
	b, err := hex.DecodeString(c.hexID(id, trace))
	if err != nil {
		panic(err)
	}
	return b
}

// zipkinHex: the id as a Zipkin client may write it: short ids possibly without their leading zeros, possibly upper case
func (c *conc) zipkinHex(id []string, trace bool) string {
	h := c.hexID(id, trace)
	strip := len(id) < 2 && c.strip0
	switch c.spell {
	case "stripped":
		strip = true
	case "padded":
		strip = false
	}
	if strip {
		h = strings.TrimLeft(h, "0")
		if h == "" {
			h = "0"
		}
	}
	if c.upperHex {
		h = strings.ToUpper(h)
	}
	return h
}

func (c *conc) str(a string) string {
	if !strings.HasPrefix(a, "@") {
		return a
	}
	if v, ok := c.strs[a]; ok {
		return v
	}
	var v string
	r := rand.New(rand.NewSource(int64(c.salt ^ hash64(a))))
	switch {
	case strings.HasPrefix(a, "@B1"):
		v = longString(r, 70_000)
	case strings.HasPrefix(a, "@B2"):
		v = longString(r, 300_000)
	case strings.HasPrefix(a, "@k"), strings.HasPrefix(a, "@x"), strings.HasPrefix(a, "@y"), strings.HasPrefix(a, "@h"), strings.HasPrefix(a, "@r"):
		v = keyPool[r.Intn(len(keyPool))] + "~" + a[1:]
	default:
		v = strPool[r.Intn(len(strPool))] + "·" + a[1:]
	}
	c.strs[a] = v
	return v
}

func longString(r *rand.Rand, n int) string {
	var sb strings.Builder
	parts := []string{"lorem ", "ipsum\"", "dolor\\", "sit é", "amet 😀", "0123456789"}
	for sb.Len() < n {
		sb.WriteString(parts[r.Intn(len(parts))])
	}
	return sb.String()
}

func (c *conc) i64(a string) int64 {
	r := rand.New(rand.NewSource(int64(c.salt ^ hash64(a))))
	return intPool[r.Intn(len(intPool))]
}
func (c *conc) f64(a string) float64 {
	r := rand.New(rand.NewSource(int64(c.salt ^ hash64(a))))
	return dblPool[r.Intn(len(dblPool))]
}
func (c *conc) boolean(a string) bool {
	r := rand.New(rand.NewSource(int64(c.salt ^ hash64(a))))
	return r.Intn(2) == 0
}

// instants / durations: abstract ns -> concrete ns (abstract microsecond u of Zipkin = abstract ns 1000u)
func (c *conc) instant(n int64) int64   { return c.baseUS*1000 + n*c.scale }
func (c *conc) duration(n int64) int64  { return n * c.scale }
func (c *conc) micros(u int64) int64    { return c.baseUS + u*c.scale }
func (c *conc) microsDur(u int64) int64 { return u * c.scale }

func (c *conc) path(p []string) string {
	parts := make([]string, len(p))
	for i, s := range p {
		parts[i] = c.str(s)
	}
	return strings.Join(parts, ".")
}

func (c *conc) anyValue(v AV) *commonpb.AnyValue {
	switch v.T {
	case "str":
		return &commonpb.AnyValue{Value: &commonpb.AnyValue_StringValue{StringValue: c.str(v.A)}}
	case "int":
		return &commonpb.AnyValue{Value: &commonpb.AnyValue_IntValue{IntValue: c.i64(v.A)}}
	case "double":
		return &commonpb.AnyValue{Value: &commonpb.AnyValue_DoubleValue{DoubleValue: c.f64(v.A)}}
	case "bool":
		return &commonpb.AnyValue{Value: &commonpb.AnyValue_BoolValue{BoolValue: c.boolean(v.A)}}
	case "list":
		l := &commonpb.ArrayValue{}
		for _, e := range v.E {
			l.Values = append(l.Values, c.anyValue(e))
		}
		return &commonpb.AnyValue{Value: &commonpb.AnyValue_ArrayValue{ArrayValue: l}}
	case "map":
		m := &commonpb.KeyValueList{}
		for _, kv := range v.KV {
			m.Values = append(m.Values, &commonpb.KeyValue{Key: c.str(kv.K), Value: c.anyValue(kv.V)})
		}
		return &commonpb.AnyValue{Value: &commonpb.AnyValue_KvlistValue{KvlistValue: m}}
	}
	panic("unknown attribute kind " + v.T)
}

func (c *conc) keyValues(kvs []KV) []*commonpb.KeyValue {
	var out []*commonpb.KeyValue
	for _, kv := range kvs {
		out = append(out, &commonpb.KeyValue{Key: c.str(kv.K), Value: c.anyValue(kv.V)})
	}
	return out
}

// the rendering of a tag-index value the spec names by r
func (c *conc) tagValue(v TV) (string, bool) {
	switch v.R {
	case "str":
		return c.str(v.A), true
	case "bool":
		return strconv.FormatBool(c.boolean(v.A)), true
	case "int":
		return strconv.FormatInt(c.i64(v.A), 10), true
	case "f6":
		return fmt.Sprintf("%f", c.f64(v.A)), true
	case "f": // any faithful decimal rendering: compared numerically
		return "", false
	}
	panic("unknown rendering " + v.R)
}

// ---------------------------------------------------------------------------------------------------------------
// bodies

func (c *conc) jsonStr(s string) string {
	var buf bytes.Buffer
	enc := json.NewEncoder(&buf)
	enc.SetEscapeHTML(false)
	if err := enc.Encode(s); err != nil {
		panic(err)
	}
	out := strings.TrimRight(buf.String(), "\n")
	if !c.escUni {
		return out
	}
	var sb strings.Builder
	for _, r := range out {
		if r < 0x80 {
			sb.WriteRune(r)
		} else if r >= 0x10000 {
			r -= 0x10000
			fmt.Fprintf(&sb, `\u%04x\u%04x`, 0xd800+(r>>10), 0xdc00+(r&0x3ff))
		} else {
			fmt.Fprintf(&sb, `\u%04x`, r)
		}
	}
	return sb.String()
}

func (c *conc) zipkinSpanJSON(s ZSpan, tsKind string) string {
	num := func(n int64) string {
		if tsKind == "string" {
			return `"` + strconv.FormatInt(n, 10) + `"`
		}
		return strconv.FormatInt(n, 10)
	}
	ep := func(e string) string {
		if e == "~" {
			return `{}`
		}
		return `{"serviceName":` + c.jsonStr(c.str(e)) + `}`
	}
	var parts []string
	ids := map[string]string{}
	c.written = append(c.written, ids)
	for _, k := range s.Order {
		var v string
		switch k {
		case "traceId", "id", "parentId":
			id, trace := s.Tid, true
			if k == "id" {
				id, trace = s.Sid, false
			} else if k == "parentId" {
				id, trace = s.Parent, false
			}
			ids[k] = c.zipkinHex(id, trace)
			v = `"` + ids[k] + `"`
		case "timestamp":
			v = num(c.micros(s.Ts))
		case "duration":
			v = num(c.microsDur(s.Dur))
		case "name":
			v = c.jsonStr(c.str(s.Name))
		case "localEndpoint":
			v = ep(s.Local)
		case "remoteEndpoint":
			v = ep(s.Remote)
		case "tags":
			var ts []string
			for _, t := range s.Tags {
				ts = append(ts, c.jsonStr(c.str(t.K))+":"+c.jsonStr(c.str(t.V)))
			}
			v = "{" + strings.Join(ts, ",") + "}"
		default:
			panic("unknown zipkin key " + k)
		}
		parts = append(parts, `"`+k+`":`+v)
	}
	return "{" + strings.Join(parts, ",") + "}"
}

type request struct {
	Path, ContentType string
	Body              []byte
	SpanJSON          []string // zipkin: the raw text of each span object
}

var zipkinRoutes = []string{"/tempo/spans", "/api/v2/spans", "/tempo/api/push"}

// spellingCheck: a body with a prescribed spelling was written the way Spans.tla says (OddFields): exactly the id fields the
// spec lists have an odd number of hex digits
func (c *conc) spellingCheck(cs *Case) string {
	if cs.Body.Proto != "zipkin" || (cs.Body.Spell != "padded" && cs.Body.Spell != "stripped") {
		return ""
	}
	for n, ids := range c.written {
		want := map[string]bool{}
		if n < len(cs.Odd) {
			for _, f := range cs.Odd[n] {
				want[f] = true
			}
		}
		for f, txt := range ids {
			if (len(txt)%2 == 1) != want[f] {
				return fmt.Sprintf("binding: span %d %s written as %q, Spans.tla OddFields says odd=%v", n+1, f, txt, want[f])
			}
		}
	}
	return ""
}

func (c *conc) build(b Body) request {
	if b.Proto == "zipkin" {
		c.spell = b.Spell
		var spans []string
		for _, s := range b.Spans {
			spans = append(spans, c.zipkinSpanJSON(s, b.TsKind))
		}
		r := request{Path: zipkinRoutes[c.route], SpanJSON: spans}
		if b.Framing == "array" {
			r.ContentType = "application/json"
			if c.spaces {
				r.Body = []byte(" [ " + strings.Join(spans, " ,\n ") + " ]\n")
			} else {
				r.Body = []byte("[" + strings.Join(spans, ",") + "]")
			}
		} else {
			r.ContentType = "ndjson" // PusherCtx.DoParse: strings.HasPrefix(contentType, "ndjson")
			r.Body = []byte(strings.Join(spans, "\n") + "\n")
		}
		return r
	}
	td := &tracepb.TracesData{}
	for _, g := range b.Groups {
		rs := &tracepb.ResourceSpans{Resource: &respb.Resource{Attributes: c.keyValues(g.Rattrs)}}
		for _, sc := range g.Scopes {
			ss := &tracepb.ScopeSpans{Scope: &commonpb.InstrumentationScope{Name: "lib", Version: "1"}}
			for _, s := range sc {
				ss.Spans = append(ss.Spans, &tracepb.Span{
					TraceId: c.bytesID(s.Tid, true), SpanId: c.bytesID(s.Sid, false), ParentSpanId: c.bytesID(s.Parent, false),
					Name: c.str(s.Name), Kind: tracepb.Span_SPAN_KIND_SERVER,
					StartTimeUnixNano: uint64(c.instant(s.Start)), EndTimeUnixNano: uint64(c.instant(s.End)),
					Attributes: c.keyValues(s.Attrs),
				})
			}
			rs.ScopeSpans = append(rs.ScopeSpans, ss)
		}
		td.ResourceSpans = append(td.ResourceSpans, rs)
	}
	bin, err := proto.Marshal(td)
	if err != nil {
		panic(err)
	}
	return request{Path: "/v1/traces", ContentType: "application/x-protobuf", Body: bin}
}

// ---------------------------------------------------------------------------------------------------------------
// observations

type obsRow struct {
	Tid, Sid, Parent string // raw bytes
	Name             string
	Ts, Dur          int64
	Svc              string
	Ptype            int64
	Payload          string
}
type obsTag struct {
	Key, Val string
	Tid, Sid string
	Ts, Dur  int64
}
type obsSpan struct {
	Tid, Sid, Parent string
	Name             string
	Start, End       uint64
	Attrs            map[string]*commonpb.AnyValue
	DupKeys          []string
}
type jsonSpan struct {
	TraceID      string      `json:"traceID"`
	TraceId      string      `json:"traceId"`
	SpanID       string      `json:"spanID"`
	SpanId       string      `json:"spanId"`
	Name         string      `json:"name"`
	Start        json.Number `json:"startTimeUnixNano"`
	End          json.Number `json:"endTimeUnixNano"`
	ParentSpanId string      `json:"parentSpanId"`
	ServiceName  string      `json:"serviceName"`
	Attributes   []struct {
		Key   string `json:"key"`
		Value struct {
			StringValue string `json:"stringValue"`
		} `json:"value"`
	} `json:"attributes"`
}
type observation struct {
	Status   int
	Resp     string
	Rows     []obsRow
	Tags     []obsTag
	ReadPB   map[string][]obsSpan  // by hex trace id
	ReadJSON map[string][]jsonSpan // by hex trace id
	ReadErr  []string
	StoreErr []string
}

func toI64(v any) int64 {
	switch x := v.(type) {
	case int64:
		return x
	case int:
		return int64(x)
	case int8:
		return int64(x)
	case int16:
		return int64(x)
	case int32:
		return int64(x)
	case uint8:
		return int64(x)
	case uint16:
		return int64(x)
	case uint32:
		return int64(x)
	case uint64:
		return int64(x)
	case float64:
		return int64(x)
	}
	panic(fmt.Sprintf("not an integer: %T %v", v, v))
}

func observe(w *e2e.World, rq request, tids []string) (*observation, error) {
	o := &observation{ReadPB: map[string][]obsSpan{}, ReadJSON: map[string][]jsonSpan{}}
	o.Status, o.Resp = w.Push("POST", rq.Path, rq.ContentType, rq.Body, nil)
	r, err := w.Store.DB.Query("SELECT trace_id, span_id, parent_id, name, timestamp_ns, duration_ns, service_name, payload_type, payload FROM tempo_traces")
	if err != nil {
		return nil, fmt.Errorf("store query tempo_traces: %v", err)
	}
	for _, x := range r.Rows {
		o.Rows = append(o.Rows, obsRow{Tid: x[0].(string), Sid: x[1].(string), Parent: x[2].(string), Name: x[3].(string), Ts: toI64(x[4]), Dur: toI64(x[5]),
			Svc: x[6].(string), Ptype: toI64(x[7]), Payload: x[8].(string)})
	}
	r, err = w.Store.DB.Query("SELECT key, val, trace_id, span_id, timestamp_ns, duration FROM tempo_traces_attrs_gin")
	if err != nil {
		return nil, fmt.Errorf("store query tempo_traces_attrs_gin: %v", err)
	}
	for _, x := range r.Rows {
		o.Tags = append(o.Tags, obsTag{Key: x[0].(string), Val: x[1].(string), Tid: x[2].(string), Sid: x[3].(string), Ts: toI64(x[4]), Dur: toI64(x[5])})
	}
	for _, t := range tids {
		code, body := w.Get("/api/traces/" + t + "/json")
		if code != 200 {
			o.ReadErr = append(o.ReadErr, fmt.Sprintf("GET /api/traces/%s/json: %d %s", t, code, clip(body)))
		} else {
			var doc struct {
				ResourceSpans []struct {
					ILS []struct {
						Spans []jsonSpan `json:"spans"`
					} `json:"instrumentationLibrarySpans"`
				} `json:"resourceSpans"`
			}
			dec := json.NewDecoder(strings.NewReader(body))
			dec.UseNumber()
			if err := dec.Decode(&doc); err != nil {
				o.ReadErr = append(o.ReadErr, fmt.Sprintf("GET /api/traces/%s/json: not JSON: %v: %s", t, err, clip(body)))
			} else {
				o.ReadJSON[t] = []jsonSpan{}
				for _, rs := range doc.ResourceSpans {
					for _, ils := range rs.ILS {
						o.ReadJSON[t] = append(o.ReadJSON[t], ils.Spans...)
					}
				}
			}
		}
		req := httptest.NewRequest("GET", "/api/traces/"+t, nil)
		req.Header.Set("Accept", "application/protobuf")
		code, body = w.Do(req)
		if code != 200 {
			o.ReadErr = append(o.ReadErr, fmt.Sprintf("GET /api/traces/%s (protobuf): %d %s", t, code, clip(body)))
			continue
		}
		var td tracepb.TracesData
		if err := proto.Unmarshal([]byte(body), &td); err != nil {
			o.ReadErr = append(o.ReadErr, fmt.Sprintf("GET /api/traces/%s (protobuf): %v", t, err))
			continue
		}
		o.ReadPB[t] = []obsSpan{}
		for _, rs := range td.ResourceSpans {
			for _, ss := range rs.ScopeSpans {
				for _, s := range ss.Spans {
					os_ := obsSpan{Tid: string(s.TraceId), Sid: string(s.SpanId), Parent: string(s.ParentSpanId), Name: s.Name, Start: s.StartTimeUnixNano,
						End: s.EndTimeUnixNano, Attrs: map[string]*commonpb.AnyValue{}}
					for _, kv := range s.Attributes {
						if _, dup := os_.Attrs[kv.Key]; dup {
							os_.DupKeys = append(os_.DupKeys, kv.Key)
						}
						os_.Attrs[kv.Key] = kv.Value
					}
					o.ReadPB[t] = append(o.ReadPB[t], os_)
				}
			}
		}
	}
	o.StoreErr = append(o.StoreErr, w.StoreErr...)
	if w.Bridge != nil {
		for _, u := range w.Bridge.Unsupported {
			o.StoreErr = append(o.StoreErr, "chsql unsupported: "+fmt.Sprint(u))
		}
	}
	return o, nil
}

// ---------------------------------------------------------------------------------------------------------------
// comparison

type mismatch struct {
	Kind   string `json:"kind"` // structural, stable across seeds
	Span   int    `json:"span"` // 1-based index of the span in the body, 0 = the whole body
	Detail string `json:"detail"`
}

func clip(s string) string {
	if len(s) <= 400 {
		return s
	}
	cut := 200
	for cut > 0 && !utf8.RuneStart(s[cut]) {
		cut--
	}
	end := len(s) - 100
	for end < len(s) && !utf8.RuneStart(s[end]) {
		end++
	}
	return s[:cut] + fmt.Sprintf("...[%d bytes]...", len(s)) + s[end:]
}
func hx(s string) string { return hex.EncodeToString([]byte(s)) }

func keyClass(p []string) string {
	for _, s := range p {
		if strings.HasPrefix(s, "@") {
			return "attribute"
		}
	}
	return strings.Join(p, ".")
}

func floatClose(obs string, want float64) bool {
	x, err := strconv.ParseFloat(obs, 64)
	if err != nil {
		return false
	}
	if x == want {
		return true
	}
	return math.Abs(x-want) <= 5e-7+math.Abs(want)*1e-12
}

func (c *conc) tagMatches(t obsTag, q Tag) bool {
	if t.Key != c.path(q.K) {
		return false
	}
	if want, exact := c.tagValue(q.V); exact {
		return t.Val == want
	}
	return floatClose(t.Val, c.f64(q.V.A))
}

func pad(id []string) []string { // DecodeHex of the spec, for ids that are already decoded this is the identity
	for len(id) < 2 {
		id = append([]string{"0"}, id...)
	}
	return id[:2]
}

// compareDef: the clauses of the property statement, on the observed rows and read-back
func (c *conc) compareDef(cs *Case, rq request, o *observation) []mismatch {
	var mm []mismatch
	add := func(kind string, span int, f string, a ...any) {
		mm = append(mm, mismatch{kind, span, clip(fmt.Sprintf(f, a...))})
	}
	if len(o.Rows) != cs.N {
		add("rows-count", 0, "%d spans accepted (HTTP %d), %d rows in tempo_traces", cs.N, o.Status, len(o.Rows))
	}
	type ids struct{ tid, sid string }
	owner := map[ids]int{}
	for n, d := range cs.Def {
		owner[ids{string(c.bytesID(d.Tid, true)), string(c.bytesID(d.Sid, false))}] = n + 1
	}
	for _, t := range o.Tags {
		if _, ok := owner[ids{t.Tid, t.Sid}]; !ok {
			add("tag-row:ids", 0, "tag row %q=%q carries trace id %s span id %s which belong to no span of the body", t.Key, t.Val, hx(t.Tid), hx(t.Sid))
		}
	}
	for n, d := range cs.Def {
		sp := n + 1
		tid, sid, parent := string(c.bytesID(d.Tid, true)), string(c.bytesID(d.Sid, false)), string(c.bytesID(d.Parent, false))
		ts, dur := c.instant(d.Ts), c.duration(d.Dur)
		var rows []obsRow
		for _, r := range o.Rows {
			if r.Tid == tid && r.Sid == sid {
				rows = append(rows, r)
			}
		}
		if len(rows) != 1 {
			add("trace-row:count", sp, "%d rows in tempo_traces for trace id %s span id %s, expected exactly 1", len(rows), hx(tid), hx(sid))
		}
		for _, r := range rows {
			if r.Parent != parent {
				add("trace-row:parent_id", sp, "parent_id %s, the span's parent is %s", hx(r.Parent), hx(parent))
			}
			if r.Name != c.str(d.Name) {
				add("trace-row:name", sp, "name %q, the span's name is %q", r.Name, c.str(d.Name))
			}
			if r.Ts != ts {
				add("trace-row:timestamp_ns", sp, "timestamp_ns %d, the span starts at %d", r.Ts, ts)
			}
			if r.Dur != dur {
				add("trace-row:duration_ns", sp, "duration_ns %d, the span lasts %d", r.Dur, dur)
			}
			if d.SvcKnown && r.Svc != c.str(d.Svc) {
				add("trace-row:service_name", sp, "service_name %q, the span's service is %q", r.Svc, c.str(d.Svc))
			}
		}
		var tags []obsTag
		for _, t := range o.Tags {
			if t.Tid == tid && t.Sid == sid {
				tags = append(tags, t)
			}
		}
		for _, t := range tags {
			if t.Ts != ts || t.Dur != dur {
				add("tag-row:times", sp, "tag row %q carries timestamp_ns %d duration %d, the span has %d / %d", t.Key, t.Ts, t.Dur, ts, dur)
			}
		}
		reqKeys := map[string]bool{}
		for _, q := range d.Required {
			reqKeys[c.path(q.K)] = true
			cnt := 0
			for _, t := range tags {
				if c.tagMatches(t, q) {
					cnt++
				}
			}
			want, _ := c.tagValue(q.V)
			if q.V.R == "f" {
				want = fmt.Sprint(c.f64(q.V.A))
			}
			kind := attrKindOf(d.Attrs, q.K)
			if cnt == 0 {
				add("tag-missing:"+kind, sp, "no tag row %q = %q for the span (trace id %s span id %s)", c.path(q.K), want, hx(tid), hx(sid))
			} else if cnt > 1 {
				add("tag-duplicate:"+kind, sp, "%d tag rows %q = %q for the span", cnt, c.path(q.K), want)
			}
		}
	foreign:
		for _, t := range tags {
			for _, q := range append(append([]Tag{}, d.Required...), d.Derived...) {
				if c.tagMatches(t, q) {
					continue foreign
				}
			}
			if cs.Body.Proto == "otlp" && (t.Key == "service.name" || t.Key == "remoteService.name") && !reqKeys[t.Key] {
				continue
			}
			cls := "attribute"
			for _, lit := range []string{"name", "service.name", "remoteService.name", "local_endpoint_service_name", "remote_endpoint_service_name"} {
				if t.Key == lit {
					cls = lit
				}
			}
			add("tag-foreign:"+cls, sp, "tag row %q = %q with the span's ids is neither an attribute of the span nor derived from it", t.Key, t.Val)
		}
		// read-back, protobuf
		ht := hx(tid)
		got, ok := o.ReadPB[ht]
		var found []obsSpan
		for _, s := range got {
			if s.Sid == sid {
				found = append(found, s)
			}
		}
		switch {
		case !ok:
			add("read-error", sp, "reading trace %s failed: %v", ht, o.ReadErr)
		case len(found) == 0:
			add("read-missing", sp, "GET /api/traces/%s (protobuf) returns %d spans, none with span id %s", ht, len(got), hx(sid))
		case len(found) > 1:
			add("read-duplicate", sp, "GET /api/traces/%s returns %d spans with span id %s", ht, len(found), hx(sid))
		default:
			s := found[0]
			if s.Tid != tid {
				add("read:trace_id", sp, "trace id %s, pushed %s", hx(s.Tid), ht)
			}
			if s.Parent != parent {
				add("read:parent", sp, "parent span id %q read back, pushed %q", hx(s.Parent), hx(parent))
			}
			if s.Name != c.str(d.Name) {
				add("read:name", sp, "name %q read back, pushed %q", s.Name, c.str(d.Name))
			}
			if int64(s.Start) != ts || int64(s.End) != ts+dur {
				add("read:times", sp, "start/end %d/%d read back, pushed %d/%d", s.Start, s.End, ts, ts+dur)
			}
			for _, kv := range d.Attrs {
				k := c.str(kv.K)
				want := c.anyValue(kv.V)
				v, ok := s.Attrs[k]
				cls := "attribute"
				if !strings.HasPrefix(kv.K, "@") {
					cls = kv.K
				}
				if !ok {
					add("read:attr-missing:"+cls, sp, "attribute %q (%s) is not in the span read back", k, kv.V.T)
				} else if !proto.Equal(v, want) {
					add("read:attr-value:"+cls, sp, "attribute %q read back as %s, pushed %s", k, v.String(), want.String())
				}
			}
		}
		// read-back, JSON
		gj, ok := o.ReadJSON[ht]
		var fj []jsonSpan
		for _, s := range gj {
			if s.SpanId == hx(sid) {
				fj = append(fj, s)
			}
		}
		switch {
		case !ok:
			add("readjson-error", sp, "reading trace %s as JSON failed: %v", ht, o.ReadErr)
		case len(fj) == 0:
			add("readjson-missing", sp, "GET /api/traces/%s/json returns %d spans, none with span id %s", ht, len(gj), hx(sid))
		case len(fj) > 1:
			add("readjson-duplicate", sp, "GET /api/traces/%s/json returns %d spans with span id %s", ht, len(fj), hx(sid))
		default:
			s := fj[0]
			if s.TraceId != ht || s.TraceID != ht || s.SpanID != hx(sid) {
				add("readjson:ids", sp, "ids %s/%s/%s read back, pushed %s/%s", s.TraceId, s.TraceID, s.SpanID, ht, hx(sid))
			}
			zeroParent := parent != "" && strings.Trim(hx(parent), "0") == ""
			if s.ParentSpanId != hx(parent) && !(zeroParent && s.ParentSpanId == "") {
				add("readjson:parent", sp, "parentSpanId %q read back, pushed %q", s.ParentSpanId, hx(parent))
			}
			if s.Name != c.str(d.Name) {
				add("readjson:name", sp, "name %q read back, pushed %q", s.Name, c.str(d.Name))
			}
			if s.Start.String() != strconv.FormatInt(ts, 10) || s.End.String() != strconv.FormatInt(ts+dur, 10) {
				add("readjson:times", sp, "start/end %s/%s read back, pushed %d/%d", s.Start, s.End, ts, ts+dur)
			}
			for _, kv := range d.Attrs {
				k := c.str(kv.K)
				cls := "attribute"
				if !strings.HasPrefix(kv.K, "@") {
					cls = kv.K
				}
				var vals []string
				for _, a := range s.Attributes {
					if a.Key == k {
						vals = append(vals, a.Value.StringValue)
					}
				}
				if len(vals) == 0 {
					add("readjson:attr-missing:"+cls, sp, "attribute %q (%s) is not in the JSON span", k, kv.V.T)
					continue
				}
				okv := true
				switch kv.V.T {
				case "str":
					okv = vals[0] == c.str(kv.V.A)
				case "int":
					okv = vals[0] == strconv.FormatInt(c.i64(kv.V.A), 10)
				case "bool":
					okv = vals[0] == strconv.FormatBool(c.boolean(kv.V.A))
				case "double":
					okv = floatClose(vals[0], c.f64(kv.V.A))
				}
				if !okv {
					add("readjson:attr-value:"+cls, sp, "attribute %q read back as %q, pushed %s", k, vals[0], c.anyValue(kv.V).String())
				}
			}
		}
	}
	return mm
}

// attrKindOf: how the flattened path is reached inside the span's attributes: a scalar attribute ("str", "int", ...), an
// element reached through a list ("list-element") or only through maps ("map-element")
func attrKindOf(attrs []KV, path []string) string {
	for _, kv := range attrs {
		if len(path) == 0 || kv.K != path[0] {
			continue
		}
		v := kv.V
		if len(path) == 1 {
			return v.T
		}
		throughList := false
		for _, seg := range path[1:] {
			switch v.T {
			case "list":
				throughList = true
				i, err := strconv.Atoi(seg)
				if err != nil || i >= len(v.E) {
					return "?"
				}
				v = v.E[i]
			case "map":
				found := false
				for _, m := range v.KV {
					if m.K == seg {
						v, found = m.V, true
						break
					}
				}
				if !found {
					return "?"
				}
			default:
				return "?"
			}
		}
		if throughList {
			return "list-element"
		}
		return "map-element"
	}
	return "?"
}

// compareExact: the observation against what the transcribed mechanism predicts (conformance of the spec's transcription)
func (c *conc) compareExact(cs *Case, rq request, o *observation) []string {
	var diffs []string
	add := func(f string, a ...any) { diffs = append(diffs, clip(fmt.Sprintf(f, a...))) }
	var want, got []string
	for _, r := range cs.Mech.Rows {
		pl := "payload:empty"
		if cs.Body.Proto == "zipkin" && r.Payload > 0 {
			pl = "payload:" + rq.SpanJSON[r.Payload-1]
		} else if cs.Body.Proto == "otlp" {
			pl = "payload:protobuf"
		}
		want = append(want, fmt.Sprintf("tid=%s sid=%s parent=%s name=%q ts=%d dur=%d svc=%q ptype=%d %s", hx(string(c.bytesID(pad(r.Tid), true))),
			hx(string(c.bytesID(pad(r.Sid), false))), hx(string(c.bytesID(r.Parent, false))), c.str(r.Name), c.instantOrZero(r.Ts, r.Tid), c.duration(r.Dur), c.str(r.Svc), r.Ptype, pl))
	}
	for _, r := range o.Rows {
		pl := "payload:" + r.Payload
		if r.Payload == "" {
			pl = "payload:empty"
		} else if cs.Body.Proto == "otlp" {
			pl = "payload:protobuf"
		}
		got = append(got, fmt.Sprintf("tid=%s sid=%s parent=%s name=%q ts=%d dur=%d svc=%q ptype=%d %s", hx(r.Tid), hx(r.Sid), hx(r.Parent), r.Name, r.Ts, r.Dur, r.Svc, r.Ptype, pl))
	}
	if d := multisetDiff(want, got); d != "" {
		add("tempo_traces rows differ from the mechanism: %s", d)
	}
	want, got = nil, nil
	for _, t := range cs.Mech.Tags {
		v, _ := c.tagValue(t.V)
		want = append(want, fmt.Sprintf("%q=%q tid=%s sid=%s ts=%d dur=%d", c.path(t.K), v, hx(string(c.bytesID(pad(t.Tid), true))), hx(string(c.bytesID(pad(t.Sid), false))),
			c.instantOrZero(t.Ts, t.Tid), c.duration(t.Dur)))
	}
	for _, t := range o.Tags {
		got = append(got, fmt.Sprintf("%q=%q tid=%s sid=%s ts=%d dur=%d", t.Key, t.Val, hx(t.Tid), hx(t.Sid), t.Ts, t.Dur))
	}
	if d := multisetDiff(want, got); d != "" {
		add("tempo_traces_attrs_gin rows differ from the mechanism: %s", d)
	}
	for _, tr := range cs.Mech.Read {
		ht := hx(string(c.bytesID(pad(tr.Tid), true)))
		gotSpans, ok := o.ReadPB[ht]
		if !ok {
			add("trace %s could not be read: %v", ht, o.ReadErr)
			continue
		}
		want, got = nil, nil
		for _, s := range tr.Spans {
			var as []string
			for _, kv := range s.Attrs {
				as = append(as, fmt.Sprintf("%q:%s", c.str(kv.K), c.anyValue(kv.V).String()))
			}
			sort.Strings(as)
			want = append(want, fmt.Sprintf("sid=%s parent=%s name=%q start=%d end=%d attrs=%v", hx(string(c.bytesID(pad(s.Sid), false))), hx(string(c.bytesID(s.Parent, false))),
				c.str(s.Name), c.instant(s.Start), c.instant(s.End), as))
		}
		for _, s := range gotSpans {
			var as []string
			for k, v := range s.Attrs {
				as = append(as, fmt.Sprintf("%q:%s", k, v.String()))
			}
			sort.Strings(as)
			got = append(got, fmt.Sprintf("sid=%s parent=%s name=%q start=%d end=%d attrs=%v", hx(s.Sid), hx(s.Parent), s.Name, s.Start, s.End, as))
		}
		if d := multisetDiff(want, got); d != "" {
			add("read-back of trace %s differs from the mechanism: %s", ht, d)
		}
	}
	return diffs
}

// a row emitted by a decoder that never saw "timestamp" keeps the abstract instant 0 = concrete 0; not generated here
func (c *conc) instantOrZero(n int64, _ []string) int64 { return c.instant(n) }

func multisetDiff(want, got []string) string {
	cnt := map[string]int{}
	for _, w := range want {
		cnt[w]++
	}
	for _, g := range got {
		cnt[g]--
	}
	var missing, extra []string
	for k, v := range cnt {
		for ; v > 0; v-- {
			missing = append(missing, clip(k))
		}
		for ; v < 0; v++ {
			extra = append(extra, clip(k))
		}
	}
	if len(missing)+len(extra) == 0 {
		return ""
	}
	sort.Strings(missing)
	sort.Strings(extra)
	return fmt.Sprintf("predicted but not observed %v; observed but not predicted %v", missing, extra)
}

// ---------------------------------------------------------------------------------------------------------------
// child: one World, cases one after the other

type caseResult struct {
	ID        string     `json:"id"`
	Cfg       string     `json:"cfg"`
	Proto     string     `json:"proto"`
	Framing   string     `json:"framing"`
	N         int        `json:"n"`
	Flags     []string   `json:"flags"`
	Status    int        `json:"status"`
	Def       []mismatch `json:"def_mismatches"`
	Mech      []string   `json:"mech_diffs"`
	Infra     string     `json:"infra,omitempty"`
	Crash     string     `json:"crash,omitempty"`
	Detail    *detail    `json:"detail,omitempty"`
	Traits    []string   `json:"traits"`
	BodyBytes int        `json:"body_bytes"`
}
type detail struct {
	Request  map[string]string `json:"request"`
	Abstract json.RawMessage   `json:"abstract_case"`
	Rows     []string          `json:"observed_tempo_traces"`
	Tags     []string          `json:"observed_tempo_traces_attrs_gin"`
	Read     map[string]string `json:"observed_read_back"`
	Expected []string          `json:"expected_per_span"`
}

func traits(cs *Case) []string {
	t := map[string]bool{}
	b := cs.Body
	t[b.Proto+":"+b.Framing] = true
	if b.Proto == "zipkin" {
		t["ts:"+b.TsKind] = true
		if b.Spell == "padded" || b.Spell == "stripped" {
			t["spell:"+b.Spell] = true
		}
		for _, fs := range cs.Odd {
			for _, f := range fs {
				t["digits:odd:"+f] = true
			}
		}
		for _, s := range b.Spans {
			for _, id := range [][]string{s.Tid, s.Sid, s.Parent} {
				switch {
				case len(id) == 0:
				case len(id) < 2:
					t["id:short"] = true
				case id[0] == "0" && id[1] == "0":
					t["id:zero"] = true
				case id[0] == "f" && id[1] == "f":
					t["id:max"] = true
				default:
					t["id:full"] = true
				}
			}
			has := map[string]int{}
			for i, k := range s.Order {
				has[k] = i + 1
			}
			if has["localEndpoint"] > 0 && has["remoteEndpoint"] > 0 {
				if has["localEndpoint"] < has["remoteEndpoint"] {
					t["endpoints:local-first"] = true
				} else {
					t["endpoints:remote-first"] = true
				}
			}
			if has["traceId"] != 1 {
				t["order:ids-last"] = true
			}
			if has["parentId"] == 0 {
				t["parent:absent"] = true
			}
			if has["name"] == 0 {
				t["name:absent"] = true
			}
			if has["tags"] == 0 {
				t["tags:absent"] = true
			}
			if s.Big > 0 {
				t["big:"+strconv.Itoa(s.Big)] = true
			}
		}
		if len(b.Spans) > 1 {
			t["spans:"+strconv.Itoa(len(b.Spans))] = true
		}
	} else {
		var walk func(v AV, depth int)
		walk = func(v AV, depth int) {
			t["attr:"+v.T] = true
			if depth > 0 && (v.T == "list" || v.T == "map") {
				t["attr:nested"] = true
			}
			if v.T == "list" && len(v.E) == 0 {
				t["attr:empty-list"] = true
			}
			for _, e := range v.E {
				walk(e, depth+1)
			}
			for _, kv := range v.KV {
				walk(kv.V, depth+1)
			}
		}
		t["groups:"+strconv.Itoa(len(b.Groups))] = true
		for _, g := range b.Groups {
			t["scopes:"+strconv.Itoa(len(g.Scopes))] = true
			if len(g.Rattrs) == 0 {
				t["resource:no-attributes"] = true
			}
			for _, kv := range g.Rattrs {
				if kv.K == "service.name" {
					t["resource:service.name"] = true
				}
			}
			for _, sc := range g.Scopes {
				if len(sc) == 0 {
					t["scope:empty"] = true
				}
				for _, s := range sc {
					for _, kv := range s.Attrs {
						walk(kv.V, 0)
						if kv.K == "peer.service" {
							t["attr:peer.service"] = true
						}
					}
					if len(s.Parent) > 0 {
						t["parent:present"] = true
					}
					if s.End == s.Start {
						t["duration:zero"] = true
					}
					if s.Big > 0 {
						t["big:"+strconv.Itoa(s.Big)] = true
					}
					if s.Tid[0] == "0" && s.Tid[1] == "0" {
						t["id:zero"] = true
					}
					if s.Tid[0] == "f" && s.Tid[1] == "f" {
						t["id:max"] = true
					}
				}
			}
		}
		if cs.Mech.Responses > 1 {
			t["flush:intermediate"] = true
		}
	}
	if cs.Body.Proto == "zipkin" && cs.Mech.Responses > 1 {
		t["flush:intermediate"] = true
	}
	var out []string
	for k := range t {
		out = append(out, k)
	}
	sort.Strings(out)
	return out
}

func makeDetail(c *conc, cs *Case, raw []byte, rq request, o *observation) *detail {
	d := &detail{Request: map[string]string{"method": "POST", "path": rq.Path, "content_type": rq.ContentType}, Abstract: json.RawMessage(raw), Read: map[string]string{}}
	if cs.Body.Proto == "zipkin" {
		d.Request["body"] = clipN(string(rq.Body), 6000)
	} else {
		d.Request["body_hex"] = clipN(hex.EncodeToString(rq.Body), 6000)
		var td tracepb.TracesData
		_ = proto.Unmarshal(rq.Body, &td)
		d.Request["body_text"] = clipN(td.String(), 6000)
	}
	if o == nil {
		return d
	}
	for _, r := range o.Rows {
		pl := clip(r.Payload)
		if cs.Body.Proto == "otlp" {
			pl = "protobuf:" + clip(hex.EncodeToString([]byte(r.Payload)))
		}
		d.Rows = append(d.Rows, fmt.Sprintf("trace_id=%s span_id=%s parent_id=%s name=%q timestamp_ns=%d duration_ns=%d service_name=%q payload_type=%d payload=%q",
			hx(r.Tid), hx(r.Sid), hx(r.Parent), clip(r.Name), r.Ts, r.Dur, clip(r.Svc), r.Ptype, pl))
	}
	for _, t := range o.Tags {
		d.Tags = append(d.Tags, fmt.Sprintf("key=%q val=%q trace_id=%s span_id=%s timestamp_ns=%d duration=%d", t.Key, clip(t.Val), hx(t.Tid), hx(t.Sid), t.Ts, t.Dur))
	}
	for t, ss := range o.ReadPB {
		var parts []string
		for _, s := range ss {
			var as []string
			for k, v := range s.Attrs {
				as = append(as, fmt.Sprintf("%q:%s", k, clip(v.String())))
			}
			sort.Strings(as)
			parts = append(parts, fmt.Sprintf("{span_id=%s parent=%s name=%q start=%d end=%d attrs=%v}", hx(s.Sid), hx(s.Parent), clip(s.Name), s.Start, s.End, as))
		}
		d.Read[t] = fmt.Sprintf("%d spans: %s", len(ss), strings.Join(parts, " "))
	}
	for _, e := range o.ReadErr {
		d.Read["error"] += e + "; "
	}
	for n, df := range cs.Def {
		var tags []string
		for _, q := range df.Required {
			v, exact := c.tagValue(q.V)
			if !exact {
				v = "~" + fmt.Sprint(c.f64(q.V.A))
			}
			tags = append(tags, fmt.Sprintf("%q=%q", c.path(q.K), clip(v)))
		}
		svc := "(any)"
		if df.SvcKnown {
			svc = strconv.Quote(clip(c.str(df.Svc)))
		}
		d.Expected = append(d.Expected, fmt.Sprintf("span %d: trace_id=%s span_id=%s parent=%s name=%q start_ns=%d duration_ns=%d service=%s one tag row each: %v", n+1,
			hx(string(c.bytesID(df.Tid, true))), hx(string(c.bytesID(df.Sid, false))), hx(string(c.bytesID(df.Parent, false))), clip(c.str(df.Name)), c.instant(df.Ts), c.duration(df.Dur), svc, tags))
	}
	return d
}

func clipN(s string, n int) string {
	if len(s) <= n {
		return s
	}
	cut := n
	for cut > 0 && !utf8.RuneStart(s[cut]) {
		cut--
	}
	return s[:cut] + fmt.Sprintf("...[%d bytes in all]", len(s))
}

func child(casesPath, outPath string, seed int64) error {
	f, err := os.Open(casesPath)
	if err != nil {
		return err
	}
	defer f.Close()
	out, err := os.OpenFile(outPath, os.O_CREATE|os.O_WRONLY|os.O_APPEND, 0o644)
	if err != nil {
		return err
	}
	defer out.Close()
	w, err := e2e.New(e2e.Options{IntervalMs: 1})
	if err != nil {
		return err
	}
	defer w.Close()
	sc := bufio.NewScanner(f)
	sc.Buffer(make([]byte, 1<<20), 64<<20)
	emit := func(v any) {
		b, err := json.Marshal(v)
		if err != nil {
			panic(err)
		}
		out.Write(append(b, '\n'))
	}
	for sc.Scan() {
		raw := append([]byte{}, sc.Bytes()...)
		if len(bytes.TrimSpace(raw)) == 0 {
			continue
		}
		var cs Case
		if err := json.Unmarshal(raw, &cs); err != nil {
			return fmt.Errorf("bad case: %v: %s", err, clip(string(raw)))
		}
		emit(map[string]string{"begin": cs.ID})
		res := caseResult{ID: cs.ID, Cfg: cs.Cfg, Proto: cs.Body.Proto, Framing: cs.Body.Framing, N: cs.N, Flags: cs.Flags, Traits: traits(&cs)}
		for _, t := range []string{"tempo_traces", "tempo_traces_attrs_gin", "tempo_traces_kv"} {
			if err := w.Store.DB.Truncate(t); err != nil {
				return fmt.Errorf("truncate %s: %v", t, err)
			}
		}
		w.StoreErr = nil
		c := newConc(seed, cs.ID)
		rq := c.build(cs.Body)
		res.BodyBytes = len(rq.Body)
		if msg := c.spellingCheck(&cs); msg != "" {
			res.Infra = msg
			emit(res)
			continue
		}
		tidSet := map[string]bool{}
		var tids []string
		for _, d := range cs.Def {
			h := hx(string(c.bytesID(d.Tid, true)))
			if !tidSet[h] {
				tidSet[h] = true
				tids = append(tids, h)
			}
		}
		o, err := observe(w, rq, tids)
		if err != nil {
			res.Infra = err.Error()
			emit(res)
			continue
		}
		res.Status = o.Status
		if len(o.StoreErr) > 0 {
			res.Infra = "store: " + strings.Join(o.StoreErr, "; ")
		}
		if o.Status < 200 || o.Status > 299 {
			// the property speaks about accepted spans only
			res.Infra = fmt.Sprintf("well-formed body rejected: HTTP %d %s", o.Status, clip(o.Resp))
			res.Detail = makeDetail(c, &cs, raw, rq, o)
			emit(res)
			continue
		}
		res.Def = c.compareDef(&cs, rq, o)
		res.Mech = c.compareExact(&cs, rq, o)
		if len(res.Def) > 0 || len(res.Mech) > 0 {
			res.Detail = makeDetail(c, &cs, raw, rq, o)
		}
		emit(res)
	}
	return sc.Err()
}

// ---------------------------------------------------------------------------------------------------------------
// parent

func runParent(casesPath, outPath string, seed int64, workers int) error {
	f, err := os.Open(casesPath)
	if err != nil {
		return err
	}
	var lines [][]byte
	sc := bufio.NewScanner(f)
	sc.Buffer(make([]byte, 1<<20), 64<<20)
	for sc.Scan() {
		if len(bytes.TrimSpace(sc.Bytes())) > 0 {
			lines = append(lines, append([]byte{}, sc.Bytes()...))
		}
	}
	f.Close()
	if err := sc.Err(); err != nil {
		return err
	}
	if workers < 1 {
		workers = 1
	}
	dir, err := os.MkdirTemp("", "c06run")
	if err != nil {
		return err
	}
	defer os.RemoveAll(dir)
	self, err := os.Executable()
	if err != nil {
		return err
	}
	type idOnly struct {
		ID    string `json:"id"`
		Cfg   string `json:"cfg"`
		Body  struct{ Proto, Framing string }
		N     int
		Flags []string
	}
	var mu sync.Mutex
	var results []json.RawMessage
	var infra []string
	crashes, skipped := 0, 0
	var wg sync.WaitGroup
	// round-robin so that heavy families spread over the children
	chunks := make([][][]byte, workers)
	for i, l := range lines {
		chunks[i%workers] = append(chunks[i%workers], l)
	}
	for wi := 0; wi < workers; wi++ {
		wg.Add(1)
		go func(wi int, todo [][]byte) {
			defer wg.Done()
			for attempt := 0; len(todo) > 0; attempt++ {
				in := fmt.Sprintf("%s/in_%d_%d.ndjson", dir, wi, attempt)
				outp := fmt.Sprintf("%s/out_%d_%d.ndjson", dir, wi, attempt)
				if err := os.WriteFile(in, append(bytes.Join(todo, []byte("\n")), '\n'), 0o644); err != nil {
					mu.Lock()
					infra = append(infra, err.Error())
					mu.Unlock()
					return
				}
				cmd := exec.Command(self, "child", "-cases", in, "-out", outp, "-seed", strconv.FormatInt(seed, 10))
				var stderr bytes.Buffer
				cmd.Stderr = &stderr
				cmd.Stdout = nil
				runErr := cmd.Run()
				done := map[string]bool{}
				begun := ""
				if b, err := os.ReadFile(outp); err == nil {
					for _, l := range bytes.Split(b, []byte("\n")) {
						if len(l) == 0 {
							continue
						}
						var m map[string]json.RawMessage
						if json.Unmarshal(l, &m) != nil {
							continue // a torn last line of a crashed child
						}
						if bg, ok := m["begin"]; ok {
							json.Unmarshal(bg, &begun)
							continue
						}
						var id string
						json.Unmarshal(m["id"], &id)
						done[id] = true
						mu.Lock()
						results = append(results, append(json.RawMessage{}, l...))
						mu.Unlock()
					}
				}
				var rest [][]byte
				var crashed []byte
				for _, l := range todo {
					var io idOnly
					json.Unmarshal(l, &io)
					if done[io.ID] {
						continue
					}
					if runErr != nil && io.ID == begun && crashed == nil {
						crashed = l
						continue
					}
					rest = append(rest, l)
				}
				if runErr == nil {
					if len(rest) > 0 {
						mu.Lock()
						infra = append(infra, fmt.Sprintf("child %d finished without processing %d cases", wi, len(rest)))
						mu.Unlock()
					}
					return
				}
				if crashed == nil {
					mu.Lock()
					infra = append(infra, fmt.Sprintf("child %d died outside a case: %v: %s", wi, runErr, tail(stderr.String(), 1500)))
					mu.Unlock()
					return
				}
				// the process died while handling this case: that is an observation
				var cs Case
				json.Unmarshal(crashed, &cs)
				c := newConc(seed, cs.ID)
				rq := c.build(cs.Body)
				cr := caseResult{ID: cs.ID, Cfg: cs.Cfg, Proto: cs.Body.Proto, Framing: cs.Body.Framing, N: cs.N, Flags: cs.Flags, Traits: traits(&cs), BodyBytes: len(rq.Body),
					Crash: fmt.Sprintf("%v: %s", runErr, crashLine(stderr.String())), Detail: makeDetail(c, &cs, crashed, rq, nil)}
				b, _ := json.Marshal(cr)
				mu.Lock()
				results = append(results, b)
				crashes++
				tooMany := crashes > 12
				if tooMany {
					skipped += len(rest) // the crash is reported; the remaining cases of this child are not run
				}
				mu.Unlock()
				if tooMany {
					return
				}
				todo = rest
			}
		}(wi, chunks[wi])
	}
	wg.Wait()
	o, err := os.Create(outPath)
	if err != nil {
		return err
	}
	defer o.Close()
	bw := bufio.NewWriter(o)
	defer bw.Flush()
	hdr, _ := json.Marshal(map[string]any{"cases": len(lines), "results": len(results), "infra": infra, "crashes": crashes, "skipped_after_crashes": skipped})
	bw.Write(append(hdr, '\n'))
	for _, r := range results {
		bw.Write(append([]byte(r), '\n'))
	}
	return nil
}

func tail(s string, n int) string {
	if len(s) > n {
		return s[len(s)-n:]
	}
	return s
}

func crashLine(stderr string) string {
	for _, l := range strings.Split(stderr, "\n") {
		if strings.HasPrefix(l, "panic:") || strings.HasPrefix(l, "fatal error:") {
			return l
		}
	}
	return tail(stderr, 300)
}

func main() {
	if len(os.Args) < 2 {
		fmt.Fprintln(os.Stderr, "usage: c06 run|child ...")
		os.Exit(2)
	}
	fs := flag.NewFlagSet(os.Args[1], flag.ExitOnError)
	cases := fs.String("cases", "", "NDJSON file of cases")
	out := fs.String("out", "", "result file")
	seed := fs.Int64("seed", 1, "seed")
	workers := fs.Int("workers", 6, "child processes")
	fs.Parse(os.Args[2:])
	var err error
	switch os.Args[1] {
	case "run":
		err = runParent(*cases, *out, *seed, *workers)
	case "child":
		err = child(*cases, *out, *seed)
	default:
		err = fmt.Errorf("unknown mode %s", os.Args[1])
	}
	if err != nil {
		fmt.Fprintln(os.Stderr, "c06:", err)
		os.Exit(2)
	}
}

package main

import (
	"encoding/hex"
	"fmt"
	"net/http/httptest"

	commonpb "go.opentelemetry.io/proto/otlp/common/v1"
	respb "go.opentelemetry.io/proto/otlp/resource/v1"
	tracepb "go.opentelemetry.io/proto/otlp/trace/v1"
	"google.golang.org/protobuf/proto"
	"verif/harness/e2e"
)

func dump(w *e2e.World) {
	for _, q := range []string{
		"SELECT hex(trace_id), hex(span_id), hex(parent_id), name, timestamp_ns, duration_ns, service_name, payload_type, payload FROM tempo_traces",
		"SELECT toUInt64(date), key, val, hex(trace_id), hex(span_id), timestamp_ns, duration FROM tempo_traces_attrs_gin",
	} {
		r, err := w.Store.DB.Query(q)
		fmt.Println(err)
		if r != nil {
			for _, row := range r.Rows {
				fmt.Printf("  %q\n", row)
			}
		}
	}
}

func sv(s string) *commonpb.AnyValue {
	return &commonpb.AnyValue{Value: &commonpb.AnyValue_StringValue{StringValue: s}}
}

func main() {
	w, err := e2e.New(e2e.Options{})
	if err != nil {
		panic(err)
	}
	defer w.Close()
	body := `[{"traceId":"00000000000000ab","id":"1f","parentId":"2","name":"n\"1","timestamp":"1700000000000001","duration":12,"localEndpoint":{"serviceName":"loc"},"remoteEndpoint":{"serviceName":"rem"},"tags":{"a":"b","c":"dé"}}]`
	fmt.Println(w.Push("POST", "/tempo/spans", "application/json", []byte(body), nil))
	w.Settle()
	nd := `{"traceId":"000000000000000000000000000000cd","id":"000000000000001e","parentId":"0000000000000003","name":"n2","timestamp":1700000000000002,"duration":13,"localEndpoint":{"serviceName":"loc2"},"tags":{"x":"y"}}
{"traceId":"000000000000000000000000000000ce","id":"000000000000002e","name":"n3","timestamp":1700000000000003,"duration":14,"tags":{"z":"w"}}
`
	fmt.Println(w.Push("POST", "/api/v2/spans", "ndjson", []byte(nd), nil))
	w.Settle()
	tid, _ := hex.DecodeString("0102030405060708090a0b0c0d0e0f10")
	sid, _ := hex.DecodeString("1112131415161718")
	td := &tracepb.TracesData{ResourceSpans: []*tracepb.ResourceSpans{{
		Resource: &respb.Resource{Attributes: []*commonpb.KeyValue{{Key: "service.name", Value: sv("svcA")}, {Key: "host", Value: sv("h1")}}},
		ScopeSpans: []*tracepb.ScopeSpans{{Spans: []*tracepb.Span{{TraceId: tid, SpanId: sid, Name: "op", StartTimeUnixNano: 1700000000000000005, EndTimeUnixNano: 1700000000000000105,
			Attributes: []*commonpb.KeyValue{{Key: "peer.service", Value: sv("peerX")}, {Key: "d", Value: &commonpb.AnyValue{Value: &commonpb.AnyValue_DoubleValue{DoubleValue: 1.5}}},
				{Key: "l", Value: &commonpb.AnyValue{Value: &commonpb.AnyValue_ArrayValue{ArrayValue: &commonpb.ArrayValue{Values: []*commonpb.AnyValue{sv("e0"), sv("e1")}}}}}}}}}},
	}}}
	b, _ := proto.Marshal(td)
	fmt.Println(w.Push("POST", "/v1/traces", "application/x-protobuf", b, nil))
	w.Settle()
	dump(w)
	fmt.Println(w.StoreErr)
	for _, t := range []string{"000000000000000000000000000000ab", "000000000000000000000000000000cd", "000000000000000000000000000000ce", "0102030405060708090a0b0c0d0e0f10"} {
		fmt.Println(w.Get("/api/traces/" + t))
		fmt.Println(w.Get("/api/traces/" + t + "/json"))
		req := httptest.NewRequest("GET", "/api/traces/"+t, nil)
		req.Header.Set("Accept", "application/protobuf")
		c, s := w.Do(req)
		var out tracepb.TracesData
		err := proto.Unmarshal([]byte(s), &out)
		fmt.Println(c, err, out.String())
	}
	fmt.Println(w.Bridge.Unsupported)
}

// c04 binds spec/ingest/SeriesIndex.tla and Labels.tla to the real code.
//
//	c04 history -in behaviours.json -out r.json     (run with TZ=<zone> in the environment)
//	    each TLC behaviour (pushes with insert outcomes, cache resets) is replayed through the REAL Loki push route,
//	    parser, fingerprint cache and insert services over the fake ClickHouse client (outcome scripted per table);
//	    HTTP status, stored series rows and -- through the REAL reader route -- discoverability of every acknowledged
//	    sample are compared with the model state.
//	c04 labels -out r.json -trace t.ndjson -seed N
//	    label sets x permutations x protocols through the REAL parsers: fingerprints and label documents.
package main

import (
	"bytes"
	"context"
	"encoding/json"
	"flag"
	"fmt"
	"math/rand"
	"net/url"
	"os"
	"reflect"
	"regexp"
	"sort"
	"strings"
	"time"
	_ "time/tzdata"
	"unicode/utf8"
	"unsafe"

	"github.com/VictoriaMetrics/fastcache"
	clconfig "github.com/metrico/cloki-config"
	"github.com/metrico/cloki-config/config"
	wconfig "github.com/metrico/qryn/writer/config"
	"github.com/metrico/qryn/writer/model"
	"github.com/metrico/qryn/writer/plugin"
	"github.com/metrico/qryn/writer/utils/numbercache"
	"github.com/metrico/qryn/writer/utils/proto/logproto"
	"github.com/metrico/qryn/writer/utils/proto/prompb"
	"github.com/metrico/qryn/writer/utils/unmarshal"
	"google.golang.org/protobuf/proto"
	"verif/harness/chsql"
	"verif/harness/e2e"
	"verif/harness/fakech"
	"verif/harness/wworld"
)

// ---------------------------------------------------------------- history

type Step struct {
	Action string         `json:"action"`
	Args   []any          `json:"args"`
	State  map[string]any `json:"state"`
}

type HistViolation struct {
	Behaviour int    `json:"behaviour"`
	Kind      string `json:"kind"` // property | conformance
	Signature string `json:"signature"`
	Msg       string `json:"msg"`
	Steps     []Step `json:"steps"`
}

const day0 = 1699920000 // 2023-11-14T00:00:00Z

// streams of a Loki JSON body that do not parse (SeriesIndex.tla: tail "bad_after" / "bad_before")
var malformedStreams = []string{
	`{"stream":{"series":"malformed"},"values":[["not-a-number","x"]]}`,
	`{"stream":{"series":"malformed"},"values":[["1700000000000000000","x"]`,
	`{"stream":{"series":"malformed"},"values":"oops"}`,
	`{"stream":{"series":"malformed"},"values":[[1700000000000000000,"x"]]}`,
	`{"stream":"oops","values":[["1700000000000000000","x"]]}`,
}

func resetCache() {
	c, ok := plugin.GoCache.(*numbercache.Cache[uint64])
	if !ok {
		panic("unexpected cache type")
	}
	f := reflect.ValueOf(c).Elem().FieldByName("sets")
	sets := *(**fastcache.Cache)(unsafe.Pointer(f.UnsafeAddr()))
	sets.Reset()
}

func toInt(v any) int { return int(v.(float64)) }

func pairs(v any) [][2]int {
	var res [][2]int
	for _, e := range v.([]any) {
		p := e.([]any)
		res = append(res, [2]int{toInt(p[0]), toInt(p[1])})
	}
	return res
}

func history(in, out string) int {
	raw, err := os.ReadFile(in)
	if err != nil {
		fmt.Fprintln(os.Stderr, err)
		return 2
	}
	var input struct {
		Offset     int      `json:"offset"`        // UTC offset of the process zone (hours)
		WriterOff  int      `json:"writer_offset"` // offset the model's writer adds to the stored day (0 on the current tree)
		Behaviours [][]Step `json:"behaviours"`
	}
	if err := json.Unmarshal(raw, &input); err != nil {
		fmt.Fprintln(os.Stderr, err)
		return 2
	}
	_, off := time.Unix(day0, 0).Zone()
	if off != input.Offset*3600 {
		fmt.Fprintf(os.Stderr, "process time zone offset %d s does not match the model's WriterOffset %d h (set TZ)\n", off, input.Offset)
		return 2
	}
	res := map[string]any{}
	var viols []HistViolation
	var infra []string
	pushes, resets, queries := 0, 0, 0
	tails := map[string]int{}
	for bi, beh := range input.Behaviours {
		var outcome struct{ s, p bool }
		w, err := e2e.New(e2e.Options{IntervalMs: 1, Attempts: 1, OnDo: func(b *fakech.Block) error {
			isSeries := strings.Contains(b.Body, "time_series")
			if (isSeries && !outcome.s) || (!isSeries && !outcome.p) {
				return fmt.Errorf("code: 241, scripted INSERT failure")
			}
			return nil
		}})
		if err != nil {
			infra = append(infra, err.Error())
			break
		}
		bad := func(kind, sig, msg string, upto int) {
			viols = append(viols, HistViolation{Behaviour: bi, Kind: kind, Signature: sig, Msg: msg, Steps: beh[1 : upto+1]})
		}
		failed := false
		for si := 1; si < len(beh) && !failed; si++ {
			st := beh[si]
			switch st.Action {
			case "Push":
				fp, t := toInt(st.Args[0]), toInt(st.Args[1])
				outcome.s, outcome.p = st.Args[2].(bool), st.Args[3].(bool)
				ns := (int64(day0) + int64(t)*3600) * 1e9
				good := fmt.Sprintf(`{"stream":{"series":"fp%d"},"values":[["%d","sample fp%d t%d"]]}`, fp, ns+int64(si), fp, t)
				tail := "none"
				if len(st.Args) > 4 {
					tail = st.Args[4].(string)
				}
				body := `{"streams":[` + good + `]}`
				if tail != "none" {
					// the spec's stream that does not parse: one of several ways a stream of a Loki body can be malformed
					badStream := malformedStreams[(bi+si)%len(malformedStreams)]
					if tail == "bad_after" {
						body = `{"streams":[` + good + `,` + badStream + `]}`
					} else {
						body = `{"streams":[` + badStream + `,` + good + `]}`
					}
					tails[tail]++
				}
				code, _ := w.Push("POST", "/loki/api/v1/push", "application/json", []byte(body), nil)
				pushes++
				class := "err"
				if code >= 200 && code < 300 {
					class = "2xx"
				}
				if want := st.State["lastStatus"].(string); want != class {
					bad("conformance", "history|status", fmt.Sprintf("push %v answered %d, the model says %s", st.Args, code, want), si)
					failed = true
				}
			case "CacheReset":
				resetCache()
				resets++
			}
		}
		rowsDiffer := false
		if !failed {
			last := beh[len(beh)-1].State
			// stored series rows: (stored day, fp)
			r, err := w.Store.DB.Query("SELECT toUInt64(date) AS d, labels FROM time_series ORDER BY d, labels")
			if err != nil {
				infra = append(infra, err.Error())
			} else {
				got := map[string]bool{}
				for _, row := range r.Rows {
					m := regexp.MustCompile(`fp(\d+)`).FindStringSubmatch(row[1].(string))
					got[fmt.Sprintf("%d/%s", int64(row[0].(uint64))-int64(day0/86400), m[1])] = true
				}
				want := map[string]bool{}
				for _, p := range pairs(last["dbSeries"]) {
					want[fmt.Sprintf("%d/%d", p[0], p[1])] = true
				}
				if !reflect.DeepEqual(got, want) {
					bad("conformance", "history|series-rows", fmt.Sprintf("stored series rows (day/fp) %v, the model says %v", keys(got), keys(want)), len(beh)-1)
					// every status conformed, so the model's acked set is the real one: the property itself is still judged below,
					// by the real read path alone
					rowsDiffer = true
				}
			}
			// discoverability of every acknowledged sample through the real read path
			if !failed {
				series := pairs(last["dbSeries"])
				for _, a := range pairs(last["acked"]) {
					fp, t := a[0], a[1]
					from := int64(day0) + int64(t)*3600
					q := url.Values{}
					q.Set("query", fmt.Sprintf(`{series="fp%d"}`, fp))
					q.Set("start", fmt.Sprintf("%d", from*1e9))
					q.Set("end", fmt.Sprintf("%d", (from+1)*1e9))
					q.Set("limit", "100")
					code, resp := w.Get("/loki/api/v1/query_range?" + q.Encode())
					queries++
					found := code == 200 && strings.Contains(resp, fmt.Sprintf("sample fp%d t%d", fp, t))
					lb := (2*t - 1)
					if lb < 0 {
						lb -= 47
					}
					lb /= 48
					modelSays := false
					for _, s := range series {
						if s[1] == fp && s[0] >= lb {
							modelSays = true
						}
					}
					if rowsDiffer && found {
						continue
					}
					if !rowsDiffer && found != modelSays {
						bad("conformance", "history|discoverable", fmt.Sprintf("acknowledged sample fp%d t=%dh: read path finds it=%v, the model says %v (%d %.200s)", fp, t, found, modelSays, code, resp), len(beh)-1)
						break
					}
					if !found {
						// which deviation explains it: is the series row of the sample's own UTC day stored (under another day)?
						cause := "cache-set-before-insert"
						sd := (t/24)*24 + input.WriterOff
						if sd < 0 {
							sd -= 23
						}
						sd /= 24
						for _, s := range series {
							if s[1] == fp && s[0] == sd && sd != t/24 {
								cause = "series-row-stored-under-another-day"
							}
						}
						if rowsDiffer {
							// the stored rows are not the model's, so the model cannot name the deviation
							cause = "no-series-row-under-a-searched-day"
						}
						bad("property", "undiscoverable|"+cause, fmt.Sprintf("sample fp%d at t=%dh was acknowledged (2xx) but a query for its labels over [t, t+1s) does not return it: %s", fp, t, cause), len(beh)-1)
						break
					}
				}
			}
		}
		if len(w.Bridge.Unsupported) > 0 {
			infra = append(infra, w.Bridge.Unsupported...)
		}
		w.Close()
	}
	res["behaviours"] = len(input.Behaviours)
	res["pushes"] = pushes
	res["cache_resets"] = resets
	res["unparsable_tails"] = tails
	res["read_queries"] = queries
	res["violations"] = viols
	res["infra"] = infra
	b, _ := json.MarshalIndent(res, "", " ")
	os.WriteFile(out, b, 0644)
	if len(infra) > 0 {
		return 2
	}
	return 0
}

func keys(m map[string]bool) []string {
	var r []string
	for k := range m {
		r = append(r, k)
	}
	sort.Strings(r)
	return r
}

// ---------------------------------------------------------------- labels

type recCache struct{ m map[uint64]bool }

func (c *recCache) CheckAndSet(k uint64) bool {
	if c.m[k] {
		return true
	}
	c.m[k] = true
	return false
}
func (c *recCache) DB(string) numbercache.ICache[uint64] { return c }

var valuePool = []string{"v", "w", "", "a b", `q"uote`, `back\slash`, "new\nline", "tab\t", "nul\x00byte", "bell\a", "vt\v", "del\x7f", "esc\x1b[0m",
	"unicode é ü 日本", "emoji 😀", "line sep", "privateuse", "tag\U000e0001char", "invalid\xffutf8", "bad\xc3", `{"json":"inside"}`, `'single'`, "%_like",
	strings.Repeat("long", 30)}
var namePool = []string{"app", "env", "k8s.pod-name", "9lives", "a b", "_ok", "Ünï"}

var sanitizeRe = regexp.MustCompile("(^[^a-zA-Z_]|[^a-zA-Z0-9_])")

func sanitize(name, val string) (string, string) {
	name = sanitizeRe.ReplaceAllString(name, "_")
	if len(val) > 100 {
		val = val[:100] + "..."
	}
	return name, val
}

type labelCase struct {
	Pairs [][2]string // as submitted, in order
}

func setID(pairs [][2]string) string {
	var s []string
	for _, p := range pairs {
		n, v := sanitize(p[0], p[1])
		s = append(s, fmt.Sprintf("%q=%q", n, v))
	}
	sort.Strings(s)
	return strings.Join(s, ",")
}

func jstr(s string) string {
	// JSON string literal carrying the exact bytes of s where JSON allows (invalid UTF-8 cannot be carried)
	var b strings.Builder
	b.WriteByte('"')
	for i := 0; i < len(s); {
		r, sz := utf8.DecodeRuneInString(s[i:])
		switch {
		case r == utf8.RuneError && sz == 1:
			b.WriteString(`�`)
		case r == '"' || r == '\\':
			b.WriteByte('\\')
			b.WriteRune(r)
		case r < 0x20 || r == 0x7f || r == 0x2028 || r == 0x2029:
			fmt.Fprintf(&b, `\u%04x`, r)
		default:
			b.WriteRune(r)
		}
		i += sz
	}
	b.WriteByte('"')
	return b.String()
}

type protoFn func(pairs [][2]string, sh shape) (body []byte, parser unmarshal.ParsingFunction, ok bool)

// shape of the request around the series under test (Labels.tla: the fingerprint does not depend on the request): how many
// samples the series carries and how many single-sample filler series stand in front of / behind it in the same body.
// The samples of the series under test carry the value targetValue / the line "target", fillers carry 1 / "filler".
type shape struct {
	Name                   string
	Samples, Before, After int
}

const targetValue = 7.25

var shapes = []shape{
	{"single", 1, 0, 0},
	{"long", 1500, 0, 0},   // one series far larger than any per-request / per-series chunk of a decoder
	{"long2", 2600, 0, 0},  // ... crossing more than one chunk boundary
	{"late", 4, 998, 0},    // a small series behind many others: a request-wide counter crosses a round number inside it
	{"late2", 3, 999, 3},   // ... exactly at its first sample
	{"mid", 700, 650, 650}, // a medium series in the middle of a large request
	{"mid2", 120, 95, 40},  // the same around 100 / 200
}

func lokiStream(pairs [][2]string, sh shape) ([]byte, unmarshal.ParsingFunction, bool) {
	var lp []string
	for _, p := range pairs {
		if !utf8.ValidString(p[0]) || !utf8.ValidString(p[1]) {
			return nil, nil, false // JSON cannot carry these bytes
		}
		lp = append(lp, jstr(p[0])+":"+jstr(p[1]))
	}
	if sh.Name == "single" {
		return []byte(`{"streams":[{"stream":{` + strings.Join(lp, ",") + `},"values":[["1700000000000000000","x"]]}]}`), unmarshal.DecodePushRequestStringV2, true
	}
	var streams []string
	filler := func(n, base int) {
		for i := 0; i < n; i++ {
			streams = append(streams, fmt.Sprintf(`{"stream":{"filler_series":"f%d"},"values":[["1700000000000000000","filler"]]}`, base+i))
		}
	}
	filler(sh.Before, 0)
	var vals []string
	for i := 0; i < sh.Samples; i++ {
		vals = append(vals, fmt.Sprintf(`["%d","target"]`, 1700000000000000000+int64(i)))
	}
	streams = append(streams, `{"stream":{`+strings.Join(lp, ",")+`},"values":[`+strings.Join(vals, ",")+`]}`)
	filler(sh.After, sh.Before)
	return []byte(`{"streams":[` + strings.Join(streams, ",") + `]}`), unmarshal.DecodePushRequestStringV2, true
}

var identRe = regexp.MustCompile(`^[a-zA-Z_][a-zA-Z0-9_]*$`)

func lokiLabelsString(pairs [][2]string, sh shape) ([]byte, unmarshal.ParsingFunction, bool) {
	if sh.Name != "single" {
		return nil, nil, false
	}
	var lp []string
	for _, p := range pairs {
		if !identRe.MatchString(p[0]) || !utf8.ValidString(p[1]) || strings.ContainsAny(p[1], "\x00\n") {
			return nil, nil, false // the Loki label-string syntax only admits identifiers and Go-quoted values
		}
		lp = append(lp, p[0]+"="+fmt.Sprintf("%q", p[1]))
	}
	lbl := "{" + strings.Join(lp, ",") + "}"
	return []byte(`{"streams":[{"labels":` + jstr(lbl) + `,"entries":[{"ts":"1700000000000000000","line":"x"}]}]}`), unmarshal.DecodePushRequestStringV2, true
}

func lokiProtoB(pairs [][2]string, sh shape) ([]byte, unmarshal.ParsingFunction, bool) {
	if sh.Name != "single" {
		return nil, nil, false
	}
	var lp []string
	for _, p := range pairs {
		if !identRe.MatchString(p[0]) || !utf8.ValidString(p[1]) || strings.ContainsAny(p[1], "\x00\n") {
			return nil, nil, false
		}
		lp = append(lp, p[0]+"="+fmt.Sprintf("%q", p[1]))
	}
	req := &logproto.PushRequest{Streams: []*logproto.StreamAdapter{{Labels: "{" + strings.Join(lp, ", ") + "}",
		Entries: []*logproto.EntryAdapter{{Timestamp: &logproto.Timestamp{Seconds: 1700000000}, Line: "x"}}}}}
	b, _ := proto.Marshal(req)
	return b, unmarshal.UnmarshalProtoV2, true
}

func promB(pairs [][2]string, sh shape) ([]byte, unmarshal.ParsingFunction, bool) {
	ts := &prompb.TimeSeries{Samples: []*prompb.Sample{{Value: 1, Timestamp: 1700000000000}}}
	if sh.Name != "single" {
		ts.Samples = nil
		for i := 0; i < sh.Samples; i++ {
			ts.Samples = append(ts.Samples, &prompb.Sample{Value: targetValue, Timestamp: 1700000000000 + int64(i)})
		}
	}
	for _, p := range pairs {
		if !utf8.ValidString(p[0]) || !utf8.ValidString(p[1]) {
			return nil, nil, false // protobuf string fields must be UTF-8
		}
		ts.Labels = append(ts.Labels, &prompb.Label{Name: p[0], Value: p[1]})
	}
	var all []*prompb.TimeSeries
	filler := func(n, base int) {
		for i := 0; i < n; i++ {
			all = append(all, &prompb.TimeSeries{Labels: []*prompb.Label{{Name: "filler_series", Value: fmt.Sprintf("f%d", base+i)}},
				Samples: []*prompb.Sample{{Value: 1, Timestamp: 1700000000000}}})
		}
	}
	filler(sh.Before, 0)
	all = append(all, ts)
	filler(sh.After, sh.Before)
	b, err := proto.Marshal(&prompb.WriteRequest{Timeseries: all})
	if err != nil {
		return nil, nil, false
	}
	return b, unmarshal.UnmarshallMetricsWriteProtoV2, true
}

var protos = map[string]protoFn{"loki-json-stream": lokiStream, "loki-json-labels": lokiLabelsString, "loki-protobuf": lokiProtoB, "prom-remote-write": promB}

type LabelEvent struct {
	Ev    string `json:"ev"`
	Set   string `json:"set"`
	Proto string `json:"proto"`
	Perm  int    `json:"perm"`
	Shape string `json:"shape"`
	Fp    string `json:"fp"`
	DocOK bool   `json:"docok"`
}

type LabelViolation struct {
	Signature string      `json:"signature"`
	Msg       string      `json:"msg"`
	Pairs     [][2]string `json:"pairs"`
	Proto     string      `json:"proto"`
	Doc       string      `json:"doc"`
}

// signatures name the class of the request shape (one series alone / a request larger than one decoder chunk), not the sizes
func shapeSig(sh shape) string {
	if sh.Name == "single" {
		return ""
	}
	return "|large-request"
}

func charClass(s string) string {
	switch {
	case !utf8.ValidString(s):
		return "invalid-utf8"
	case strings.ContainsAny(s, "\x00\a\v\x7f\x1b") || strings.ContainsRune(s, 0xe0001):
		return "control-or-nonprintable"
	}
	return "other"
}

func labelsMode(out, tracePath string, seed int64, nsets int) int {
	wworld.InitPools()
	cfg := config.ClokiBaseSettingServer{}
	cfg.FingerPrintType = 1
	wconfig.Cloki = &clconfig.ClokiConfig{Setting: &cfg}
	rnd := rand.New(rand.NewSource(seed))
	// label sets: every single (name, value) pair of the pools + random sets of 2-3 pairs with distinct sanitised names
	var sets [][][2]string
	for _, v := range valuePool {
		sets = append(sets, [][2]string{{"app", v}})
	}
	for _, n := range namePool {
		sets = append(sets, [][2]string{{n, "v"}})
	}
	// structural near-collisions: the same characters with the name/value boundary or the pair boundary somewhere else,
	// swapped roles, repeated pairs (a fingerprint built from a concatenation cannot tell these apart)
	for _, fam := range [][][][2]string{
		{{{"job", "s3"}}, {{"jobs", "3"}}, {{"jo", "bs3"}}},
		{{{"app", "le1"}}, {{"appl", "e1"}}},
		{{{"a", "b"}, {"c", "d"}}, {{"a", "bc"}, {"d", "x"}}, {{"ab", ""}, {"c", "d"}}, {{"a", "d"}, {"c", "b"}}, {{"c", "b"}, {"a", "d"}}},
		{{{"x", "y"}}, {{"y", "x"}}, {{"xy", ""}}, {{"x", "y"}, {"x2", "y"}}},
		{{{"k", "v1"}, {"k2", "v"}}, {{"k", "v"}, {"k2", "v1"}}, {{"k", "v1k2v"}}},
	} {
		for _, ps := range fam {
			sets = append(sets, ps)
		}
	}
	nsets += 16
	for len(sets) < nsets {
		k := 2 + rnd.Intn(2)
		var ps [][2]string
		used := map[string]bool{}
		for len(ps) < k {
			n := namePool[rnd.Intn(len(namePool))]
			sn, _ := sanitize(n, "")
			if used[sn] {
				continue
			}
			used[sn] = true
			ps = append(ps, [2]string{n, valuePool[rnd.Intn(len(valuePool))]})
		}
		sets = append(sets, ps)
	}
	fpOfSet := map[string]uint64{}
	setOfFp := map[uint64]string{}
	var events []LabelEvent
	var viols []LabelViolation
	sigSeen := map[string]bool{}
	add := func(v LabelViolation) {
		if !sigSeen[v.Signature] {
			sigSeen[v.Signature] = true
			viols = append(viols, v)
		}
	}
	runs := 0
	shapeRuns := map[string]int{}
	chdb := chsql.NewDB()
	chdb.CreateTable("t", []chsql.Column{{Name: "labels", Type: "String"}})
	for _, ps := range sets {
		id := setID(ps)
		want := map[string]string{}
		for _, p := range ps {
			n, v := sanitize(p[0], p[1])
			want[n] = v
		}
		perms := [][][2]string{ps}
		if len(ps) > 1 {
			rev := make([][2]string, len(ps))
			for i := range ps {
				rev[len(ps)-1-i] = ps[i]
			}
			perms = append(perms, rev)
			sh := append([][2]string{}, ps...)
			rnd.Shuffle(len(sh), func(a, b int) { sh[a], sh[b] = sh[b], sh[a] })
			perms = append(perms, sh)
		}
		for pname, pf := range protos {
			for pi, perm := range perms {
				for _, sh := range shapes {
					if sh.Name != "single" && pi != 0 {
						continue // the order of the pairs and the shape of the request are varied independently
					}
					body, parser, ok := pf(perm, sh)
					if !ok {
						continue
					}
					ctx := context.Background()
					ch := parser(ctx, bytes.NewReader(body), &recCache{m: map[uint64]bool{}})
					type row struct {
						fp  uint64
						doc string
					}
					var rows []row                 // series rows emitted for the request
					targetFps := map[uint64]int{}  // fingerprints of the sample rows of the series under test
					fillerFps := map[uint64]bool{} // fingerprints of the other sample rows
					var perr error
					for r := range ch {
						if r.Error != nil {
							perr = r.Error
							continue
						}
						if t, ok := r.TimeSeriesRequest.(*model.TimeSeriesData); ok {
							for i := range t.MLabels {
								rows = append(rows, row{t.MFingerprint[i], t.MLabels[i]})
							}
						}
						if sp, ok := r.SamplesRequest.(*model.TimeSamplesData); ok {
							for i := range sp.MFingerprint {
								if sh.Name == "single" || sp.MValue[i] == targetValue || sp.MMessage[i] == "target" {
									targetFps[sp.MFingerprint[i]]++
								} else {
									fillerFps[sp.MFingerprint[i]] = true
								}
							}
						}
					}
					runs++
					shapeRuns[sh.Name]++
					var trows []row
					for _, r := range rows {
						if !fillerFps[r.fp] {
							trows = append(trows, r)
						}
					}
					if perr != nil || len(trows) == 0 {
						add(LabelViolation{Signature: "labels|rejected|" + pname + shapeSig(sh), Msg: fmt.Sprintf("well-formed body (request shape %+v) with labels %q rejected or without series row: %v", sh, perm, perr), Pairs: perm, Proto: pname})
						continue
					}
					nt := 0
					for _, n := range targetFps {
						nt += n
					}
					if nt != sh.Samples {
						add(LabelViolation{Signature: "labels|samples-lost|" + pname + shapeSig(sh), Msg: fmt.Sprintf("request shape %+v, labels %q: %d sample rows of the series emitted, %d sent", sh, perm, nt, sh.Samples), Pairs: perm, Proto: pname})
					}
					for _, tr := range trows {
						fp, doc := tr.fp, tr.doc
						docOK := true
						var m map[string]string
						if err := json.Unmarshal([]byte(doc), &m); err != nil {
							docOK = false
							cl := "other"
							for _, p := range perm {
								if c := charClass(p[1]); c != "other" {
									cl = c
								}
								if c := charClass(p[0]); c != "other" {
									cl = c
								}
							}
							add(LabelViolation{Signature: "labels|doc-not-json|" + cl + shapeSig(sh), Msg: fmt.Sprintf("stored label document is not valid JSON (%v): %s", err, doc), Pairs: perm, Proto: pname, Doc: doc})
						} else if !reflect.DeepEqual(m, want) {
							docOK = false
							cl := "other"
							for _, p := range perm {
								if c := charClass(p[1]); c != "other" {
									cl = c
								}
							}
							add(LabelViolation{Signature: "labels|doc-differs|" + cl + shapeSig(sh), Msg: fmt.Sprintf("request shape %+v: label document decodes to %q, the sanitised label set is %q", sh, m, want), Pairs: perm, Proto: pname, Doc: doc})
						} else {
							// what ClickHouse's JSONExtractKeysAndValues (the label index MV) sees
							chdb.Truncate("t")
							chdb.Insert("t", []any{doc})
							r, err := chdb.Query("SELECT JSONExtractKeysAndValues(labels, 'String') FROM t")
							if err == nil {
								got := map[string]string{}
								for _, kv := range r.Rows[0][0].([]any) {
									t := kv.(chsql.Tuple)
									got[t[0].(string)] = t[1].(string)
								}
								if !reflect.DeepEqual(got, want) {
									docOK = false
									add(LabelViolation{Signature: "labels|index-differs", Msg: fmt.Sprintf("JSONExtractKeysAndValues of the label document gives %q, the label set is %q", got, want), Pairs: perm, Proto: pname, Doc: doc})
								}
							}
						}
						events = append(events, LabelEvent{Ev: "Push", Set: id, Proto: pname, Perm: pi, Shape: sh.Name, Fp: fmt.Sprint(fp), DocOK: docOK})
						if old, ok := fpOfSet[id]; ok && old != fp {
							add(LabelViolation{Signature: "fingerprint|not-a-function-of-the-set" + shapeSig(sh), Msg: fmt.Sprintf("label set %s got fingerprints %d and %d (order / protocol / request-shape dependent; request shape %+v)", id, old, fp, sh), Pairs: perm, Proto: pname})
						}
						fpOfSet[id] = fp
						if o, ok := setOfFp[fp]; ok && o != id {
							add(LabelViolation{Signature: "fingerprint|collision", Msg: fmt.Sprintf("different label sets share fingerprint %d: %s / %s", fp, o, id), Pairs: perm, Proto: pname})
						}
						setOfFp[fp] = id
					}
					// every sample row of the series: stored under the fingerprint of the set, and that fingerprint has a series row
					var tf []uint64
					for f := range targetFps {
						tf = append(tf, f)
					}
					sort.Slice(tf, func(a, b int) bool { return tf[a] < tf[b] })
					for _, f := range tf {
						events = append(events, LabelEvent{Ev: "Sample", Set: id, Proto: pname, Perm: pi, Shape: sh.Name, Fp: fmt.Sprint(f), DocOK: true})
						if old, ok := fpOfSet[id]; ok && old != f {
							add(LabelViolation{Signature: "fingerprint|not-a-function-of-the-set" + shapeSig(sh), Msg: fmt.Sprintf("label set %s: %d sample rows stored under fingerprint %d, the set's fingerprint is %d (request shape %+v)", id, targetFps[f], f, old, sh), Pairs: perm, Proto: pname})
						}
						if _, ok := setOfFp[f]; !ok {
							add(LabelViolation{Signature: "labels|sample-without-series-row" + shapeSig(sh), Msg: fmt.Sprintf("label set %s: %d sample rows stored under fingerprint %d for which no series row was emitted (request shape %+v)", id, targetFps[f], f, sh), Pairs: perm, Proto: pname})
						}
					}
				}
			}
		}
	}
	if tracePath != "" {
		f, _ := os.Create(tracePath)
		enc := json.NewEncoder(f)
		for _, e := range events {
			enc.Encode(e)
		}
		f.Close()
	}
	res := map[string]any{"label_sets": len(sets), "parser_runs": runs, "distinct_fingerprints": len(setOfFp), "shape_runs": shapeRuns, "violations": viols, "events": len(events)}
	b, _ := json.MarshalIndent(res, "", " ")
	os.WriteFile(out, b, 0644)
	return 0
}

func main() {
	cmd := os.Args[1]
	fs := flag.NewFlagSet(cmd, flag.ExitOnError)
	in := fs.String("in", "", "")
	out := fs.String("out", "", "")
	trace := fs.String("trace", "", "")
	seed := fs.Int64("seed", 1, "")
	nsets := fs.Int("sets", 150, "")
	fs.Parse(os.Args[2:])
	switch cmd {
	case "history":
		os.Exit(history(*in, *out))
	case "labels":
		os.Exit(labelsMode(*out, *trace, *seed, *nsets))
	}
	os.Exit(2)
}

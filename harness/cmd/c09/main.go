// Command c09 binds spec/query/InProc.tla to the real in-process LogQL engine of the reader:
//
//	c09 chain -cases cases.json -out res.json
//	    every TLC-evaluated case (pipeline, upstream entries, partition into channel messages, limit, window) is
//	    concretised and replayed into the REAL planned processor chain (logql_parser.Parse, logql_transpiler_v2.Plan =
//	    GetBreakpoint + breakScript + internal_planner.Plan) through a scripted upstream; the output channel is
//	    compared with the expected result computed by TLC from the specification; the same entries are replayed under
//	    further partitions and must give the same result
//	c09 cross -out res.json -seed N
//	    cross-engine: equivalent formulations of one query, one that stays in SQL and one that forces the breakpoint,
//	    run end to end (/loki/api/v1/query_range) over the same stored data through e2e.World (real writer, real reader,
//	    chsql with the real DDL); the results must be equal
//	c09 probe -q QUERY ...      (debug: one query through the chain with a scripted upstream)
//	c09 e2eprobe -q QUERY -l LINE...  (debug: one query end to end over one stored stream {a="p"})
package main

import (
	"encoding/json"
	"flag"
	"fmt"
	"io"
	"os"

	rlogger "github.com/metrico/qryn/reader/utils/logger"
)

func main() {
	if len(os.Args) < 2 {
		fmt.Fprintln(os.Stderr, "usage: c09 chain|cross|probe ...")
		os.Exit(2)
	}
	realStdout := os.Stdout
	if dn, err := os.OpenFile(os.DevNull, os.O_WRONLY, 0); err == nil && os.Getenv("C09_VERBOSE") == "" {
		os.Stdout = dn
	}
	rlogger.Logger.SetOutput(io.Discard)
	cmd := os.Args[1]
	fs := flag.NewFlagSet(cmd, flag.ExitOnError)
	var err error
	switch cmd {
	case "chain":
		err = chainMain(fs, os.Args[2:])
	case "chainworker":
		err = chainWorker(fs, os.Args[2:], realStdout)
	case "cross":
		err = crossMain(fs, os.Args[2:])
	case "e2eprobe":
		err = e2eProbe(fs, os.Args[2:])
	case "probe":
		os.Stdout = realStdout
		err = probeMain(fs, os.Args[2:])
	default:
		err = fmt.Errorf("unknown subcommand %s", cmd)
	}
	if err != nil {
		fmt.Fprintln(os.Stderr, "c09:", err)
		os.Exit(2)
	}
}

func writeJSON(path string, v any) error {
	b, err := json.MarshalIndent(v, "", " ")
	if err != nil {
		return err
	}
	return os.WriteFile(path, b, 0o644)
}

func readJSON(path string, v any) error {
	b, err := os.ReadFile(path)
	if err != nil {
		return err
	}
	return json.Unmarshal(b, v)
}

package main

import (
	"context"
	"fmt"
	"io"
	"reflect"
	"sort"
	"strings"
	"sync/atomic"
	"time"

	"github.com/metrico/qryn/reader/logql/logql_parser"
	"github.com/metrico/qryn/reader/logql/logql_transpiler_v2"
	"github.com/metrico/qryn/reader/logql/logql_transpiler_v2/shared"
	sql "github.com/metrico/qryn/reader/utils/sql_select"
)

// ---------------------------------------------------------------------------------------------------------------
// The in-process chain, driven directly: the REAL parser, the REAL planner (GetBreakpoint, breakScript,
// internal_planner.Plan through logql_transpiler_v2.Plan), and at the bottom - where production puts the
// ClickhouseGetterPlanner that scans SQL rows into channel messages - a scripted upstream RequestProcessor that
// replays exactly the channel messages of the case.
// ---------------------------------------------------------------------------------------------------------------

// UEntry is one upstream entry as the SQL side would deliver it.
type UEntry struct {
	Labels map[string]string
	TsNs   int64
	Line   string
	EOF    bool // the end marker the ClickhouseGetterPlanner appends (Err = io.EOF)
}

// scripted is the upstream: it sends the given messages, one channel send per message, then closes the channel.
// Like the real getter it gives every entry its own label map and a series fingerprint.
type scripted struct {
	msgs   [][]UEntry
	fpOf   func(map[string]string) uint64
	sent   int
	closed atomic.Bool
}

func (s *scripted) IsMatrix() bool { return false }

func (s *scripted) Process(ctx *shared.PlannerContext, _ chan []shared.LogEntry) (chan []shared.LogEntry, error) {
	out := make(chan []shared.LogEntry)
	go func() {
		defer func() { s.closed.Store(true); close(out) }()
		for _, m := range s.msgs {
			msg := make([]shared.LogEntry, len(m))
			for i, e := range m {
				if e.EOF {
					msg[i].Err = io.EOF
					continue
				}
				lb := make(map[string]string, len(e.Labels))
				for k, v := range e.Labels {
					lb[k] = v
				}
				msg[i] = shared.LogEntry{TimestampNS: e.TsNs, Fingerprint: s.fpOf(e.Labels), Labels: lb, Message: e.Line}
			}
			select {
			case out <- msg:
				s.sent++
			case <-ctx.Ctx.Done():
				// the real getter stops scanning when the request context is cancelled (LimitPlanner cancels it)
				return
			}
		}
	}()
	return out, nil
}

// Built is a planned chain with its seams.
type Built struct {
	Top        shared.RequestProcessor // what the service would run (with the matrix post processors)
	Inner      shared.RequestProcessor // the result of internal_planner.Plan
	IsMatrix   bool
	SQLStages  int    // pipeline stages left on the SQL side
	PlanString string // type names of the chain from the output down to the upstream
}

// build parses and plans the query with the real code and replaces the ClickHouse getter by up.
func build(query string, up shared.RequestProcessor) (*Built, error) {
	script, err := logql_parser.Parse(query)
	if err != nil {
		return nil, fmt.Errorf("parse: %w", err)
	}
	bp, err := logql_transpiler_v2.GetBreakpoint(script)
	if err != nil {
		return nil, fmt.Errorf("breakpoint: %w", err)
	}
	if bp == logql_transpiler_v2.BreakpointNo {
		return nil, fmt.Errorf("query has no breakpoint: it would run entirely in SQL")
	}
	chain, err := logql_transpiler_v2.Plan(script)
	if err != nil {
		return nil, fmt.Errorf("plan: %w", err)
	}
	b := &Built{Top: chain[0], IsMatrix: chain[0].IsMatrix(), SQLStages: bp}
	b.Inner = b.Top
	if fp, ok := b.Top.(*logql_transpiler_v2.FixPeriodPlanner); ok {
		ze, ok := fp.Main.(*logql_transpiler_v2.ZeroEaterPlanner)
		if !ok {
			return nil, fmt.Errorf("unexpected post processor %T", fp.Main)
		}
		b.Inner = ze.Main
	}
	var names []string
	var cur any = b.Inner
	for depth := 0; depth < 64; depth++ {
		names = append(names, strings.TrimPrefix(fmt.Sprintf("%T", cur), "*internal_planner."))
		v := reflect.ValueOf(cur)
		if v.Kind() != reflect.Ptr || v.Elem().Kind() != reflect.Struct {
			return nil, fmt.Errorf("chain element %T is not a struct pointer", cur)
		}
		f := v.Elem().FieldByName("Main")
		if !f.IsValid() || !f.CanSet() {
			return nil, fmt.Errorf("chain element %T has no settable Main", cur)
		}
		if _, ok := f.Interface().(*shared.ClickhouseGetterPlanner); ok {
			f.Set(reflect.ValueOf(up))
			b.PlanString = strings.Join(names, " <- ")
			return b, nil
		}
		cur = f.Interface()
	}
	return nil, fmt.Errorf("no ClickhouseGetterPlanner found under %T", b.Inner)
}

// OEntry is one entry of the output channel.
type OEntry struct {
	Fp     uint64            `json:"fp"`
	Labels map[string]string `json:"labels"`
	TsNs   int64             `json:"ts_ns"`
	Line   string            `json:"line,omitempty"`
	Value  float64           `json:"value"`
	Err    string            `json:"err,omitempty"`
}

// Rewrite: a message that no longer reads as it read when it was received (InProcMem!DeliveredStable).
type Rewrite struct {
	Msg     int    `json:"msg"`     // index of the message in order of delivery
	Size    int    `json:"size"`    // its entries
	Changed int    `json:"changed"` // entries that read differently now
	First   int    `json:"first"`   // index of the first of them
	Was     OEntry `json:"was"`
	Now     OEntry `json:"now"`
}

// RunResult is everything observable at the output channel.
type RunResult struct {
	Msgs [][]OEntry `json:"msgs"` // every message as it read on receipt
	// Reread: the same messages - the consumer kept every slice it received - read again after the chain had finished;
	// set only when some message changed, Rewritten says which
	Reread    [][]OEntry `json:"reread,omitempty"`
	Rewritten []Rewrite  `json:"rewritten,omitempty"`
	ProcErr   string     `json:"proc_err,omitempty"` // Process returned an error
	Timeout   bool       `json:"timeout,omitempty"`
	Cancelled bool       `json:"cancelled,omitempty"`
	UpSent    int        `json:"up_sent"`
}

type RunCtx struct {
	FromNs, ToNs int64
	Limit        int64
	Forward      bool
	StepNs       int64
}

// runChain drives proc over the upstream messages and collects the output channel.
func runChain(query string, msgs [][]UEntry, rc RunCtx, inner bool) (*Built, *RunResult, error) {
	up := &scripted{msgs: msgs, fpOf: seriesFp}
	b, err := build(query, up)
	if err != nil {
		return nil, nil, err
	}
	cctx, cancel := context.WithCancel(context.Background())
	defer cancel()
	res := &RunResult{}
	pctx := &shared.PlannerContext{
		From: time.Unix(0, rc.FromNs), To: time.Unix(0, rc.ToNs), OrderASC: rc.Forward, Limit: rc.Limit,
		Ctx: cctx, CancelCtx: func() { res.Cancelled = true; cancel() }, CHFinalize: true, Step: time.Duration(rc.StepNs),
		CHSqlCtx:         &sql.Ctx{Params: map[string]sql.SQLObject{}, Result: map[string]sql.SQLObject{}},
		SamplesTableName: "samples_v3", TimeSeriesTableName: "time_series", TimeSeriesGinTableName: "time_series_gin",
		TimeSeriesDistTableName: "time_series_dist", Metrics15sTableName: "metrics_15s",
	}
	proc := b.Top
	if inner {
		proc = b.Inner
	}
	out, err := proc.Process(pctx, nil)
	if err != nil {
		res.ProcErr = err.Error()
		return b, res, nil
	}
	deadline := time.After(20 * time.Second)
	// The consumer discipline of InProcMem.tla: every message is read completely on receipt (what a consumer that
	// serialises at once sees) AND the slice itself is kept (what a consumer sees that is still busy with a message while
	// the chain goes on - the HTTP exporter blocks on the client for every entry).
	var held [][]shared.LogEntry
loop:
	for {
		select {
		case m, ok := <-out:
			if !ok {
				break loop
			}
			res.Msgs = append(res.Msgs, readMsg(m))
			held = append(held, m)
		case <-deadline:
			res.Timeout = true
			break loop
		}
	}
	if !res.Timeout {
		// the chain has finished (its output is closed); a stage that was left behind by an error or by the limit is given a
		// moment to run out of input, then every message received is read again: a message is its receiver's once sent
		for i := 0; i < 50 && !up.closed.Load(); i++ {
			time.Sleep(time.Millisecond)
		}
		reread := make([][]OEntry, len(held))
		for i, m := range held {
			reread[i] = readMsg(m)
			if rw := compareMsg(i, res.Msgs[i], reread[i]); rw != nil {
				res.Rewritten = append(res.Rewritten, *rw)
			}
		}
		if len(res.Rewritten) > 0 {
			res.Reread = reread
		}
	}
	res.UpSent = up.sent
	return b, res, nil
}

// readMsg copies everything a consumer can read from a message.
func readMsg(m []shared.LogEntry) []OEntry {
	om := make([]OEntry, len(m))
	for i, e := range m {
		om[i] = OEntry{Fp: e.Fingerprint, TsNs: e.TimestampNS, Line: e.Message, Value: e.Value}
		if e.Labels != nil {
			om[i].Labels = make(map[string]string, len(e.Labels))
			for k, v := range e.Labels {
				om[i].Labels[k] = v
			}
		}
		if e.Err != nil {
			if e.Err == io.EOF {
				om[i].Err = "EOF"
			} else {
				om[i].Err = e.Err.Error()
			}
		}
	}
	return om
}

func sameEntry(a, b *OEntry) bool {
	if a.Fp != b.Fp || a.TsNs != b.TsNs || a.Line != b.Line || a.Err != b.Err || len(a.Labels) != len(b.Labels) ||
		(a.Labels == nil) != (b.Labels == nil) {
		return false
	}
	if a.Value != b.Value && !(a.Value != a.Value && b.Value != b.Value) {
		return false
	}
	for k, v := range a.Labels {
		if w, ok := b.Labels[k]; !ok || w != v {
			return false
		}
	}
	return true
}

func compareMsg(idx int, was, now []OEntry) *Rewrite {
	var rw *Rewrite
	for i := range was {
		if i < len(now) && sameEntry(&was[i], &now[i]) {
			continue
		}
		if rw == nil {
			rw = &Rewrite{Msg: idx, Size: len(was), First: i, Was: was[i]}
			if i < len(now) {
				rw.Now = now[i]
			}
		}
		rw.Changed++
	}
	return rw
}

// seriesFp is the fingerprint the scripted upstream gives a stream: any injective function of the label set will do
// (production uses the stored series fingerprint); FNV over the sorted pairs with separators.
func seriesFp(l map[string]string) uint64 {
	ks := make([]string, 0, len(l))
	for k := range l {
		ks = append(ks, k)
	}
	sort.Strings(ks)
	h := uint64(14695981039346656037)
	add := func(s string) {
		for i := 0; i < len(s); i++ {
			h ^= uint64(s[i])
			h *= 1099511628211
		}
		h ^= 0xff
		h *= 1099511628211
	}
	for _, k := range ks {
		add(k)
		add(l[k])
	}
	if h == 0 {
		h = 1
	}
	return h
}

package main

import (
	"encoding/json"
	"flag"
	"fmt"
	"strconv"
	"strings"
)

// probe: c09 probe -q '{a="b"} | json' -limit 0 -e '1|{"x":"1"}' -e '2|{"x":"2"}' -cut 1,1 [-eof] [-inner]
// entries: "<ts seconds>|<line>" all in stream {a="b"}; or "<ts>|<k=v,k=v>|<line>"
type multi []string

func (m *multi) String() string     { return strings.Join(*m, ";") }
func (m *multi) Set(s string) error { *m = append(*m, s); return nil }

func probeMain(fs *flag.FlagSet, args []string) error {
	var es multi
	q := fs.String("q", `{a="b"} | json`, "query")
	fs.Var(&es, "e", "entry")
	cut := fs.String("cut", "", "message sizes, comma separated (default: one message)")
	limit := fs.Int64("limit", 0, "limit")
	eof := fs.Bool("eof", false, "append the EOF marker")
	inner := fs.Bool("inner", false, "observe the internal chain without the matrix post processors")
	from := fs.Int64("from", 0, "from seconds")
	to := fs.Int64("to", 60, "to seconds")
	step := fs.Int64("step", 10, "step seconds")
	fwd := fs.Bool("fwd", false, "forward")
	fs.Parse(args)
	var ents []UEntry
	for _, e := range es {
		p := strings.SplitN(e, "|", 3)
		lb := map[string]string{"a": "b"}
		line := p[len(p)-1]
		if len(p) == 3 {
			for _, kv := range strings.Split(p[1], ",") {
				x := strings.SplitN(kv, "=", 2)
				if len(x) == 2 {
					lb[x[0]] = x[1]
				}
			}
		}
		ts, err := strconv.ParseFloat(p[0], 64)
		if err != nil {
			return err
		}
		ents = append(ents, UEntry{Labels: lb, TsNs: int64(ts * 1e9), Line: line})
	}
	if *eof {
		ents = append(ents, UEntry{EOF: true})
	}
	var msgs [][]UEntry
	if *cut == "" {
		msgs = [][]UEntry{ents}
	} else {
		i := 0
		for _, c := range strings.Split(*cut, ",") {
			n, _ := strconv.Atoi(c)
			if i+n > len(ents) {
				n = len(ents) - i
			}
			msgs = append(msgs, ents[i:i+n])
			i += n
		}
		if i < len(ents) {
			msgs = append(msgs, ents[i:])
		}
	}
	b, res, err := runChain(*q, msgs, RunCtx{FromNs: *from * 1e9, ToNs: *to * 1e9, Limit: *limit, Forward: *fwd, StepNs: *step * 1e9}, *inner)
	if err != nil {
		return err
	}
	fmt.Println("plan:", b.PlanString, "matrix:", b.IsMatrix, "sql stages:", b.SQLStages)
	out, _ := json.MarshalIndent(res, "", " ")
	fmt.Println(string(out))
	return nil
}


package main

import (
	"encoding/json"
	"flag"
	"fmt"
	"math/rand"
	"net/url"
	"os"
	"sort"
	"strconv"
	"strings"

	"verif/harness/e2e"
)

// ---------------------------------------------------------------------------------------------------------------
// Binding (b): cross-engine.  For stages both engines implement, two formulations of one query - one that stays in
// SQL (json with parameters), one that forces the breakpoint earlier (plain json) or at another split point - run
// end to end (/loki/api/v1/query_range) over the same stored data: real writer, real reader, chsql as ClickHouse.
// Where LogQL defines the results as equal (on the labels both formulations produce) they must be equal.
// ---------------------------------------------------------------------------------------------------------------

type xpair struct {
	ID     string
	Family string
	SQL    string   // %s = stream selector
	InProc string   // %s = stream selector
	Keys   []string // labels compared (nil = all)
	Metric bool
	// SQLBreaks: the "SQL" formulation also has a breakpoint, at a different split point
	SQLBreaks bool
	// note: `| json != "x"` / `| json !~ "x"` are parsed by logql_parser as a label filter on a label called json; the in-process
	// formulations therefore put a label filter that holds for every stream between the parser and the line filter
}

func xpairs() []xpair {
	ps := []xpair{
		{ID: "lf_has", Family: "linefilter", SQL: `%s |= "NEEDLE" | json x="x"`, InProc: `%s | json |= "NEEDLE"`, Keys: []string{"a", "s", "x"}},
		{ID: "lf_not", Family: "linefilter", SQL: `%s != "NEEDLE" | json x="x"`, InProc: `%s | json | s=~".+" != "NEEDLE"`, Keys: []string{"a", "s", "x"}},
		{ID: "lf_re", Family: "linefilter", SQL: `%s |~ "NEE+DLE" | json x="x"`, InProc: `%s | json |~ "NEE+DLE"`, Keys: []string{"a", "s", "x"}},
		{ID: "lf_nre", Family: "linefilter", SQL: `%s !~ "NEE+DLE" | json x="x"`, InProc: `%s | json | s=~".+" !~ "NEE+DLE"`, Keys: []string{"a", "s", "x"}},
		{ID: "split_lf", Family: "split", SQL: `%s |= "NEEDLE" | json`, InProc: `%s | json |= "NEEDLE"`, SQLBreaks: true},
		{ID: "split_label", Family: "split", SQL: `%s | s="1" | json`, InProc: `%s | json | s="1"`, SQLBreaks: true},
		{ID: "drop", Family: "drop", SQL: `%s | json x="x", y="y" | drop x`, InProc: `%s | json | drop x`, Keys: []string{"a", "s", "x", "y"}},
		{ID: "dropv", Family: "drop", SQL: `%s | json x="x", y="y" | drop x="1"`, InProc: `%s | json | drop x="1"`, Keys: []string{"a", "s", "x", "y"}},
		{ID: "lfmt_ren", Family: "label_format", SQL: `%s | json x="x" | label_format z=x`, InProc: `%s | json | label_format z=x`, Keys: []string{"a", "s", "x", "z"}},
		{ID: "or", Family: "labelfilter", SQL: `%s | json x="x", y="y" | x="1" or y="b"`, InProc: `%s | json | x="1" or y="b"`, Keys: []string{"a", "s", "x", "y"}},
		{ID: "and", Family: "labelfilter", SQL: `%s | json x="x", y="y" | x > 1 and y="a"`, InProc: `%s | json | x > 1 and y="a"`, Keys: []string{"a", "s", "x", "y"}},
	}
	for _, f := range []struct{ id, f string }{{"eq", `x="1"`}, {"ne", `x!="1"`}, {"re", `x=~"^(1|2)$"`}, {"nre", `x!~"^(1|2)$"`},
		{"gt", `x > 1`}, {"ge", `x >= 2`}, {"lt", `x < 2`}, {"le", `x <= 2`}, {"neq", `x == 2`}, {"nne", `x != 2`}} {
		ps = append(ps, xpair{ID: "f_" + f.id, Family: "labelfilter", SQL: `%s | json x="x" | ` + f.f, InProc: `%s | json | ` + f.f, Keys: []string{"a", "s", "x"}})
	}
	for _, fn := range []string{"sum_over_time", "avg_over_time", "min_over_time", "max_over_time", "first_over_time", "last_over_time", "rate"} {
		ps = append(ps, xpair{ID: "uw_" + fn, Family: "unwrap-agg", Metric: true,
			SQL: fn + `(%s | json x="x" | unwrap x [10s]) by (s)`, InProc: fn + `(%s | json | unwrap x [10s]) by (s)`})
	}
	ps = append(ps,
		xpair{ID: "v_count_by", Family: "vector-agg", Metric: true, SQL: `sum by (s) (count_over_time(%s | json x="x" | x="1" [10s]))`, InProc: `sum by (s) (count_over_time(%s | json | x="1" [10s]))`},
		xpair{ID: "v_rate_by", Family: "vector-agg", Metric: true, SQL: `sum by (s) (rate(%s | json x="x" | x > 0 [10s]))`, InProc: `sum by (s) (rate(%s | json | x > 0 [10s]))`},
		xpair{ID: "v_bytes_by", Family: "vector-agg", Metric: true, SQL: `sum by (s) (bytes_over_time(%s | json x="x" [10s]))`, InProc: `sum by (s) (bytes_over_time(%s | json [10s]))`},
		xpair{ID: "v_max_by", Family: "vector-agg", Metric: true, SQL: `max by (s) (count_over_time(%s | json x="x" [10s]))`, InProc: `max by (s) (count_over_time(%s | json | drop y, m, n_y, f, x_k [10s]))`},
		xpair{ID: "v_without", Family: "vector-agg", Metric: true, SQL: `sum without (x) (count_over_time(%s | json x="x" [10s]))`, InProc: `sum without (x, y, m, n_y, f, x_k) (count_over_time(%s | json [10s]))`},
		xpair{ID: "v_nogrp", Family: "vector-agg-nogroup", Metric: true, SQL: `sum(count_over_time(%s | json x="x" [10s]))`, InProc: `sum(count_over_time(%s | json | drop y, m, n_y, f, x_k [10s]))`},
		xpair{ID: "cmp", Family: "comparison", Metric: true, SQL: `sum by (s) (count_over_time(%s | json x="x" [10s])) > 1`, InProc: `sum by (s) (count_over_time(%s | json [10s])) > 1`},
		xpair{ID: "cmp_lra", Family: "comparison", Metric: true, SQL: `count_over_time(%s | json x="x" | drop x [10s]) > 1`, InProc: `count_over_time(%s | json | drop x, y, m, n_y, f, x_k [10s]) > 1`},
	)
	return ps
}

var cleanLines = [][]string{
	{`{"x":"1","y":"a"}`, `{ "y" : "a" ,	"x" : "1" }`, `{"x":"1","y":"a","k":[1,2,{"x":"7"}]}`},
	{`{"x":2,"y":"b","m":"--NEEDLE--"}`, `{"m":"--NEEDLE--", "x": 2 , "y":"b"}`},
	{`{"x":"3","n":{"y":"a","k":[1,{"z":2}]},"f":true}`},
	{`{"y":"a"}`, `{"y":"a","k":[]}`},
	{`{"x":"abc","y":"b"}`},
	{`{"x":"-0.5e1","x-k":"1"}`, `{"x.k":"1","x":"-0.5e1"}`},
	{`{"x":"0","y":"a"}`, `{"x":0,"y":"a"}`},
	{`{"x":"2","y":"a"}`, `{"y":"a","x":2}`},
	{`{"x":"1","y":"b","m":"NEEDLE"}`},
	{`{"x":1,"y":"a"}`},
}
var hostileLines = [][]string{
	{`{"x":"1","y":`, `{"x":"1" "y":"a"}`, `{"x":"1","y":"a"`, `{x:1}`},
	{`[1,"NEEDLE"]`, `"NEEDLE x"`, `42`, `null`},
	{`x=1 y="a b" NEEDLE=1`, `x=1 y="{\"x\":\"1\"}"`},
}

type storedEntry struct {
	Stream map[string]string `json:"stream"`
	TsNs   int64             `json:"ts_ns"`
	Line   string            `json:"line"`
}

type XDisagreement struct {
	Kind        string        `json:"kind"`
	Metric      bool          `json:"metric"`
	Family      string        `json:"family"`
	Pair        string        `json:"pair"`
	Dataset     string        `json:"dataset"`
	Limit       string        `json:"limit"`
	Direction   string        `json:"direction"`
	SQLQuery    string        `json:"sql_query"`
	InProcQuery string        `json:"inproc_query"`
	SQLShort    string        `json:"sql_short"`
	InProcShort string        `json:"inproc_short"`
	SQLBody     string        `json:"sql_body,omitempty"`
	InProcBody  string        `json:"inproc_body,omitempty"`
	Stored      []storedEntry `json:"stored"`
	StartNs     int64         `json:"start_ns"`
	EndNs       int64         `json:"end_ns"`
}

type XOut struct {
	Queries       int             `json:"queries"`
	Pairs         int             `json:"pairs"`
	PairsEqual    int             `json:"pairs_equal"`
	PairsDiffer   int             `json:"pairs_differ"`
	Datasets      map[string]int  `json:"datasets"`
	Unsupported   []string        `json:"unsupported"`
	Disagreements []XDisagreement `json:"disagreements"`
	NonEmptyEqual int             `json:"non_empty_equal"` // equal pairs whose result was not empty
}

type xresult struct {
	Code  int
	Err   string
	Type  string
	Items []string // canonical "labels|ts|value" items, sorted
	Body  string
}

func (r *xresult) short() string {
	if r.Err != "" {
		return "ERROR(" + r.Err + ")"
	}
	if len(r.Items) == 0 {
		return r.Type + " empty"
	}
	s := strings.Join(r.Items, " ")
	if len(s) > 400 {
		s = s[:400] + "..."
	}
	return fmt.Sprintf("%s %d values: %s", r.Type, len(r.Items), s)
}

func parseResponse(code int, body string, keys []string) *xresult {
	r := &xresult{Code: code, Body: body}
	if code != 200 {
		r.Err = fmt.Sprintf("http %d", code)
		return r
	}
	var resp struct {
		Status string `json:"status"`
		Data   struct {
			ResultType string `json:"resultType"`
			Result     []struct {
				Stream map[string]string `json:"stream"`
				Metric map[string]string `json:"metric"`
				Values [][]any           `json:"values"`
			} `json:"result"`
		} `json:"data"`
	}
	if err := json.Unmarshal([]byte(body), &resp); err != nil {
		r.Err = "response is not JSON (the stream was cut by an error)"
		return r
	}
	r.Type = resp.Data.ResultType
	for _, s := range resp.Data.Result {
		lb := s.Stream
		if lb == nil {
			lb = s.Metric
		}
		sel := map[string]string{}
		for k, v := range lb {
			if v == "" {
				continue
			}
			if keys == nil || containsStr(keys, k) {
				sel[k] = v
			}
		}
		lk := lkey(sel)
		for _, v := range s.Values {
			if len(v) != 2 {
				continue
			}
			var ts, val string
			switch x := v[0].(type) {
			case string:
				ts = x
			case float64:
				ts = strconv.FormatFloat(x, 'f', 3, 64)
			}
			val, _ = v[1].(string)
			if r.Type == "matrix" {
				if f, err := strconv.ParseFloat(val, 64); err == nil {
					val = fmt.Sprintf("%.9g", f)
				}
			}
			r.Items = append(r.Items, fmt.Sprintf("{%s}@%s=%s", lk, ts, val))
		}
	}
	sort.Strings(r.Items)
	return r
}

func containsStr(s []string, x string) bool {
	for _, y := range s {
		if y == x {
			return true
		}
	}
	return false
}

func diffKindX(a, b *xresult) string {
	switch {
	case a.Err == "" && b.Err != "":
		return "inproc-error"
	case a.Err != "" && b.Err == "":
		return "sql-error"
	case a.Err != "" && b.Err != "":
		return ""
	}
	if strings.Join(a.Items, "\n") == strings.Join(b.Items, "\n") {
		return ""
	}
	switch {
	case len(b.Items) == 0:
		return "inproc-empty"
	case len(a.Items) == 0:
		return "sql-empty"
	case len(b.Items) < len(a.Items):
		return "inproc-fewer"
	case len(b.Items) > len(a.Items):
		return "inproc-more"
	}
	return "values-differ"
}

func crossMain(fs *flag.FlagSet, args []string) error {
	out := fs.String("out", "", "")
	seed := fs.Int64("seed", 1, "")
	tier := fs.String("tier", "quick", "")
	current := fs.String("current", "", "file receiving the request being answered (for post-mortem)")
	dumpSQL := fs.String("dumpsql", "", "pair id whose SQL statements are printed to stderr (debug)")
	fs.Parse(args)
	rnd := rand.New(rand.NewSource(*seed*7907 + 3))
	w, err := e2e.New(e2e.Options{})
	if err != nil {
		return err
	}
	defer w.Close()
	const base = int64(1700000000)
	startNs, endNs := base*1e9, (base+30)*1e9

	// stored data: two streams per data set, distinct timestamps inside the window
	stored := map[string][]storedEntry{}
	type pstream struct {
		Stream map[string]string `json:"stream"`
		Values [][2]string       `json:"values"`
	}
	var push struct {
		Streams []pstream `json:"streams"`
	}
	build := func(ds string, pools [][]string, reps int) {
		var lines []string
		for r := 0; r < reps; r++ {
			for _, vs := range pools {
				lines = append(lines, vs[rnd.Intn(len(vs))])
			}
		}
		rnd.Shuffle(len(lines), func(i, j int) { lines[i], lines[j] = lines[j], lines[i] })
		// distinct millisecond slots
		slots := rnd.Perm(29000)[:len(lines)]
		streams := []map[string]string{{"a": ds, "s": "1"}, {"a": ds, "s": "2"}}
		vals := map[int][][2]string{}
		for i, ln := range lines {
			si := rnd.Intn(2)
			ts := startNs + int64(slots[i]+500)*1e6 + int64(rnd.Intn(1000))*1000
			stored[ds] = append(stored[ds], storedEntry{Stream: streams[si], TsNs: ts, Line: ln})
			vals[si] = append(vals[si], [2]string{strconv.FormatInt(ts, 10), ln})
		}
		for si, st := range streams {
			if len(vals[si]) > 0 {
				push.Streams = append(push.Streams, pstream{Stream: st, Values: vals[si]})
			}
		}
	}
	reps := 2
	if *tier != "quick" {
		reps = 3
	}
	build("clean", cleanLines, reps)
	build("hostile", append(append([][]string{}, cleanLines...), hostileLines...), 1)
	raw, _ := json.Marshal(push)
	code, resp := w.Push("POST", "/loki/api/v1/push", "application/json", raw, nil)
	if code != 204 && code != 200 {
		return fmt.Errorf("push failed: %d %s", code, resp)
	}
	w.Settle()
	for i := 0; i < 50 && w.Store.Counts["samples_v3"] < len(stored["clean"])+len(stored["hostile"]); i++ {
		w.Settle()
	}
	if len(w.StoreErr) > 0 {
		return fmt.Errorf("store errors: %v", w.StoreErr)
	}
	if got := w.Store.Counts["samples_v3"]; got < len(stored["clean"])+len(stored["hostile"]) {
		return fmt.Errorf("only %d of %d samples stored", got, len(stored["clean"])+len(stored["hostile"]))
	}

	o := &XOut{Datasets: map[string]int{"clean": len(stored["clean"]), "hostile": len(stored["hostile"])}}
	query := func(q string, limit string, dir string, keys []string) *xresult {
		v := url.Values{}
		v.Set("query", q)
		v.Set("start", strconv.FormatInt(startNs, 10))
		v.Set("end", strconv.FormatInt(endNs, 10))
		v.Set("step", "10")
		if limit != "absent" {
			v.Set("limit", limit)
		}
		if dir != "" {
			v.Set("direction", dir)
		}
		o.Queries++
		code, body := w.Get("/loki/api/v1/query_range?" + v.Encode())
		for _, e := range w.Bridge.Drain() {
			if *dumpSQL != "" && strings.Contains(q, *dumpSQL) {
				fmt.Fprintf(os.Stderr, "-- %s (limit %s %s)\n%s\n   err=%v rows=%d\n", q, limit, dir, e.SQL, e.Err, e.Rows)
			}
		}
		return parseResponse(code, body, keys)
	}
	limits := []string{"absent", "0", "1", "3", "1000"}
	dirs := []string{"forward", "backward"}
	for _, ds := range []string{"clean", "hostile"} {
		sel := fmt.Sprintf(`{a="%s"}`, ds)
		for _, p := range xpairs() {
			lims, ds2 := limits, dirs
			if p.Metric {
				lims, ds2 = []string{"absent"}, []string{"", "forward"}
			}
			for _, lim := range lims {
				for _, dir := range ds2 {
					qa, qb := fmt.Sprintf(p.SQL, sel), fmt.Sprintf(p.InProc, sel)
					if *current != "" {
						cur, _ := json.Marshal(map[string]string{"pair": p.ID, "dataset": ds, "limit": lim, "direction": dir, "sql_query": qa, "inproc_query": qb})
						os.WriteFile(*current, cur, 0o644)
					}
					ra := query(qa, lim, dir, p.Keys)
					rb := query(qb, lim, dir, p.Keys)
					o.Pairs++
					kind := diffKindX(ra, rb)
					if kind == "" {
						o.PairsEqual++
						if len(ra.Items) > 0 {
							o.NonEmptyEqual++
						}
						continue
					}
					o.PairsDiffer++
					d := XDisagreement{
						Kind: kind, Family: p.Family, Metric: p.Metric,
						Pair: p.ID, Dataset: ds, Limit: lim, Direction: dir, SQLQuery: qa, InProcQuery: qb,
						SQLShort: ra.short(), InProcShort: rb.short(), Stored: stored[ds], StartNs: startNs, EndNs: endNs,
					}
					if len(ra.Body) < 6000 {
						d.SQLBody = ra.Body
					}
					if len(rb.Body) < 6000 {
						d.InProcBody = rb.Body
					}
					o.Disagreements = append(o.Disagreements, d)
				}
			}
		}
	}
	o.Unsupported = w.Bridge.Unsupported
	return writeJSON(*out, o)
}

// e2eProbe (debug): one stored stream {a="p"} with the given lines, one query through the real reader route.
func e2eProbe(fs *flag.FlagSet, args []string) error {
	var lines multi
	q := fs.String("q", `{a="p"} | json`, "query")
	limit := fs.String("limit", "10", "limit (absent = no parameter)")
	fs.Var(&lines, "l", "stored line")
	fs.Parse(args)
	w, err := e2e.New(e2e.Options{})
	if err != nil {
		return err
	}
	defer w.Close()
	const base = int64(1700000000)
	var vals [][2]string
	for i, l := range lines {
		vals = append(vals, [2]string{strconv.FormatInt((base+int64(i)+1)*1e9, 10), l})
	}
	raw, _ := json.Marshal(map[string]any{"streams": []any{map[string]any{"stream": map[string]string{"a": "p"}, "values": vals}}})
	code, resp := w.Push("POST", "/loki/api/v1/push", "application/json", raw, nil)
	if code != 204 && code != 200 {
		return fmt.Errorf("push failed: %d %s", code, resp)
	}
	for i := 0; i < 50 && w.Store.Counts["samples_v3"] < len(lines); i++ {
		w.Settle()
	}
	v := url.Values{}
	v.Set("query", *q)
	v.Set("start", strconv.FormatInt(base*1e9, 10))
	v.Set("end", strconv.FormatInt((base+30)*1e9, 10))
	v.Set("step", "10")
	if *limit != "absent" {
		v.Set("limit", *limit)
	}
	code, body := w.Get("/loki/api/v1/query_range?" + v.Encode())
	fmt.Fprintf(os.Stderr, "HTTP %d\n%s\n", code, body)
	return nil
}

package main

import (
	"bufio"
	"encoding/json"
	"flag"
	"fmt"
	"math"
	"math/rand"
	"os"
	"os/exec"
	"runtime"
	"sort"
	"strings"
	"sync"
)

// ---------------------------------------------------------------------------------------------------------------
// Binding (a): the TLC-evaluated cases replayed into the real chain.
// ---------------------------------------------------------------------------------------------------------------

type AEntry struct {
	Lb map[string]string `json:"lb"`
	Ts int64             `json:"ts"` // seconds from the start of the window
	Ln string            `json:"ln"` // line token
}

// AObs is a result in the vocabulary of the specification: k = ok | error | crash; streams with label sets and
// values [ts, line token] (log) or [ts, n, d] (metric, value n/d).
type AStream struct {
	Lb   map[string]string `json:"lb"`
	Vals [][]any           `json:"vals"`
}
type AObs struct {
	K       string    `json:"k"`
	Streams []AStream `json:"streams"`
}

type Case struct {
	ID     string   `json:"id"`
	PID    string   `json:"pid"`
	Q      string   `json:"q"`
	Metric bool     `json:"metric"`
	Es     []AEntry `json:"es"`
	Cut    []int    `json:"cut"`
	Alts   [][]int  `json:"alts"`
	EOF    bool     `json:"eof"`
	Lim    int64    `json:"lim"`
	Fwd    bool     `json:"fwd"`
	Exp    AObs     `json:"exp"`
	Preds  []AObs   `json:"preds"` // predicted for the code as transcribed: under Cut, then under each of Alts
	// Regress: per retired switch of InProc.tla (a repaired deviation) that would change the result of this case, the
	// results predicted with it (under Cut, then under each of Alts)
	Regress map[string][]AObs `json:"regress"`
	Agree   bool              `json:"agree"`
	Causes  []string          `json:"causes"`
	// Long: an upstream script long enough to cross a grain of the chain as built (getter batch, optimizer flush, series
	// bound), evaluated by MC_InProcLong at InProc!IP_AsBuilt; Preds then holds the prediction under Cut only.
	// Merged: the result is observed piecewise (InProc!IP_ObsM): a stream that goes on after a flush comes in pieces.
	// Sizes: the sizes of the messages predicted to reach the consumer.
	Long   bool   `json:"long"`
	LClass string `json:"lclass"`
	Merged bool   `json:"merged"`
	Sizes  []int  `json:"sizes"`
}

type CaseFile struct {
	Conc    map[string]string `json:"conc"` // line token -> concrete text
	DurS    int64             `json:"dur_s"`
	Windows int64             `json:"windows"`
	Seed    int64             `json:"seed"`
	Cases   []Case            `json:"cases"`
}

// OStream / Obs: the result of the real chain, read the way queryRangeService reads the channel.
type OStream struct {
	Labels map[string]string `json:"labels"`
	Ts     []int64           `json:"ts"`
	Lines  []string          `json:"lines,omitempty"` // tokens ("?text" when the text is no pool line)
	Values []float64         `json:"values,omitempty"`
	Mixed  bool              `json:"mixed,omitempty"` // entries with different label sets under one fingerprint
}
type Obs struct {
	K       string    `json:"k"`
	Err     string    `json:"err,omitempty"`
	Streams []OStream `json:"streams,omitempty"`
}

type CaseResult struct {
	Idx       int    `json:"idx"`
	ID        string `json:"id"`
	OK        bool   `json:"ok"`
	Kind      string `json:"kind,omitempty"` // crash | hang | error | diff | partition | plan
	Detail    string `json:"detail,omitempty"`
	Obs       *Obs   `json:"obs,omitempty"`
	MatchPred bool   `json:"match_pred"`
	// MatchRetired: the retired switch whose predictions the chain matched under every partition (a regression)
	MatchRetired string   `json:"match_retired,omitempty"`
	Partitions   int      `json:"partitions"`
	PartObs      []*Obs   `json:"part_obs,omitempty"`
	PartCuts     [][]int  `json:"part_cuts,omitempty"`
	Plan         string   `json:"plan,omitempty"`
	Stderr       string   `json:"stderr,omitempty"`
	DiffKinds    []string `json:"diff_kinds,omitempty"`
	// Rewritten: messages that changed after the consumer had received them (under partition RewCut), the sending stage,
	// and what the consumer reads when it reads the messages it holds after the chain has finished
	Rewritten []Rewrite `json:"rewritten,omitempty"`
	RewCut    []int     `json:"rew_cut,omitempty"`
	RewStage  string    `json:"rew_stage,omitempty"`
	RereadObs *Obs      `json:"reread_obs,omitempty"`
	// OutSizes: sizes of the messages that reached the consumer under Cut (long cases)
	OutSizes []int `json:"out_sizes,omitempty"`
	OutAgain int   `json:"out_again"` // ... and how many of them carried a fingerprint that an earlier message carried
	Held     int   `json:"held"` // messages kept by the consumer and read again at the end, over all partitions
}

const baseS = int64(1700000000) // aligned to every duration used

func normLabels(l map[string]string) map[string]string {
	o := map[string]string{}
	for k, v := range l {
		if v != "" {
			o[k] = v
		}
	}
	return o
}

func lkey(l map[string]string) string {
	ks := make([]string, 0, len(l))
	for k, v := range l {
		if v != "" {
			ks = append(ks, k)
		}
	}
	sort.Strings(ks)
	var b strings.Builder
	for _, k := range ks {
		fmt.Fprintf(&b, "%q=%q,", k, l[k])
	}
	return b.String()
}

// mergePieces: the pieces shown under one label set, in order of delivery, as one stream (InProc!IP_ObsM).
func mergePieces(o *Obs) *Obs {
	if o.K != "ok" {
		return o
	}
	m := &Obs{K: o.K}
	at := map[string]int{}
	for _, s := range o.Streams {
		k := lkey(s.Labels)
		i, ok := at[k]
		if !ok {
			at[k] = len(m.Streams)
			m.Streams = append(m.Streams, OStream{Labels: s.Labels, Mixed: s.Mixed,
				Ts: append([]int64{}, s.Ts...), Lines: append([]string{}, s.Lines...), Values: append([]float64{}, s.Values...)})
			continue
		}
		d := &m.Streams[i]
		d.Ts, d.Lines, d.Values, d.Mixed = append(d.Ts, s.Ts...), append(d.Lines, s.Lines...), append(d.Values, s.Values...), d.Mixed || s.Mixed
	}
	return m
}

// observe turns the output channel into what the consumer shows.
func observe(res *RunResult, metric bool, rev map[string]string) *Obs {
	return observeMsgs(res, res.Msgs, metric, rev)
}

func observeMsgs(res *RunResult, msgs [][]OEntry, metric bool, rev map[string]string) *Obs {
	if res.ProcErr != "" {
		return &Obs{K: "error", Err: "Process: " + res.ProcErr}
	}
	if res.Timeout {
		return &Obs{K: "hang"}
	}
	o := &Obs{K: "ok"}
	var cur *OStream
	var curFp uint64
	first := true
	for _, m := range msgs {
		for _, e := range m {
			if e.Err == "EOF" {
				continue
			}
			if e.Err != "" {
				return &Obs{K: "error", Err: e.Err}
			}
			if first || e.Fp != curFp {
				o.Streams = append(o.Streams, OStream{Labels: normLabels(e.Labels)})
				cur = &o.Streams[len(o.Streams)-1]
				curFp = e.Fp
				first = false
			}
			if lkey(e.Labels) != lkey(cur.Labels) {
				cur.Mixed = true
			}
			cur.Ts = append(cur.Ts, floorDiv(e.TsNs-baseS*1e9, 1e9))
			if metric {
				cur.Values = append(cur.Values, e.Value)
			} else {
				tok, ok := rev[e.Line]
				if !ok {
					tok = "?" + e.Line
				}
				cur.Lines = append(cur.Lines, tok)
			}
		}
	}
	return o
}

func floorDiv(a, b int64) int64 {
	q := a / b
	if (a%b != 0) && ((a < 0) != (b < 0)) {
		q--
	}
	return q
}

func num(v any) float64 {
	switch x := v.(type) {
	case float64:
		return x
	case json.Number:
		f, _ := x.Float64()
		return f
	}
	return math.NaN()
}

// streamKey renders one stream canonically (values rounded for comparison).
func obsStreamKey(s OStream, metric bool) string {
	var b strings.Builder
	b.WriteString(lkey(s.Labels))
	b.WriteString("|")
	for i := range s.Ts {
		if metric {
			fmt.Fprintf(&b, "%d:%.9g;", s.Ts[i], s.Values[i])
		} else {
			fmt.Fprintf(&b, "%d:%s;", s.Ts[i], s.Lines[i])
		}
	}
	return b.String()
}

func expStreamKey(s AStream, metric bool) string {
	var b strings.Builder
	b.WriteString(lkey(s.Lb))
	b.WriteString("|")
	for _, v := range s.Vals {
		if metric {
			fmt.Fprintf(&b, "%d:%.9g;", int64(num(v[0])), num(v[1])/num(v[2]))
		} else {
			fmt.Fprintf(&b, "%d:%s;", int64(num(v[0])), v[1].(string))
		}
	}
	return b.String()
}

func obsKeys(o *Obs, metric bool) []string {
	ks := make([]string, 0, len(o.Streams))
	for _, s := range o.Streams {
		ks = append(ks, obsStreamKey(s, metric))
	}
	sort.Strings(ks)
	return ks
}

func expKeys(o AObs, metric bool) []string {
	ks := make([]string, 0, len(o.Streams))
	for _, s := range o.Streams {
		ks = append(ks, expStreamKey(s, metric))
	}
	sort.Strings(ks)
	return ks
}

func sameObsExp(o *Obs, e AObs, metric bool) bool {
	if o.K != e.K {
		return false
	}
	if o.K != "ok" {
		return true
	}
	return strings.Join(obsKeys(o, metric), "\n") == strings.Join(expKeys(e, metric), "\n")
}

func sameObs(a, b *Obs, metric bool) bool {
	if a.K != b.K {
		return false
	}
	if a.K != "ok" {
		return true
	}
	return strings.Join(obsKeys(a, metric), "\n") == strings.Join(obsKeys(b, metric), "\n")
}

// diffKinds names, structurally, how the observed result differs from the expected one.
func diffKinds(o *Obs, e AObs, metric bool) []string {
	set := map[string]bool{}
	if o.K != e.K {
		set[o.K+"-instead-of-"+e.K] = true
	} else {
		type ent struct{ n int }
		expS, obsS := map[string][]string{}, map[string][]string{}
		for _, s := range e.Streams {
			k := lkey(s.Lb)
			for _, v := range s.Vals {
				if metric {
					expS[k] = append(expS[k], fmt.Sprintf("%d:%.9g", int64(num(v[0])), num(v[1])/num(v[2])))
				} else {
					expS[k] = append(expS[k], fmt.Sprintf("%d:%s", int64(num(v[0])), v[1].(string)))
				}
			}
		}
		dup := false
		for _, s := range o.Streams {
			k := lkey(s.Labels)
			if _, ok := obsS[k]; ok {
				dup = true
			}
			if s.Mixed {
				set["label-sets-merged-under-one-fingerprint"] = true
			}
			for i := range s.Ts {
				if metric {
					obsS[k] = append(obsS[k], fmt.Sprintf("%d:%.9g", s.Ts[i], s.Values[i]))
				} else {
					obsS[k] = append(obsS[k], fmt.Sprintf("%d:%s", s.Ts[i], s.Lines[i]))
				}
			}
		}
		if dup {
			set["one-label-set-in-several-series"] = true
		}
		nExp, nObs := 0, 0
		allExp, allObs := map[string]int{}, map[string]int{}
		for k, v := range expS {
			nExp += len(v)
			for _, x := range v {
				allExp[x]++
			}
			if _, ok := obsS[k]; !ok {
				set["series-missing"] = true
			}
		}
		for k, v := range obsS {
			nObs += len(v)
			for _, x := range v {
				allObs[x]++
			}
			if _, ok := expS[k]; !ok {
				set["series-unexpected"] = true
			}
		}
		if nObs < nExp {
			set["fewer-values"] = true
		}
		if nObs > nExp {
			set["more-values"] = true
		}
		if nObs == nExp {
			same := true
			for x, n := range allExp {
				if allObs[x] != n {
					same = false
				}
			}
			if !same {
				set["different-values"] = true
			} else if len(set) == 0 {
				set["values-under-other-series-or-order"] = true
			}
		}
	}
	var ks []string
	for k := range set {
		ks = append(ks, k)
	}
	sort.Strings(ks)
	return ks
}

// concretise builds the upstream messages of a case under the partition cut.
func concretise(c *Case, cf *CaseFile, cut []int, eof bool, jitter []int64) [][]UEntry {
	ents := make([]UEntry, len(c.Es))
	for i, e := range c.Es {
		txt, ok := cf.Conc[e.Ln]
		if !ok {
			txt = e.Ln
		}
		ents[i] = UEntry{Labels: e.Lb, TsNs: (baseS+e.Ts)*1e9 + jitter[i], Line: txt}
	}
	var msgs [][]UEntry
	off := 0
	for _, n := range cut {
		msgs = append(msgs, append([]UEntry{}, ents[off:off+n]...))
		off += n
	}
	if eof {
		if len(msgs) == 0 {
			msgs = append(msgs, nil)
		}
		msgs[len(msgs)-1] = append(msgs[len(msgs)-1], UEntry{EOF: true})
	}
	return msgs
}

func runCase(idx int, c *Case, cf *CaseFile, rev map[string]string) *CaseResult {
	r := &CaseResult{Idx: idx, ID: c.ID}
	rnd := rand.New(rand.NewSource(cf.Seed*1000003 + int64(idx)))
	jitter := make([]int64, len(c.Es))
	for i := range jitter {
		jitter[i] = rnd.Int63n(1e9)
	}
	rc := RunCtx{FromNs: baseS * 1e9, ToNs: (baseS + cf.DurS*cf.Windows) * 1e9, Limit: c.Lim, Forward: c.Fwd, StepNs: cf.DurS * 1e9}
	first := true
	run := func(cut []int) (*Obs, *Built, error) {
		b, res, err := runChain(c.Q, concretise(c, cf, cut, c.EOF, jitter), rc, true)
		if err != nil {
			return nil, nil, err
		}
		view := func(o *Obs) *Obs {
			if c.Merged {
				return mergePieces(o)
			}
			return o
		}
		if first && c.Long {
			seen := map[uint64]bool{}
			for _, m := range res.Msgs {
				r.OutSizes = append(r.OutSizes, len(m))
				if len(m) > 0 {
					if seen[m[0].Fp] {
						r.OutAgain++
					}
					seen[m[0].Fp] = true
				}
			}
		}
		first = false
		r.Held += len(res.Msgs)
		if len(res.Rewritten) > 0 && r.Rewritten == nil {
			r.Rewritten = res.Rewritten
			if len(r.Rewritten) > 8 {
				r.Rewritten = r.Rewritten[:8]
			}
			r.RewCut = cut
			r.RewStage = strings.SplitN(b.PlanString, " <- ", 2)[0]
			r.RereadObs = view(observeMsgs(res, res.Reread, c.Metric, rev))
		}
		return view(observe(res, c.Metric, rev)), b, nil
	}
	o, b, err := run(c.Cut)
	if err != nil {
		r.Kind, r.Detail = "plan", err.Error()
		return r
	}
	r.Plan = b.PlanString
	if b.IsMatrix != c.Metric || b.SQLStages != 0 {
		r.Kind, r.Detail = "plan", fmt.Sprintf("planned matrix=%v sql stages=%d", b.IsMatrix, b.SQLStages)
		return r
	}
	r.Obs = o
	r.Partitions = 1
	r.MatchPred = (len(c.Preds) == 1+len(c.Alts) || (c.Long && len(c.Preds) == 1)) && sameObsExp(o, c.Preds[0], c.Metric)
	// the same entries under the other partitions of the case
	alts := c.Alts
	partDep := false
	allObs := []*Obs{o}
	defer func() {
		if r.OK || r.MatchPred || r.Kind == "plan" {
			return
		}
		var qs []string
		for q := range c.Regress {
			qs = append(qs, q)
		}
		sort.Strings(qs)
		for _, q := range qs {
			ps := c.Regress[q]
			same := len(ps) == len(allObs) && len(allObs) == 1+len(c.Alts)
			for i := 0; same && i < len(ps); i++ {
				same = sameObsExp(allObs[i], ps[i], c.Metric)
			}
			if same {
				r.MatchRetired = q
				return
			}
		}
	}()
	for ai, cut := range alts {
		o2, _, err := run(cut)
		if err != nil {
			r.Kind, r.Detail = "plan", err.Error()
			return r
		}
		allObs = append(allObs, o2)
		r.Partitions++
		if r.MatchPred && !c.Long && !sameObsExp(o2, c.Preds[1+ai], c.Metric) {
			r.MatchPred = false
		}
		if !sameObs(o, o2, c.Metric) {
			partDep = true
			r.PartObs = append(r.PartObs, o2)
			r.PartCuts = append(r.PartCuts, cut)
		}
	}
	if r.Rewritten != nil {
		// whatever the consumer read on receipt: a message it held was written into afterwards
		r.Kind = "rewritten"
		r.MatchPred = false
		r.DiffKinds = []string{"message-changed-after-delivery"}
		if long := r.Obs; long != nil && c.Long {
			r.Obs = brief(long)
		}
		r.RereadObs = brief(r.RereadObs)
		return r
	}
	if sameObsExp(o, c.Exp, c.Metric) && !partDep {
		r.OK = true
		r.Obs = nil
		return r
	}
	if c.Long {
		defer func() {
			r.Obs = brief(r.Obs)
			for i := range r.PartObs {
				r.PartObs[i] = brief(r.PartObs[i])
			}
		}()
	}
	switch {
	case !sameObsExp(o, c.Exp, c.Metric):
		r.Kind = "diff"
		if o.K == "error" {
			r.Kind = "error"
		}
		if o.K == "hang" {
			r.Kind = "hang"
		}
		r.DiffKinds = diffKinds(o, c.Exp, c.Metric)
	default:
		r.Kind = "partition"
		r.DiffKinds = []string{"result-depends-on-partition"}
	}
	if partDep {
		r.DiffKinds = append(r.DiffKinds, "result-depends-on-partition")
		sort.Strings(r.DiffKinds)
		r.DiffKinds = uniq(r.DiffKinds)
	}
	return r
}

// brief keeps the head of every stream of a long result (the result file is for reading).
func brief(o *Obs) *Obs {
	if o == nil {
		return nil
	}
	b := &Obs{K: o.K, Err: o.Err}
	for _, s := range o.Streams {
		n := len(s.Ts)
		if n <= 12 {
			b.Streams = append(b.Streams, s)
			continue
		}
		t := OStream{Labels: s.Labels, Mixed: s.Mixed, Ts: append([]int64{}, s.Ts[:12]...)}
		if len(s.Lines) >= 12 {
			t.Lines = append(append([]string{}, s.Lines[:12]...), fmt.Sprintf("... %d values in all", n))
		}
		if len(s.Values) >= 12 {
			t.Values = append([]float64{}, s.Values[:12]...)
		}
		b.Streams = append(b.Streams, t)
	}
	return b
}

func uniq(s []string) []string {
	var o []string
	for i, x := range s {
		if i == 0 || x != s[i-1] {
			o = append(o, x)
		}
	}
	return o
}

func loadCases(path string) (*CaseFile, map[string]string, error) {
	cf := &CaseFile{}
	if err := readJSON(path, cf); err != nil {
		return nil, nil, err
	}
	rev := map[string]string{}
	for tok, txt := range cf.Conc {
		if old, ok := rev[txt]; ok && old != tok {
			return nil, nil, fmt.Errorf("two tokens with one text: %s %s", old, tok)
		}
		rev[txt] = tok
	}
	return cf, rev, nil
}

// chainWorker runs cases [from, to) and prints one JSON line per case.
func chainWorker(fs *flag.FlagSet, args []string, stdout *os.File) error {
	cases := fs.String("cases", "", "")
	from := fs.Int("from", 0, "")
	to := fs.Int("to", 0, "")
	fs.Parse(args)
	cf, rev, err := loadCases(*cases)
	if err != nil {
		return err
	}
	w := bufio.NewWriter(stdout)
	for i := *from; i < *to && i < len(cf.Cases); i++ {
		fmt.Fprintf(w, "START %d\n", i)
		w.Flush()
		r := runCase(i, &cf.Cases[i], cf, rev)
		b, _ := json.Marshal(r)
		w.Write(b)
		w.WriteString("\n")
		w.Flush()
	}
	return nil
}

type ChainOut struct {
	Cases       int            `json:"cases"`
	Replays     int            `json:"replays"` // chain executions (cases x partitions)
	OK          int            `json:"ok"`
	Pipelines   map[string]int `json:"pipelines"`
	Crashes     int            `json:"crashes"`
	Restarts    int            `json:"restarts"`
	Mismatches  []CaseResult   `json:"mismatches"`
	PredAgree   int            `json:"pred_agree"`   // cases where the real chain did what the transcription predicts
	PredDiffer  int            `json:"pred_differ"`  // ... did something else
	Candidates  int            `json:"candidates"`   // cases where the transcription differs from the definition
	Confirmed   int            `json:"confirmed"`    // candidates on which the real chain indeed differs from the definition
	InfraErrors []string       `json:"infra_errors"` // planning failures and the like
	// HeldMessages: messages the consumer kept and read again after the chain had finished
	HeldMessages int          `json:"held_messages"`
	LongResults  []LongResult `json:"long_results"`
}

type LongResult struct {
	ID       string `json:"id"`
	OutSizes []int  `json:"out_sizes"`
	OutAgain int    `json:"out_again"`
}

// chainMain shards the cases over child processes (a panic in a chain goroutine kills the process).
func chainMain(fs *flag.FlagSet, args []string) error {
	cases := fs.String("cases", "", "")
	out := fs.String("out", "", "")
	workers := fs.Int("workers", 0, "")
	fs.Parse(args)
	cf, _, err := loadCases(*cases)
	if err != nil {
		return err
	}
	n := len(cf.Cases)
	w := *workers
	if w <= 0 {
		w = runtime.NumCPU()
	}
	if w > 8 {
		w = 8
	}
	self, err := os.Executable()
	if err != nil {
		return err
	}
	results := make([]*CaseResult, n)
	var mu sync.Mutex
	restarts := 0
	var wg sync.WaitGroup
	var firstErr error
	per := (n + w - 1) / w
	for s := 0; s < w; s++ {
		from, to := s*per, (s+1)*per
		if to > n {
			to = n
		}
		if from >= to {
			continue
		}
		wg.Add(1)
		go func(from, to int) {
			defer wg.Done()
			for from < to {
				cmd := exec.Command(self, "chainworker", "-cases", *cases, "-from", fmt.Sprint(from), "-to", fmt.Sprint(to))
				var stderr strings.Builder
				cmd.Stderr = &stderr
				pipe, err := cmd.StdoutPipe()
				if err != nil {
					mu.Lock()
					firstErr = err
					mu.Unlock()
					return
				}
				if err := cmd.Start(); err != nil {
					mu.Lock()
					firstErr = err
					mu.Unlock()
					return
				}
				sc := bufio.NewScanner(pipe)
				sc.Buffer(make([]byte, 1<<20), 1<<26)
				started := -1
				done := from - 1
				for sc.Scan() {
					line := sc.Text()
					if strings.HasPrefix(line, "START ") {
						fmt.Sscanf(line, "START %d", &started)
						continue
					}
					var r CaseResult
					if err := json.Unmarshal([]byte(line), &r); err != nil {
						continue
					}
					mu.Lock()
					results[r.Idx] = &r
					mu.Unlock()
					done = r.Idx
				}
				werr := cmd.Wait()
				if done+1 >= to {
					return
				}
				// the worker died while running case `started`
				crashed := done + 1
				if started > crashed {
					crashed = started
				}
				msg := stderr.String()
				if len(msg) > 1500 {
					msg = msg[:1500]
				}
				mu.Lock()
				restarts++
				results[crashed] = &CaseResult{Idx: crashed, ID: cf.Cases[crashed].ID, Kind: "crash", Detail: fmt.Sprint(werr), Stderr: msg,
					Obs: &Obs{K: "crash"}, DiffKinds: []string{"crash-instead-of-" + cf.Cases[crashed].Exp.K}}
				mu.Unlock()
				from = crashed + 1
			}
		}(from, to)
	}
	wg.Wait()
	if firstErr != nil {
		return firstErr
	}
	o := &ChainOut{Cases: n, Pipelines: map[string]int{}, Restarts: restarts}
	for i, r := range results {
		c := &cf.Cases[i]
		if r == nil {
			o.InfraErrors = append(o.InfraErrors, fmt.Sprintf("case %s: no result", c.ID))
			continue
		}
		o.Pipelines[c.PID]++
		o.Replays += r.Partitions
		o.HeldMessages += r.Held
		if c.Long {
			o.LongResults = append(o.LongResults, LongResult{ID: c.ID, OutSizes: r.OutSizes, OutAgain: r.OutAgain})
		}
		if !c.Agree {
			o.Candidates++
		}
		if r.Kind == "plan" {
			o.InfraErrors = append(o.InfraErrors, fmt.Sprintf("case %s (%s): %s", c.ID, c.Q, r.Detail))
			continue
		}
		if r.Kind == "crash" {
			o.Crashes++
			r.MatchPred = false
			for _, p := range c.Preds {
				if p.K == "crash" {
					r.MatchPred = true
				}
			}
			if !r.MatchPred {
				var qs []string
				for q := range c.Regress {
					qs = append(qs, q)
				}
				sort.Strings(qs)
				for _, q := range qs {
					for _, p := range c.Regress[q] {
						if p.K == "crash" && r.MatchRetired == "" {
							r.MatchRetired = q
						}
					}
				}
			}
		}
		if r.MatchPred {
			o.PredAgree++
		} else {
			o.PredDiffer++
		}
		if r.OK {
			o.OK++
			continue
		}
		if !c.Agree {
			o.Confirmed++
		}
		o.Mismatches = append(o.Mismatches, *r)
	}
	return writeJSON(*out, o)
}
